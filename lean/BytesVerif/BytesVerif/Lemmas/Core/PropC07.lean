/-
Helpers for Props/C07 (zero-copy sharing).

The properties of C07 only speak about normal (`ok`) outcomes, the handle table, the `data`/`size`
of regions and the kind of the new events.  Almost all of it is independent of the invariant: we
invert the execution (`m s = .ok a s'`) primitive by primitive.

  NC s s'        no `alloc` event appended, every region keeps `data` and `size`
  Fr s s'        `NC s s'` and the handle table is untouched
  FrM m          every normal outcome of `m` is `Fr`-related to its start state (closed under
                 `bind`/`ite`/`pure`; holds for all reference-count primitives and the drops)
  *_ok           inversion lemmas of the shared helpers (`bytesClone`, `bytesSplitOffCore`,
                 `mutShallowClone`, `mutAdvanceUnchecked`, `bytesFromVec`, `opTruncate`, …)
  PropC07.*      the theorems of Props/C07 (with local copies of `addrOf`/`lenOf`/`shift`/`NoCopy`)

Only `tryIntoMut` on a SHARED/promoted handle needs the invariant (the handle's region is the one
recorded in its control block).
-/
import BytesVerif.Lemmas.Core.Sound
set_option linter.unusedVariables false
namespace BytesVerif.Core

variable {α β : Type}

/-! ## the frame relations -/

def NC (s s' : St) : Prop :=
  (∃ new : List Ev, s'.events = new ++ s.events ∧ ∀ ev ∈ new, ∀ r z, ev ≠ Ev.alloc r z) ∧
  (∀ (r : Nat) (rg : Region), s.regions[r]? = some rg →
    ∃ rg' : Region, s'.regions[r]? = some rg' ∧ rg'.data = rg.data ∧ rg'.size = rg.size)

theorem NC.refl (s : St) : NC s s :=
  ⟨⟨[], rfl, by intro ev h; cases h⟩, fun r rg h => ⟨rg, h, rfl, rfl⟩⟩

theorem NC.trans {a b c : St} (h1 : NC a b) (h2 : NC b c) : NC a c := by
  obtain ⟨⟨n1, e1, p1⟩, r1⟩ := h1
  obtain ⟨⟨n2, e2, p2⟩, r2⟩ := h2
  refine ⟨⟨n2 ++ n1, by rw [e2, e1, List.append_assoc], ?_⟩, ?_⟩
  · intro ev hev
    rcases List.mem_append.mp hev with h | h
    · exact p2 ev h
    · exact p1 ev h
  · intro r rg h
    obtain ⟨rg1, h1, d1, z1⟩ := r1 r rg h
    obtain ⟨rg2, h2, d2, z2⟩ := r2 r rg1 h1
    exact ⟨rg2, h2, d2.trans d1, z2.trans z1⟩

/-- `NC` only looks at regions and events -/
theorem NC.congr {s a b : St} (h : NC s a) (hR : b.regions = a.regions) (hE : b.events = a.events) :
    NC s b := by
  obtain ⟨⟨n, e, p⟩, r⟩ := h
  exact ⟨⟨n, by rw [hE, e], p⟩, by rw [hR]; exact r⟩

theorem NC.of_same {s s' : St} (hR : s'.regions = s.regions) (hE : s'.events = s.events) : NC s s' :=
  (NC.refl s).congr hR hE

/-- the form used by `NoCopy` in Props/C07 -/
theorem NC.take {s s' : St} (h : NC s s') :
    ∀ ev ∈ s'.events.take (s'.events.length - s.events.length), ∀ r z, ev ≠ Ev.alloc r z := by
  obtain ⟨⟨n, e, p⟩, _⟩ := h
  rw [e]
  simp only [List.length_append, Nat.add_sub_cancel, List.take_left']
  exact p

def Fr (s s' : St) : Prop := NC s s' ∧ s'.hs = s.hs

theorem Fr.refl (s : St) : Fr s s := ⟨NC.refl s, rfl⟩
theorem Fr.trans {a b c : St} (h1 : Fr a b) (h2 : Fr b c) : Fr a c :=
  ⟨h1.1.trans h2.1, h2.2.trans h1.2⟩

/-- every normal outcome of `m` leaves the handle table alone, allocates no buffer, moves no byte -/
def FrM (m : M α) : Prop := ∀ s a s1, m s = .ok a s1 → Fr s s1

theorem FrM.bind {m : M α} {f : α → M β} (hm : FrM m) (hf : ∀ a, FrM (f a)) : FrM (m >>= f) := by
  intro s b s' h
  simp only [bind_apply] at h
  cases hm' : m s with
  | ok a s1 => rw [hm'] at h; exact (hm s a s1 hm').trans (hf a s1 b s' h)
  | panic s1 => rw [hm'] at h; cases h
  | ub w s1 => rw [hm'] at h; cases h

theorem FrM.pure (a : α) : FrM (pure a : M α) := by
  intro s b s1 h; cases h; exact Fr.refl _
theorem FrM.panic : FrM (panic : M α) := by intro s b s1 h; cases h
theorem FrM.ub (w : String) : FrM (ub w : M α) := by intro s b s1 h; cases h
theorem FrM.ite {c : Prop} [Decidable c] {m1 m2 : M α} (h1 : FrM m1) (h2 : FrM m2) :
    FrM (if c then m1 else m2) := by
  split
  · exact h1
  · exact h2

theorem FrM_getCtrl (c : Nat) : FrM (getCtrl c) := by
  intro s a s1 h
  unfold getCtrl at h
  split at h
  · split at h
    · cases h; exact Fr.refl _
    · cases h
  · cases h

theorem FrM_getRegion (r : Nat) : FrM (getRegion r) := by
  intro s a s1 h
  unfold getRegion at h
  split at h
  · cases h; exact Fr.refl _
  · cases h

theorem FrM_setCtrl (c : Nat) (e : CtrlE) : FrM (setCtrl c e) := by
  intro s a s1 h; cases h; exact ⟨NC.of_same rfl rfl, rfl⟩

theorem FrM_emit {ev : Ev} (hev : ∀ r z, ev ≠ Ev.alloc r z) : FrM (emit ev) := by
  intro s a s1 h; cases h
  exact ⟨⟨⟨[ev], rfl, by intro e he; simp at he; subst he; exact hev⟩,
    fun r rg h => ⟨rg, h, rfl, rfl⟩⟩, rfl⟩

theorem FrM_newCtrl (ct : Ctrl) (rc : Nat) : FrM (newCtrl ct rc) := by
  intro s a s1 h; cases h
  exact ⟨⟨⟨[.allocCtrl s.ctrls.length], rfl, by intro e he; simp at he; subst he; intro r z h; cases h⟩,
    fun r rg h => ⟨rg, h, rfl, rfl⟩⟩, rfl⟩

theorem FrM_freeCtrl (c : Nat) : FrM (freeCtrl c) := by
  unfold freeCtrl
  exact (FrM_getCtrl c).bind fun e => (FrM_setCtrl _ _).bind fun _ => FrM_emit (by intro r z h; cases h)

theorem FrM_incCtrl (c : Nat) : FrM (incCtrl c) := by
  unfold incCtrl
  exact (FrM_getCtrl c).bind fun e => FrM_setCtrl _ _

theorem FrM_ctrlIsUnique (c : Nat) : FrM (ctrlIsUnique c) := by
  unfold ctrlIsUnique
  exact (FrM_getCtrl c).bind fun e => FrM.pure _

theorem FrM_freeRegion (r size : Nat) : FrM (freeRegion r size) := by
  intro s a s1 h
  unfold freeRegion at h
  simp only [bind_apply] at h
  cases hr : s.regions[r]? with
  | none => simp [getRegion, hr] at h
  | some rg =>
    obtain ⟨sz, data, live, kind⟩ := rg
    simp only [getRegion_eq hr] at h
    split at h
    · cases h
    · split at h
      · cases h
      · cases kind with
        | heap odd =>
          simp only [bind_apply, setRegion_apply, emit_apply] at h
          cases h
          refine ⟨⟨⟨[.dealloc r size], rfl, by intro e he; simp at he; subst he; intro r z h; cases h⟩, ?_⟩, rfl⟩
          intro r' rg' h'
          by_cases hrr : r = r'
          · subst hrr
            rw [hr] at h'; cases h'
            exact ⟨_, lookup_set_eq _ hr, rfl, rfl⟩
          · exact ⟨rg', by simpa [lookup_set_ne _ hrr] using h', rfl, rfl⟩
        | «static» => cases h
        | ownerMem o => cases h

theorem FrM_vecFree (reg : Option Nat) (cap : Nat) : FrM (vecFree reg cap) := by
  unfold vecFree
  cases reg with
  | none => exact FrM.ite (FrM.pure _) (FrM.ub _)
  | some r => exact FrM.ite (FrM.ub _) (FrM_freeRegion _ _)

theorem FrM_killOwner (o : Nat) :
    FrM (modify fun s => { s with regions := s.regions.map (fun rg =>
      if rg.kind = RKind.ownerMem o then { rg with live := false } else rg) }) := by
  intro s a s1 h; cases h
  refine ⟨⟨⟨[], rfl, by intro e he; cases he⟩, ?_⟩, rfl⟩
  intro r rg h
  simp only [List.getElem?_map, h, Option.map_some]
  split
  · exact ⟨_, rfl, rfl, rfl⟩
  · exact ⟨_, rfl, rfl, rfl⟩

theorem FrM_releaseCtrl (c : Nat) : FrM (releaseCtrl c) := by
  unfold releaseCtrl
  refine (FrM_getCtrl c).bind fun e => ?_
  refine FrM.ite (FrM.ub _) (FrM.ite (FrM_setCtrl _ _) ((FrM_setCtrl _ _).bind fun _ => ?_))
  split
  · exact (FrM_freeRegion _ _).bind fun _ => FrM_freeCtrl c
  · exact (FrM_vecFree _ _).bind fun _ => FrM_freeCtrl c
  · exact (FrM_emit (by intro r z h; cases h)).bind fun _ => (FrM_killOwner _).bind fun _ => FrM_freeCtrl c

theorem FrM_regionOdd (r : Option Nat) : FrM (regionOdd r) := by
  unfold regionOdd
  cases r with
  | none => exact FrM.pure _
  | some r =>
    refine (FrM_getRegion r).bind fun rg => ?_
    split <;> exact FrM.pure _

theorem FrM_promDecode (vt : Bool) (reg : Option Nat) : FrM (promDecode vt reg) := by
  unfold promDecode
  exact (FrM_regionOdd reg).bind fun _ => FrM.ite (FrM.pure _) (FrM.ub _)

theorem FrM_bytesDrop (h : Handle) : FrM (bytesDrop h) := by
  unfold bytesDrop
  split
  · exact FrM.pure _
  · exact FrM_releaseCtrl _
  · exact FrM_releaseCtrl _
  · exact FrM_releaseCtrl _
  · exact FrM_releaseCtrl _
  · split
    · exact FrM.ub _
    · exact (FrM_promDecode _ _).bind fun _ => FrM_freeRegion _ _
  · exact FrM.panic

theorem FrM_mutDrop (h : Handle) : FrM (mutDrop h) := by
  unfold mutDrop
  split
  · exact FrM_vecFree _ _
  · exact FrM_releaseCtrl _
  · exact FrM.panic

theorem FrM_uadd (cfg : Cfg) (a b : Nat) : FrM (uadd cfg a b) := by
  unfold uadd; exact FrM.ite (FrM.pure _) (FrM.ite FrM.panic (FrM.pure _))
theorem FrM_usub (cfg : Cfg) (a b : Nat) : FrM (usub cfg a b) := by
  unfold usub; exact FrM.ite (FrM.pure _) (FrM.ite FrM.panic (FrM.pure _))
theorem FrM_dassert (cfg : Cfg) (b : Bool) : FrM (dassert cfg b) := by
  unfold dassert; exact FrM.ite FrM.panic (FrM.pure _)

/-! ## inversion of the shared helpers -/

/-- decompose a bind with a normal outcome -/
theorem bind_ok {m : M α} {f : α → M β} {s s' : St} {b : β} (h : (m >>= f) s = .ok b s') :
    ∃ a s1, m s = .ok a s1 ∧ f a s1 = .ok b s' := by
  simp only [bind_apply] at h
  cases hm : m s with
  | ok a s1 => rw [hm] at h; exact ⟨a, s1, rfl, h⟩
  | panic s1 => rw [hm] at h; cases h
  | ub w s1 => rw [hm] at h; cases h

theorem seq_pure_ok {m : M β} (hm : FrM m) {a c : α} {s s1 : St}
    (h : (m >>= fun _ => (pure a : M α)) s = .ok c s1) : c = a ∧ Fr s s1 := by
  obtain ⟨u, s0, h1, h2⟩ := bind_ok h
  cases h2
  exact ⟨rfl, hm _ _ _ h1⟩

theorem Fr.set {s s1 : St} (h : Fr s s1) (hs : List (Option Handle)) : NC s { s1 with hs := hs } :=
  h.1.congr rfl rfl

theorem bytesClone_ok {s s1 : St} {i : Nat} {repr : BRepr} {reg : Option Nat} {off len : Nat}
    {c : Handle} (hx : s.hs[i]? = some (some (.bytes repr reg off len)))
    (h : bytesClone i s = .ok c s1) :
    ∃ crepr repr', c = .bytes crepr reg off len ∧
      s1.hs = s.hs.set i (some (.bytes repr' reg off len)) ∧ NC s s1 := by
  have hself := set_self hx
  unfold bytesClone at h
  obtain ⟨h0, s0, hg, h⟩ := bind_ok h
  rw [getHandle_eq hx] at hg; cases hg
  cases repr with
  | «static» => cases h; exact ⟨.static, .static, rfl, hself.symm, NC.refl _⟩
  | owned k =>
    obtain ⟨rfl, hf⟩ := seq_pure_ok (FrM_incCtrl k) h
    exact ⟨_, .owned k, rfl, by rw [hf.2, hself], hf.1⟩
  | shared k =>
    obtain ⟨rfl, hf⟩ := seq_pure_ok (FrM_incCtrl k) h
    exact ⟨_, .shared k, rfl, by rw [hf.2, hself], hf.1⟩
  | sharedV k =>
    obtain ⟨rfl, hf⟩ := seq_pure_ok (FrM_incCtrl k) h
    exact ⟨_, .sharedV k, rfl, by rw [hf.2, hself], hf.1⟩
  | prom vt oc =>
    cases oc with
    | some k =>
      obtain ⟨rfl, hf⟩ := seq_pure_ok (FrM_incCtrl k) h
      exact ⟨_, .prom vt (some k), rfl, by rw [hf.2, hself], hf.1⟩
    | none =>
      cases reg with
      | none => cases h
      | some r =>
        obtain ⟨u, s2, h1, h⟩ := bind_ok h
        have f1 := FrM_promDecode _ _ _ _ _ h1
        obtain ⟨k, s3, h2, h⟩ := bind_ok h
        have f2 := FrM_newCtrl _ _ _ _ _ h2
        obtain ⟨u', s4, h3, h⟩ := bind_ok h
        cases h3; cases h
        have f := f1.trans f2
        exact ⟨_, .prom vt (some k), rfl, by simp only [f.2], f.set _⟩

theorem mutAdvanceUnchecked_ok {cfg : Cfg} {arc reg : Option Nat} {off len cap orig k : Nat}
    {h' : Handle} {s s1 : St}
    (h : mutAdvanceUnchecked cfg (.mut arc reg off len cap orig) k s = .ok h' s1) :
    Fr s s1 ∧ ∃ arc' cap', h' = .mut arc' reg (off + k) (len - k) cap' orig := by
  unfold mutAdvanceUnchecked at h
  by_cases hk : k = 0
  · subst hk
    simp only [if_true] at h
    cases h
    exact ⟨Fr.refl _, arc, cap, rfl⟩
  · simp only [hk, if_false] at h
    obtain ⟨u, s2, h1, h⟩ := bind_ok h
    have f1 := FrM_dassert _ _ _ _ _ h1
    obtain ⟨cap', s3, h2, h⟩ := bind_ok h
    have f2 := FrM_usub _ _ _ _ _ _ h2
    cases arc with
    | some c =>
      cases h
      exact ⟨f1.trans f2, _, _, rfl⟩
    | none =>
      simp only at h
      split at h
      · cases h
        exact ⟨f1.trans f2, _, _, rfl⟩
      · obtain ⟨c, s4, h3, h⟩ := bind_ok h
        have f3 := FrM_newCtrl _ _ _ _ _ h3
        cases h
        exact ⟨(f1.trans f2).trans f3, _, _, rfl⟩

theorem mutShallowClone_ok {arc reg : Option Nat} {off len cap orig : Nat} {a b : Handle} {s s1 : St}
    (h : mutShallowClone (.mut arc reg off len cap orig) s = .ok (a, b) s1) :
    Fr s s1 ∧ ∃ c, a = .mut (some c) reg off len cap orig ∧ b = .mut (some c) reg off len cap orig := by
  unfold mutShallowClone at h
  cases arc with
  | some c =>
    obtain ⟨hab, hf⟩ := seq_pure_ok (FrM_incCtrl c) h
    cases hab
    exact ⟨hf, c, rfl, rfl⟩
  | none =>
    obtain ⟨h', s2, h1, h⟩ := bind_ok h
    unfold mutPromote at h1
    obtain ⟨c, s3, h2, h1⟩ := bind_ok h1
    have f := FrM_newCtrl _ _ _ _ _ h2
    cases h1; cases h
    exact ⟨f, c, rfl, rfl⟩

/-- `Bytes::split_off(k)`: self stays at its address, the tail starts `k` further -/
theorem bytesSplitOffCore_ok {s s1 : St} {i k : Nat} {repr : BRepr} {reg : Option Nat} {off len : Nat}
    {o : Handle} (hx : s.hs[i]? = some (some (.bytes repr reg off len)))
    (h : bytesSplitOffCore i k s = .ok o s1) :
    NC s s1 ∧ ∃ orepr repr' l1 l2, o = .bytes orepr reg (off + k) l2 ∧
      s1.hs = s.hs.set i (some (.bytes repr' reg off l1)) := by
  have hself := set_self hx
  unfold bytesSplitOffCore at h
  obtain ⟨h0, s0, hg, h⟩ := bind_ok h
  rw [getHandle_eq hx] at hg; cases hg
  simp only at h
  split at h
  · cases h
    exact ⟨NC.refl _, _, repr, len, _, rfl, hself.symm⟩
  · split at h
    · rename_i hk0
      obtain ⟨u, s2, h1, h⟩ := bind_ok h
      cases h1; cases h
      exact ⟨NC.of_same rfl rfl, repr, _, _, len, by rw [hk0]; rfl, rfl⟩
    · split at h
      · cases h
      · obtain ⟨c, s2, h1, h⟩ := bind_ok h
        obtain ⟨crepr, repr', rfl, hhs, hnc⟩ := bytesClone_ok hx h1
        obtain ⟨h', s3, h2, h⟩ := bind_ok h
        have hi2 : s2.hs[i]? = some (some (.bytes repr' reg off len)) := by
          rw [hhs]; exact lookup_set_eq _ hx
        rw [getHandle_eq hi2] at h2; cases h2
        simp only at h
        obtain ⟨u, s4, h3, h⟩ := bind_ok h
        cases h3; cases h
        exact ⟨hnc.congr rfl rfl, crepr, repr', k, _, rfl, by simp only [hhs, List.set_set]⟩

theorem bytesFromVec_ok {reg : Option Nat} {len cap : Nat} {b : Handle} {s s1 : St}
    (h : bytesFromVec reg len cap s = .ok b s1) :
    Fr s s1 ∧ ∃ repr reg', b = .bytes repr reg' 0 len ∧ (len ≠ 0 → reg' = reg) := by
  unfold bytesFromVec at h
  split at h
  · split at h
    · rename_i h0
      cases h
      exact ⟨Fr.refl _, _, _, by rw [h0], fun hn => (hn h0).elim⟩
    · obtain ⟨odd, s2, h1, h⟩ := bind_ok h
      have f := FrM_regionOdd _ _ _ _ h1
      cases h
      exact ⟨f, _, _, rfl, fun _ => rfl⟩
  · cases reg with
    | none => cases h
    | some r =>
      obtain ⟨c, s2, h1, h⟩ := bind_ok h
      have f := FrM_newCtrl _ _ _ _ _ h1
      cases h
      exact ⟨f, _, _, rfl, fun _ => rfl⟩

theorem getHandle_bind_ok {f : Handle → M β} {s s' : St} {i : Nat} {x : Handle} {b : β}
    (hx : s.hs[i]? = some (some x)) (h : (getHandle i >>= f) s = .ok b s') : f x s = .ok b s' := by
  obtain ⟨h0, s0, hg, h⟩ := bind_ok h
  rw [getHandle_eq hx] at hg; cases hg
  exact h

theorem getCtrl_ok {c : Nat} {s s1 : St} {e : CtrlE} (h : getCtrl c s = .ok e s1) :
    s1 = s ∧ s.ctrls[c]? = some e ∧ e.live = true := by
  unfold getCtrl at h
  split at h
  · rename_i e' he
    split at h
    · rename_i hl; cases h; exact ⟨rfl, he, hl⟩
    · cases h
  · cases h

theorem ctrlIsUnique_ok {c : Nat} {s s1 : St} {u : Bool} (h : ctrlIsUnique c s = .ok u s1) :
    s1 = s ∧ ∃ e, s.ctrls[c]? = some e ∧ e.live = true ∧ u = (e.rc == 1) := by
  unfold ctrlIsUnique at h
  obtain ⟨e, s0, h1, h'⟩ := bind_ok h
  obtain ⟨hs0, he, hl⟩ := getCtrl_ok h1
  cases h'
  exact ⟨hs0, e, he, hl, rfl⟩

theorem takeSharedB_ok {c r cap : Nat} {s s1 : St} (h : takeSharedB c s = .ok (r, cap) s1) :
    Fr s s1 ∧ ∃ e, s.ctrls[c]? = some e ∧ e.live = true ∧ e.c = .sharedB r cap := by
  unfold takeSharedB at h
  obtain ⟨e, s0, h1, h⟩ := bind_ok h
  obtain ⟨rfl, he, hl⟩ := getCtrl_ok h1
  obtain ⟨ct, rc, live⟩ := e
  cases ct with
  | sharedB r' cap' =>
    simp only at h
    obtain ⟨u, s2, h2, h⟩ := bind_ok h
    have f1 := FrM_setCtrl _ _ _ _ _ h2
    obtain ⟨u', s3, h3, h⟩ := bind_ok h
    have f2 := FrM_freeCtrl _ _ _ _ h3
    cases h
    exact ⟨f1.trans f2, _, he, hl, rfl⟩
  | sharedV a b c' d => cases h
  | owned o => cases h

namespace PropC07

/-! ## the theorems of Props/C07, on local copies of its definitions -/

def addrOf : Handle → Option Nat × Nat
  | .bytes _ reg off _ => (reg, off)
  | .mut _ reg off _ _ _ => (reg, off)
  | .vec reg _ _ => (reg, 0)

def lenOf : Handle → Nat
  | .bytes _ _ _ len => len
  | .mut _ _ _ len _ _ => len
  | .vec _ len _ => len

def shift (a : Option Nat × Nat) (k : Nat) : Option Nat × Nat := (a.1, a.2 + k)

def NoCopy (s s' : St) : Prop :=
  (∀ ev ∈ s'.events.take (s'.events.length - s.events.length), ∀ r z, ev ≠ .alloc r z) ∧
  (∀ (r : Nat) (rg : Region), s.regions[r]? = some rg → ∃ rg' : Region, s'.regions[r]? = some rg' ∧ rg'.data = rg.data ∧ rg'.size = rg.size)

theorem noCopy {s s' : St} (h : NC s s') : NoCopy s s' := ⟨h.take, h.2⟩

theorem zero_copy_clone (cfg : Cfg) (e : Env) (i : Nat) (s s' : St) (h : WFx s) (j : Nat) (x : Handle)
    (hx : s.hs[i]? = some (some x)) (hb : kindOf x = .bytes) (hs : step cfg e (.clone i) s = .ok (.handle j) s') :
    NoCopy s s' ∧ ∃ y x', s'.hs[j]? = some (some y) ∧ s'.hs[i]? = some (some x') ∧
      (lenOf y ≠ 0 → addrOf y = addrOf x) ∧ addrOf x' = addrOf x := by
  simp only [step] at hs
  have hs := getHandle_bind_ok hx hs
  cases x with
  | bytes repr reg off len =>
    simp only at hs
    obtain ⟨c, s1, hc, hs⟩ := bind_ok hs
    obtain ⟨crepr, repr', rfl, hhs, hnc⟩ := bytesClone_ok hx hc
    obtain ⟨j', s2, hn, hs⟩ := bind_ok hs
    cases hn; cases hs
    refine ⟨noCopy (hnc.congr rfl rfl), .bytes crepr reg off len, .bytes repr' reg off len,
      lookup_append_new _ _, ?_, fun _ => rfl, rfl⟩
    simp only [hhs]
    exact lookup_append_of_some _ (lookup_set_eq _ hx)
  | «mut» arc reg off len cap orig => simp [kindOf] at hb
  | vec reg len cap => simp [kindOf] at hb

theorem zero_copy_slice (cfg : Cfg) (e : Env) (i lo hi : Nat) (s s' : St) (h : WFx s) (j : Nat) (x : Handle)
    (hx : s.hs[i]? = some (some x)) (hs : step cfg e (.slice i lo hi) s = .ok (.handle j) s') :
    NoCopy s s' ∧ ∃ y, s'.hs[j]? = some (some y) ∧ (lenOf y ≠ 0 → addrOf y = shift (addrOf x) lo) := by
  simp only [step] at hs
  have hs := getHandle_bind_ok hx hs
  cases x with
  | bytes repr reg off len =>
    simp only at hs
    split at hs
    · cases hs
    · split at hs
      · cases hs
      · split at hs
        · obtain ⟨j', s2, hn, hs⟩ := bind_ok hs
          cases hn; cases hs
          exact ⟨noCopy (NC.of_same rfl rfl), .bytes .static none 0 0, lookup_append_new _ _,
            fun h => (h rfl).elim⟩
        · obtain ⟨c, s1, hc, hs⟩ := bind_ok hs
          obtain ⟨crepr, repr', rfl, hhs, hnc⟩ := bytesClone_ok hx hc
          simp only at hs
          obtain ⟨j', s2, hn, hs⟩ := bind_ok hs
          cases hn; cases hs
          exact ⟨noCopy (hnc.congr rfl rfl), .bytes crepr reg (off + lo) (hi - lo),
            lookup_append_new _ _, fun _ => rfl⟩
  | «mut» arc reg off len cap orig => cases hs
  | vec reg len cap => cases hs

theorem zero_copy_splitOff (cfg : Cfg) (e : Env) (i k : Nat) (s s' : St) (h : WFx s) (j : Nat) (x : Handle)
    (hx : s.hs[i]? = some (some x)) (hs : step cfg e (.splitOff i k) s = .ok (.handle j) s') :
    NoCopy s s' ∧ ∃ y x', s'.hs[j]? = some (some y) ∧ s'.hs[i]? = some (some x') ∧
      addrOf x' = addrOf x ∧ addrOf y = shift (addrOf x) k := by
  simp only [step, opSplitOff] at hs
  have hs := getHandle_bind_ok hx hs
  cases x with
  | bytes repr reg off len =>
    simp only at hs
    obtain ⟨o, s1, hc, hs⟩ := bind_ok hs
    obtain ⟨hnc, orepr, repr', l1, l2, rfl, hhs⟩ := bytesSplitOffCore_ok hx hc
    obtain ⟨j', s2, hn, hs⟩ := bind_ok hs
    cases hn; cases hs
    refine ⟨noCopy (hnc.congr rfl rfl), .bytes orepr reg (off + k) l2, .bytes repr' reg off l1,
      lookup_append_new _ _, ?_, rfl, rfl⟩
    simp only [hhs]
    exact lookup_append_of_some _ (lookup_set_eq _ hx)
  | «mut» arc reg off len cap orig =>
    simp only at hs
    split at hs
    · cases hs
    · obtain ⟨⟨a, b⟩, s1, hc, hs⟩ := bind_ok hs
      obtain ⟨f1, c, rfl, rfl⟩ := mutShallowClone_ok hc
      simp only at hs
      obtain ⟨o', s2, ha, hs⟩ := bind_ok hs
      obtain ⟨f2, arc', cap', rfl⟩ := mutAdvanceUnchecked_ok ha
      obtain ⟨u, s3, h3, hs⟩ := bind_ok hs
      cases h3
      obtain ⟨j', s4, hn, hs⟩ := bind_ok hs
      cases hn; cases hs
      have f := f1.trans f2
      refine ⟨noCopy (f.1.congr rfl rfl), .mut arc' reg (off + k) (len - k) cap' orig,
        .mut (some c) reg off (min len k) k orig, lookup_append_new _ _, ?_, rfl, rfl⟩
      simp only [f.2]
      exact lookup_append_of_some _ (lookup_set_eq _ hx)
  | vec reg len cap => cases hs

theorem zero_copy_splitTo (cfg : Cfg) (e : Env) (i k : Nat) (s s' : St) (h : WFx s) (j : Nat) (x : Handle)
    (hx : s.hs[i]? = some (some x)) (hs : step cfg e (.splitTo i k) s = .ok (.handle j) s') :
    NoCopy s s' ∧ ∃ y x', s'.hs[j]? = some (some y) ∧ s'.hs[i]? = some (some x') ∧
      addrOf y = addrOf x ∧ addrOf x' = shift (addrOf x) k := by
  simp only [step, opSplitTo] at hs
  have hs := getHandle_bind_ok hx hs
  cases x with
  | bytes repr reg off len =>
    simp only at hs
    split at hs
    · obtain ⟨u, s1, h1, hs⟩ := bind_ok hs
      cases h1
      obtain ⟨j', s2, hn, hs⟩ := bind_ok hs
      cases hn; cases hs
      exact ⟨noCopy (NC.of_same rfl rfl), .bytes repr reg off len, .bytes .static reg (off + k) 0,
        lookup_append_new _ _, lookup_append_of_some _ (lookup_set_eq _ hx), rfl, rfl⟩
    · split at hs
      · rename_i hk0
        obtain ⟨j', s2, hn, hs⟩ := bind_ok hs
        cases hn; cases hs
        exact ⟨noCopy (NC.of_same rfl rfl), .bytes .static reg off 0, .bytes repr reg off len,
          lookup_append_new _ _, lookup_append_of_some _ hx, rfl, by rw [hk0]; rfl⟩
      · split at hs
        · cases hs
        · obtain ⟨c, s1, hc, hs⟩ := bind_ok hs
          obtain ⟨crepr, repr', rfl, hhs, hnc⟩ := bytesClone_ok hx hc
          have hi2 : s1.hs[i]? = some (some (.bytes repr' reg off len)) := by
            rw [hhs]; exact lookup_set_eq _ hx
          have hs := getHandle_bind_ok hi2 hs
          simp only at hs
          obtain ⟨u, s2, h2, hs⟩ := bind_ok hs
          cases h2
          obtain ⟨j', s3, hn, hs⟩ := bind_ok hs
          cases hn; cases hs
          exact ⟨noCopy (hnc.congr rfl rfl), .bytes crepr reg off k, .bytes repr' reg (off + k) (len - k),
            lookup_append_new _ _, lookup_append_of_some _ (lookup_set_eq _ hi2), rfl, rfl⟩
  | «mut» arc reg off len cap orig =>
    simp only at hs
    split at hs
    · cases hs
    · obtain ⟨⟨a, b⟩, s1, hc, hs⟩ := bind_ok hs
      obtain ⟨f1, c, rfl, rfl⟩ := mutShallowClone_ok hc
      simp only at hs
      obtain ⟨o', s2, ha, hs⟩ := bind_ok hs
      obtain ⟨f2, arc', cap', rfl⟩ := mutAdvanceUnchecked_ok ha
      obtain ⟨u, s3, h3, hs⟩ := bind_ok hs
      cases h3
      simp only at hs
      obtain ⟨j', s4, hn, hs⟩ := bind_ok hs
      cases hn; cases hs
      have f := f1.trans f2
      refine ⟨noCopy (f.1.congr rfl rfl), .mut (some c) reg off k k orig,
        .mut arc' reg (off + k) (len - k) cap' orig, lookup_append_new _ _, ?_, rfl, rfl⟩
      simp only [f.2]
      exact lookup_append_of_some _ (lookup_set_eq _ hx)
  | vec reg len cap => cases hs

theorem opTruncate_ok {i n : Nat} {s s' : St} {v : Val} {x : Handle}
    (hx : s.hs[i]? = some (some x)) (hs : opTruncate i n s = .ok v s') :
    NC s s' ∧ ∃ x', s'.hs[i]? = some (some x') ∧ addrOf x' = addrOf x := by
  unfold opTruncate at hs
  have hs := getHandle_bind_ok hx hs
  have plain : ∀ x' : Handle, addrOf x' = addrOf x →
      (setHandle i x' >>= fun _ => (pure Val.unit : M Val)) s = .ok v s' →
      NC s s' ∧ ∃ x', s'.hs[i]? = some (some x') ∧ addrOf x' = addrOf x := by
    intro x' ha hs
    obtain ⟨u, s1, h1, hs⟩ := bind_ok hs
    cases h1; cases hs
    exact ⟨NC.of_same rfl rfl, x', lookup_set_eq _ hx, ha⟩
  have same : (pure Val.unit : M Val) s = .ok v s' →
      NC s s' ∧ ∃ x', s'.hs[i]? = some (some x') ∧ addrOf x' = addrOf x := by
    intro hs; cases hs; exact ⟨NC.refl _, x, hx, rfl⟩
  cases x with
  | bytes repr reg off len =>
    simp only at hs
    split at hs
    · cases repr with
      | prom vt oc =>
        simp only at hs
        obtain ⟨o, s1, hc, hs⟩ := bind_ok hs
        obtain ⟨hnc, orepr, repr', l1, l2, rfl, hhs⟩ := bytesSplitOffCore_ok hx hc
        obtain ⟨u, s2, hd, hs⟩ := bind_ok hs
        have f := FrM_bytesDrop _ _ _ _ hd
        cases hs
        refine ⟨hnc.trans f.1, .bytes repr' reg off l1, ?_, rfl⟩
        rw [f.2, hhs]; exact lookup_set_eq _ hx
      | «static» => simp only at hs; exact plain _ (by rfl) hs
      | owned c => simp only at hs; exact plain _ (by rfl) hs
      | shared c => simp only at hs; exact plain _ (by rfl) hs
      | sharedV c => simp only at hs; exact plain _ (by rfl) hs
    · exact same hs
  | «mut» arc reg off len cap orig =>
    simp only at hs
    split at hs
    · exact plain _ (by rfl) hs
    · exact same hs
  | vec reg len cap =>
    simp only at hs
    split at hs
    · exact plain _ (by rfl) hs
    · exact same hs

theorem zero_copy_inplace (cfg : Cfg) (e : Env) (op : Op) (i : Nat) (s s' : St) (h : WFx s) (v : Val) (x : Handle)
    (hop : op = .truncate i (lenOf x - 1) ∨ (∃ n, op = .truncate i n) ∨ op = .clear i ∨ op = .freeze i ∨ op = .fromVec i)
    (hx : s.hs[i]? = some (some x)) (hs : step cfg e op s = .ok v s') :
    NoCopy s s' ∧ ∃ x', s'.hs[i]? = some (some x') ∧ (lenOf x' ≠ 0 → addrOf x' = addrOf x) := by
  have trunc : ∀ n, step cfg e (.truncate i n) s = .ok v s' →
      NoCopy s s' ∧ ∃ x', s'.hs[i]? = some (some x') ∧ (lenOf x' ≠ 0 → addrOf x' = addrOf x) := by
    intro n hs
    simp only [step] at hs
    obtain ⟨hnc, x', h1, h2⟩ := opTruncate_ok hx hs
    exact ⟨noCopy hnc, x', h1, fun _ => h2⟩
  rcases hop with rfl | ⟨n, rfl⟩ | rfl | rfl | rfl
  · exact trunc _ hs
  · exact trunc _ hs
  · simp only [step] at hs
    obtain ⟨hnc, x', h1, h2⟩ := opTruncate_ok hx hs
    exact ⟨noCopy hnc, x', h1, fun _ => h2⟩
  · -- freeze
    simp only [step] at hs
    have hs := getHandle_bind_ok hx hs
    cases x with
    | bytes repr reg off len => cases hs
    | vec reg len cap => cases hs
    | «mut» arc reg off len cap orig =>
      cases arc with
      | none =>
        simp only at hs
        obtain ⟨b, s1, hb, hs⟩ := bind_ok hs
        obtain ⟨f, repr, reg', rfl, hreg⟩ := bytesFromVec_ok hb
        simp only at hs
        split at hs
        · cases hs
        · obtain ⟨u, s2, h2, hs⟩ := bind_ok hs
          cases h2; cases hs
          refine ⟨noCopy (f.set _), .bytes repr reg' (0 + off) (off + len - off),
            by simp only [f.2]; exact lookup_set_eq _ hx, ?_⟩
          intro hl
          have hr : reg' = reg := hreg (by simp only [lenOf] at hl; omega)
          subst hr
          simp [addrOf]
      | some c =>
        simp only at hs
        obtain ⟨u, s2, h2, hs⟩ := bind_ok hs
        cases h2; cases hs
        exact ⟨noCopy (NC.of_same rfl rfl), .bytes (.sharedV c) reg off len, lookup_set_eq _ hx,
          fun _ => rfl⟩
  · -- fromVec
    simp only [step] at hs
    have hs := getHandle_bind_ok hx hs
    cases x with
    | bytes repr reg off len => cases hs
    | «mut» arc reg off len cap orig => cases hs
    | vec reg len cap =>
      simp only at hs
      obtain ⟨b, s1, hb, hs⟩ := bind_ok hs
      obtain ⟨f, repr, reg', rfl, hreg⟩ := bytesFromVec_ok hb
      obtain ⟨u, s2, h2, hs⟩ := bind_ok hs
      cases h2; cases hs
      refine ⟨noCopy (f.set _), .bytes repr reg' 0 len,
        by simp only [f.2]; exact lookup_set_eq _ hx, ?_⟩
      intro hl
      have hr : reg' = reg := hreg hl
      subst hr
      rfl

theorem zero_copy_advance (cfg : Cfg) (e : Env) (i n : Nat) (s s' : St) (h : WFx s) (v : Val) (x : Handle)
    (hx : s.hs[i]? = some (some x)) (hs : step cfg e (.advance i n) s = .ok v s') :
    NoCopy s s' ∧ ∃ x', s'.hs[i]? = some (some x') ∧ (lenOf x' ≠ 0 → addrOf x' = shift (addrOf x) n) := by
  simp only [step] at hs
  have hs := getHandle_bind_ok hx hs
  cases x with
  | bytes repr reg off len =>
    simp only at hs
    split at hs
    · cases hs
    · obtain ⟨u, s2, h2, hs⟩ := bind_ok hs
      cases h2; cases hs
      exact ⟨noCopy (NC.of_same rfl rfl), .bytes repr reg (off + n) (len - n), lookup_set_eq _ hx,
        fun _ => rfl⟩
  | «mut» arc reg off len cap orig =>
    simp only at hs
    split at hs
    · cases hs
    · obtain ⟨o', s1, ha, hs⟩ := bind_ok hs
      obtain ⟨f, arc', cap', rfl⟩ := mutAdvanceUnchecked_ok ha
      obtain ⟨u, s2, h2, hs⟩ := bind_ok hs
      cases h2; cases hs
      exact ⟨noCopy (f.set _), .mut arc' reg (off + n) (len - n) cap' orig,
        by simp only [f.2]; exact lookup_set_eq _ hx, fun _ => rfl⟩
  | vec reg len cap => cases hs

theorem zero_copy_unsplit (cfg : Cfg) (e : Env) (i j : Nat) (s s' : St) (h : WFx s) (v : Val)
    (c r off len cap orig ooff olen ocap oorig : Nat)
    (hi : s.hs[i]? = some (some (.mut (some c) (some r) off len cap orig)))
    (hj : s.hs[j]? = some (some (.mut (some c) (some r) ooff olen ocap oorig)))
    (hne : i ≠ j) (hlen : len ≠ 0) (hocap : ocap ≠ 0) (hadj : ooff = off + len)
    (hs : step cfg e (.unsplit i j) s = .ok v s') :
    NoCopy s s' ∧ ∃ cap', s'.hs[i]? = some (some (.mut (some c) (some r) off (len + olen) cap' orig)) := by
  simp only [step] at hs
  rw [if_neg hne] at hs
  have hs := getHandle_bind_ok hi hs
  have hs := getHandle_bind_ok hj hs
  simp only [hlen, hocap, if_false, hadj, Option.isSome_some, and_self, if_true] at hs
  obtain ⟨u, s1, h1, hs⟩ := bind_ok hs
  cases h1
  obtain ⟨u, s2, h2, hs⟩ := bind_ok hs
  have f := FrM_mutDrop _ _ _ _ h2
  obtain ⟨u, s3, h3, hs⟩ := bind_ok hs
  cases h3; cases hs
  refine ⟨noCopy (f.1.congr rfl rfl), cap + ocap, ?_⟩
  simp only [f.2]
  have hi' : (s.hs.set j none)[i]? = some (some (.mut (some c) (some r) off len cap orig)) := by
    rw [lookup_set_ne _ (Ne.symm hne)]; exact hi
  exact lookup_set_eq _ hi'

theorem zero_copy_tryIntoMut (cfg : Cfg) (e : Env) (i : Nat) (s s' : St) (h : WFx s) (x : Handle)
    (hx : s.hs[i]? = some (some x)) (hs : step cfg e (.tryIntoMut i) s = .ok (.handle i) s') :
    NoCopy s s' ∧ ∃ x', s'.hs[i]? = some (some x') ∧ kindOf x' = .mut ∧ (lenOf x' ≠ 0 → addrOf x' = addrOf x) := by
  have hI := h.inv
  simp only [step] at hs
  have hs := getHandle_bind_ok hx hs
  obtain ⟨u, s0, hu, hs⟩ := bind_ok hs
  cases u with
  | false => simp only [Bool.false_eq_true, ↓reduceIte] at hs; cases hs
  | true =>
    simp only [↓reduceIte] at hs
    obtain ⟨m, s1, hm, hs⟩ := bind_ok hs
    obtain ⟨u', s2, h2, hs⟩ := bind_ok hs
    cases h2; cases hs
    have key : Fr s s1 ∧ kindOf m = .mut ∧ (lenOf m ≠ 0 → addrOf m = addrOf x) := by
      cases x with
      | «mut» arc reg off len cap orig => cases hu
      | vec reg len cap => cases hu
      | bytes repr reg off len =>
        -- SHARED and promoted PROMOTABLE: `shared_to_mut_impl`, unique branch
        have shared : ∀ c : Nat, (repr = .shared c ∨ ∃ vt, repr = .prom vt (some c)) →
            Fr s s1 ∧ kindOf m = .mut ∧ (lenOf m ≠ 0 → addrOf m = (reg, off)) := by
          intro c hrepr
          have hreg : ∃ r cap, liveCtrlL s.ctrls c = some (.sharedB r cap) ∧ reg = some r := by
            have hok := hI.hok i _ hx
            rcases hrepr with rfl | ⟨vt, rfl⟩
            · obtain ⟨⟨r, cap, h1, h2, _⟩, _⟩ := handleOKL_shared.mp hok
              exact ⟨r, cap, h1, h2⟩
            · obtain ⟨⟨r, cap, h1, h2, _⟩, _⟩ := handleOKL_promA.mp hok
              exact ⟨r, cap, h1, h2⟩
          obtain ⟨r0, cap0, hlc, hreg⟩ := hreg
          obtain ⟨e0, he0, _, hc0⟩ := liveCtrlL_some_iff.mp hlc
          have hu' : ctrlIsUnique c s = .ok true s0 := by
            rcases hrepr with rfl | ⟨vt, rfl⟩ <;> exact hu
          have hs0 : s0 = s := (ctrlIsUnique_ok hu').1
          subst hs0
          have hm' : (ctrlIsUnique c >>= fun u => if u = true then
                (takeSharedB c >>= fun p => mutAdvanceUnchecked cfg (mutFromVec (some p.1) (len + off) p.2) off)
              else (toVecCopy e reg off len >>= fun v => releaseCtrl c >>= fun _ =>
                match v with
                | .vec r l cp => pure (mutFromVec r l cp)
                | _ => panic)) s0 = .ok m s1 := by
            rcases hrepr with rfl | ⟨vt, rfl⟩ <;> exact hm
          obtain ⟨u2, s2, h1, hm'⟩ := bind_ok hm'
          rw [hu'] at h1; cases h1
          simp only [↓reduceIte] at hm'
          obtain ⟨⟨r, cap⟩, s3, ht, hm'⟩ := bind_ok hm'
          obtain ⟨f1, e1, he1, _, hc1⟩ := takeSharedB_ok ht
          simp only [mutFromVec] at hm'
          obtain ⟨f2, arc', cap', rfl⟩ := mutAdvanceUnchecked_ok hm'
          rw [he0] at he1; cases he1
          rw [hc0] at hc1; cases hc1
          exact ⟨f1.trans f2, rfl, fun _ => by simp [addrOf, hreg]⟩
        cases repr with
        | «static» => cases hu
        | owned c => cases hu
        | shared c => exact shared c (.inl rfl)
        | sharedV c =>
          have hu' : ctrlIsUnique c s = .ok true s0 := hu
          obtain ⟨rfl, e0, he0, hl0, _⟩ := ctrlIsUnique_ok hu'
          simp only [bytesIntoMut] at hm
          obtain ⟨u2, s2, h1, hm⟩ := bind_ok hm
          rw [hu'] at h1; cases h1
          simp only [↓reduceIte] at hm
          obtain ⟨ce, s3, h3, hm⟩ := bind_ok hm
          obtain ⟨rfl, _, _⟩ := getCtrl_ok h3
          obtain ⟨ct, rc, live⟩ := ce
          cases ct with
          | sharedV a b vcap orig => cases hm; exact ⟨Fr.refl _, rfl, fun _ => rfl⟩
          | sharedB a b => cases hm
          | owned o => cases hm
        | prom vt oc =>
          cases oc with
          | some c => exact shared c (.inr ⟨vt, rfl⟩)
          | none =>
            cases hu
            simp only [bytesIntoMut] at hm
            obtain ⟨u2, s2, h1, hm⟩ := bind_ok hm
            have f1 := FrM_promDecode _ _ _ _ _ h1
            simp only [mutFromVec] at hm
            obtain ⟨f2, arc', cap', rfl⟩ := mutAdvanceUnchecked_ok hm
            exact ⟨f1.trans f2, rfl, fun _ => by simp [addrOf]⟩
    exact ⟨noCopy (key.1.set _), m, by simp only [key.1.2]; exact lookup_set_eq _ hx, key.2.1, key.2.2⟩

end PropC07

end BytesVerif.Core
