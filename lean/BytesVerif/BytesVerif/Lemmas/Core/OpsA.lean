/-
Group A (constructors) and group E (in-place writes) of README §5, plus `isUnique`.
-/
import BytesVerif.Lemmas.Core.OpsPilot
set_option linter.unusedVariables false
namespace BytesVerif.Core
namespace OpsA

/-! ## constructors through `push_vec_spec` -/

theorem step_newVec (cfg : Cfg) (e : Env) (bs : List Byte) (cap : Nat) (s : St) (hw : WFx s) :
    StepOKx cfg e (.newVec bs cap) s := by
  have hI := hw.inv
  unfold StepOKx
  simp only [step]
  by_cases hc : cap < bs.length
  · simp only [hc, if_true, panic_apply, sat_panic]; exact ⟨hw, rfl⟩
  · simp only [hc, if_false, bind_apply]
    rcases push_vec_spec hI e bs cap (by omega) (fun r => .vec r bs.length cap) (.inl fun _ => rfl) with
      hp | ⟨r, s1, heq, hk, hhs, hview, hnew⟩
    · simp only [hp, sat_panic]; exact ⟨hw, rfl⟩
    · simp only [heq, newHandle_apply, pure_apply, sat_ok]
      refine finish_ok (hk _) ?_
      simp only [hhs]
      rw [absL_push_of_view _ hview, hnew]
      simp [kindOf, Spec.stepOk, abs_eq]

/-- common part of the three `BytesMut` constructors -/
theorem push_mut_ok (cfg : Cfg) (e : Env) (op : Op) (bs : List Byte) (cap : Nat) (hl : bs.length ≤ cap)
    (s : St) (hw : WFx s)
    (hspec : ∀ v a, Spec.stepOk op v a = a ++ [some ⟨.mut, bs⟩])
    (hpan : ∀ a, Spec.stepPanic op a = a) :
    ((do let r ← vecNew e bs cap
         let i ← newHandle (mutFromVec r bs.length cap)
         pure (Val.handle i) : M Val) s).sat
      (fun v s' => WFx s' ∧ abs s' = Spec.stepOk op v (abs s))
      (fun s' => WFx s' ∧ abs s' = Spec.stepPanic op (abs s)) := by
  have hI := hw.inv
  simp only [bind_apply]
  rcases push_vec_spec hI e bs cap hl (fun r => mutFromVec r bs.length cap)
      (.inr ⟨originalCapacityToRepr cap, fun r => rfl⟩) with
    hp | ⟨r, s1, heq, hk, hhs, hview, hnew⟩
  · simp only [hp, sat_panic]; exact ⟨hw, (hpan _).symm⟩
  · simp only [heq, newHandle_apply, pure_apply, sat_ok]
    refine finish_ok (hk _) ?_
    simp only [hhs]
    rw [absL_push_of_view _ hview, hnew, hspec]
    simp [kindOf, mutFromVec, abs_eq]

theorem step_mutWithCapacity (cfg : Cfg) (e : Env) (cap : Nat) (s : St) (hw : WFx s) :
    StepOKx cfg e (.mutWithCapacity cap) s := by
  have := push_mut_ok cfg e (.mutWithCapacity cap) [] cap (Nat.zero_le _) s hw (fun _ _ => rfl) (fun _ => rfl)
  simpa [StepOKx, step] using this

theorem step_mutFromSlice (cfg : Cfg) (e : Env) (bs : List Byte) (s : St) (hw : WFx s) :
    StepOKx cfg e (.mutFromSlice bs) s := by
  have := push_mut_ok cfg e (.mutFromSlice bs) bs bs.length (Nat.le_refl _) s hw (fun _ _ => rfl) (fun _ => rfl)
  simpa [StepOKx, step] using this

theorem step_mutZeroed (cfg : Cfg) (e : Env) (n : Nat) (s : St) (hw : WFx s) :
    StepOKx cfg e (.mutZeroed n) s := by
  have := push_mut_ok cfg e (.mutZeroed n) (List.replicate n 0) n (by simp) s hw (fun _ _ => rfl) (fun _ => rfl)
  simpa [StepOKx, step] using this

/-! ## isUnique -/

theorem step_isUnique (cfg : Cfg) (e : Env) (i : Nat) (s : St) (hw : WFx s) :
    StepOKx cfg e (.isUnique i) s := by
  have hI := hw.inv
  unfold StepOKx
  simp only [step, bind_apply]
  have hdone : WFx s ∧ abs s = abs s := ⟨hw, rfl⟩
  rcases getHandle_cases s i with ⟨h, hi, hg⟩ | ⟨hn, hg⟩
  · simp only [hg]
    have hu : ∀ c, ctrlOf h = some c → ∃ u, ctrlIsUnique c s = .ok u s := by
      intro c hc
      obtain ⟨e', he, hl, _⟩ := hI.ctrl_of_handle hi hc
      exact ⟨_, ctrlIsUnique_eq he hl⟩
    cases h with
    | bytes repr reg off len =>
      cases repr with
      | «static» => simp only [bytesIsUnique, pure_apply, sat_ok]; exact hdone
      | owned c => simp only [bytesIsUnique, pure_apply, sat_ok]; exact hdone
      | shared c =>
        obtain ⟨u, hu'⟩ := hu c rfl
        simp only [bytesIsUnique, hu', pure_apply, sat_ok]; exact hdone
      | sharedV c =>
        obtain ⟨u, hu'⟩ := hu c rfl
        simp only [bytesIsUnique, hu', pure_apply, sat_ok]; exact hdone
      | prom vt oc =>
        cases oc with
        | some c =>
        obtain ⟨u, hu'⟩ := hu c rfl
        simp only [bytesIsUnique, hu', pure_apply, sat_ok]; exact hdone
        | none => simp only [bytesIsUnique, pure_apply, sat_ok]; exact hdone
    | «mut» arc reg off len cap orig => simp only [bytesIsUnique, panic_apply, sat_panic]; exact hdone
    | vec reg len cap => simp only [bytesIsUnique, panic_apply, sat_panic]; exact hdone
  · simp only [hg, sat_panic]; exact hdone

/-! ## in-place writes -/

/-- overwrite `bs` in the middle of a readable range -/
theorem rdL_write_mid {R : List Region} {r : Nat} {rg : Region} {off len o : Nat} {bs v : List Byte}
    (hr : R[r]? = some rg) (hl : rg.live = true) (hdl : rg.data.length = rg.size)
    (hv : rdL R (some r) off len = some v) (hvl : v.length = len)
    (h1 : off ≤ o) (h2 : o + bs.length ≤ off + len) (hb : o + bs.length ≤ rg.size) :
    rdL (R.set r (rg.write o bs)) (some r) off len =
      some (v.take (o - off) ++ bs ++ v.drop (o - off + bs.length)) := by
  have hbd : o + bs.length ≤ rg.data.length := by omega
  have A : rdL (R.set r (rg.write o bs)) (some r) off (o - off) = some (v.take (o - off)) := by
    rw [rdL_write_other hr hbd (fun _ => .inl (by omega))]
    have := rdL_take hv (o - off)
    rwa [Nat.min_eq_right (by omega)] at this
  have B : rdL (R.set r (rg.write o bs)) (some r) (off + (o - off)) bs.length = some bs := by
    have e : off + (o - off) = o := by omega
    rw [e]; exact rdL_write_same hr hl hb hdl
  have C : rdL (R.set r (rg.write o bs)) (some r) (off + (o - off + bs.length))
      (len - (o - off + bs.length)) = some (v.drop (o - off + bs.length)) := by
    rw [rdL_write_other hr hbd (fun _ => .inr (by omega))]
    exact rdL_drop hv _
  have AB := rdL_concat A B (by simp; omega)
  have ABC := rdL_concat AB C (by simp; omega)
  have e : o - off + bs.length + (len - (o - off + bs.length)) = len := by omega
  rw [e] at ABC; exact ABC

theorem Spec_stepOk_setByte {a : Spec.St} {i : Nat} {x : SH} (h : Spec.get a i = some x) (k : Nat)
    (b : Byte) (v : Val) :
    Spec.stepOk (.setByte i k b) v a = a.set i (some ⟨x.kind, x.val.set k b⟩) := by
  simp [Spec.stepOk, h, Spec.setAt]

theorem take_cons_drop_eq_set {α} (v : List α) (k : Nat) (b : α) (hk : k < v.length) :
    v.take k ++ [b] ++ v.drop (k + 1) = v.set k b := by
  apply List.ext_getElem?
  intro j
  simp only [List.getElem?_append, List.getElem?_take, List.getElem?_drop, List.getElem?_set,
    List.length_append, List.length_take, List.length_singleton]
  rw [Nat.min_eq_left (by omega)]
  by_cases h1 : j < k
  · have : j < k + 1 := by omega
    have : ¬ k = j := by omega
    simp [*]
  · by_cases h2 : j = k
    · subst h2; simp [hk]
    · have h3 : ¬ j < k + 1 := by omega
      have h4 : ¬ k = j := by omega
      simp only [h1, h3, h4, if_false]
      congr 1; omega

theorem step_setByte (cfg : Cfg) (e : Env) (i k : Nat) (b : Byte) (s : St) (hw : WFx s) :
    StepOKx cfg e (.setByte i k b) s := by
  have hI := hw.inv
  unfold StepOKx
  simp only [step, bind_apply]
  have hpanic : WFx s ∧ abs s = Spec.stepPanic (.setByte i k b) (abs s) := ⟨hw, rfl⟩
  rcases getHandle_cases s i with ⟨h, hi, hg⟩ | ⟨hn, hg⟩
  · simp only [hg]
    obtain ⟨v, hv, hvl⟩ := hI.view hi
    have hspec : ∀ x, Spec.stepOk (.setByte i k b) x (abs s) =
        (absL s.regions s.hs).set i (some ⟨kindOf h, v.set k b⟩) := by
      intro x; rw [abs_eq]; exact Spec_stepOk_setByte (Spec_get_absL hi hv) k b x
    simp only [hspec]
    cases h with
    | bytes repr reg off len => simp only [panic_apply, sat_panic]; exact hpanic
    | vec reg len cap => simp only [panic_apply, sat_panic]; exact hpanic
    | «mut» arc reg off len cap orig =>
      simp only [viewOfL, hreg, hoff, hlen] at hv hvl
      by_cases hk : k ≥ len
      · simp only [hk, if_true, panic_apply, sat_panic]; exact hpanic
      · simp only [hk, if_false, bind_apply]
        have hlc : len ≤ cap := by
          have hok := hI.hok i _ hi
          cases arc with
          | none => exact (handleOKL_mutV.mp hok).1
          | some c' => exact (handleOKL_mutA.mp hok).1
        cases reg with
        | none => simp [rdL_none] at hv; omega
        | some r =>
          obtain ⟨rg, kk, hr, hlive, hkind, hsz⟩ :=
            hI.span_le_size hi (h := .mut arc (some r) off len cap orig) rfl rfl
          have hdl := (region_size_le hI.regs hr).2
          have hweq := writeRange_eq (s := s) (r := r) (off := off + k) (bs := [b]) (by simp) hr hlive
            (by simp; omega) hkind
          simp only [hweq, pure_apply, sat_ok]
          have hv' : rdL (s.regions.set r (rg.write (off + k) [b])) (some r) off len = some (v.set k b) := by
            have := rdL_write_mid (bs := [b]) (o := off + k) hr hlive hdl hv hvl (by omega)
              (by simp; omega) (by simp; omega)
            have e1 : off + k - off = k := by omega
            rw [e1] at this
            rw [this]; congr 1
            exact take_cons_drop_eq_set v k b (by omega)
          have hok' : handleOKL (s.regions.set r (rg.write (off + k) [b])) s.ctrls
              (.mut arc (some r) off len cap orig) = true := by
            rw [handleOKL_frame (R := s.regions) (C := s.ctrls)]
            · exact hI.hok i _ hi
            · intro r' _ _; rw [Region.write_eq]; exact metaL_set_data _ _ hr
            · simp [hreg, hoff, hlen, hv', hv]
            · intro _ _; rfl
          obtain ⟨hI', hview⟩ := Inv_write_set hI (h' := .mut arc (some r) off len cap orig) (bs := [b])
            (off := off + k) hi rfl rfl hr (by simp; omega) rfl rfl (spanSub_refl _) rfl hok' s.events
          rw [set_self hi] at hI'
          refine finish_ok hI' ?_
          show absL (s.regions.set r (rg.write (off + k) [b])) s.hs = _
          have hself : absL (s.regions.set r (rg.write (off + k) [b])) s.hs =
              absL (s.regions.set r (rg.write (off + k) [b]))
                (s.hs.set i (some (.mut arc (some r) off len cap orig))) := by rw [set_self hi]
          rw [hself, absL_set_of_view _ hview]
          simp [viewOfL, hreg, hoff, hlen, hv', kindOf]
  · simp only [hg, sat_panic]; exact hpanic

theorem step_fillSpare (cfg : Cfg) (e : Env) (i : Nat) (b : Byte) (s : St) (hw : WFx s) :
    StepOKx cfg e (.fillSpare i b) s := by
  have hI := hw.inv
  unfold StepOKx
  simp only [step, bind_apply]
  have hpanic : WFx s ∧ abs s = Spec.stepPanic (.fillSpare i b) (abs s) := ⟨hw, rfl⟩
  rcases getHandle_cases s i with ⟨h, hi, hg⟩ | ⟨hn, hg⟩
  · simp only [hg]
    obtain ⟨v, hv, hvl⟩ := hI.view hi
    cases h with
    | bytes repr reg off len => simp only [panic_apply, sat_panic]; exact hpanic
    | vec reg len cap => simp only [panic_apply, sat_panic]; exact hpanic
    | «mut» arc reg off len cap orig =>
      simp only [viewOfL, hreg, hoff, hlen] at hv hvl
      simp only [bind_apply]
      have hok := hI.hok i _ hi
      by_cases h0 : cap - len = 0
      · simp only [h0, List.replicate_zero, writeRange_nil, pure_apply, sat_ok]; exact hpanic
      · cases reg with
        | none =>
          exfalso
          cases arc with
          | none =>
            obtain ⟨_, _, hreg', _⟩ := handleOKL_mutV.mp hok
            simp only at hreg'; omega
          | some c =>
            obtain ⟨_, ⟨vlen, vcap, vorig, h1, h2⟩, _⟩ := handleOKL_mutA.mp hok
            obtain ⟨_, _, _, _, _, _, hb⟩ := hI.cok' h1
            simp only [ctrlBufOK] at hb; omega
        | some r =>
          obtain ⟨rg, kk, hr, hlive, hkind, hsz⟩ :=
            hI.span_le_size hi (h := .mut arc (some r) off len cap orig) rfl rfl
          have hdl := (region_size_le hI.regs hr).2
          have hweq := writeRange_eq (s := s) (r := r) (off := off + len)
            (bs := List.replicate (cap - len) b) (by simpa using h0) hr hlive (by simp; omega) hkind
          simp only [hweq, pure_apply, sat_ok]
          have hv' : rdL (s.regions.set r (rg.write (off + len) (List.replicate (cap - len) b))) (some r)
              off len = rdL s.regions (some r) off len :=
            rdL_write_other hr (by simp; omega) (fun _ => .inl (Nat.le_refl _))
          have hok' : handleOKL (s.regions.set r (rg.write (off + len) (List.replicate (cap - len) b)))
              s.ctrls (.mut arc (some r) off len cap orig) = true := by
            rw [handleOKL_frame (R := s.regions) (C := s.ctrls)]
            · exact hok
            · intro r' _ _; rw [Region.write_eq]; exact metaL_set_data _ _ hr
            · simp only [hreg, hoff, hlen, hv']
            · intro _ _; rfl
          obtain ⟨hI', hview⟩ := Inv_write_set hI (h' := .mut arc (some r) off len cap orig)
            (bs := List.replicate (cap - len) b) (off := off + len) hi rfl rfl hr (by simp; omega) rfl rfl
            (spanSub_refl _) rfl hok' s.events
          rw [set_self hi] at hI'
          refine finish_ok hI' ?_
          show absL (s.regions.set r (rg.write (off + len) (List.replicate (cap - len) b))) s.hs = _
          rw [abs_eq]
          apply absL_congr
          intro j a hj
          by_cases hji : j = i
          · subst hji; rw [hi] at hj; cases hj
            simp only [viewOfL, hreg, hoff, hlen, hv']
          · exact hview j a hji hj
  · simp only [hg, sat_panic]; exact hpanic

/-! ## copyFromSlice -/

theorem step_copyFromSlice (cfg : Cfg) (e : Env) (bs : List Byte) (s : St) (hw : WFx s) :
    StepOKx cfg e (.copyFromSlice bs) s := by
  have hI := hw.inv
  unfold StepOKx
  simp only [step, bind_apply]
  rcases vecNew_cases e bs bs.length s with ⟨h0, heq⟩ | ⟨_, heq⟩ | ⟨h0, h1, _⟩
  · have hbs : bs = [] := by cases bs <;> simp_all
    subst hbs
    simp only [List.length_nil, vecNew_zero, bytesFromVec, if_true, pure_apply, newHandle_apply, sat_ok]
    refine finish_ok (Inv_push_plain_nospan hI (h' := .bytes .static none 0 0) rfl rfl
      (handleOKL_static.mpr (by simp [rdL_zero])) trivial
      (by intro r o l h; simp [span] at h) _) ?_
    simp [absL_push, viewOfL, hreg, hoff, hlen, rdL_zero, kindOf, Spec.stepOk, abs_eq]
  · simp only [heq, sat_panic]; exact ⟨hw, rfl⟩
  · have heq := vecNew_eq' e bs h0 h1 s
    have hlive : isHeapLiveL (s.regions ++ [vecRegion bs bs.length (e.odd s.regions.length)])
        s.regions.length = true := by simp [isHeapLiveL_new, vecRegion]
    simp only [heq, bytesFromVec, if_true, h0, if_false, bind_apply,
      regionOdd_eq (s := ⟨s.regions ++ [vecRegion bs bs.length (e.odd s.regions.length)], s.ctrls, s.hs,
        s.owners, .alloc s.regions.length bs.length :: s.events⟩) hlive,
      pure_apply, newHandle_apply, sat_ok]
    have hrg := vecRegion_ok (bs := bs) (e.odd s.regions.length) h0 h1 (Nat.le_refl _)
    have hrd := rdL_vecRegion s.regions (bs := bs) (cap := bs.length) (e.odd s.regions.length) (Nat.le_refl _)
    obtain ⟨hI', hview⟩ := Inv_push_fresh hI (rg := vecRegion bs bs.length (e.odd s.regions.length))
      (h' := .bytes (.prom (regionOddL (s.regions ++ [vecRegion bs bs.length (e.odd s.regions.length)])
        s.regions.length) none) (some s.regions.length) 0 bs.length)
      hrg rfl rfl rfl rfl (by intro r o l h; simp [span] at h; omega)
      (handleOKL_promV.mpr ⟨⟨_, rfl, hlive, by simp [regionSizeL_new, vecRegion], rfl⟩, by simp [hrd]⟩)
      (.alloc s.regions.length bs.length :: s.events)
    refine finish_ok hI' ?_
    simp only
    rw [absL_push_of_view _ hview]
    simp [viewOfL, hreg, hoff, hlen, hrd, kindOf, Spec.stepOk, abs_eq]

/-! ## fromVec -/

theorem Spec_stepOk_fromVec {a : Spec.St} {i : Nat} {x : SH} (h : Spec.get a i = some x) (v : Val) :
    Spec.stepOk (.fromVec i) v a = a.set i (some ⟨.bytes, x.val⟩) := by
  simp [Spec.stepOk, h, Spec.setAt]

theorem step_fromVec (cfg : Cfg) (e : Env) (i : Nat) (s : St) (hw : WFx s) :
    StepOKx cfg e (.fromVec i) s := by
  have hI := hw.inv
  unfold StepOKx
  simp only [step, bind_apply]
  have hpanic : WFx s ∧ abs s = Spec.stepPanic (.fromVec i) (abs s) := ⟨hw, rfl⟩
  rcases getHandle_cases s i with ⟨h, hi, hg⟩ | ⟨hn, hg⟩
  · simp only [hg]
    obtain ⟨v, hv, hvl⟩ := hI.view hi
    have hspec : ∀ x, Spec.stepOk (.fromVec i) x (abs s) =
        (absL s.regions s.hs).set i (some ⟨.bytes, v⟩) := by
      intro x; rw [abs_eq]; exact Spec_stepOk_fromVec (Spec_get_absL hi hv) x
    simp only [hspec]
    cases h with
    | bytes repr reg off len => simp only [panic_apply, sat_panic]; exact hpanic
    | «mut» arc reg off len cap orig => simp only [panic_apply, sat_panic]; exact hpanic
    | vec reg len cap =>
      simp only [viewOfL, hreg, hoff, hlen] at hv hvl
      have hok := hI.hok i _ hi
      obtain ⟨hlc, hregc, hrd⟩ := handleOKL_vec.mp hok
      -- `abs` of the result, for any replacement `Bytes` handle with the same view
      have habs : ∀ (repr : BRepr) (R : List Region), R = s.regions →
          absL R (s.hs.set i (some (.bytes repr reg 0 len))) =
            (absL s.regions s.hs).set i (some ⟨.bytes, v⟩) := by
        intro repr R hR; subst hR
        rw [absL_set_of_view _ (fun _ _ _ _ => rfl)]
        simp [viewOfL, hreg, hoff, hlen, hv, kindOf]
      simp only [bind_apply, bytesFromVec]
      by_cases hlc' : len = cap
      · subst hlc'
        simp only [if_true]
        by_cases hl0 : len = 0
        · subst hl0
          have hreg0 : reg = none := by
            cases reg with
            | none => rfl
            | some r =>
              simp only at hregc
              exact (heap_size_pos hI.regs hregc.1 hregc.2.symm).elim
          subst hreg0
          simp only [if_true, pure_apply, setHandle_apply, sat_ok]
          refine finish_ok (Inv_set_sub hI hi (h' := .bytes .static none 0 0) rfl rfl
            (handleOKL_static.mpr (by simp [rdL_zero])) trivial
            (by intro r o l h; simp [span] at h) (by simp [isMutable]) _) ?_
          exact habs _ _ rfl
        · simp only [hl0, if_false, bind_apply]
          cases reg with
          | none => simp only at hregc; exact (hl0 hregc).elim
          | some r =>
            simp only at hregc
            simp only [regionOdd_eq hregc.1, pure_apply, setHandle_apply, sat_ok]
            refine finish_ok (Inv_set_sub hI hi
              (h' := .bytes (.prom (regionOddL s.regions r) none) (some r) 0 len) rfl rfl
              (handleOKL_promV.mpr ⟨⟨r, rfl, hregc.1, by omega, rfl⟩, hrd⟩) trivial
              (by intro r' o l h _; simp [span] at h; obtain ⟨rfl, rfl, rfl⟩ := h
                  exact ⟨_, _, rfl, Nat.le_refl _, Nat.le_refl _⟩)
              (by simp [isMutable]) _) ?_
            exact habs _ _ rfl
      · simp only [hlc', if_false]
        cases reg with
        | none => simp only at hregc; omega
        | some r =>
          simp only at hregc
          simp only [bind_apply, newCtrl_apply, pure_apply, setHandle_apply, sat_ok]
          have hlc2 : liveCtrlL (s.ctrls ++ [⟨.sharedB r cap, 1, true⟩]) s.ctrls.length =
              some (.sharedB r cap) := by simp [liveCtrlL_new]
          refine finish_ok (Inv_promote hI hi (h' := .bytes (.shared s.ctrls.length) (some r) 0 len)
            (ct := .sharedB r cap) rfl rfl rfl
            (by intro r' o l h _; simp [span] at h; obtain ⟨rfl, rfl, rfl⟩ := h
                exact ⟨_, _, rfl, Nat.le_refl _, by omega⟩)
            (by simp [isMutable])
            (handleOKL_shared.mpr ⟨⟨r, cap, hlc2, rfl, by omega⟩, hrd⟩)
            ⟨hregc.1, hregc.2.symm⟩ (by intro o h; cases h) _) ?_
          exact habs _ _ rfl
  · simp only [hg, sat_panic]; exact hpanic

/-! ## new transitions: non-heap regions, `owned` control blocks -/

theorem ctrlBufOK_append {R : List Region} {ow ow' : Nat} {ct : Ctrl} (X : List Region)
    (h : ctrlBufOK R ow ct) (hle : ow ≤ ow') : ctrlBufOK (R ++ X) ow' ct := by
  cases ct with
  | sharedB r cap =>
    simp only [ctrlBufOK] at h ⊢
    have := isHeapLiveL_lt h.1
    rw [isHeapLiveL_append _ this, regionSizeL_append _ this]; exact h
  | sharedV reg vlen vcap orig =>
    cases reg with
    | none => exact h
    | some r =>
      simp only [ctrlBufOK] at h ⊢
      have := isHeapLiveL_lt h.1
      rw [isHeapLiveL_append _ this, regionSizeL_append _ this]; exact h
  | owned o => simp only [ctrlBufOK] at h ⊢; omega

theorem ctrlBufOK_owners {R : List Region} {ow ow' : Nat} {ct : Ctrl}
    (h : ctrlBufOK R ow ct) (hle : ow ≤ ow') : ctrlBufOK R ow' ct := by
  have := ctrlBufOK_append [] h hle
  simpa using this

theorem statOK_append {R : List Region} {b : Handle} (X : List Region) (h : statOK R b) :
    statOK (R ++ X) b := by
  cases b with
  | bytes repr reg off len =>
    cases repr with
    | «static» =>
      cases reg with
      | none => trivial
      | some r =>
        intro hl
        have h5 := h hl
        have : r < R.length := by
          simp only [kindL] at h5
          cases hr : R[r]? with
          | none => simp [hr] at h5
          | some x => exact lookup_lt hr
        show kindL (R ++ X) r = _
        rw [kindL_append _ this]; exact h5
    | _ => trivial
  | _ => trivial

/-- append a region that is not heap memory (static data, memory behind an owner); nobody refers to
it yet -/
theorem Inv_append_region {s : St} (hI : Inv s) {rg : Region} (hrg : regionOKB rg = true)
    (hk : ∀ o, rg.kind ≠ .heap o) (ev : List Ev) :
    Inv ⟨s.regions ++ [rg], s.ctrls, s.hs, s.owners, ev⟩ ∧
    ∀ (j : Nat) (b : Handle), s.hs[j]? = some (some b) →
      viewOfL (s.regions ++ [rg]) b = viewOfL s.regions b := by
  have hview : ∀ (j : Nat) (b : Handle), s.hs[j]? = some (some b) →
      viewOfL (s.regions ++ [rg]) b = viewOfL s.regions b := by
    intro j b hj
    obtain ⟨v, hv, _⟩ := hI.view hj
    rw [hv]; exact rdL_append _ hv
  refine ⟨?_, hview⟩
  constructor
  · intro r rg' hr
    by_cases hrl : r < s.regions.length
    · rw [lookup_append_left _ hrl] at hr; exact hI.regs r rg' hr
    · have := lookup_lt hr; simp at this
      have : r = s.regions.length := by omega
      subst this; rw [lookup_append_new] at hr; cases hr; exact hrg
  · intro j b hj
    have := handleOKL_append (C := s.ctrls) [rg] [] (hI.hok j b hj)
    simpa using this
  · intro c e he hl
    obtain ⟨h1, h2, h3⟩ := hI.cok c e he hl
    exact ⟨h1, h2, ctrlBufOK_append _ h3 (Nat.le_refl _)⟩
  · intro r hr
    simp only [List.length_append, List.length_singleton] at hr
    by_cases hrl : r < s.regions.length
    · show _ = if isHeapLiveL (s.regions ++ [rg]) r = true then 1 else 0
      rw [isHeapLiveL_append _ hrl]; exact hI.own r hrl
    · have : r = s.regions.length := by omega
      subst this
      have hnl : isHeapLiveL (s.regions ++ [rg]) s.regions.length = false := by
        rw [isHeapLiveL_new]
        cases hkk : rg.kind with
        | heap o => exact (hk o hkk).elim
        | _ => simp
      show dirCountL s.hs _ + ctrlCountL s.ctrls _ = if isHeapLiveL (s.regions ++ [rg]) _ = true then 1 else 0
      simp [hI.dir_fresh (Nat.le_refl _), hI.ctrl_fresh (Nat.le_refl _), hnl]
  · exact hI.excl
  · apply stat_of_statOK
    intro j b hj; exact statOK_append _ (hI.statOK hj)
  · exact hI.odist

/-- `Bytes::from_owner`: a fresh owner `s.owners`, a fresh `owned` control block with count 1 and the
handle naming it -/
theorem Inv_push_owned {s : St} (hI : Inv s) {reg : Option Nat} {off len : Nat}
    (ok : handleOKL s.regions (s.ctrls ++ [⟨.owned s.owners, 1, true⟩])
      (.bytes (.owned s.ctrls.length) reg off len) = true)
    (hex : ∀ (j : Nat) (b : Handle), s.hs[j]? = some (some b) → isMutable b = true →
      disjointB b (.bytes (.owned s.ctrls.length) reg off len) = true) (ev : List Ev) :
    Inv ⟨s.regions, s.ctrls ++ [⟨.owned s.owners, 1, true⟩],
      s.hs ++ [some (.bytes (.owned s.ctrls.length) reg off len)], s.owners + 1, ev⟩ := by
  constructor
  · exact hI.regs
  · intro j b hj
    rcases hs_push_cases hj with ⟨_, h3⟩ | ⟨_, hj'⟩
    · cases h3; exact ok
    · have := handleOKL_append (R := s.regions) [] [⟨.owned s.owners, 1, true⟩] (hI.hok j b hj')
      simpa using this
  · intro c e' he hl
    simp only [refCountL_push, ctrlOf, Option.some.injEq]
    by_cases hcl : c < s.ctrls.length
    · rw [lookup_append_left _ hcl] at he
      have : s.ctrls.length ≠ c := by omega
      simp only [this, if_false, Nat.add_zero]
      obtain ⟨h1, h2, h3⟩ := hI.cok c e' he hl
      exact ⟨h1, h2, ctrlBufOK_owners h3 (Nat.le_succ _)⟩
    · have hcc : c = s.ctrls.length := by
        have := lookup_lt he; simp at this; omega
      subst hcc
      rw [lookup_append_new] at he; cases he
      simp only [if_true, hI.ref_fresh (Nat.le_refl _)]
      exact ⟨trivial, Nat.le_refl _, Nat.lt_succ_self _⟩
  · intro r hr
    have := hI.own r hr
    simp only [dirCountL_push, directRegion, ctrlCountL_push, ctrlRegion]
    simpa using this
  · apply Excl_push hI.excl
    intro j b hj
    exact ⟨hex j b hj, fun hm => by simp [isMutable] at hm⟩
  · apply stat_of_statOK
    intro j b hj
    rcases hs_push_cases hj with ⟨_, h3⟩ | ⟨_, hj'⟩
    · cases h3; trivial
    · exact hI.statOK hj'
  · intro c1 c2 o h1 h2
    have key : ∀ c, liveCtrlL (s.ctrls ++ [⟨.owned s.owners, 1, true⟩]) c = some (.owned o) →
        (c < s.ctrls.length ∧ liveCtrlL s.ctrls c = some (.owned o) ∧ o < s.owners) ∨
        (c = s.ctrls.length ∧ o = s.owners) := by
      intro c hcc
      by_cases hcl : c < s.ctrls.length
      · rw [liveCtrlL_append _ hcl] at hcc
        obtain ⟨_, _, _, _, _, _, hb⟩ := hI.cok' hcc
        exact .inl ⟨hcl, hcc, hb⟩
      · have := liveCtrlL_lt hcc; simp at this
        have hcc' : c = s.ctrls.length := by omega
        subst hcc'
        rw [liveCtrlL_new] at hcc; simp at hcc
        exact .inr ⟨rfl, hcc.symm⟩
    rcases key c1 h1 with ⟨_, a1, b1⟩ | ⟨a1, b1⟩ <;> rcases key c2 h2 with ⟨_, a2, b2⟩ | ⟨a2, b2⟩
    · exact hI.odist c1 c2 o a1 a2
    · omega
    · omega
    · omega

/-- a trailing empty slot can be forgotten -/
theorem Inv_pop_none {R : List Region} {C : List CtrlE} {hs : List (Option Handle)} {ow : Nat}
    {ev : List Ev} (hI : Inv ⟨R, C, hs ++ [none], ow, ev⟩) (ev' : List Ev) :
    Inv ⟨R, C, hs, ow, ev'⟩ := by
  have hlk : ∀ (j : Nat) (b : Handle), hs[j]? = some (some b) → (hs ++ [none])[j]? = some (some b) :=
    fun j b hj => lookup_append_of_some _ hj
  have hrc : ∀ c, refCountL (hs ++ [none]) c = refCountL hs c := by
    intro c; simp [refCountL, liveHs, List.filterMap_append]
  have hdc : ∀ r, dirCountL (hs ++ [none]) r = dirCountL hs r := by
    intro r; simp [dirCountL, liveHs, List.filterMap_append]
  constructor
  · exact hI.regs
  · intro j b hj; exact hI.hok j b (hlk j b hj)
  · intro c e he hl
    have := hI.cok c e he hl
    simp only [hrc] at this; exact this
  · intro r hr
    have := hI.own r hr
    simp only [hdc] at this; exact this
  · intro j k a b hj hk hjk hm; exact hI.excl j k a b (hlk _ _ hj) (hlk _ _ hk) hjk hm
  · intro j r off len hj hl; exact hI.stat j r off len (hlk _ _ hj) hl
  · exact hI.odist

theorem rdL_new_region (R : List Region) (bs : List Byte) (k : RKind) :
    rdL (R ++ [⟨bs.length, bs.map some, true, k⟩]) (some R.length) 0 bs.length = some bs := by
  apply rdL_some_of (lookup_append_new _ _) rfl (by simp)
  show List.take bs.length (List.drop 0 (bs.map some)) = bs.map some
  rw [List.drop_zero]; exact List.take_of_length_le (by simp)

/-- a handle on a freshly appended region is disjoint from every existing handle -/
theorem disjointB_fresh_region {s : St} (hI : Inv s) {j : Nat} {b h' : Handle}
    (hj : s.hs[j]? = some (some b))
    (hsp : ∀ r o l, span h' = some (r, o, l) → s.regions.length ≤ r) :
    disjointB b h' = true := by
  rw [disjointB_iff]
  intro r o l r' o' l' h1 h2
  by_cases hl0 : l = 0
  · exact .inr (.inl hl0)
  · have := hI.span_lt hj h1 hl0
    have := hsp r' o' l' h2
    left; omega

/-! ## fromStatic

`regionOKB` bounds the size of *every* region by `isizeMax`, and `step (.fromStatic bs)` appends a
region of size `bs.length` unconditionally: the statement needs `bs.length ≤ isizeMax` (true of every
Rust slice).  Without it it is false, see `fromStatic_false` / `step_fromStatic_refuted` below. -/

theorem Inv_push_static {s : St} (hI : Inv s) {bs : List Byte} (hbs : bs.length ≤ isizeMax) (ev : List Ev) :
    Inv ⟨s.regions ++ [⟨bs.length, bs.map some, true, .static⟩], s.ctrls,
      s.hs ++ [some (.bytes .static (some s.regions.length) 0 bs.length)], s.owners, ev⟩ ∧
    (∀ (j : Nat) (b : Handle), s.hs[j]? = some (some b) →
      viewOfL (s.regions ++ [⟨bs.length, bs.map some, true, .static⟩]) b = viewOfL s.regions b) ∧
    rdL (s.regions ++ [⟨bs.length, bs.map some, true, .static⟩]) (some s.regions.length) 0 bs.length =
      some bs := by
  obtain ⟨hI1, hview⟩ := Inv_append_region hI (rg := ⟨bs.length, bs.map some, true, .static⟩)
    (by simp [regionOKB, hbs]) (by intro o h; cases h) ev
  have hrd : rdL (s.regions ++ [⟨bs.length, bs.map some, true, .static⟩]) (some s.regions.length) 0
      bs.length = some bs :=
      rdL_new_region _ _ _
  refine ⟨?_, hview, hrd⟩
  refine Inv_push_plain hI1 (h' := .bytes .static (some s.regions.length) 0 bs.length) rfl rfl
    (handleOKL_static.mpr (by simp [hrd])) (by intro _; simp [kindL_new]) ?_ ev
  intro j b hj
  have key : disjointB b (.bytes .static (some s.regions.length) 0 bs.length) = true :=
    disjointB_fresh_region hI hj (by intro r o l h; simp [span] at h; omega)
  exact ⟨fun _ => key, fun _ => by rw [disjointB_symm]; exact key⟩

theorem step_fromStatic (cfg : Cfg) (e : Env) (bs : List Byte) (hbs : bs.length ≤ isizeMax) (s : St)
    (hw : WFx s) : StepOKx cfg e (.fromStatic bs) s := by
  have hI := hw.inv
  unfold StepOKx
  simp only [step]
  by_cases hb : bs = []
  · subst hb
    simp only [if_true, bind_apply, newHandle_apply, pure_apply, sat_ok, List.length_nil]
    refine finish_ok (Inv_push_plain_nospan hI (h' := .bytes .static none 0 0) rfl rfl
      (handleOKL_static.mpr (by simp [rdL_zero])) trivial
      (by intro r o l h; simp [span] at h) _) ?_
    simp [absL_push, viewOfL, hreg, hoff, hlen, rdL_zero, kindOf, Spec.stepOk, abs_eq]
  · simp only [hb, if_false, bind_apply, newHandle_apply, pure_apply, sat_ok]
    obtain ⟨hI', hview, hrd⟩ := Inv_push_static hI hbs s.events
    refine finish_ok hI' ?_
    simp only
    rw [absL_push_of_view _ hview]
    simp [viewOfL, hreg, hoff, hlen, hrd, kindOf, Spec.stepOk, abs_eq]

/-- without the size bound the operation breaks W1 -/
theorem fromStatic_false (cfg : Cfg) (e : Env) (bs : List Byte) (hbig : isizeMax < bs.length) (s : St) :
    ¬ StepOKx cfg e (.fromStatic bs) s := by
  intro h
  have hne : bs ≠ [] := by intro h0; subst h0; simp at hbig
  unfold StepOKx at h
  simp only [step, hne, if_false, bind_apply, newHandle_apply, pure_apply, sat_ok] at h
  have := h.1.inv.regs s.regions.length _ (lookup_append_new _ _)
  simp [regionOKB] at this; omega

theorem step_fromStatic_refuted (cfg : Cfg) (e : Env) :
    ¬ ∀ (bs : List Byte) (s : St), WFx s → StepOKx cfg e (.fromStatic bs) s := by
  intro h
  exact fromStatic_false cfg e (List.replicate (isizeMax + 1) 0) (by simp) {} (h _ _ WFx_init)

/-! ## fromOwner (same size caveat as `fromStatic`) -/

theorem step_fromOwner (cfg : Cfg) (e : Env) (bs : List Byte) (asRefPanics : Bool)
    (hbs : bs.length ≤ isizeMax) (s : St) (hw : WFx s) :
    StepOKx cfg e (.fromOwner bs asRefPanics) s := by
  have hI := hw.inv
  unfold StepOKx
  simp only [step, bind_apply, get_apply, modify_apply, newCtrl_apply, emit_apply]
  have hlc : liveCtrlL (s.ctrls ++ [⟨.owned s.owners, 1, true⟩]) s.ctrls.length =
      some (.owned s.owners) := by simp [liveCtrlL_new]
  -- the empty handle `ret` that exists while `as_ref` runs
  have hbase : ∀ ev, Inv ⟨s.regions, s.ctrls ++ [⟨.owned s.owners, 1, true⟩],
      s.hs ++ [some (.bytes (.owned s.ctrls.length) none 0 0)], s.owners + 1, ev⟩ := fun ev =>
    Inv_push_owned hI (handleOKL_owned.mpr ⟨⟨_, hlc, .inl rfl⟩, by simp [rdL_zero]⟩)
      (fun j b hj _ => disjointB_of_span_none_right rfl) ev
  cases asRefPanics with
  | true =>
    simp only [if_true, bind_apply]
    obtain ⟨ev, heq⟩ := releaseCtrl_last
      (s := ⟨s.regions, s.ctrls ++ [⟨.owned s.owners, 1, true⟩], s.hs, s.owners + 1,
        .ownerAsRef s.owners :: .allocCtrl s.ctrls.length :: s.events⟩)
      (c := s.ctrls.length) (e := ⟨.owned s.owners, 1, true⟩) (lookup_append_new _ _) rfl rfl
      (Nat.lt_succ_self _) hI.regs
    simp only [heq, panic_apply, sat_panic]
    obtain ⟨hI2, hview⟩ := Inv_kill_last (hbase s.events) (i := s.hs.length)
      (h := .bytes (.owned s.ctrls.length) none 0 0) (c := s.ctrls.length)
      (e := ⟨.owned s.owners, 1, true⟩) (lookup_append_new _ _) rfl (lookup_append_new _ _) rfl rfl ev
    simp only [list_set_append_length] at hI2 ⊢
    refine finish_ok (Inv_pop_none hI2 ev) ?_
    show absL (freeBuf s.regions (.owned s.owners)) s.hs = Spec.stepPanic _ (abs s)
    rw [abs_eq]
    apply absL_congr
    intro j a hj
    exact hview j a (by have := lookup_lt hj; omega) (lookup_append_of_some _ hj)
  | false =>
    simp only [Bool.false_eq_true, if_false, bind_apply, get_apply]
    by_cases hb : bs = []
    · subst hb
      simp only [if_true, bind_apply, newHandle_apply, pure_apply, sat_ok, List.length_nil]
      refine finish_ok (hbase _) ?_
      simp [absL_push, viewOfL, hreg, hoff, hlen, rdL_zero, kindOf, Spec.stepOk, abs_eq]
    · simp only [hb, if_false, bind_apply, modify_apply, newHandle_apply, pure_apply, sat_ok]
      obtain ⟨hI1, hview⟩ := Inv_append_region hI (rg := ⟨bs.length, bs.map some, true, .ownerMem s.owners⟩)
        (by simp [regionOKB, hbs]) (by intro o h; cases h) s.events
      have hrd : rdL (s.regions ++ [⟨bs.length, bs.map some, true, .ownerMem s.owners⟩])
          (some s.regions.length) 0 bs.length = some bs :=
      rdL_new_region _ _ _
      have hI2 := Inv_push_owned hI1 (reg := some s.regions.length) (off := 0) (len := bs.length)
        (handleOKL_owned.mpr ⟨⟨_, hlc, .inr ⟨_, rfl, by simp [kindL_new]⟩⟩, by simp [hrd]⟩)
        (fun j b hj _ => disjointB_fresh_region hI hj (by intro r o l h; simp [span] at h; omega))
        (.ownerAsRef s.owners :: .allocCtrl s.ctrls.length :: s.events)
      refine finish_ok hI2 ?_
      simp only
      rw [absL_push_of_view _ hview]
      simp [viewOfL, hreg, hoff, hlen, hrd, kindOf, Spec.stepOk, abs_eq]

theorem fromOwner_false (cfg : Cfg) (e : Env) (bs : List Byte) (hbig : isizeMax < bs.length) (s : St) :
    ¬ StepOKx cfg e (.fromOwner bs false) s := by
  intro h
  have hne : bs ≠ [] := by intro h0; subst h0; simp at hbig
  unfold StepOKx at h
  simp only [step, hne, if_false, bind_apply, newHandle_apply, pure_apply, sat_ok, get_apply, modify_apply,
    newCtrl_apply, emit_apply, Bool.false_eq_true] at h
  have := h.1.inv.regs s.regions.length _ (lookup_append_new _ _)
  simp [regionOKB] at this; omega

theorem step_fromOwner_refuted (cfg : Cfg) (e : Env) :
    ¬ ∀ (bs : List Byte) (p : Bool) (s : St), WFx s → StepOKx cfg e (.fromOwner bs p) s := by
  intro h
  exact fromOwner_false cfg e (List.replicate (isizeMax + 1) 0) (by simp) {} (h _ _ _ WFx_init)

end OpsA
end BytesVerif.Core
