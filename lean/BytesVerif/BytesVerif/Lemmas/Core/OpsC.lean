/-
Group C — conversions: `Op.freeze`, `Op.intoVec`, `Op.intoMut`, `Op.tryIntoMut`.
-/
import BytesVerif.Lemmas.Core.OpsPilot
set_option linter.unusedVariables false
namespace BytesVerif.Core
namespace OpsC

/-! ## reference model -/

theorem Spec_stepOk_freeze {a : Spec.St} {i : Nat} {x : SH} (h : Spec.get a i = some x) (v : Val) :
    Spec.stepOk (.freeze i) v a = a.set i (some ⟨.bytes, x.val⟩) := by
  simp [Spec.stepOk, h, Spec.setAt]

theorem Spec_stepOk_intoVec {a : Spec.St} {i : Nat} {x : SH} (h : Spec.get a i = some x) (v : Val) :
    Spec.stepOk (.intoVec i) v a = a.set i (some ⟨.vec, x.val⟩) := by
  simp [Spec.stepOk, h, Spec.setAt]

theorem Spec_stepOk_intoMut {a : Spec.St} {i : Nat} {x : SH} (h : Spec.get a i = some x) (v : Val) :
    Spec.stepOk (.intoMut i) v a = a.set i (some ⟨.mut, x.val⟩) := by
  simp [Spec.stepOk, h, Spec.setAt]

theorem Spec_stepOk_tryIntoMut_handle {a : Spec.St} {i : Nat} {x : SH} (h : Spec.get a i = some x)
    (j : Nat) : Spec.stepOk (.tryIntoMut i) (.handle j) a = a.set i (some ⟨.mut, x.val⟩) := by
  simp [Spec.stepOk, h, Spec.setAt]

theorem Spec_stepOk_tryIntoMut_err (a : Spec.St) (i j : Nat) :
    Spec.stepOk (.tryIntoMut i) (.err j) a = a := rfl

/-! ## small span facts -/

theorem spanSub_bytes_of_mut {repr : BRepr} {arc reg : Option Nat} {off len cap orig o l : Nat}
    (h1 : off ≤ o) (h2 : o + l ≤ off + cap) :
    spanSub (.bytes repr reg o l) (.mut arc reg off len cap orig) := by
  intro r o' l' h hl
  cases reg with
  | none => simp [span] at h
  | some r' =>
    simp only [span, Option.some.injEq, Prod.mk.injEq] at h
    obtain ⟨rfl, rfl, rfl⟩ := h
    exact ⟨off, cap, rfl, h1, h2⟩

/-! ## sole ownership: generic replacement of a handle that is the only one anchored in some regions -/

/-- `R'` agrees with `R` outside the regions in `P`, and everywhere in size / liveness / kind -/
structure MetaEq (R R' : List Region) (P : Nat → Prop) : Prop where
  len : R'.length = R.length
  out : ∀ r, ¬ P r → R'[r]? = R[r]?
  mt : ∀ r, metaL R' r = metaL R r
  regs : ∀ (r : Nat) (rg : Region), R'[r]? = some rg → regionOKB rg = true

theorem MetaEq.refl {R : List Region} (hR : ∀ (r : Nat) (rg : Region), R[r]? = some rg → regionOKB rg = true)
    (P : Nat → Prop) : MetaEq R R P :=
  ⟨rfl, fun _ _ => rfl, fun _ => rfl, hR⟩

/-- writing inside region `r` -/
theorem MetaEq.write {R : List Region}
    (hR : ∀ (r : Nat) (rg : Region), R[r]? = some rg → regionOKB rg = true)
    {r : Nat} {rg : Region} (hr : R[r]? = some rg) {off : Nat} {bs : List Byte}
    (hb : off + bs.length ≤ rg.size) : MetaEq R (R.set r (rg.write off bs)) (fun r' => r' = r) := by
  have hdl := (region_size_le hR hr).2
  refine ⟨by simp, fun r' h => lookup_set_ne _ (Ne.symm h), fun r' => metaL_set_data _ r' hr, ?_⟩
  intro r' rg' hr'
  by_cases hrr : r = r'
  · subst hrr; rw [lookup_set_eq _ hr] at hr'; cases hr'
    have := hR r rg hr
    simp only [regionOKB, Bool.and_eq_true, beq_iff_eq, decide_eq_true_eq] at this ⊢
    refine ⟨⟨?_, this.1.2⟩, this.2⟩
    rw [Region.write_data, Region.write_size, ← List.length_map (f := some) (as := bs),
      write_length _ _ _ (by simp; omega)]
    exact this.1.1
  · rw [lookup_set_ne _ hrr] at hr'; exact hR r' rg' hr'

theorem ctrlBufOK_meta {R R' : List Region} (hm : ∀ r, metaL R' r = metaL R r) {ow : Nat} {ct : Ctrl}
    (h : ctrlBufOK R ow ct) : ctrlBufOK R' ow ct := by
  cases ct with
  | sharedB r cap =>
    simp only [ctrlBufOK] at h ⊢
    rw [isHeapLiveL_of_meta (hm r), regionSizeL_of_meta (hm r)]; exact h
  | sharedV reg vlen vcap orig =>
    cases reg with
    | none => exact h
    | some r =>
      simp only [ctrlBufOK] at h ⊢
      rw [isHeapLiveL_of_meta (hm r), regionSizeL_of_meta (hm r)]; exact h
  | owned o => exact h

theorem statOK_meta {R R' : List Region} (hm : ∀ r, metaL R' r = metaL R r) {b : Handle}
    (h : statOK R b) : statOK R' b := by
  cases b with
  | bytes repr reg off len =>
    cases repr with
    | «static» =>
      cases reg with
      | none => trivial
      | some r => intro hl; show kindL R' r = _; rw [kindL_of_meta (hm r)]; exact h hl
    | _ => trivial
  | _ => trivial

/-- Generic "replace slot `i`, possibly rewriting the contents of regions in which no other handle is
anchored, possibly changing control blocks no other handle names".  The counting obligations
(`hcok`, `hown`, `hod`) are left to the instances. -/
theorem Inv_sole_gen {s : St} (hI : Inv s) {i : Nat} {h h' : Handle} (hi : s.hs[i]? = some (some h))
    {R' : List Region} {C' : List CtrlE} {P : Nat → Prop}
    (hR : MetaEq s.regions R' P)
    (hsole : ∀ r, P r → ∀ (j : Nat) (b : Handle), j ≠ i → s.hs[j]? = some (some b) →
      ¬ Anchor s.regions s.ctrls b r)
    (hCo : ∀ (j : Nat) (b : Handle), j ≠ i → s.hs[j]? = some (some b) →
      ∀ c, ctrlOf b = some c → liveCtrlL C' c = liveCtrlL s.ctrls c)
    (hcok : ∀ (c : Nat) (e' : CtrlE), C'[c]? = some e' → e'.live = true →
      e'.rc = refCountL (s.hs.set i (some h')) c ∧ 1 ≤ e'.rc ∧ ctrlBufOK R' s.owners e'.c)
    (hown : ∀ r, r < s.regions.length →
      dirCountL (s.hs.set i (some h')) r + ctrlCountL C' r = if isHeapLiveL R' r = true then 1 else 0)
    (hod : ∀ (c : Nat) (ct : Ctrl), liveCtrlL C' c = some ct → liveCtrlL s.ctrls c = some ct)
    (ok : handleOKL R' C' h' = true) (st : statOK R' h')
    (hsp : ∀ r o l, span h' = some (r, o, l) → l ≠ 0 → P r)
    (ev : List Ev) :
    Inv ⟨R', C', s.hs.set i (some h'), s.owners, ev⟩ ∧
    ∀ (j : Nat) (b : Handle), j ≠ i → s.hs[j]? = some (some b) → viewOfL R' b = viewOfL s.regions b := by
  have hlk : ∀ (j : Nat) (b : Handle), j ≠ i → s.hs[j]? = some (some b) →
      ∀ r, hreg b = some r → (usesMeta b = true ∨ hlen b ≠ 0) → R'[r]? = s.regions[r]? :=
    fun j b hji hj r h1 h2 => hR.out r (fun hp => hsole r hp j b hji hj (hI.anchor hj h1 h2))
  have hview : ∀ (j : Nat) (b : Handle), j ≠ i → s.hs[j]? = some (some b) →
      viewOfL R' b = viewOfL s.regions b :=
    fun j b hji hj => viewOfL_of_lookup (fun r h1 h2 => hlk j b hji hj r h1 (.inr h2))
  refine ⟨?_, hview⟩
  constructor
  · exact hR.regs
  · intro j b hj
    rcases hs_set_cases hj with ⟨_, h3, _⟩ | ⟨hji, hj'⟩
    · cases h3; exact ok
    · show handleOKL R' C' b = true
      rw [handleOKL_of_lookup (R := s.regions) (C := s.ctrls) (hlk j b hji hj') (hCo j b hji hj')]
      exact hI.hok j b hj'
  · exact hcok
  · intro r hr; exact hown r (by simpa [hR.len] using hr)
  · apply Excl_set hI.excl
    intro j b hji hj
    have key : disjointB b h' = true := by
      rw [disjointB_iff]
      intro r o l r' o' l' h1 h2
      by_cases hl0 : l = 0
      · exact .inr (.inl hl0)
      by_cases hl0' : l' = 0
      · exact .inr (.inr (.inl hl0'))
      left
      rintro rfl
      exact hsole r (hsp r o' l' h2 hl0') j b hji hj (hI.anchor_span hj h1 hl0)
    exact ⟨fun _ => key, fun _ => by rw [disjointB_symm]; exact key⟩
  · apply stat_of_statOK
    intro j b hj
    rcases hs_set_cases hj with ⟨_, h3, _⟩ | ⟨_, hj'⟩
    · cases h3; exact st
    · exact statOK_meta hR.mt (hI.statOK hj')
  · intro c1 c2 o h1 h2; exact hI.odist c1 c2 o (hod _ _ h1) (hod _ _ h2)

/-- the handle in slot `i` is the only one anchored in the regions `P`; it is replaced by a handle with
the same resources whose span lies in `P`; the contents of the regions in `P` may change. -/
theorem Inv_sole_set {s : St} (hI : Inv s) {i : Nat} {h h' : Handle} (hi : s.hs[i]? = some (some h))
    {R' : List Region} {P : Nat → Prop} (hR : MetaEq s.regions R' P)
    (hsole : ∀ r, P r → ∀ (j : Nat) (b : Handle), j ≠ i → s.hs[j]? = some (some b) →
      ¬ Anchor s.regions s.ctrls b r)
    (hc : ctrlOf h' = ctrlOf h) (hd : directRegion h' = directRegion h)
    (ok : handleOKL R' s.ctrls h' = true) (st : statOK R' h')
    (hsp : ∀ r o l, span h' = some (r, o, l) → l ≠ 0 → P r) (ev : List Ev) :
    Inv ⟨R', s.ctrls, s.hs.set i (some h'), s.owners, ev⟩ ∧
    ∀ (j : Nat) (b : Handle), j ≠ i → s.hs[j]? = some (some b) → viewOfL R' b = viewOfL s.regions b := by
  apply Inv_sole_gen hI hi hR hsole (fun _ _ _ _ _ _ => rfl) ?_ ?_ (fun _ _ h => h) ok st hsp
  · intro c e he hl
    obtain ⟨h1, h2, h3⟩ := hI.cok c e he hl
    exact ⟨by rw [refCountL_set_same hi hc]; exact h1, h2, ctrlBufOK_meta hR.mt h3⟩
  · intro r hr
    rw [dirCountL_set_same hi hd, isHeapLiveL_of_meta (hR.mt r)]; exact hI.own r hr

/-- "demote", the mirror image of `Inv_promote`: the handle in slot `i` holds the only reference to
control block `c`; the block is freed (`e'` is what is left of it) and hands its buffer over to the
replacement handle `h'`, which owns it directly (`takeSharedB`, `shared_v_to_vec`,
`From<BytesMut> for Vec<u8>`). -/
theorem Inv_demote {s : St} (hI : Inv s) {i : Nat} {h h' : Handle} {c : Nat} {e e' : CtrlE}
    (hi : s.hs[i]? = some (some h)) (hc : ctrlOf h = some c) (he : s.ctrls[c]? = some e)
    (hl : e.live = true) (h1 : e.rc = 1) (hdead : e'.live = false)
    (hc' : ctrlOf h' = none) (hd' : directRegion h' = ctrlRegion e.c)
    (ok : handleOKL s.regions (s.ctrls.set c e') h' = true) (st : statOK s.regions h')
    (hsp : ∀ r o l, span h' = some (r, o, l) → l ≠ 0 → ctrlRegion e.c = some r) (ev : List Ev) :
    Inv ⟨s.regions, s.ctrls.set c e', s.hs.set i (some h'), s.owners, ev⟩ := by
  obtain ⟨hrc, _, hbuf⟩ := hI.cok c e he hl
  have hrc1 : refCountL s.hs c = 1 := by omega
  have hother : ∀ (j : Nat) (b : Handle), j ≠ i → s.hs[j]? = some (some b) → ctrlOf b ≠ some c :=
    fun j b hji hj hcb => hji (refCountL_unique hrc1 hi hc hj hcb)
  have hdn : directRegion h = none := ctrlOf_some_direct_none hc
  refine (Inv_sole_gen hI hi (MetaEq.refl hI.regs (fun r => ctrlRegion e.c = some r))
    (fun r hp j b hji hj => hI.alone_ctrl hi hc he hl h1 hp hji hj) ?_ ?_ ?_ ?_ ok st hsp ev).1
  · intro j b hji hj c2 hc2
    exact liveCtrlL_set_ne _ (fun h => hother j b hji hj (h ▸ hc2))
  · intro c2 e2 he2 hl2
    by_cases hcc : c = c2
    · subst hcc; rw [lookup_set_eq _ he] at he2; cases he2; rw [hdead] at hl2; cases hl2
    · rw [lookup_set_ne _ hcc] at he2
      obtain ⟨k1, k2, k3⟩ := hI.cok c2 e2 he2 hl2
      have hk := refCountL_set_some h' c2 hi
      have : ctrlOf h ≠ some c2 := by rw [hc]; simpa using hcc
      simp only [this, if_false, hc', reduceCtorEq, Nat.add_zero] at hk
      exact ⟨by rw [hk]; exact k1, k2, k3⟩
  · intro r hr
    have hk := dirCountL_set_some h' r hi
    have hcs := ctrlCountL_set e' r he
    have ho := hI.own r hr
    simp only [hdn, reduceCtorEq, if_false, Nat.add_zero, hd'] at hk
    simp only [hl, hdead, Bool.true_and, Bool.false_and, Bool.false_eq_true, if_false, Nat.add_zero,
      beq_iff_eq] at hcs
    omega
  · intro c2 ct hct
    by_cases hcc : c = c2
    · subst hcc; rw [liveCtrlL_set_eq _ he, hdead] at hct; cases hct
    · rwa [liveCtrlL_set_ne _ hcc] at hct

/-! ## execution equations -/

theorem takeSharedB_eq {s : St} {c : Nat} {e : CtrlE} {r cap : Nat} (hc : s.ctrls[c]? = some e)
    (hl : e.live = true) (hct : e.c = .sharedB r cap) :
    takeSharedB c s = .ok (r, cap)
      { s with ctrls := s.ctrls.set c ⟨.sharedB r cap, 0, false⟩,
               events := .deallocCtrl c :: s.events } := by
  obtain ⟨ct, rc, live⟩ := e
  simp only at hl hct; subst hl hct
  have hc' : (s.ctrls.set c ⟨.sharedB r cap, 0, true⟩)[c]? = some ⟨.sharedB r cap, 0, true⟩ :=
    lookup_set_eq _ hc
  simp only [takeSharedB, bind_apply, getCtrl_eq hc rfl, setCtrl_apply, pure_apply]
  rw [freeCtrl_eq (c := c) (e := ⟨.sharedB r cap, 0, true⟩) hc' rfl]
  simp only [List.set_set]

/-- `ptr::copy(ptr, buf, len)` to the front of a live heap region -/
theorem copyFront_spec {s : St}
    (hR : ∀ (r : Nat) (rg : Region), s.regions[r]? = some rg → regionOKB rg = true)
    {r : Nat} {rg : Region} {k : Bool} {off len : Nat} {v : List Byte}
    (hr : s.regions[r]? = some rg) (hl : rg.live = true) (hk : rg.kind = .heap k)
    (hv : rdL s.regions (some r) off len = some v) :
    ∃ R', copyWithin (some r) off 0 len s = .ok () { s with regions := R' } ∧
      MetaEq s.regions R' (fun r' => r' = r) ∧ rdL R' (some r) 0 len = some v := by
  have hvl := rdL_length hR hv
  by_cases h0 : len = 0
  · subst h0
    have hv0 : v = [] := List.eq_nil_of_length_eq_zero hvl
    subst hv0
    exact ⟨s.regions, copyWithin_zero _ _ _ _, MetaEq.refl hR _, rdL_zero _ _ _⟩
  · rcases rdL_eq_some_iff.mp hv with ⟨h, _⟩ | ⟨_, r', rg', hr1, hr2, _, hb, _⟩
    · exact (h0 h).elim
    cases hr1; rw [hr] at hr2; cases hr2
    have hdl := (region_size_le hR hr).2
    refine ⟨_, copyWithin_eq h0 hv hvl hr hl (by omega) hk, MetaEq.write hR hr (by omega), ?_⟩
    have := rdL_write_same (R := s.regions) (off := 0) (bs := v) hr hl (by omega) hdl
    rwa [hvl] at this

/-! ## in-place conversions to `Vec` -/

/-- slot `i` owns region `r` directly; the view has been moved to the front of the region (`R'`); the
slot becomes the `Vec` made of the whole region -/
theorem Inv_sole_vec {s : St} (hI : Inv s) {i : Nat} {h : Handle} {r : Nat}
    (hi : s.hs[i]? = some (some h)) (hd : directRegion h = some r) {R' : List Region}
    (hM : MetaEq s.regions R' (fun r' => r' = r)) {len cap : Nat} {v : List Byte}
    (hrd : rdL R' (some r) 0 len = some v) (hlc : len ≤ cap) (hcap : cap = regionSizeL s.regions r)
    (ev : List Ev) :
    Inv ⟨R', s.ctrls, s.hs.set i (some (.vec (some r) len cap)), s.owners, ev⟩ ∧
    ∀ (j : Nat) (b : Handle), j ≠ i → s.hs[j]? = some (some b) → viewOfL R' b = viewOfL s.regions b := by
  have hlive := handleOKL_direct (hI.hok i h hi) hd
  apply Inv_sole_set hI hi hM (fun r' hp j b hji hj => hp ▸ hI.alone_direct hi hd hji hj)
  · rw [direct_some_ctrlOf_none hd]; rfl
  · rw [hd]; rfl
  · refine handleOKL_vec.mpr ⟨hlc, ⟨?_, ?_⟩, by simp [hrd]⟩
    · rw [isHeapLiveL_of_meta (hM.mt r)]; exact hlive
    · rw [regionSizeL_of_meta (hM.mt r)]; exact hcap
  · trivial
  · intro r' o l hs _
    simp only [span, Option.some.injEq, Prod.mk.injEq] at hs
    exact hs.1.symm

/-- the whole direct in-place path: `copyWithin (some r) off 0 len` then `setHandle i (.vec …)` -/
theorem vec_of_direct {s : St} (hI : Inv s) {i : Nat} {h : Handle} {r : Nat}
    (hi : s.hs[i]? = some (some h)) (hd : directRegion h = some r) {off len cap : Nat} {v : List Byte}
    (hv : rdL s.regions (some r) off len = some v) (hlc : len ≤ cap)
    (hcap : cap = regionSizeL s.regions r) :
    ∃ s1, copyWithin (some r) off 0 len s = .ok () s1 ∧
      WFx { s1 with hs := s1.hs.set i (some (.vec (some r) len cap)) } ∧
      abs { s1 with hs := s1.hs.set i (some (.vec (some r) len cap)) } =
        (absL s.regions s.hs).set i (some ⟨.vec, v⟩) := by
  have hlive := handleOKL_direct (hI.hok i h hi) hd
  obtain ⟨rg, k, hr, hl, hk⟩ := isHeapLiveL_iff.mp hlive
  obtain ⟨R', heq, hM, hrd⟩ := copyFront_spec hI.regs hr hl hk hv
  obtain ⟨hI', hview⟩ := Inv_sole_vec hI hi hd hM hrd hlc hcap s.events
  refine ⟨_, heq, finish_ok hI' ?_⟩
  show absL R' _ = _
  rw [absL_set_of_view (R := s.regions) _ hview]
  simp [viewOfL, hreg, hoff, hlen, hrd, kindOf]

/-- `shared_to_vec_impl`, unique branch -/
theorem vec_of_sharedB {s : St} (hI : Inv s) {i : Nat} {h : Handle} {c : Nat} {e : CtrlE} {r cap : Nat}
    (hi : s.hs[i]? = some (some h)) (hc : ctrlOf h = some c) (he : s.ctrls[c]? = some e)
    (hl : e.live = true) (h1 : e.rc = 1) (hct : e.c = .sharedB r cap) {off len : Nat} {v : List Byte}
    (hv : rdL s.regions (some r) off len = some v) (hb : off + len ≤ cap) :
    ∃ s1 s2, takeSharedB c s = .ok (r, cap) s1 ∧ copyWithin (some r) off 0 len s1 = .ok () s2 ∧
      WFx { s2 with hs := s2.hs.set i (some (.vec (some r) len cap)) } ∧
      abs { s2 with hs := s2.hs.set i (some (.vec (some r) len cap)) } =
        (absL s.regions s.hs).set i (some ⟨.vec, v⟩) := by
  obtain ⟨_, _, hbuf⟩ := hI.cok c e he hl
  rw [hct] at hbuf; simp only [ctrlBufOK] at hbuf
  obtain ⟨rg, k, hr, hlv, hk⟩ := isHeapLiveL_iff.mp hbuf.1
  -- demote to an empty vec owning the buffer
  have hD := Inv_demote hI (h' := .vec (some r) 0 cap) (e' := ⟨.sharedB r cap, 0, false⟩) hi hc he hl h1 rfl
    rfl (by rw [hct]; rfl)
    (handleOKL_vec.mpr ⟨Nat.zero_le _, ⟨hbuf.1, hbuf.2.symm⟩, by simp [rdL_zero]⟩) trivial
    (by intro r' o l hs _; simp only [span, Option.some.injEq, Prod.mk.injEq] at hs
        rw [hct, ← hs.1]; rfl) (.deallocCtrl c :: s.events)
  have hiD : (s.hs.set i (some (Handle.vec (some r) 0 cap)))[i]? = some (some (.vec (some r) 0 cap)) :=
    lookup_set_eq _ hi
  obtain ⟨R', heq, hM, hrd⟩ := copyFront_spec
    (s := { s with ctrls := s.ctrls.set c ⟨.sharedB r cap, 0, false⟩,
                   events := .deallocCtrl c :: s.events }) hI.regs hr hlv hk hv
  obtain ⟨hI', hview⟩ := Inv_sole_vec hD hiD (r := r) rfl hM hrd (show len ≤ cap by omega)
    hbuf.2.symm (.deallocCtrl c :: s.events)
  refine ⟨_, _, takeSharedB_eq he hl hct, heq, ?_⟩
  simp only [List.set_set] at hI'
  refine finish_ok hI' ?_
  show absL R' _ = _
  rw [absL_set_of_view (R := s.regions) _
    (fun j b hji hj => hview j b hji (by rw [lookup_set_ne _ (Ne.symm hji)]; exact hj))]
  simp [viewOfL, hreg, hoff, hlen, hrd, kindOf]

/-- `shared_v_to_vec` / `From<BytesMut> for Vec<u8>` (KIND_ARC), unique branch: the vector is taken out
of the control block (`mem::replace(&mut shared.vec, Vec::new())`), the block is released, the view is
moved to the front -/
theorem vec_of_sharedV {s : St} (hI : Inv s) {i : Nat} {h : Handle} {c : Nat} {reg : Option Nat}
    {vlen vcap orig : Nat} (hi : s.hs[i]? = some (some h)) (hc : ctrlOf h = some c)
    (he : s.ctrls[c]? = some ⟨.sharedV reg vlen vcap orig, 1, true⟩) {off len : Nat} {v : List Byte}
    (hv : rdL s.regions reg off len = some v) (hb : off + len ≤ vcap) :
    ∃ s1 s2, releaseCtrl c { s with ctrls := s.ctrls.set c ⟨.sharedV none 0 0 orig, 1, true⟩ } = .ok () s1 ∧
      copyWithin reg off 0 len s1 = .ok () s2 ∧
      WFx { s2 with hs := s2.hs.set i (some (.vec reg len vcap)) } ∧
      abs { s2 with hs := s2.hs.set i (some (.vec reg len vcap)) } =
        (absL s.regions s.hs).set i (some ⟨.vec, v⟩) := by
  obtain ⟨_, _, hbuf⟩ := hI.cok c _ he rfl
  obtain ⟨ev, hrel⟩ := releaseCtrl_last
    (s := { s with ctrls := s.ctrls.set c ⟨.sharedV none 0 0 orig, 1, true⟩ })
    (e := ⟨.sharedV none 0 0 orig, 1, true⟩) (lookup_set_eq _ he) rfl rfl (show (0 : Nat) = 0 from rfl)
    hI.regs
  simp only [freeBuf, List.set_set] at hrel
  cases reg with
  | none =>
    simp only [ctrlBufOK] at hbuf
    subst hbuf
    have hl0 : len = 0 := by omega
    subst hl0
    have hv0 : v = [] := by simpa [rdL_zero] using hv.symm
    subst hv0
    have hD := Inv_demote hI (h' := .vec none 0 0) (e' := ⟨.sharedV none 0 0 orig, 0, false⟩) hi hc he
      rfl rfl rfl rfl rfl (handleOKL_vec.mpr ⟨Nat.le_refl _, rfl, by simp [rdL_zero]⟩) trivial
      (by intro r' o l hs _; simp [span] at hs) ev
    refine ⟨_, _, hrel, copyWithin_zero _ _ _ _, finish_ok hD ?_⟩
    show absL s.regions _ = _
    rw [absL_set_of_view (R := s.regions) _ (fun _ _ _ _ => rfl)]
    simp [viewOfL, hreg, hoff, hlen, rdL_zero, kindOf]
  | some r =>
    simp only [ctrlBufOK] at hbuf
    obtain ⟨rg, k, hr, hlv, hk⟩ := isHeapLiveL_iff.mp hbuf.1
    have hD := Inv_demote hI (h' := .vec (some r) 0 vcap) (e' := ⟨.sharedV none 0 0 orig, 0, false⟩) hi hc
      he rfl rfl rfl rfl rfl
      (handleOKL_vec.mpr ⟨Nat.zero_le _, ⟨hbuf.1, hbuf.2.symm⟩, by simp [rdL_zero]⟩) trivial
      (by intro r' o l hs _; simp only [span, Option.some.injEq, Prod.mk.injEq] at hs
          rw [← hs.1]; rfl) ev
    have hiD : (s.hs.set i (some (Handle.vec (some r) 0 vcap)))[i]? = some (some (.vec (some r) 0 vcap)) :=
      lookup_set_eq _ hi
    obtain ⟨R', heq, hM, hrd⟩ := copyFront_spec
      (s := { s with ctrls := s.ctrls.set c ⟨.sharedV none 0 0 orig, 0, false⟩, events := ev })
      hI.regs hr hlv hk hv
    obtain ⟨hI', hview⟩ := Inv_sole_vec hD hiD (r := r) rfl hM hrd (show len ≤ vcap by omega)
      hbuf.2.symm ev
    refine ⟨_, _, hrel, heq, ?_⟩
    simp only [List.set_set] at hI'
    refine finish_ok hI' ?_
    show absL R' _ = _
    rw [absL_set_of_view (R := s.regions) _
      (fun j b hji hj => hview j b hji (by rw [lookup_set_ne _ (Ne.symm hji)]; exact hj))]
    simp [viewOfL, hreg, hoff, hlen, hrd, kindOf]

/-! ## copying conversions: `slice.to_vec()` then drop of the source -/

theorem toVecCopy_cases (e : Env) {s : St} {reg : Option Nat} {off len : Nat} {v : List Byte}
    (hv : rdL s.regions reg off len = some v) :
    (len = 0 ∧ toVecCopy e reg off len s = .ok (.vec none len len) s) ∨
    (toVecCopy e reg off len s = .panic s) ∨
    (len ≠ 0 ∧ len ≤ isizeMax ∧
      toVecCopy e reg off len s = .ok (.vec (some s.regions.length) len len)
        ⟨s.regions ++ [vecRegion v len (e.odd s.regions.length)], s.ctrls, s.hs, s.owners,
          .alloc s.regions.length len :: s.events⟩) := by
  simp only [toVecCopy, bind_apply, readRange_of_rdL hv]
  rcases vecNew_cases e v len s with ⟨h0, heq⟩ | ⟨_, heq⟩ | ⟨h0, h1, _⟩
  · exact .inl ⟨h0, by simp [heq]⟩
  · exact .inr (.inl (by simp [heq]))
  · exact .inr (.inr ⟨h0, h1, by simp [vecNew_eq' e v h0 h1 s]⟩)

/-- the shapes of handle a copying conversion produces -/
def IsVecMk (len : Nat) (mk : Option Nat → Handle) : Prop :=
  (∀ r, mk r = .vec r len len) ∨ (∃ orig, ∀ r, mk r = .mut none r 0 len len orig)

/-- kill-then-fill: slot `i` has been dropped (`hK`: any of T1–T4), now a fresh exact-size vector holding
`bs` is put there -/
theorem fill_after_kill {s : St} {i : Nat} {h : Handle} (hi : s.hs[i]? = some (some h))
    {RK : List Region} {CK : List CtrlE}
    (hK : ∀ ev, Inv ⟨RK, CK, s.hs.set i none, s.owners, ev⟩)
    (hviewK : ∀ (j : Nat) (b : Handle), j ≠ i → s.hs[j]? = some (some b) →
      viewOfL RK b = viewOfL s.regions b)
    (odd : Bool) {bs : List Byte} {len : Nat} (hbl : bs.length = len)
    (mk : Option Nat → Handle) (hmk : IsVecMk len mk) :
    (len = 0 → ∀ ev,
      WFx ⟨RK, CK, s.hs.set i (some (mk none)), s.owners, ev⟩ ∧
      abs ⟨RK, CK, s.hs.set i (some (mk none)), s.owners, ev⟩ =
        (absL s.regions s.hs).set i (some ⟨kindOf (mk none), bs⟩)) ∧
    (len ≠ 0 → len ≤ isizeMax → ∀ ev,
      WFx ⟨RK ++ [vecRegion bs len odd], CK, s.hs.set i (some (mk (some RK.length))), s.owners, ev⟩ ∧
      abs ⟨RK ++ [vecRegion bs len odd], CK, s.hs.set i (some (mk (some RK.length))), s.owners, ev⟩ =
        (absL s.regions s.hs).set i (some ⟨kindOf (mk (some RK.length)), bs⟩)) := by
  subst hbl
  have hiK : (s.hs.set i none)[i]? = some none := lookup_set_eq _ hi
  constructor
  · intro h0 ev
    have hbs : bs = [] := List.eq_nil_of_length_eq_zero h0
    subst hbs
    have hv : viewOfL RK (mk none) = some [] := by
      rcases hmk with hmk | ⟨orig, hmk⟩ <;> simp [hmk, viewOfL, hreg, hoff, hlen, rdL_zero]
    have hF : Inv ⟨RK, CK, (s.hs.set i none).set i (some (mk none)), s.owners, ev⟩ := by
      rcases hmk with hmk | ⟨orig, hmk⟩
      · rw [hmk]
        exact Inv_fill_plain (hK ev) hiK rfl rfl
          (handleOKL_vec.mpr ⟨Nat.le_refl _, rfl, by simp [rdL_zero]⟩) trivial
          (by intro r o l h; simp [span] at h) ev
      · rw [hmk]
        exact Inv_fill_plain (hK ev) hiK rfl rfl
          (handleOKL_mutV.mpr ⟨Nat.le_refl _, Nat.zero_le _, rfl, by simp [rdL_zero]⟩) trivial
          (by intro r o l h; simp [span] at h) ev
    simp only [List.set_set] at hF
    refine finish_ok hF ?_
    show absL RK _ = _
    rw [absL_set_of_view (R := s.regions) _ hviewK]
    simp [hv]
  · intro h0 h1 ev
    have hrg := vecRegion_ok (bs := bs) odd h0 h1 (Nat.le_refl _)
    have hv : viewOfL (RK ++ [vecRegion bs bs.length odd]) (mk (some RK.length)) = some bs := by
      rcases hmk with hmk | ⟨orig, hmk⟩ <;>
        simp [hmk, viewOfL, hreg, hoff, hlen, rdL_vecRegion RK odd (Nat.le_refl bs.length)]
    have hF : Inv ⟨RK ++ [vecRegion bs bs.length odd], CK,
          (s.hs.set i none).set i (some (mk (some RK.length))), s.owners, ev⟩ ∧
        ∀ (j : Nat) (b : Handle), (s.hs.set i none)[j]? = some (some b) →
          viewOfL (RK ++ [vecRegion bs bs.length odd]) b = viewOfL RK b := by
      rcases hmk with hmk | ⟨orig, hmk⟩
      · rw [hmk]
        exact Inv_fill_fresh (hK ev) hiK hrg rfl rfl rfl rfl
          (by intro r o l h; simp [span] at h; exact h.1.symm)
          (handleOKL_fresh_vec _ _ _ (Nat.le_refl _)) ev
      · rw [hmk]
        exact Inv_fill_fresh (hK ev) hiK hrg rfl rfl rfl rfl
          (by intro r o l h; simp [span] at h; exact h.1.symm)
          (handleOKL_fresh_mut _ _ _ _ (Nat.le_refl _)) ev
    obtain ⟨hF, hviewF⟩ := hF
    simp only [List.set_set] at hF
    refine finish_ok hF ?_
    show absL (RK ++ _) _ = _
    rw [absL_set_of_view (R := s.regions) _ (fun j b hji hj => by
      rw [hviewF j b (by rw [lookup_set_ne _ (Ne.symm hji)]; exact hj)]; exact hviewK j b hji hj)]
    simp [hv]

/-- copy out of a handle that holds no resource (STATIC) -/
theorem copyOut_plain {s : St} (hI : Inv s) (e : Env) {i : Nat} {h : Handle}
    (hi : s.hs[i]? = some (some h)) (hc : ctrlOf h = none) (hd : directRegion h = none)
    {v : List Byte} (hv : viewOfL s.regions h = some v)
    (mk : Option Nat → Handle) (hmk : IsVecMk (hlen h) mk) :
    toVecCopy e (hreg h) (hoff h) (hlen h) s = .panic s ∨
    ∃ r s1, toVecCopy e (hreg h) (hoff h) (hlen h) s = .ok (.vec r (hlen h) (hlen h)) s1 ∧
      WFx { s1 with hs := s1.hs.set i (some (mk r)) } ∧
      abs { s1 with hs := s1.hs.set i (some (mk r)) } =
        (absL s.regions s.hs).set i (some ⟨kindOf (mk r), v⟩) := by
  have hvl := rdL_length hI.regs hv
  obtain ⟨f0, f1⟩ := fill_after_kill hi (fun ev => Inv_kill_plain hI hi hc hd ev)
    (fun _ _ _ _ => rfl) (e.odd s.regions.length) hvl mk hmk
  rcases toVecCopy_cases e hv with ⟨h0, heq⟩ | hp | ⟨h0, h1, heq⟩
  · exact .inr ⟨_, _, heq, f0 h0 _⟩
  · exact .inl hp
  · exact .inr ⟨_, _, heq, f1 h0 h1 _⟩

theorem ctrlBufOK_append {R : List Region} {ow : Nat} {ct : Ctrl} (X : List Region)
    (h : ctrlBufOK R ow ct) : ctrlBufOK (R ++ X) ow ct := by
  cases ct with
  | sharedB r cap =>
    simp only [ctrlBufOK] at h ⊢
    have := isHeapLiveL_lt h.1
    rw [isHeapLiveL_append _ this, regionSizeL_append _ this]; exact h
  | sharedV reg vlen vcap orig =>
    cases reg with
    | none => exact h
    | some r =>
      simp only [ctrlBufOK] at h ⊢
      have := isHeapLiveL_lt h.1
      rw [isHeapLiveL_append _ this, regionSizeL_append _ this]; exact h
  | owned o => exact h

theorem regs_append {R : List Region} {rg : Region}
    (hR : ∀ (r : Nat) (rg : Region), R[r]? = some rg → regionOKB rg = true) (hrg : regionOKB rg = true) :
    ∀ (r : Nat) (rg' : Region), (R ++ [rg])[r]? = some rg' → regionOKB rg' = true := by
  intro r rg' hr
  by_cases hrl : r < R.length
  · rw [lookup_append_left _ hrl] at hr; exact hR r rg' hr
  · have := lookup_lt hr; simp at this
    have : r = R.length := by omega
    subst this; rw [lookup_append_new] at hr; cases hr; exact hrg

theorem ctrlRegion_lt {R : List Region} {ow : Nat} {ct : Ctrl} (h : ctrlBufOK R ow ct) :
    ∀ r, ctrlRegion ct = some r → r < R.length := by
  intro r hr
  cases ct with
  | sharedB r0 cap => simp [ctrlRegion] at hr; subst hr; exact isHeapLiveL_lt h.1
  | sharedV reg vlen vcap orig =>
    simp [ctrlRegion] at hr; subst hr; exact isHeapLiveL_lt h.1
  | owned o => simp [ctrlRegion] at hr

/-- copy out of a handle that names control block `c`, then release the reference -/
theorem copyOut_release {s : St} (hI : Inv s) (e : Env) {i : Nat} {h : Handle} {c : Nat}
    (hi : s.hs[i]? = some (some h)) (hc : ctrlOf h = some c)
    {v : List Byte} (hv : viewOfL s.regions h = some v)
    (mk : Option Nat → Handle) (hmk : IsVecMk (hlen h) mk) :
    toVecCopy e (hreg h) (hoff h) (hlen h) s = .panic s ∨
    ∃ r s0 s1, toVecCopy e (hreg h) (hoff h) (hlen h) s = .ok (.vec r (hlen h) (hlen h)) s0 ∧
      releaseCtrl c s0 = .ok () s1 ∧
      WFx { s1 with hs := s1.hs.set i (some (mk r)) } ∧
      abs { s1 with hs := s1.hs.set i (some (mk r)) } =
        (absL s.regions s.hs).set i (some ⟨kindOf (mk r), v⟩) := by
  have hvl := rdL_length hI.regs hv
  obtain ⟨e0, he, hl, hrc, h1, hb⟩ := hI.ctrl_of_handle hi hc
  rcases toVecCopy_cases e hv with ⟨h0, heq⟩ | hp | ⟨h0, hle, heq⟩
  · -- nothing allocated
    right
    rcases releaseCtrl_cases (s := s) he hl h1 hb hI.regs with ⟨hne, hrel⟩ | ⟨h1', ev, hrel⟩
    · obtain ⟨f0, _⟩ := fill_after_kill hi (fun ev => Inv_kill_dec hI hi hc he hl hne ev)
        (fun _ _ _ _ => rfl) (e.odd s.regions.length) hvl mk hmk
      exact ⟨_, _, _, heq, hrel, f0 h0 _⟩
    · obtain ⟨f0, _⟩ := fill_after_kill hi (fun ev => (Inv_kill_last hI hi hc he hl h1' ev).1)
        (Inv_kill_last hI hi hc he hl h1' []).2 (e.odd s.regions.length) hvl mk hmk
      exact ⟨_, _, _, heq, hrel, f0 h0 _⟩
  · exact .inl hp
  · right
    have hrg := vecRegion_ok (bs := v) (e.odd s.regions.length) h0 hle (Nat.le_of_eq hvl)
    rcases releaseCtrl_cases
        (s := ⟨s.regions ++ [vecRegion v (hlen h) (e.odd s.regions.length)], s.ctrls, s.hs, s.owners,
          .alloc s.regions.length (hlen h) :: s.events⟩) he hl h1 (ctrlBufOK_append _ hb)
        (regs_append hI.regs hrg) with ⟨hne, hrel⟩ | ⟨h1', ev, hrel⟩
    · obtain ⟨_, f1⟩ := fill_after_kill hi (fun ev => Inv_kill_dec hI hi hc he hl hne ev)
        (fun _ _ _ _ => rfl) (e.odd s.regions.length) hvl mk hmk
      exact ⟨_, _, _, heq, hrel, f1 h0 hle _⟩
    · obtain ⟨_, f1⟩ := fill_after_kill hi (fun ev => (Inv_kill_last hI hi hc he hl h1' ev).1)
        (Inv_kill_last hI hi hc he hl h1' []).2 (e.odd s.regions.length) hvl mk hmk
      have hfa := freeBuf_append (R := s.regions) (ct := e0.c)
        (rg := vecRegion v (hlen h) (e.odd s.regions.length)) (o := e.odd s.regions.length) rfl
        (ctrlRegion_lt hb)
      have hlen' := (Killed.of_freeBuf s.regions e0.c).len
      simp only [hfa] at hrel
      have := f1 h0 hle ev
      rw [hlen'] at this
      exact ⟨_, _, _, heq, hrel, this⟩

/-! ## `into_vec` -/

/-- `shared_to_vec_impl` (common to the promoted promotable and the SHARED vtable) -/
def sharedToVec (e : Env) (c : Nat) (reg : Option Nat) (off len : Nat) : M Handle := do
  let u ← ctrlIsUnique c
  if u then do
    let (r, cap) ← takeSharedB c
    copyWithin (some r) off 0 len
    pure (.vec (some r) len cap)
  else do
    let v ← toVecCopy e reg off len
    releaseCtrl c
    pure v

theorem bytesIntoVec_promA (e : Env) (vt : Bool) (c : Nat) (reg : Option Nat) (off len : Nat) :
    bytesIntoVec e (.bytes (.prom vt (some c)) reg off len) = sharedToVec e c reg off len := rfl
theorem bytesIntoVec_shared (e : Env) (c : Nat) (reg : Option Nat) (off len : Nat) :
    bytesIntoVec e (.bytes (.shared c) reg off len) = sharedToVec e c reg off len := rfl

theorem sharedToVec_spec {s : St} (hI : Inv s) (e : Env) {i : Nat} {repr : BRepr} {reg : Option Nat}
    {off len c r cap : Nat} (hi : s.hs[i]? = some (some (.bytes repr reg off len)))
    (hc : ctrlOf (.bytes repr reg off len) = some c)
    (hlive : liveCtrlL s.ctrls c = some (.sharedB r cap)) (hreg' : reg = some r) (hb : off + len ≤ cap)
    {v : List Byte} (hv : rdL s.regions reg off len = some v) :
    sharedToVec e c reg off len s = .panic s ∨
    ∃ m s1, sharedToVec e c reg off len s = .ok m s1 ∧
      WFx { s1 with hs := s1.hs.set i (some m) } ∧
      abs { s1 with hs := s1.hs.set i (some m) } = (absL s.regions s.hs).set i (some ⟨.vec, v⟩) := by
  subst hreg'
  obtain ⟨e0, he, hl, hct, _⟩ := hI.cok' hlive
  simp only [sharedToVec, bind_apply, ctrlIsUnique_eq he hl]
  by_cases h1 : e0.rc = 1
  · right
    obtain ⟨s1, s2, ht, hcw, hw, ha⟩ := vec_of_sharedB hI hi hc he hl h1 hct hv hb
    refine ⟨_, s2, ?_, hw, ha⟩
    simp [h1, ht, hcw]
  · have hu : (e0.rc == 1) = false := by simpa using h1
    rcases copyOut_release hI e hi hc (v := v) hv (fun r => .vec r len len) (.inl fun _ => rfl) with
      hp | ⟨r', s0, s1, heq, hrel, hw, ha⟩
    · left
      simp only [hreg, hoff, hlen] at hp
      simp [hu, hp]
    · right
      simp only [hreg, hoff, hlen] at heq
      refine ⟨_, s1, ?_, hw, by simpa [kindOf] using ha⟩
      simp [hu, heq, hrel]

theorem bytesIntoVec_spec {s : St} (hI : Inv s) (e : Env) {i : Nat} {repr : BRepr} {reg : Option Nat}
    {off len : Nat} (hi : s.hs[i]? = some (some (.bytes repr reg off len))) {v : List Byte}
    (hv : rdL s.regions reg off len = some v) :
    bytesIntoVec e (.bytes repr reg off len) s = .panic s ∨
    ∃ m s1, bytesIntoVec e (.bytes repr reg off len) s = .ok m s1 ∧
      WFx { s1 with hs := s1.hs.set i (some m) } ∧
      abs { s1 with hs := s1.hs.set i (some m) } = (absL s.regions s.hs).set i (some ⟨.vec, v⟩) := by
  have hok := hI.hok i _ hi
  cases repr with
  | «static» =>
    rcases copyOut_plain hI e hi rfl rfl (v := v) hv (fun r => .vec r len len) (.inl fun _ => rfl) with
      hp | ⟨r', s1, heq, hw, ha⟩
    · left; simpa only [bytesIntoVec, hreg, hoff, hlen] using hp
    · right
      simp only [hreg, hoff, hlen] at heq
      exact ⟨_, s1, by simpa only [bytesIntoVec] using heq, hw, by simpa [kindOf] using ha⟩
  | owned c =>
    rcases copyOut_release hI e hi (c := c) rfl (v := v) hv (fun r => .vec r len len)
        (.inl fun _ => rfl) with hp | ⟨r', s0, s1, heq, hrel, hw, ha⟩
    · left
      simp only [hreg, hoff, hlen] at hp
      simp [bytesIntoVec, hp]
    · right
      simp only [hreg, hoff, hlen] at heq
      refine ⟨_, s1, ?_, hw, by simpa [kindOf] using ha⟩
      simp [bytesIntoVec, heq, hrel]
  | prom vt oc =>
    cases oc with
    | none =>
      obtain ⟨⟨r, hreg', hlive, hsz, hvt⟩, _⟩ := handleOKL_promV.mp hok
      subst hreg'
      right
      obtain ⟨s1, hcw, hw, ha⟩ := vec_of_direct hI hi (r := r) rfl hv (show len ≤ off + len by omega) hsz
      refine ⟨_, s1, ?_, hw, ha⟩
      simp [bytesIntoVec, promDecode_eq hlive hvt, hcw]
    | some c =>
      obtain ⟨⟨r, cap, h1, h2, h3⟩, _⟩ := handleOKL_promA.mp hok
      rw [bytesIntoVec_promA]
      exact sharedToVec_spec hI e hi rfl h1 h2 h3 hv
  | shared c =>
    obtain ⟨⟨r, cap, h1, h2, h3⟩, _⟩ := handleOKL_shared.mp hok
    rw [bytesIntoVec_shared]
    exact sharedToVec_spec hI e hi rfl h1 h2 h3 hv
  | sharedV c =>
    obtain ⟨⟨vlen, vcap, vorig, h1, h3⟩, _⟩ := handleOKL_sharedV.mp hok
    obtain ⟨e0, he, hl, hct, _⟩ := hI.cok' h1
    obtain ⟨ct, rc, lv⟩ := e0
    simp only at hl hct; subst hl hct
    simp only [bytesIntoVec, bind_apply, ctrlIsUnique_eq he rfl]
    by_cases hrc : rc = 1
    · subst hrc
      right
      obtain ⟨s1, s2, hrel, hcw, hw, ha⟩ := vec_of_sharedV hI hi (c := c) rfl he hv h3
      refine ⟨_, s2, ?_, hw, ha⟩
      simp [getCtrl_eq he rfl, hrel, hcw]
    · have hu : (rc == 1) = false := by simpa using hrc
      rcases copyOut_release hI e hi (c := c) rfl (v := v) hv (fun r => .vec r len len)
          (.inl fun _ => rfl) with hp | ⟨r', s0, s1, heq, hrel, hw, ha⟩
      · left
        simp only [hreg, hoff, hlen] at hp
        simp [hu, hp]
      · right
        simp only [hreg, hoff, hlen] at heq
        refine ⟨_, s1, ?_, hw, by simpa [kindOf] using ha⟩
        simp [hu, heq, hrel]

theorem step_intoVec (cfg : Cfg) (e : Env) (i : Nat) (s : St) (hw : WFx s) :
    StepOKx cfg e (.intoVec i) s := by
  have hI := hw.inv
  unfold StepOKx
  simp only [step, bind_apply]
  have hpanic : WFx s ∧ abs s = Spec.stepPanic (.intoVec i) (abs s) := ⟨hw, rfl⟩
  rcases getHandle_cases s i with ⟨h, hi, hg⟩ | ⟨hn, hg⟩
  · simp only [hg]
    obtain ⟨v, hv, hvl⟩ := hI.view hi
    have hspec : ∀ x, Spec.stepOk (.intoVec i) x (abs s) =
        (absL s.regions s.hs).set i (some ⟨.vec, v⟩) := by
      intro x; rw [abs_eq]; exact Spec_stepOk_intoVec (Spec_get_absL hi hv) x
    simp only [hspec]
    have hok := hI.hok i h hi
    cases h with
    | bytes repr reg off len =>
      simp only [viewOfL, hreg, hoff, hlen] at hv hvl
      rcases bytesIntoVec_spec hI e hi hv with hp | ⟨m, s1, heq, hw', ha⟩
      · simp only [bind_apply, hp, sat_panic]; exact hpanic
      · simp only [bind_apply, heq, setHandle_apply, pure_apply, sat_ok]; exact ⟨hw', ha⟩
    | vec reg len cap => simp only [panic_apply, sat_panic]; exact hpanic
    | «mut» arc reg off len cap orig =>
      simp only [viewOfL, hreg, hoff, hlen] at hv hvl
      cases arc with
      | none =>
        obtain ⟨hlc, hoffb, hregc, hrd⟩ := handleOKL_mutV.mp hok
        cases reg with
        | none =>
          simp only at hregc
          have ho : off = 0 := by omega
          have hc0 : cap = 0 := by omega
          have hl0 : len = 0 := by omega
          subst ho hc0 hl0
          simp only [bind_apply, copyWithin_zero, setHandle_apply, pure_apply, sat_ok]
          refine finish_ok (Inv_set_sub hI hi (h' := .vec none 0 (0 + 0)) rfl rfl
            (handleOKL_vec.mpr ⟨Nat.zero_le _, rfl, by simp [rdL_zero]⟩) trivial
            (by intro r o l hs; simp [span] at hs) (fun _ => rfl) _) ?_
          have hv0 : v = [] := by simpa [rdL_zero] using hv.symm
          simp [absL_set, viewOfL, hreg, hoff, hlen, rdL_zero, kindOf, hv0]
        | some r =>
          simp only at hregc
          obtain ⟨s1, hcw, hw', ha⟩ := vec_of_direct hI hi (r := r) rfl hv
            (show len ≤ off + cap by omega) hregc.2
          simp only [bind_apply, hcw, setHandle_apply, pure_apply, sat_ok]
          exact ⟨hw', ha⟩
      | some c =>
        obtain ⟨hlc, ⟨vlen, vcap, vorig, h1, h3⟩, _⟩ := handleOKL_mutA.mp hok
        obtain ⟨e0, he, hl, hct, _⟩ := hI.cok' h1
        obtain ⟨ct, rc, lv⟩ := e0
        simp only at hl hct; subst hl hct
        simp only [bind_apply, getCtrl_eq he rfl]
        by_cases hrc : rc = 1
        · subst hrc
          obtain ⟨s1, s2, hrel, hcw, hw', ha⟩ := vec_of_sharedV hI hi (c := c) rfl he hv
            (show off + len ≤ vcap by omega)
          simp only [if_true, bind_apply, setCtrl_apply, hrel, hcw, setHandle_apply, pure_apply, sat_ok]
          exact ⟨hw', ha⟩
        · rcases copyOut_release hI e hi (c := c) rfl (v := v) hv (fun r => .vec r len len)
              (.inl fun _ => rfl) with hp | ⟨r', s0, s1, heq, hrel, hw', ha⟩
          · simp only [hreg, hoff, hlen] at hp
            simp only [hrc, if_false, bind_apply, hp, sat_panic]; exact hpanic
          · simp only [hreg, hoff, hlen] at heq
            simp only [hrc, if_false, bind_apply, heq, hrel, setHandle_apply, pure_apply, sat_ok]
            exact ⟨hw', by simpa [kindOf] using ha⟩
  · simp only [hg, sat_panic]; exact hpanic

/-! ## `into_mut` -/

theorem spanSub_mut_of {arc arc' : Option Nat} {reg : Option Nat} {off len cap orig o l c orig' : Nat}
    (h1 : off ≤ o) (h2 : o + c ≤ off + cap) :
    spanSub (.mut arc' reg o l c orig') (.mut arc reg off len cap orig) := by
  intro r o' l' h hl
  cases reg with
  | none => simp [span] at h
  | some r' =>
    simp only [span, Option.some.injEq, Prod.mk.injEq] at h
    obtain ⟨rfl, rfl, rfl⟩ := h
    exact ⟨off, cap, rfl, h1, h2⟩

/-- `advance_unchecked(k)` on the KIND_VEC handle `from_vec` just made (vec position 0), including
the `promote_to_shared` branch taken when the position does not fit the 59 position bits -/
theorem mutAdvance_from_zero (cfg : Cfg) {reg : Option Nat} {len cap orig k : Nat} (hk : k ≤ cap) (s : St) :
    (k ≤ W / 32 - 1 ∧
      mutAdvanceUnchecked cfg (.mut none reg 0 len cap orig) k s =
        .ok (.mut none reg k (len - k) (cap - k) orig) s) ∨
    (¬ k ≤ W / 32 - 1 ∧
      mutAdvanceUnchecked cfg (.mut none reg 0 len cap orig) k s =
        .ok (.mut (some s.ctrls.length) reg k (len - k) (cap - k) orig)
          { s with ctrls := s.ctrls ++ [⟨.sharedV reg len cap orig, 1, true⟩],
                   events := .allocCtrl s.ctrls.length :: s.events }) := by
  by_cases h0 : k = 0
  · subst h0; left; exact ⟨Nat.zero_le _, by simp [mutAdvanceUnchecked]⟩
  · by_cases hp : k ≤ W / 32 - 1
    · left
      refine ⟨hp, ?_⟩
      simp [mutAdvanceUnchecked, h0, dassert_eq cfg (cond := decide (k ≤ cap)) (by simpa using hk),
        usub_eq cfg hk, hp]
    · right
      refine ⟨hp, ?_⟩
      simp [mutAdvanceUnchecked, h0, dassert_eq cfg (cond := decide (k ≤ cap)) (by simpa using hk),
        usub_eq cfg hk, hp]

/-- slot `i` owns region `r` (of size `cap`) directly and becomes a `BytesMut` on `[off, cap)` with view
`[off, off+len)`: KIND_VEC if the position fits, else KIND_ARC on a fresh control block -/
theorem Inv_mut_of_direct {s : St} (hI : Inv s) {i : Nat} {h : Handle} {r : Nat}
    (hi : s.hs[i]? = some (some h)) (hd : directRegion h = some r) {off len cap : Nat} {v : List Byte}
    (hv : rdL s.regions (some r) off len = some v) (hcap : cap = regionSizeL s.regions r)
    (hb : off + len ≤ cap) (orig : Nat) :
    (off ≤ W / 32 - 1 → ∀ ev,
      Inv ⟨s.regions, s.ctrls, s.hs.set i (some (.mut none (some r) off len (cap - off) orig)),
        s.owners, ev⟩) ∧
    (∀ len0 ev,
      Inv ⟨s.regions, s.ctrls ++ [⟨.sharedV (some r) len0 cap orig, 1, true⟩],
        s.hs.set i (some (.mut (some s.ctrls.length) (some r) off len (cap - off) orig)), s.owners, ev⟩) := by
  have hlive := handleOKL_direct (hI.hok i h hi) hd
  have hcn := direct_some_ctrlOf_none hd
  have hsole : ∀ r', r' = r → ∀ (j : Nat) (b : Handle), j ≠ i → s.hs[j]? = some (some b) →
      ¬ Anchor s.regions s.ctrls b r' := fun r' hp j b hji hj => hp ▸ hI.alone_direct hi hd hji hj
  have hM := MetaEq.refl hI.regs (fun r' => r' = r)
  have hrd : (rdL s.regions (some r) off len).isSome = true := by simp [hv]
  constructor
  · intro hoffb ev
    refine (Inv_sole_set hI hi hM hsole (h' := .mut none (some r) off len (cap - off) orig)
      (by rw [hcn]; rfl) (by rw [hd]; rfl)
      (handleOKL_mutV.mpr ⟨by omega, hoffb, ⟨hlive, by omega⟩, hrd⟩) trivial ?_ ev).1
    intro r' o l hs _
    simp only [span, Option.some.injEq, Prod.mk.injEq] at hs
    exact hs.1.symm
  · intro len0 ev
    -- first an empty KIND_VEC handle on the whole region …
    have h1 := (Inv_sole_set hI hi hM hsole (h' := .mut none (some r) 0 0 cap orig)
      (by rw [hcn]; rfl) (by rw [hd]; rfl)
      (handleOKL_mutV.mpr ⟨Nat.zero_le _, Nat.zero_le _, ⟨hlive, by omega⟩, by simp [rdL_zero]⟩) trivial
      (by intro r' o l hs _
          simp only [span, Option.some.injEq, Prod.mk.injEq] at hs
          exact hs.1.symm) ev).1
    -- … which is then promoted
    have hi1 : (s.hs.set i (some (Handle.mut none (some r) 0 0 cap orig)))[i]? =
        some (some (.mut none (some r) 0 0 cap orig)) := lookup_set_eq _ hi
    have h2 := Inv_promote h1 (h' := .mut (some s.ctrls.length) (some r) off len (cap - off) orig)
      (ct := .sharedV (some r) len0 cap orig) hi1 rfl rfl rfl
      (spanSub_mut_of (Nat.zero_le _) (by omega)) (fun _ => rfl)
      (handleOKL_mutA.mpr ⟨by omega, ⟨len0, cap, orig, by simp [liveCtrlL_new], by omega⟩, hrd⟩)
      ⟨hlive, hcap.symm⟩ (by intro o h; cases h) ev
    simpa only [List.set_set] using h2

/-- `shared_to_mut_impl` (common to the promoted promotable and the SHARED vtable) -/
def sharedToMut (cfg : Cfg) (e : Env) (c : Nat) (reg : Option Nat) (off len : Nat) : M Handle := do
  let u ← ctrlIsUnique c
  if u then do
    let (r, cap) ← takeSharedB c
    mutAdvanceUnchecked cfg (mutFromVec (some r) (len + off) cap) off
  else do
    let v ← toVecCopy e reg off len
    releaseCtrl c
    match v with
    | .vec r l cp => pure (mutFromVec r l cp)
    | _ => panic

theorem bytesIntoMut_promA (cfg : Cfg) (e : Env) (vt : Bool) (c : Nat) (reg : Option Nat) (off len : Nat) :
    bytesIntoMut cfg e (.bytes (.prom vt (some c)) reg off len) = sharedToMut cfg e c reg off len := rfl
theorem bytesIntoMut_shared (cfg : Cfg) (e : Env) (c : Nat) (reg : Option Nat) (off len : Nat) :
    bytesIntoMut cfg e (.bytes (.shared c) reg off len) = sharedToMut cfg e c reg off len := rfl

theorem absL_set_same_regions {R : List Region} {hs : List (Option Handle)} {i : Nat} {m : Handle}
    {v : List Byte} (hv : viewOfL R m = some v) :
    absL R (hs.set i (some m)) = (absL R hs).set i (some ⟨kindOf m, v⟩) := by
  simp [absL_set, hv]

theorem sharedToMut_spec {s : St} (hI : Inv s) (cfg : Cfg) (e : Env) {i : Nat} {repr : BRepr}
    {reg : Option Nat} {off len c r cap : Nat} (hi : s.hs[i]? = some (some (.bytes repr reg off len)))
    (hc : ctrlOf (.bytes repr reg off len) = some c)
    (hlive : liveCtrlL s.ctrls c = some (.sharedB r cap)) (hreg' : reg = some r) (hb : off + len ≤ cap)
    {v : List Byte} (hv : rdL s.regions reg off len = some v) :
    sharedToMut cfg e c reg off len s = .panic s ∨
    ∃ m s1, sharedToMut cfg e c reg off len s = .ok m s1 ∧
      WFx { s1 with hs := s1.hs.set i (some m) } ∧
      abs { s1 with hs := s1.hs.set i (some m) } = (absL s.regions s.hs).set i (some ⟨.mut, v⟩) := by
  subst hreg'
  obtain ⟨e0, he, hl, hct, _, _, hbuf⟩ := hI.cok' hlive
  simp only [sharedToMut, bind_apply, ctrlIsUnique_eq he hl]
  by_cases h1 : e0.rc = 1
  · right
    simp only [ctrlBufOK] at hbuf
    have hD := Inv_demote hI (h' := .vec (some r) 0 cap) (e' := ⟨.sharedB r cap, 0, false⟩) hi hc he hl h1
      rfl rfl (by rw [hct]; rfl)
      (handleOKL_vec.mpr ⟨Nat.zero_le _, ⟨hbuf.1, hbuf.2.symm⟩, by simp [rdL_zero]⟩) trivial
      (by intro r' o l hs _; simp only [span, Option.some.injEq, Prod.mk.injEq] at hs
          rw [hct, ← hs.1]; rfl) (.deallocCtrl c :: s.events)
    have hiD : (s.hs.set i (some (Handle.vec (some r) 0 cap)))[i]? = some (some (.vec (some r) 0 cap)) :=
      lookup_set_eq _ hi
    obtain ⟨kA, kB⟩ := Inv_mut_of_direct hD hiD (r := r) rfl (off := off) (len := len) (cap := cap) hv
      hbuf.2.symm hb (originalCapacityToRepr cap)
    simp only [List.set_set, List.length_set] at kA kB
    have hvm : ∀ a, viewOfL s.regions (.mut a (some r) off len (cap - off) (originalCapacityToRepr cap)) =
        some v := fun a => hv
    rcases mutAdvance_from_zero cfg (reg := some r) (len := len + off) (cap := cap)
        (orig := originalCapacityToRepr cap) (k := off) (by omega)
        { s with ctrls := s.ctrls.set c ⟨.sharedB r cap, 0, false⟩,
                 events := .deallocCtrl c :: s.events } with ⟨hp, hadv⟩ | ⟨hp, hadv⟩
    · refine ⟨.mut none (some r) off (len + off - off) (cap - off) (originalCapacityToRepr cap),
        { s with ctrls := s.ctrls.set c ⟨.sharedB r cap, 0, false⟩,
                 events := .deallocCtrl c :: s.events },
        by simp [h1, takeSharedB_eq he hl hct, mutFromVec, hadv], ?_⟩
      simp only [Nat.add_sub_cancel]
      exact finish_ok (kA hp _) (absL_set_same_regions (hvm none))
    · refine ⟨.mut (some s.ctrls.length) (some r) off (len + off - off) (cap - off)
          (originalCapacityToRepr cap),
        { s with ctrls := s.ctrls.set c ⟨.sharedB r cap, 0, false⟩ ++
                   [⟨.sharedV (some r) (len + off) cap (originalCapacityToRepr cap), 1, true⟩],
                 events := .allocCtrl s.ctrls.length :: .deallocCtrl c :: s.events },
        by simp [h1, takeSharedB_eq he hl hct, mutFromVec, hadv], ?_⟩
      simp only [Nat.add_sub_cancel]
      exact finish_ok (kB _ _) (absL_set_same_regions (hvm _))
  · have hu : (e0.rc == 1) = false := by simpa using h1
    rcases copyOut_release hI e hi hc (v := v) hv (fun r => mutFromVec r len len)
        (.inr ⟨_, fun _ => rfl⟩) with hp | ⟨r', s0, s1, heq, hrel, hw, ha⟩
    · left
      simp only [hreg, hoff, hlen] at hp
      simp [hu, hp]
    · right
      simp only [hreg, hoff, hlen] at heq
      refine ⟨_, s1, ?_, hw, by simpa [kindOf, mutFromVec] using ha⟩
      simp [hu, heq, hrel]

theorem bytesIntoMut_spec {s : St} (hI : Inv s) (cfg : Cfg) (e : Env) {i : Nat} {repr : BRepr}
    {reg : Option Nat} {off len : Nat} (hi : s.hs[i]? = some (some (.bytes repr reg off len)))
    {v : List Byte} (hv : rdL s.regions reg off len = some v) :
    bytesIntoMut cfg e (.bytes repr reg off len) s = .panic s ∨
    ∃ m s1, bytesIntoMut cfg e (.bytes repr reg off len) s = .ok m s1 ∧
      WFx { s1 with hs := s1.hs.set i (some m) } ∧
      abs { s1 with hs := s1.hs.set i (some m) } = (absL s.regions s.hs).set i (some ⟨.mut, v⟩) := by
  have hok := hI.hok i _ hi
  cases repr with
  | «static» =>
    rcases copyOut_plain hI e hi rfl rfl (v := v) hv (fun r => mutFromVec r len len)
        (.inr ⟨_, fun _ => rfl⟩) with hp | ⟨r', s1, heq, hw, ha⟩
    · left
      simp only [hreg, hoff, hlen] at hp
      simp [bytesIntoMut, hp]
    · right
      simp only [hreg, hoff, hlen] at heq
      refine ⟨_, s1, ?_, hw, by simpa [kindOf, mutFromVec] using ha⟩
      simp [bytesIntoMut, heq]
  | owned c =>
    rcases copyOut_release hI e hi (c := c) rfl (v := v) hv (fun r => mutFromVec r len len)
        (.inr ⟨_, fun _ => rfl⟩) with hp | ⟨r', s0, s1, heq, hrel, hw, ha⟩
    · left
      simp only [hreg, hoff, hlen] at hp
      simp [bytesIntoMut, hp]
    · right
      simp only [hreg, hoff, hlen] at heq
      refine ⟨_, s1, ?_, hw, by simpa [kindOf, mutFromVec] using ha⟩
      simp [bytesIntoMut, heq, hrel]
  | prom vt oc =>
    cases oc with
    | none =>
      obtain ⟨⟨r, hreg', hlive, hsz, hvt⟩, _⟩ := handleOKL_promV.mp hok
      subst hreg'
      right
      obtain ⟨kA, kB⟩ := Inv_mut_of_direct hI hi (r := r) rfl (off := off) (len := len)
        (cap := off + len) hv hsz (Nat.le_refl _) (originalCapacityToRepr (off + len))
      have hvm : ∀ a, viewOfL s.regions
          (.mut a (some r) off len (off + len - off) (originalCapacityToRepr (off + len))) = some v :=
        fun a => hv
      rcases mutAdvance_from_zero cfg (reg := some r) (len := off + len) (cap := off + len)
          (orig := originalCapacityToRepr (off + len)) (k := off) (by omega) s with
        ⟨hp, hadv⟩ | ⟨hp, hadv⟩
      · refine ⟨.mut none (some r) off (off + len - off) (off + len - off)
            (originalCapacityToRepr (off + len)), s,
          by simp [bytesIntoMut, promDecode_eq hlive hvt, mutFromVec, hadv], ?_⟩
        rw [show off + len - off = len by omega] at hvm kA ⊢
        exact finish_ok (kA hp _) (absL_set_same_regions (hvm none))
      · refine ⟨.mut (some s.ctrls.length) (some r) off (off + len - off) (off + len - off)
            (originalCapacityToRepr (off + len)),
          { s with ctrls := s.ctrls ++
                     [⟨.sharedV (some r) (off + len) (off + len) (originalCapacityToRepr (off + len)), 1, true⟩],
                   events := .allocCtrl s.ctrls.length :: s.events },
          by simp [bytesIntoMut, promDecode_eq hlive hvt, mutFromVec, hadv], ?_⟩
        rw [show off + len - off = len by omega] at hvm kB ⊢
        exact finish_ok (kB _ _) (absL_set_same_regions (hvm _))
    | some c =>
      obtain ⟨⟨r, cap, h1, h2, h3⟩, _⟩ := handleOKL_promA.mp hok
      rw [bytesIntoMut_promA]
      exact sharedToMut_spec hI cfg e hi rfl h1 h2 h3 hv
  | shared c =>
    obtain ⟨⟨r, cap, h1, h2, h3⟩, _⟩ := handleOKL_shared.mp hok
    rw [bytesIntoMut_shared]
    exact sharedToMut_spec hI cfg e hi rfl h1 h2 h3 hv
  | sharedV c =>
    obtain ⟨⟨vlen, vcap, vorig, h1, h3⟩, hrd⟩ := handleOKL_sharedV.mp hok
    obtain ⟨e0, he, hl, hct, _⟩ := hI.cok' h1
    obtain ⟨ct, rc, lv⟩ := e0
    simp only at hl hct; subst hl hct
    simp only [bytesIntoMut, bind_apply, ctrlIsUnique_eq he rfl]
    by_cases hrc : rc = 1
    · subst hrc
      right
      refine ⟨.mut (some c) reg off len (vcap - off) vorig, s, by simp [getCtrl_eq he rfl], ?_⟩
      have hS := (Inv_sole_set hI hi (h' := .mut (some c) reg off len (vcap - off) vorig)
        (MetaEq.refl hI.regs (fun r' => reg = some r'))
        (fun r' hp j b hji hj => hI.alone_ctrl hi (c := c) rfl he rfl rfl hp hji hj) rfl rfl
        (handleOKL_mutA.mpr ⟨by omega, ⟨vlen, vcap, vorig, h1, by omega⟩, hrd⟩) trivial
        (by intro r' o l hs _
            cases reg with
            | none => simp [span] at hs
            | some r0 =>
              simp only [span, Option.some.injEq, Prod.mk.injEq] at hs
              rw [hs.1]) s.events).1
      exact finish_ok hS (absL_set_same_regions (m := .mut (some c) reg off len (vcap - off) vorig) hv)
    · have hu : (rc == 1) = false := by simpa using hrc
      rcases copyOut_release hI e hi (c := c) rfl (v := v) hv (fun r => mutFromVec r len len)
          (.inr ⟨_, fun _ => rfl⟩) with hp | ⟨r', s0, s1, heq, hrel, hw, ha⟩
      · left
        simp only [hreg, hoff, hlen] at hp
        simp [hu, hp]
      · right
        simp only [hreg, hoff, hlen] at heq
        refine ⟨_, s1, ?_, hw, by simpa [kindOf, mutFromVec] using ha⟩
        simp [hu, heq, hrel]

theorem step_intoMut (cfg : Cfg) (e : Env) (i : Nat) (s : St) (hw : WFx s) :
    StepOKx cfg e (.intoMut i) s := by
  have hI := hw.inv
  unfold StepOKx
  simp only [step, bind_apply]
  have hpanic : WFx s ∧ abs s = Spec.stepPanic (.intoMut i) (abs s) := ⟨hw, rfl⟩
  rcases getHandle_cases s i with ⟨h, hi, hg⟩ | ⟨hn, hg⟩
  · simp only [hg]
    obtain ⟨v, hv, hvl⟩ := hI.view hi
    have hspec : ∀ x, Spec.stepOk (.intoMut i) x (abs s) =
        (absL s.regions s.hs).set i (some ⟨.mut, v⟩) := by
      intro x; rw [abs_eq]; exact Spec_stepOk_intoMut (Spec_get_absL hi hv) x
    simp only [hspec]
    cases h with
    | bytes repr reg off len =>
      simp only [viewOfL, hreg, hoff, hlen] at hv hvl
      rcases bytesIntoMut_spec hI cfg e hi hv with hp | ⟨m, s1, heq, hw', ha⟩
      · simp only [bind_apply, hp, sat_panic]; exact hpanic
      · simp only [bind_apply, heq, setHandle_apply, pure_apply, sat_ok]; exact ⟨hw', ha⟩
    | vec reg len cap => simp only [panic_apply, sat_panic]; exact hpanic
    | «mut» arc reg off len cap orig => simp only [panic_apply, sat_panic]; exact hpanic
  · simp only [hg, sat_panic]; exact hpanic

/-! ## `try_into_mut` -/

/-- the vtable's `is_unique` never fails on a live `Bytes` and does not touch the state -/
theorem bytesIsUnique_ok {s : St} (hI : Inv s) {i : Nat} {repr : BRepr} {reg : Option Nat} {off len : Nat}
    (hi : s.hs[i]? = some (some (.bytes repr reg off len))) :
    ∃ b, bytesIsUnique (.bytes repr reg off len) s = .ok b s := by
  have share : ∀ c, ctrlOf (.bytes repr reg off len) = some c → ∃ b, ctrlIsUnique c s = .ok b s := by
    intro c hc
    obtain ⟨e0, he, hl, _⟩ := hI.ctrl_of_handle hi hc
    exact ⟨_, ctrlIsUnique_eq he hl⟩
  cases repr with
  | «static» => exact ⟨false, rfl⟩
  | owned c => exact ⟨false, rfl⟩
  | shared c => exact share c rfl
  | sharedV c => exact share c rfl
  | prom vt oc =>
    cases oc with
    | none => exact ⟨true, rfl⟩
    | some c => exact share c rfl

theorem step_tryIntoMut (cfg : Cfg) (e : Env) (i : Nat) (s : St) (hw : WFx s) :
    StepOKx cfg e (.tryIntoMut i) s := by
  have hI := hw.inv
  unfold StepOKx
  simp only [step, bind_apply]
  have hpanic : WFx s ∧ abs s = Spec.stepPanic (.tryIntoMut i) (abs s) := ⟨hw, rfl⟩
  rcases getHandle_cases s i with ⟨h, hi, hg⟩ | ⟨hn, hg⟩
  · simp only [hg]
    obtain ⟨v, hv, hvl⟩ := hI.view hi
    cases h with
    | bytes repr reg off len =>
      simp only [viewOfL, hreg, hoff, hlen] at hv hvl
      obtain ⟨b, hb⟩ := bytesIsUnique_ok hI hi
      simp only [hb]
      cases b with
      | false =>
        simp only [Bool.false_eq_true, if_false, pure_apply, sat_ok]
        exact ⟨hw, rfl⟩
      | true =>
        simp only [if_true, bind_apply]
        rcases bytesIntoMut_spec hI cfg e hi hv with hp | ⟨m, s1, heq, hw', ha⟩
        · simp only [hp, sat_panic]; exact hpanic
        · simp only [heq, setHandle_apply, pure_apply, sat_ok]
          refine ⟨hw', ?_⟩
          rw [ha, abs_eq]
          exact (Spec_stepOk_tryIntoMut_handle (Spec_get_absL hi hv) i).symm
    | vec reg len cap => simp only [bytesIsUnique, panic_apply, sat_panic]; exact hpanic
    | «mut» arc reg off len cap orig => simp only [bytesIsUnique, panic_apply, sat_panic]; exact hpanic
  · simp only [hg, sat_panic]; exact hpanic

/-! ## freeze -/

theorem step_freeze (cfg : Cfg) (e : Env) (i : Nat) (s : St) (hw : WFx s) :
    StepOKx cfg e (.freeze i) s := by
  have hI := hw.inv
  unfold StepOKx
  simp only [step, bind_apply]
  have hpanic : WFx s ∧ abs s = Spec.stepPanic (.freeze i) (abs s) := ⟨hw, rfl⟩
  rcases getHandle_cases s i with ⟨h, hi, hg⟩ | ⟨hn, hg⟩
  · simp only [hg]
    obtain ⟨v, hv, hvl⟩ := hI.view hi
    have hspec : ∀ x, Spec.stepOk (.freeze i) x (abs s) =
        (absL s.regions s.hs).set i (some ⟨.bytes, v⟩) := by
      intro x; rw [abs_eq]; exact Spec_stepOk_freeze (Spec_get_absL hi hv) x
    simp only [hspec]
    have hok := hI.hok i h hi
    cases h with
    | bytes repr reg off len => simp only [panic_apply, sat_panic]; exact hpanic
    | vec reg len cap => simp only [panic_apply, sat_panic]; exact hpanic
    | «mut» arc reg off len cap orig =>
      simp only [viewOfL, hreg, hoff, hlen] at hv hvl
      cases arc with
      | some c =>
        simp only [bind_apply, setHandle_apply, pure_apply, sat_ok]
        obtain ⟨hlc, ⟨vlen, vcap, vorig, hlive, hcap⟩, hrd⟩ := handleOKL_mutA.mp hok
        refine finish_ok (Inv_set_sub hI hi (h' := .bytes (.sharedV c) reg off len) rfl rfl
          (handleOKL_sharedV.mpr ⟨⟨vlen, vcap, vorig, hlive, by omega⟩, hrd⟩)
          (statOK_of_ctrl (c := c) rfl) (spanSub_bytes_of_mut (Nat.le_refl _) (by omega))
          (by simp [isMutable]) _) ?_
        simp [absL_set, viewOfL, hreg, hoff, hlen, hv, kindOf]
      | none =>
        obtain ⟨hlc, hoffb, hregc, hrd⟩ := handleOKL_mutV.mp hok
        simp only [bind_apply, bytesFromVec]
        by_cases hlc' : len = cap
        · subst hlc'
          simp only [if_true]
          by_cases h0 : off + len = 0
          · have ho : off = 0 := by omega
            have hl : len = 0 := by omega
            subst ho hl
            have hreg0 : reg = none := by
              cases reg with
              | none => rfl
              | some r =>
                simp only at hregc
                have := heap_size_pos hI.regs hregc.1
                omega
            subst hreg0
            simp only [if_true, pure_apply, Nat.lt_irrefl, gt_iff_lt, if_false, bind_apply,
              setHandle_apply, sat_ok, Nat.add_zero, Nat.sub_self]
            refine finish_ok (Inv_set_sub hI hi (h' := .bytes .static none 0 0) rfl rfl
              (handleOKL_static.mpr (by simp [rdL_zero])) (by simp [statOK])
              (spanSub_bytes_of_mut (Nat.le_refl _) (by omega)) (by simp [isMutable]) _) ?_
            simp [absL_set, viewOfL, hreg, hoff, hlen, hv, kindOf]
          · cases reg with
            | none => simp only at hregc; omega
            | some r =>
              simp only at hregc
              have hng : ¬ off > off + len := by omega
              simp only [h0, if_false, bind_apply, regionOdd_eq hregc.1, pure_apply, hng,
                setHandle_apply, sat_ok, Nat.zero_add, Nat.add_sub_cancel_left]
              refine finish_ok (Inv_set_sub hI hi
                (h' := .bytes (.prom (regionOddL s.regions r) none) (some r) off len) rfl rfl
                (handleOKL_promV.mpr ⟨⟨r, rfl, hregc.1, hregc.2, rfl⟩, hrd⟩) (by simp [statOK])
                (spanSub_bytes_of_mut (Nat.le_refl _) (by omega)) (by simp [isMutable]) _) ?_
              simp [absL_set, viewOfL, hreg, hoff, hlen, hv, kindOf]
        · have hne : ¬ off + len = off + cap := by omega
          cases reg with
          | none => simp only at hregc; omega
          | some r =>
            simp only at hregc
            have hng : ¬ off > off + len := by omega
            simp only [hne, if_false, bind_apply, newCtrl_apply, pure_apply, hng, setHandle_apply,
              sat_ok, Nat.zero_add, Nat.add_sub_cancel_left]
            refine finish_ok (Inv_promote hI hi
              (h' := .bytes (.shared s.ctrls.length) (some r) off len) (ct := .sharedB r (off + cap))
              rfl rfl rfl (spanSub_bytes_of_mut (Nat.le_refl _) (by omega)) (by simp [isMutable])
              (handleOKL_shared.mpr ⟨⟨r, off + cap, by simp [liveCtrlL_new], rfl, by omega⟩, hrd⟩)
              ⟨hregc.1, hregc.2.symm⟩ (by intro o h; cases h) _) ?_
            simp [absL_set, viewOfL, hreg, hoff, hlen, hv, kindOf]
  · simp only [hg, sat_panic]; exact hpanic

end OpsC
end BytesVerif.Core
