/-
Helper lemmas for Props/C01.lean: facts about the reference model (`Spec.get` under `setAt` / append,
framing of `Spec.stepOk` / `Spec.stepPanic`, sub-range property of the operations on a `Bytes`
value) and the model-side fact that the writing operations reject a `Bytes` handle.
-/
import BytesVerif.Lemmas.Core.Sound
namespace BytesVerif.Core
namespace PropC01

/-! ### `Spec.get` -/

theorem get_lt {a : Spec.St} {j : Nat} {x : SH} (h : Spec.get a j = some x) : j < a.length := by
  unfold Spec.get at h
  cases hj : a[j]? with
  | none => simp [hj] at h
  | some _ => exact (List.getElem?_eq_some_iff.mp hj).1

theorem get_append {a : Spec.St} {j : Nat} (h : j < a.length) (b : Spec.St) :
    Spec.get (a ++ b) j = Spec.get a j := by
  simp [Spec.get, List.getElem?_append_left h]

theorem get_setAt_ne {a : Spec.St} {i j : Nat} (h : i ≠ j) (v : Option SH) :
    Spec.get (Spec.setAt a i v) j = Spec.get a j := by
  simp [Spec.get, Spec.setAt, h]

theorem get_setAt_ne' {a : Spec.St} {i j : Nat} (h : ¬ j = i) (v : Option SH) :
    Spec.get (Spec.setAt a i v) j = Spec.get a j := get_setAt_ne (fun e => h e.symm) v

theorem get_setAt_eq {a : Spec.St} {j : Nat} (h : j < a.length) (v : Option SH) :
    Spec.get (Spec.setAt a j v) j = v := by
  simp [Spec.get, Spec.setAt, h]

theorem length_setAt (a : Spec.St) (i : Nat) (v : Option SH) : (Spec.setAt a i v).length = a.length := by
  simp [Spec.setAt]

/-- the `upd` of `Spec.stepOk` -/
def upd (s : Spec.St) (i : Nat) (f : SH → SH) : Spec.St :=
  match Spec.get s i with
  | some h => Spec.setAt s i (some (f h))
  | none => s

theorem get_upd_ne {a : Spec.St} {i j : Nat} (h : i ≠ j) (f : SH → SH) :
    Spec.get (upd a i f) j = Spec.get a j := by
  unfold upd
  split
  · exact get_setAt_ne h _
  · rfl

theorem get_upd_eq {a : Spec.St} {j : Nat} {x : SH} (h : Spec.get a j = some x) (f : SH → SH) :
    Spec.get (upd a j f) j = some (f x) := by
  unfold upd
  rw [h]
  exact get_setAt_eq (get_lt h) _

/-- handles an operation may change (copy of `touched` of Props/C01.lean) -/
def touched : Op → List Nat
  | .fromVec i | .splitOff i _ | .splitTo i _ | .split i | .truncate i _ | .clear i | .advance i _
  | .tryIntoMut i | .intoMut i | .intoVec i | .freeze i | .extend i _ | .resize i _ _ | .setByte i _ _ | .drop i => [i]
  | .unsplit i j => [i, j]
  | _ => []

end PropC01
end BytesVerif.Core

namespace BytesVerif.Core
namespace PropC01

theorem frame_ok (op : Op) (v : Val) (a : Spec.St) (j : Nat) (hj : j ∉ touched op) (x : SH)
    (hx : Spec.get a j = some x) : Spec.get (Spec.stepOk op v a) j = some x := by
  have hlt := get_lt hx
  cases op <;> simp only [Spec.stepOk, touched, List.mem_cons, List.not_mem_nil, or_false, not_or] at hj ⊢
  all_goals (repeat' split)
  all_goals first
    | exact hx
    | simp [get_append, get_setAt_ne', length_setAt, hlt, hx, hj]

theorem frame_panic (op : Op) (a : Spec.St) (j : Nat) (hj : j ∉ touched op) (x : SH)
    (hx : Spec.get a j = some x) : Spec.get (Spec.stepPanic op a) j = some x := by
  cases op <;> simp only [Spec.stepPanic, touched, List.mem_cons, List.not_mem_nil, or_false, not_or] at hj ⊢
  all_goals (repeat' split)
  all_goals first
    | exact hx
    | simp [get_setAt_ne', hx, hj]

/-- operations that write into handle `j` (and therefore are rejected by the model on a `Bytes`) -/
def writesTo (j : Nat) : Op → Prop
  | .extend i _ | .resize i _ _ | .setByte i _ _ | .unsplit i _ => i = j
  | _ => False

instance (j : Nat) (op : Op) : Decidable (writesTo j op) := by
  cases op <;> simp only [writesTo] <;> infer_instance

theorem sub_drop (l : List Byte) (k : Nat) : l.drop k = (l.drop k).take l.length := by
  rw [List.take_of_length_le]
  simp

local macro "fin_sub" lo:term "," n:term : tactic =>
  `(tactic| (intro y hy
             simp [get_append, get_setAt_eq, length_setAt, *] at hy
             subst hy
             exact ⟨$lo, $n, by simp [← sub_drop]⟩))

/-- every operation of the reference model other than the writing ones leaves in slot `j` a
sub-range of what was there -/
theorem immut_ok (op : Op) (v : Val) (a : Spec.St) (j : Nat) (hw : ¬ writesTo j op) (x : SH)
    (hx : Spec.get a j = some x) :
    ∀ y, Spec.get (Spec.stepOk op v a) j = some y → ∃ lo n, y.val = (x.val.drop lo).take n := by
  have hlt := get_lt hx
  have hself : ∀ y, Spec.get a j = some y → ∃ lo n, y.val = (x.val.drop lo).take n := by
    intro y hy
    rw [hx] at hy
    cases hy
    exact ⟨0, x.val.length, by simp⟩
  by_cases ht : j ∈ touched op
  · cases op <;> simp only [touched, List.mem_cons, List.not_mem_nil, or_false] at ht <;>
      (try exact ht.elim) <;> simp only [writesTo] at hw
    all_goals (try subst ht)
    all_goals simp only [Spec.stepOk, hx]
    case fromVec => fin_sub 0, x.val.length
    case splitOff k => fin_sub 0, k
    case splitTo k => fin_sub k, x.val.length
    case split => fin_sub 0, 0
    case truncate n => fin_sub 0, n
    case clear => fin_sub 0, 0
    case advance n => fin_sub n, x.val.length
    case tryIntoMut =>
      split
      · fin_sub 0, x.val.length
      · exact hself
    case intoMut => fin_sub 0, x.val.length
    case intoVec => fin_sub 0, x.val.length
    case freeze => fin_sub 0, x.val.length
    case extend => exact (hw rfl).elim
    case resize => exact (hw rfl).elim
    case setByte => exact (hw rfl).elim
    case drop =>
      intro y hy
      simp [get_setAt_eq, hlt] at hy
    case unsplit i k =>
      have hk : j = k := by
        rcases ht with h | h
        · exact (hw h.symm).elim
        · exact h
      subst hk
      split
      · intro y hy
        simp [get_setAt_eq, length_setAt, hlt] at hy
      · exact hself
  · intro y hy
    rw [frame_ok op v a j ht x hx] at hy
    cases hy
    exact ⟨0, x.val.length, by simp⟩

/-- a panic never changes what a `Bytes` handle reads (the handle consumed by a panicking `unsplit`
is a `BytesMut`) -/
theorem immut_panic (op : Op) (a : Spec.St) (j : Nat) (x : SH) (hx : Spec.get a j = some x)
    (hk : x.kind = .bytes) : Spec.get (Spec.stepPanic op a) j = some x := by
  cases op <;> simp only [Spec.stepPanic] <;> (try exact hx)
  case unsplit i k =>
    split
    · rename_i p q hp hq
      split
      · rename_i hc
        by_cases hkj : j = k
        · subst hkj
          rw [hx] at hq
          cases hq
          rw [hk] at hc
          exact absurd hc.2.2 (by decide)
        · rw [get_setAt_ne' hkj]
          exact hx
      · exact hx
    · exact hx

/-! ### model side -/

/-- a slot that the abstraction shows as a `Bytes` value holds a `Bytes` handle -/
theorem bytes_of_abs {s : St} {j : Nat} {x : SH} (hx : Spec.get (abs s) j = some x)
    (hk : x.kind = .bytes) :
    ∃ repr reg off len, s.hs[j]? = some (some (.bytes repr reg off len)) := by
  unfold Spec.get abs at hx
  rw [List.getElem?_map] at hx
  cases hj : s.hs[j]? with
  | none => simp [hj] at hx
  | some oh =>
    cases oh with
    | none => simp [hj] at hx
    | some h =>
      simp only [hj, Option.map_some, Option.join_some, Option.bind_some] at hx
      cases hv : viewOf s h with
      | none => simp [hv] at hx
      | some bs =>
        simp only [hv, Option.map_some, Option.some.injEq] at hx
        subst hx
        cases h with
        | bytes repr reg off len => exact ⟨repr, reg, off, len, rfl⟩
        | «mut» _ _ _ _ _ _ => simp [kindOf] at hk
        | vec _ _ _ => simp [kindOf] at hk

/-- the writing operations reject a `Bytes` handle without touching the state -/
theorem writes_panic (cfg : Cfg) (e : Env) (op : Op) (s : St) (j : Nat) {repr : BRepr}
    {reg : Option Nat} {off len : Nat} (h : s.hs[j]? = some (some (.bytes repr reg off len)))
    (hw : writesTo j op) : step cfg e op s = .panic s := by
  cases op <;> simp only [writesTo] at hw
  all_goals subst hw
  case extend bs =>
    simp only [step, bind_apply, getHandle_eq h, mutExtend, mutReserve, panic_apply]
  case resize n b =>
    simp only [step, bind_apply, getHandle_eq h, panic_apply]
  case setByte k b =>
    simp only [step, bind_apply, getHandle_eq h, panic_apply]
  case unsplit i k =>
    simp only [step, bind_apply, ite_apply', getHandle_eq h, panic_apply]
    split
    · rfl
    · rcases getHandle_cases s k with ⟨o, _, ho⟩ | ⟨_, ho⟩
      · simp only [ho]
      · simp only [ho]

end PropC01
end BytesVerif.Core
