/-
Helpers for Props/OracleSound.lean: the observation the judge would see if the implementation
behaved exactly like M1 (`obsOfModel`, `evsOfModel`) and the lemmas relating the judge's oracles,
evaluated on these observations, to facts about model states.
-/
import BytesVerif.Judge.Seq
import BytesVerif.Lemmas.Core.Sound
import BytesVerif.Lemmas.Core.PropC07
import BytesVerif.Lemmas.Core.PropC08
import BytesVerif.Lemmas.Core.PropC01
import BytesVerif.Lemmas.Core.PropC16
set_option linter.unusedVariables false
set_option linter.unusedSimpArgs false
namespace BytesVerif.Judge.SeqJ
open BytesVerif.Core BytesVerif.Judge

/-! ## the model as an implementation: what the harness would print -/

/-- `ledger::find_block` on a model address `(reg, off)`: the address lies in (or one past the end
of) the live block `r`.  Result: (block serial = region index, offset, block size). -/
def locate (s : St) (reg : Option Nat) (off : Nat) : Option (Nat × Nat × Nat) :=
  match reg with
  | none => none
  | some r =>
    match s.regions[r]? with
    | some rg => if rg.live && off ≤ rg.size then some (r, off, rg.size) else none
    | none => none

/-- one `h` line of the harness (`World::print_handles`):
* `Bytes`: the address is printed when `find_block(ptr)` succeeds; when it fails the line says
  `none` for an empty view and `wild` otherwise;
* `BytesMut`: likewise with "capacity = 0" in place of "empty";
* `Vec`: `none` when the capacity is 0 (dangling pointer), else as above with the base address. -/
def obsOfHandle (s : St) (i : Nat) (h : Handle) : Obs :=
  let c := contentsStr ((viewOf s h).getD [])
  match h with
  | .bytes _ reg off len =>
    let a := locate s reg off
    { id := i, kind := .bytes, blk := a, wild := len != 0 && a.isNone, len := len, cap := none,
      uniq := (match bytesIsUnique h s with | .ok b _ => some b | _ => none), contents := c }
  | .mut _ reg off len cap _ =>
    let a := locate s reg off
    { id := i, kind := .mut, blk := a, wild := cap != 0 && a.isNone, len := len, cap := some cap,
      uniq := none, contents := c }
  | .vec reg len cap =>
    let a := if cap = 0 then none else locate s reg 0
    { id := i, kind := .vec, blk := a, wild := cap != 0 && a.isNone, len := len, cap := some cap,
      uniq := none, contents := c }

/-- the `h` lines after an operation: one per live handle, in slot order -/
def obsOfModel (s : St) : List Obs :=
  (s.hs.zipIdx).filterMap fun (oh, i) => oh.map (obsOfHandle s i)

/-- an allocator event of the model as an `ev` line (tracked, i.e. non-noise; byte buffers have
alignment 1, control blocks alignment 8; the size of a control block is not modelled and never read
by an oracle; owner bookkeeping events are not allocator events) -/
def evtOf : Ev → Option Evt
  | .alloc r z => some { alloc := true, serial := r, size := z, align := 1, noise := false, bad := 0 }
  | .dealloc r z => some { alloc := false, serial := r, size := z, align := 1, noise := false, bad := 0 }
  | .allocCtrl c => some { alloc := true, serial := c, size := 0, align := 8, noise := false, bad := 0 }
  | .deallocCtrl c => some { alloc := false, serial := c, size := 0, align := 8, noise := false, bad := 0 }
  | .ownerAsRef _ | .ownerDrop _ => none

/-- events appended by the step `s → s'` (the model keeps them newest first), oldest first -/
def newEvents (s s' : St) : List Ev := (s'.events.take (s'.events.length - s.events.length)).reverse

def evsOfModel (s s' : St) : List Evt := (newEvents s s').filterMap evtOf

/-! ## looking up observations -/

def obsList (F : Nat → Handle → Obs) (l : List (Option Handle)) (k : Nat) : List Obs :=
  (l.zipIdx k).filterMap fun (oh, i) => oh.map (F i)

theorem obsOfModel_eq (s : St) : obsOfModel s = obsList (obsOfHandle s) s.hs 0 := rfl

theorem obsList_nil (F) (k) : obsList F [] k = [] := rfl
theorem obsList_cons_none (F) (l) (k) : obsList F (none :: l) k = obsList F l (k+1) := by
  simp [obsList, List.zipIdx_cons]
theorem obsList_cons_some (F) (h) (l) (k) : obsList F (some h :: l) k = F k h :: obsList F l (k+1) := by
  simp [obsList, List.zipIdx_cons]

theorem find_obsList (F : Nat → Handle → Obs) (hF : ∀ i h, (F i h).id = i) (l : List (Option Handle)) (k i : Nat) :
    (obsList F l k).find? (fun o => o.id == i) =
      if i < k then none else ((l[i - k]?).join).map (F i) := by
  induction l generalizing k with
  | nil => simp [obsList_nil]
  | cons a l ih =>
    cases a with
    | none =>
      rw [obsList_cons_none, ih]
      by_cases h1 : i < k
      · simp [h1, Nat.lt_succ_of_lt h1]
      · by_cases h2 : i = k
        · subst h2; simp
        · have h3 : ¬ i < k + 1 := by omega
          have h4 : i - k = (i - (k+1)) + 1 := by omega
          simp only [h1, h3, if_false, h4, List.getElem?_cons_succ]
    | some h =>
      rw [obsList_cons_some, List.find?_cons]
      by_cases h2 : i = k
      · subst h2; simp [hF]
      · have : ((F k h).id == i) = false := by simp [hF]; omega
        rw [this, ih]
        by_cases h1 : i < k
        · simp [h1, Nat.lt_succ_of_lt h1]
        · have h3 : ¬ i < k + 1 := by omega
          have h4 : i - k = (i - (k+1)) + 1 := by omega
          simp only [h1, h3, if_false, h4, List.getElem?_cons_succ]

theorem obsOfHandle_id (s : St) (i : Nat) (h : Handle) : (obsOfHandle s i h).id = i := by
  cases h <;> rfl

theorem findObs_obsOfModel (s : St) (i : Nat) :
    findObs (obsOfModel s) i = ((s.hs[i]?).join).map (obsOfHandle s i) := by
  unfold findObs
  rw [obsOfModel_eq, find_obsList _ (obsOfHandle_id s)]
  simp

theorem mem_obsOfModel {s : St} {o : Obs} :
    o ∈ obsOfModel s ↔ ∃ i h, s.hs[i]? = some (some h) ∧ o = obsOfHandle s i h := by
  unfold obsOfModel
  simp only [List.mem_filterMap, List.mem_zipIdx_iff_getElem?, Prod.exists]
  constructor
  · rintro ⟨oh, i, hi, ho⟩
    cases oh with
    | none => simp at ho
    | some h => simp at ho; exact ⟨i, h, hi, ho.symm⟩
  · rintro ⟨i, h, hi, rfl⟩
    exact ⟨some h, i, hi, rfl⟩

theorem length_obsList (F) (l : List (Option Handle)) (k : Nat) : (obsList F l k).length = (liveHs l).length := by
  induction l generalizing k with
  | nil => rfl
  | cons a l ih =>
    cases a with
    | none => rw [obsList_cons_none, ih]; simp [liveHs]
    | some h => rw [obsList_cons_some]; simp [liveHs, ih]


/-! ## fields of an observation -/

/-- the `cap` column -/
def hcapO : Handle → Option Nat
  | .bytes .. => none
  | .mut _ _ _ _ cap _ => some cap
  | .vec _ _ cap => some cap

/-- the number of bytes the handle may touch: `cap.getD len` -/
def extent (h : Handle) : Nat := (hcapO h).getD (hlen h)

theorem obs_len (s : St) (i : Nat) (h : Handle) : (obsOfHandle s i h).len = hlen h := by cases h <;> rfl
theorem obs_cap (s : St) (i : Nat) (h : Handle) : (obsOfHandle s i h).cap = hcapO h := by cases h <;> rfl
theorem obs_kind (s : St) (i : Nat) (h : Handle) : (obsOfHandle s i h).kind = kindOf h := by cases h <;> rfl
theorem obs_contents (s : St) (i : Nat) (h : Handle) :
    (obsOfHandle s i h).contents = contentsStr ((viewOfL s.regions h).getD []) := by
  rw [← viewOf_eq]; cases h <;> rfl
theorem obs_blk (s : St) (i : Nat) (h : Handle) :
    (obsOfHandle s i h).blk =
      if kindOf h = .vec ∧ extent h = 0 then none else locate s (hreg h) (hoff h) := by
  cases h with
  | bytes repr reg off len => simp [obsOfHandle, kindOf, hreg, hoff]
  | «mut» arc reg off len cap orig => simp [obsOfHandle, kindOf, hreg, hoff]
  | vec reg len cap =>
    simp only [obsOfHandle, kindOf, hreg, hoff, extent, hcapO, Option.getD_some, true_and]
theorem obs_uniq_mut (s : St) (i : Nat) (h : Handle) (hk : kindOf h ≠ .bytes) :
    (obsOfHandle s i h).uniq = none := by
  cases h <;> first | rfl | exact (hk rfl).elim

theorem locate_some_of {s : St} {r off : Nat} {rg : Region} (hr : s.regions[r]? = some rg)
    (hl : rg.live = true) (hb : off ≤ rg.size) : locate s (some r) off = some (r, off, rg.size) := by
  simp [locate, hr, hl, hb]

theorem locate_eq_some {s : St} {reg : Option Nat} {off r o z : Nat}
    (h : locate s reg off = some (r, o, z)) :
    reg = some r ∧ o = off ∧ ∃ rg, s.regions[r]? = some rg ∧ rg.live = true ∧ off ≤ rg.size ∧ z = rg.size := by
  unfold locate at h
  cases reg with
  | none => cases h
  | some r' =>
    simp only at h
    cases hr : s.regions[r']? with
    | none => rw [hr] at h; cases h
    | some rg =>
      rw [hr] at h; simp only at h
      split at h
      · next hc =>
        simp only [Bool.and_eq_true, decide_eq_true_eq] at hc
        cases h
        exact ⟨rfl, rfl, rg, hr, hc.1, hc.2, rfl⟩
      · cases h

/-- `locate` only reads the liveness and size of the region -/
theorem locate_congr {s s' : St} {r : Nat} (off : Nat)
    (h : (s'.regions[r]?).map (fun rg => (rg.live, rg.size)) = (s.regions[r]?).map (fun rg => (rg.live, rg.size))) :
    locate s' (some r) off = locate s (some r) off := by
  cases h1 : s'.regions[r]? with
  | none =>
    rw [h1] at h
    cases h2 : s.regions[r]? with
    | none => simp only [locate, h1, h2]
    | some rg => rw [h2] at h; cases h
  | some rg' =>
    rw [h1] at h
    cases h2 : s.regions[r]? with
    | none => rw [h2] at h; cases h
    | some rg =>
      rw [h2] at h
      simp only [Option.map_some, Option.some.injEq, Prod.mk.injEq] at h
      simp only [locate, h1, h2, h.1, h.2]

theorem locate_same_regions {s s' : St} (h : s'.regions = s.regions) (reg : Option Nat) (off : Nat) :
    locate s' reg off = locate s reg off := by
  unfold locate; rw [h]

/-- a successful non-empty read locates its start address -/
theorem locate_of_rd {s : St} {reg : Option Nat} {off len : Nat}
    (h : (rdL s.regions reg off len).isSome = true) (hl : len ≠ 0) :
    ∃ r rg, reg = some r ∧ s.regions[r]? = some rg ∧ rg.live = true ∧ off + len ≤ rg.size ∧
      locate s reg off = some (r, off, rg.size) := by
  obtain ⟨v, hv⟩ := Option.isSome_iff_exists.mp h
  rcases rdL_eq_some_iff.mp hv with ⟨h0, _⟩ | ⟨_, r, rg, rfl, hr, hlv, hb, _⟩
  · exact (hl h0).elim
  · exact ⟨r, rg, rfl, hr, hlv, hb, locate_some_of hr hlv (by omega)⟩

theorem locate_of_heapLive {s : St} {r off : Nat} (hl : isHeapLiveL s.regions r = true)
    (hb : off ≤ regionSizeL s.regions r) :
    locate s (some r) off = some (r, off, regionSizeL s.regions r) := by
  obtain ⟨rg, o, hr, hlv, _⟩ := isHeapLiveL_iff.mp hl
  have : regionSizeL s.regions r = rg.size := by simp [regionSizeL_def, hr]
  rw [this] at hb ⊢
  exact locate_some_of hr hlv hb

/-- what the invariant says about the address range of a handle that can touch memory -/
theorem located_of_inv {s : St} (hI : Inv s) {i : Nat} {h : Handle} (hi : s.hs[i]? = some (some h))
    (he : extent h ≠ 0) :
    ∃ r z, hreg h = some r ∧ locate s (hreg h) (hoff h) = some (r, hoff h, z) ∧ hoff h + extent h ≤ z := by
  have hok := hI.hok i h hi
  cases h with
  | bytes repr reg off len =>
    simp only [extent, hcapO, hlen, Option.getD_none] at he
    obtain ⟨r, rg, h1, h2, h3, h4, h5⟩ := locate_of_rd (handleOKL_rd hok) he
    exact ⟨r, rg.size, h1, h5, h4⟩
  | «mut» arc reg off len cap orig =>
    simp only [extent, hcapO, Option.getD_some] at he ⊢
    simp only [hreg, hoff]
    cases arc with
    | none =>
      obtain ⟨_, _, h3, _⟩ := handleOKL_mutV.mp hok
      cases reg with
      | none => simp only at h3; omega
      | some r =>
        simp only at h3
        exact ⟨r, _, rfl, locate_of_heapLive h3.1 (by omega), by omega⟩
    | some c =>
      obtain ⟨_, ⟨vlen, vcap, vorig, h1, h2⟩, _⟩ := handleOKL_mutA.mp hok
      obtain ⟨_, _, _, _, _, _, hb⟩ := hI.cok' h1
      cases reg with
      | none => simp only [ctrlBufOK] at hb; omega
      | some r =>
        simp only [ctrlBufOK] at hb
        exact ⟨r, _, rfl, locate_of_heapLive hb.1 (by omega), by omega⟩
  | vec reg len cap =>
    simp only [extent, hcapO, Option.getD_some] at he ⊢
    simp only [hreg, hoff]
    obtain ⟨_, h3, _⟩ := handleOKL_vec.mp hok
    cases reg with
    | none => simp only at h3; omega
    | some r =>
      simp only at h3
      exact ⟨r, _, rfl, locate_of_heapLive h3.1 (by omega), by omega⟩

/-- a `BytesMut` that names a region is located in it whatever its capacity -/
theorem located_mut_of_inv {s : St} (hI : Inv s) {i : Nat} {arc : Option Nat} {r off len cap orig : Nat}
    (hi : s.hs[i]? = some (some (.mut arc (some r) off len cap orig))) :
    ∃ z, locate s (some r) off = some (r, off, z) ∧ off + cap ≤ z := by
  have hok := hI.hok i _ hi
  cases arc with
  | none =>
    obtain ⟨_, _, h3, _⟩ := handleOKL_mutV.mp hok
    simp only at h3
    exact ⟨_, locate_of_heapLive h3.1 (by omega), by omega⟩
  | some c =>
    obtain ⟨_, ⟨vlen, vcap, vorig, h1, h2⟩, _⟩ := handleOKL_mutA.mp hok
    obtain ⟨_, _, _, _, _, _, hb⟩ := hI.cok' h1
    simp only [ctrlBufOK] at hb
    exact ⟨_, locate_of_heapLive hb.1 (by omega), by omega⟩

/-! ## which calls panic: "never panics" as a compositional predicate -/

section NoP
variable {α β : Type}

/-- `m` never panics (it may return or be `ub`) -/
def NoP (m : M α) : Prop := ∀ s s', m s ≠ .panic s'
/-- … from state `s` -/
def NoPAt (m : M α) (s : St) : Prop := ∀ s', m s ≠ .panic s'
/-- a panic of `m` from `s` leaves `s` -/
def PS (m : M α) (s : St) : Prop := ∀ s', m s = .panic s' → s' = s

theorem NoP.at {m : M α} (h : NoP m) (s : St) : NoPAt m s := h s
theorem NoPAt.ps {m : M α} {s : St} (h : NoPAt m s) : PS m s := fun s' hp => (h s' hp).elim

theorem NoPAt.bind {m : M α} {f : α → M β} {s : St} (hm : NoPAt m s)
    (hf : ∀ a s1, m s = .ok a s1 → NoPAt (f a) s1) : NoPAt (m >>= f) s := by
  intro s' h
  simp only [bind_apply] at h
  cases hm' : m s with
  | ok a s1 => rw [hm'] at h; exact hf a s1 hm' s' h
  | panic s1 => exact hm s1 hm'
  | ub w s1 => rw [hm'] at h; cases h

theorem NoP.bind {m : M α} {f : α → M β} (hm : NoP m) (hf : ∀ a, NoP (f a)) : NoP (m >>= f) :=
  fun s => (hm.at s).bind fun a s1 _ => (hf a).at s1

theorem NoP.pure (a : α) : NoP (pure a : M α) := by intro s s' h; cases h
theorem NoP.ub (w : String) : NoP (ub w : M α) := by intro s s' h; cases h
theorem NoP.ite {c : Prop} [Decidable c] {m1 m2 : M α} (h1 : NoP m1) (h2 : NoP m2) :
    NoP (if c then m1 else m2) := by
  split
  · exact h1
  · exact h2
theorem NoP.modify (f : St → St) : NoP (modify f) := by intro s s' h; cases h
theorem NoP.get : NoP get := by intro s s' h; cases h
theorem NoP.emit (e : Ev) : NoP (Core.emit e) := NoP.modify _

/-- a panic of `m >>= f` leaves `s` if `m`'s does and nothing after `m` panics -/
theorem PS.bindN {m : M α} {f : α → M β} {s : St} (hm : PS m s)
    (hf : ∀ a s1, m s = .ok a s1 → NoPAt (f a) s1) : PS (m >>= f) s := by
  intro s' h
  simp only [bind_apply] at h
  cases hm' : m s with
  | ok a s1 => rw [hm'] at h; exact (hf a s1 hm' s' h).elim
  | panic s1 => rw [hm'] at h; cases h; exact hm _ hm'
  | ub w s1 => rw [hm'] at h; cases h

/-- … or if `m` does not change the state -/
theorem PS.bindR {m : M α} {f : α → M β} {s : St} (hm : PS m s)
    (hf : ∀ a s1, m s = .ok a s1 → s1 = s ∧ PS (f a) s) : PS (m >>= f) s := by
  intro s' h
  simp only [bind_apply] at h
  cases hm' : m s with
  | ok a s1 =>
    rw [hm'] at h
    obtain ⟨rfl, hp⟩ := hf a s1 hm'
    exact hp s' h
  | panic s1 => rw [hm'] at h; cases h; exact hm _ hm'
  | ub w s1 => rw [hm'] at h; cases h

theorem PS.panic (s : St) : PS (panic : M α) s := by intro s' h; cases h; rfl

/-! ### primitives -/

theorem NoP_getRegion (r : Nat) : NoP (getRegion r) := by
  intro s s' h; unfold getRegion at h; split at h <;> cases h
theorem NoP_setRegion (r : Nat) (rg : Region) : NoP (setRegion r rg) := NoP.modify _
theorem NoP_allocRegion (e : Env) (z : Nat) (d : List (Option Byte)) : NoP (allocRegion e z d) := by
  intro s s' h; cases h
theorem NoP_getCtrl (c : Nat) : NoP (getCtrl c) := by
  intro s s' h; unfold getCtrl at h
  split at h
  · split at h <;> cases h
  · cases h
theorem NoP_setCtrl (c : Nat) (e : CtrlE) : NoP (setCtrl c e) := NoP.modify _
theorem NoP_newCtrl (ct : Ctrl) (rc : Nat) : NoP (newCtrl ct rc) := by intro s s' h; cases h
theorem NoP_newHandle (h : Handle) : NoP (newHandle h) := by intro s s' h'; cases h'
theorem NoP_setHandle (i : Nat) (h : Handle) : NoP (setHandle i h) := NoP.modify _
theorem NoP_killHandle (i : Nat) : NoP (killHandle i) := NoP.modify _

theorem NoP_freeCtrl (c : Nat) : NoP (freeCtrl c) := by
  unfold freeCtrl
  exact (NoP_getCtrl c).bind fun e => (NoP_setCtrl _ _).bind fun _ => NoP.emit _
theorem NoP_incCtrl (c : Nat) : NoP (incCtrl c) := by
  unfold incCtrl
  exact (NoP_getCtrl c).bind fun e => NoP_setCtrl _ _
theorem NoP_ctrlIsUnique (c : Nat) : NoP (ctrlIsUnique c) := by
  unfold ctrlIsUnique
  exact (NoP_getCtrl c).bind fun e => NoP.pure _

theorem NoP_freeRegion (r z : Nat) : NoP (freeRegion r z) := by
  unfold freeRegion
  refine (NoP_getRegion r).bind fun rg => ?_
  refine NoP.ite (NoP.ub _) (NoP.ite (NoP.ub _) ?_)
  split
  · exact (NoP_setRegion _ _).bind fun _ => NoP.emit _
  · exact NoP.ub _

theorem NoP_readRange (reg : Option Nat) (off len : Nat) : NoP (readRange reg off len) := by
  unfold readRange
  refine NoP.ite (NoP.pure _) ?_
  split
  · exact NoP.ub _
  · refine (NoP_getRegion _).bind fun rg => ?_
    refine NoP.ite (NoP.ub _) (NoP.ite (NoP.ub _) ?_)
    intro s s' h
    dsimp only at h
    cases hm : List.mapM id (List.take len (List.drop off rg.data)) with
    | none => rw [hm] at h; cases h
    | some bs => rw [hm] at h; cases h

theorem NoP_writeRange (reg : Option Nat) (off : Nat) (bs : List Byte) : NoP (writeRange reg off bs) := by
  unfold writeRange
  refine NoP.ite (NoP.pure _) ?_
  split
  · exact NoP.ub _
  · refine (NoP_getRegion _).bind fun rg => ?_
    refine NoP.ite (NoP.ub _) (NoP.ite (NoP.ub _) ?_)
    split
    · exact NoP_setRegion _ _
    · exact NoP.ub _

theorem NoP_copyWithin (reg : Option Nat) (a b n : Nat) : NoP (copyWithin reg a b n) := by
  unfold copyWithin
  refine NoP.ite (NoP.pure _) ?_
  exact (NoP_readRange _ _ _).bind fun _ => NoP_writeRange _ _ _

theorem NoP_vecFree (reg : Option Nat) (cap : Nat) : NoP (vecFree reg cap) := by
  unfold vecFree
  split
  · exact NoP.ite (NoP.pure _) (NoP.ub _)
  · exact NoP.ite (NoP.ub _) (NoP_freeRegion _ _)

theorem NoP_releaseCtrl (c : Nat) : NoP (releaseCtrl c) := by
  unfold releaseCtrl
  refine (NoP_getCtrl c).bind fun e => ?_
  refine NoP.ite (NoP.ub _) (NoP.ite (NoP_setCtrl _ _) ?_)
  refine (NoP_setCtrl _ _).bind fun _ => ?_
  split
  · exact (NoP_freeRegion _ _).bind fun _ => NoP_freeCtrl _
  · exact (NoP_vecFree _ _).bind fun _ => NoP_freeCtrl _
  · exact (NoP.emit _).bind fun _ => (NoP.modify _).bind fun _ => NoP_freeCtrl _

theorem NoP_regionOdd (r : Option Nat) : NoP (regionOdd r) := by
  unfold regionOdd
  split
  · exact NoP.pure _
  · refine (NoP_getRegion _).bind fun rg => ?_
    split <;> exact NoP.pure _

theorem NoP_promDecode (vt : Bool) (reg : Option Nat) : NoP (promDecode vt reg) := by
  unfold promDecode
  exact (NoP_regionOdd _).bind fun _ => NoP.ite (NoP.pure _) (NoP.ub _)

theorem NoP_bytesFromVec (reg : Option Nat) (len cap : Nat) : NoP (bytesFromVec reg len cap) := by
  unfold bytesFromVec
  refine NoP.ite (NoP.ite (NoP.pure _) ((NoP_regionOdd _).bind fun _ => NoP.pure _)) ?_
  split
  · exact NoP.ub _
  · exact (NoP_newCtrl _ _).bind fun _ => NoP.pure _

theorem NoP_takeSharedB (c : Nat) : NoP (takeSharedB c) := by
  unfold takeSharedB
  refine (NoP_getCtrl c).bind fun e => ?_
  split
  · exact (NoP_setCtrl _ _).bind fun _ => (NoP_freeCtrl _).bind fun _ => NoP.pure _
  · exact NoP.ub _

theorem NoP_bytesDrop (repr : BRepr) (reg : Option Nat) (off len : Nat) :
    NoP (bytesDrop (.bytes repr reg off len)) := by
  cases repr with
  | «static» => exact NoP.pure _
  | owned c => exact NoP_releaseCtrl _
  | shared c => exact NoP_releaseCtrl _
  | sharedV c => exact NoP_releaseCtrl _
  | prom vt oc =>
    cases oc with
    | some c => exact NoP_releaseCtrl _
    | none =>
      cases reg with
      | none => exact NoP.ub _
      | some r => exact (NoP_promDecode _ _).bind fun _ => NoP_freeRegion _ _

theorem NoP_mutDrop (arc reg : Option Nat) (off len cap orig : Nat) :
    NoP (mutDrop (.mut arc reg off len cap orig)) := by
  cases arc with
  | none => exact NoP_vecFree _ _
  | some c => exact NoP_releaseCtrl _

theorem NoP_bytesIsUnique (repr : BRepr) (reg : Option Nat) (off len : Nat) :
    NoP (bytesIsUnique (.bytes repr reg off len)) := by
  cases repr with
  | «static» => exact NoP.pure _
  | owned c => exact NoP.pure _
  | shared c => exact NoP_ctrlIsUnique _
  | sharedV c => exact NoP_ctrlIsUnique _
  | prom vt oc => cases oc <;> first | exact NoP.pure _ | exact NoP_ctrlIsUnique _

/-- the release profile: unchecked arithmetic wraps, `debug_assert!` is compiled out -/
def cfg0 : Cfg := ⟨false, false⟩

theorem NoP_dassert0 (b : Bool) : NoP (dassert cfg0 b) := by
  simp only [dassert, cfg0, Bool.false_and, Bool.false_eq_true, if_false]; exact NoP.pure _
theorem NoP_usub0 (a b : Nat) : NoP (usub cfg0 a b) := by
  unfold usub
  exact NoP.ite (NoP.pure _) (by simp only [cfg0, Bool.false_eq_true, if_false]; exact NoP.pure _)
theorem NoP_uadd0 (a b : Nat) : NoP (uadd cfg0 a b) := by
  unfold uadd
  exact NoP.ite (NoP.pure _) (by simp only [cfg0, Bool.false_eq_true, if_false]; exact NoP.pure _)

theorem NoP_mutAdvance0 (arc reg : Option Nat) (off len cap orig k : Nat) :
    NoP (mutAdvanceUnchecked cfg0 (.mut arc reg off len cap orig) k) := by
  unfold mutAdvanceUnchecked
  refine NoP.ite (NoP.pure _) ?_
  refine (NoP_dassert0 _).bind fun _ => (NoP_usub0 _ _).bind fun _ => ?_
  cases arc with
  | none => exact NoP.ite (NoP.pure _) ((NoP_newCtrl _ _).bind fun _ => NoP.pure _)
  | some c => exact NoP.pure _

theorem NoP_mutShallowClone (arc reg : Option Nat) (off len cap orig : Nat) :
    NoP (mutShallowClone (.mut arc reg off len cap orig)) := by
  cases arc with
  | some c => exact (NoP_incCtrl _).bind fun _ => NoP.pure _
  | none =>
    unfold mutShallowClone mutPromote
    exact ((NoP_newCtrl _ _).bind fun _ => NoP.pure _).bind fun _ => NoP.pure _

theorem vecNew_panic {e : Env} {bs : List Byte} {cap : Nat} {s s' : St}
    (h : vecNew e bs cap s = .panic s') : s' = s ∧ cap > isizeMax := by
  unfold vecNew at h
  split at h
  · cases h
  · split at h
    · next hc => cases h; exact ⟨rfl, hc⟩
    · simp only [bind_apply, allocRegion_apply, pure_apply] at h; cases h

theorem PS_vecNew (e : Env) (bs : List Byte) (cap : Nat) (s : St) : PS (vecNew e bs cap) s :=
  fun s' h => (vecNew_panic h).1

theorem NoP_vecNew (e : Env) (bs : List Byte) {cap : Nat} (hc : cap ≤ isizeMax) : NoP (vecNew e bs cap) := by
  intro s s' h
  have := (vecNew_panic h).2
  omega

theorem toVecCopy_ok {e : Env} {reg : Option Nat} {off len : Nat} {s s1 : St} {v : Handle}
    (h : toVecCopy e reg off len s = .ok v s1) : ∃ r, v = .vec r len len := by
  unfold toVecCopy at h
  obtain ⟨bs, s2, _, h⟩ := bind_ok h
  obtain ⟨r, s3, _, h⟩ := bind_ok h
  cases h
  exact ⟨r, rfl⟩

theorem NoP_toVecCopy (e : Env) (reg : Option Nat) (off : Nat) {len : Nat} (hl : len ≤ isizeMax) :
    NoP (toVecCopy e reg off len) := by
  unfold toVecCopy
  exact (NoP_readRange _ _ _).bind fun _ => (NoP_vecNew e _ hl).bind fun _ => NoP.pure _

end NoP

/-! ## well-typed calls -/

def kindAt (s : St) (i : Nat) : Option Kind := ((s.hs[i]?).join).map kindOf

/-- What Rust's type system (and the harness) guarantees about a call: the operand slots hold live
handles of a type that has the method; `unsplit` consumes a second, different `BytesMut`.  The model
treats everything else as a rejected call (`panic`). -/
def typedB (op : Op) (s : St) : Bool :=
  let k := kindAt s
  match op with
  | .fromStatic _ | .newVec .. | .copyFromSlice _ | .fromOwner .. | .mutWithCapacity _ | .mutFromSlice _
  | .mutZeroed _ => true
  | .fromVec i => k i == some .vec
  | .clone i | .truncate i _ | .clear i | .drop i => (k i).isSome
  | .slice i _ _ | .isUnique i | .tryIntoMut i | .intoMut i => k i == some .bytes
  | .splitOff i _ | .splitTo i _ | .advance i _ | .intoVec i => k i == some .bytes || k i == some .mut
  | .split i | .freeze i | .reserve i _ | .tryReclaim i _ | .extend i _ | .resize i _ _ | .setByte i _ _
  | .fillSpare i _ => k i == some .mut
  | .unsplit i j => i != j && k i == some .mut && k j == some .mut

def Typed (op : Op) (s : St) : Prop := typedB op s = true

instance (op : Op) (s : St) : Decidable (Typed op s) := by unfold Typed; infer_instance

theorem kindAt_some {s : St} {i : Nat} {k : Kind} (h : kindAt s i = some k) :
    ∃ x, s.hs[i]? = some (some x) ∧ kindOf x = k := by
  unfold kindAt at h
  cases hi : s.hs[i]? with
  | none => rw [hi] at h; cases h
  | some oh =>
    cases oh with
    | none => rw [hi] at h; cases h
    | some x => rw [hi] at h; simp at h; exact ⟨x, rfl, h⟩

theorem kindAt_isSome {s : St} {i : Nat} (h : (kindAt s i).isSome = true) :
    ∃ x, s.hs[i]? = some (some x) := by
  obtain ⟨k, hk⟩ := Option.isSome_iff_exists.mp h
  obtain ⟨x, hx, _⟩ := kindAt_some hk
  exact ⟨x, hx⟩

theorem kindOf_bytes {x : Handle} (h : kindOf x = .bytes) : ∃ repr reg off len, x = .bytes repr reg off len := by
  cases x <;> first | exact ⟨_, _, _, _, rfl⟩ | cases h
theorem kindOf_mut {x : Handle} (h : kindOf x = .mut) : ∃ arc reg off len cap orig, x = .mut arc reg off len cap orig := by
  cases x <;> first | exact ⟨_, _, _, _, _, _, rfl⟩ | cases h
theorem kindOf_vec {x : Handle} (h : kindOf x = .vec) : ∃ reg len cap, x = .vec reg len cap := by
  cases x <;> first | exact ⟨_, _, _, rfl⟩ | cases h

/-! ## exactly when and how a call panics -/

/-- the call panics exactly when `C` holds, and then nothing has happened -/
def PanicIff (cfg : Cfg) (e : Env) (op : Op) (s : St) (C : Prop) : Prop :=
  (C → Core.step cfg e op s = .panic s) ∧ (∀ s', Core.step cfg e op s = .panic s' → s' = s ∧ C)

theorem PanicIff.cfg {cfg : Cfg} {e : Env} {op : Op} {s : St} {C : Prop} (hI : Inv s)
    (h : PanicIff cfg0 e op s C) : PanicIff cfg e op s C := by
  unfold PanicIff
  rw [P16.step_cfg cfg cfg0 e op s hI]
  exact h

theorem hlen_le_isizeMax {s : St} (hI : Inv s) {i : Nat} {h : Handle} (hi : s.hs[i]? = some (some h)) :
    hlen h ≤ isizeMax := by
  by_cases h0 : hlen h = 0
  · omega
  · obtain ⟨r, rg, _, hr, _, hb, _⟩ := locate_of_rd (handleOKL_rd (hI.hok i h hi)) h0
    have := (region_size_le hI.regs hr).1
    omega

theorem ite_panic_inv {α : Type} {c : Prop} [Decidable c] {m : M α} {s s' : St}
    (h : (if c then (panic : M α) else m) s = .panic s') : (c ∧ s' = s) ∨ (¬ c ∧ m s = .panic s') := by
  by_cases hc : c
  · simp only [if_pos hc] at h; cases h; exact .inl ⟨hc, rfl⟩
  · simp only [if_neg hc] at h; exact .inr ⟨hc, h⟩

theorem panic_slice (e : Env) {s : St} (hI : Inv s) {i : Nat} {repr : BRepr} {reg : Option Nat} {off len : Nat}
    (hi : s.hs[i]? = some (some (.bytes repr reg off len))) (lo hi' : Nat) :
    PanicIff cfg0 e (.slice i lo hi') s (lo > hi' ∨ hi' > len) := by
  constructor
  · intro hc
    simp only [Core.step, bind_apply, getHandle_eq hi]
    by_cases h1 : lo > hi'
    · simp [h1]
    · have h2 : hi' > len := by omega
      simp [h1, h2]
  · intro s' h
    simp only [Core.step, bind_apply, getHandle_eq hi] at h
    rcases ite_panic_inv h with ⟨h1, rfl⟩ | ⟨h1, h⟩
    · exact ⟨rfl, .inl h1⟩
    rcases ite_panic_inv h with ⟨h2, rfl⟩ | ⟨h2, h⟩
    · exact ⟨rfl, .inr h2⟩
    exfalso
    by_cases h3 : hi' = lo
    · simp [h3] at h
    · obtain ⟨repr', crepr, C', ev, heq, _⟩ := bytesClone_spec hI hi
      simp [h3, heq] at h

theorem PanicIff.never {cfg : Cfg} {e : Env} {op : Op} {s : St}
    (h : NoPAt (Core.step cfg e op) s) : PanicIff cfg e op s False :=
  ⟨fun hc => hc.elim, fun s' hp => (h s' hp).elim⟩

theorem NoPAt_of_ok {α : Type} {m : M α} {s s1 : St} {a : α} (h : m s = .ok a s1) : NoPAt m s := by
  intro s' hp; rw [h] at hp; cases hp

theorem NoP_toVecCopy_then {α : Type} (e : Env) (reg : Option Nat) (off : Nat) {len : Nat} (hl : len ≤ isizeMax)
    (k : Handle → M α) (hk : ∀ r, NoP (k (.vec r len len))) :
    NoP (toVecCopy e reg off len >>= k) := by
  intro s
  refine ((NoP_toVecCopy e reg off hl).at s).bind fun a s1 h => ?_
  obtain ⟨r, rfl⟩ := toVecCopy_ok h
  exact (hk r).at s1

/-- `Bytes → BytesMut` only panics on capacity overflow -/
theorem NoP_bytesIntoMut0 (e : Env) (repr : BRepr) (reg : Option Nat) (off : Nat) {len : Nat}
    (hl : len ≤ isizeMax) : NoP (bytesIntoMut cfg0 e (.bytes repr reg off len)) := by
  have copyRel : ∀ c, NoP (toVecCopy e reg off len >>= fun v => releaseCtrl c >>= fun _ =>
      (match v with
       | .vec r l cp => (pure (mutFromVec r l cp) : M Handle)
       | _ => panic)) := fun c =>
    NoP_toVecCopy_then e reg off hl _ fun r => (NoP_releaseCtrl c).bind fun _ => NoP.pure _
  have shared : ∀ c, NoP (ctrlIsUnique c >>= fun u => if u = true then
        (takeSharedB c >>= fun p => mutAdvanceUnchecked cfg0 (mutFromVec (some p.1) (len + off) p.2) off)
      else (toVecCopy e reg off len >>= fun v => releaseCtrl c >>= fun _ =>
        match v with
        | .vec r l cp => pure (mutFromVec r l cp)
        | _ => panic)) := fun c =>
    (NoP_ctrlIsUnique c).bind fun u => NoP.ite
      ((NoP_takeSharedB c).bind fun p => NoP_mutAdvance0 _ _ _ _ _ _ _) (copyRel c)
  cases repr with
  | «static» =>
    exact NoP_toVecCopy_then e reg off hl _ fun r => NoP.pure _
  | owned c => exact copyRel c
  | shared c => exact shared c
  | sharedV c =>
    refine (NoP_ctrlIsUnique c).bind fun u => NoP.ite ?_ (copyRel c)
    refine (NoP_getCtrl c).bind fun ce => ?_
    split
    · exact NoP.pure _
    · exact NoP.ub _
  | prom vt oc =>
    cases oc with
    | some c => exact shared c
    | none => exact (NoP_promDecode _ _).bind fun _ => NoP_mutAdvance0 _ _ _ _ _ _ _

theorem NoP_bytesIntoVec (e : Env) (repr : BRepr) (reg : Option Nat) (off : Nat) {len : Nat}
    (hl : len ≤ isizeMax) : NoP (bytesIntoVec e (.bytes repr reg off len)) := by
  have copyRel : ∀ c, NoP (toVecCopy e reg off len >>= fun v => releaseCtrl c >>= fun _ =>
      (pure v : M Handle)) := fun c =>
    (NoP_toVecCopy e reg off hl).bind fun _ => (NoP_releaseCtrl c).bind fun _ => NoP.pure _
  have shared : ∀ c, NoP (ctrlIsUnique c >>= fun u => if u = true then
        (takeSharedB c >>= fun p => copyWithin (some p.1) off 0 len >>= fun _ =>
          (pure (.vec (some p.1) len p.2) : M Handle))
      else (toVecCopy e reg off len >>= fun v => releaseCtrl c >>= fun _ => pure v)) := fun c =>
    (NoP_ctrlIsUnique c).bind fun u => NoP.ite
      ((NoP_takeSharedB c).bind fun p => (NoP_copyWithin _ _ _ _).bind fun _ => NoP.pure _) (copyRel c)
  cases repr with
  | «static» => exact NoP_toVecCopy e reg off hl
  | owned c => exact copyRel c
  | shared c => exact shared c
  | sharedV c =>
    refine (NoP_ctrlIsUnique c).bind fun u => NoP.ite ?_ (copyRel c)
    refine (NoP_getCtrl c).bind fun ce => ?_
    split
    · exact (NoP_setCtrl _ _).bind fun _ => (NoP_releaseCtrl c).bind fun _ =>
        (NoP_copyWithin _ _ _ _).bind fun _ => NoP.pure _
    · exact NoP.ub _
  | prom vt oc =>
    cases oc with
    | some c => exact shared c
    | none => exact (NoP_promDecode _ _).bind fun _ => (NoP_copyWithin _ _ _ _).bind fun _ => NoP.pure _

theorem panic_clone (e : Env) {s : St} (hI : Inv s) {i : Nat} {x : Handle}
    (hi : s.hs[i]? = some (some x)) : PanicIff cfg0 e (.clone i) s False := by
  apply PanicIff.never
  have hl := hlen_le_isizeMax hI hi
  intro s' h
  simp only [Core.step, bind_apply, getHandle_eq hi] at h
  cases x with
  | bytes repr reg off len =>
    obtain ⟨repr', crepr, C', ev, heq, _⟩ := bytesClone_spec hI hi
    simp [heq] at h
  | «mut» arc reg off len cap orig =>
    exact ((NoP_readRange reg off len).bind fun bs => (NoP_vecNew e bs hl).bind fun r =>
      (NoP_newHandle _).bind fun j => NoP.pure _) s s' h
  | vec reg len cap =>
    exact ((NoP_readRange reg 0 len).bind fun bs => (NoP_vecNew e bs hl).bind fun r =>
      (NoP_newHandle _).bind fun j => NoP.pure _) s s' h

theorem panic_splitOff_bytes (e : Env) {s : St} (hI : Inv s) {i : Nat} {repr : BRepr} {reg : Option Nat}
    {off len : Nat} (hi : s.hs[i]? = some (some (.bytes repr reg off len))) (k : Nat) :
    PanicIff cfg0 e (.splitOff i k) s (k > len) := by
  rcases OpsB.bytesSplitOffCore_spec hI hi k with ⟨hk, heq⟩ | ⟨hk, repr', orepr, C', ev, heq, _⟩
  · refine ⟨fun _ => by simp only [Core.step, opSplitOff, bind_apply, getHandle_eq hi, heq], fun s' h => ?_⟩
    simp only [Core.step, opSplitOff, bind_apply, getHandle_eq hi, heq] at h
    cases h; exact ⟨rfl, hk⟩
  · refine ⟨fun hc => by omega, fun s' h => ?_⟩
    simp [Core.step, opSplitOff, getHandle_eq hi, heq] at h

theorem panic_splitOff_mut (e : Env) {s : St} (hI : Inv s) {i : Nat} {arc reg : Option Nat}
    {off len cap orig : Nat} (hi : s.hs[i]? = some (some (.mut arc reg off len cap orig))) (k : Nat) :
    PanicIff cfg0 e (.splitOff i k) s (k > cap) := by
  constructor
  · intro hc; simp [Core.step, opSplitOff, getHandle_eq hi, hc]
  · intro s' h
    simp only [Core.step, opSplitOff, bind_apply, getHandle_eq hi] at h
    rcases ite_panic_inv h with ⟨h1, rfl⟩ | ⟨h1, h⟩
    · exact ⟨rfl, h1⟩
    exfalso
    refine ((NoP_mutShallowClone arc reg off len cap orig).at s).bind (fun a s1 hc => ?_) s' h
    obtain ⟨a1, a2⟩ := a
    obtain ⟨_, c, rfl, rfl⟩ := mutShallowClone_ok hc
    exact ((NoP_mutAdvance0 _ _ _ _ _ _ _).bind fun o => (NoP_setHandle _ _).bind fun _ =>
      (NoP_newHandle _).bind fun _ => NoP.pure _).at s1

theorem panic_splitTo_bytes (e : Env) {s : St} (hI : Inv s) {i : Nat} {repr : BRepr} {reg : Option Nat}
    {off len : Nat} (hi : s.hs[i]? = some (some (.bytes repr reg off len))) (k : Nat) :
    PanicIff cfg0 e (.splitTo i k) s (k > len) := by
  constructor
  · intro hc
    have h1 : k ≠ len := by omega
    have h2 : k ≠ 0 := by omega
    simp [Core.step, opSplitTo, getHandle_eq hi, h1, h2, hc]
  · intro s' h
    simp only [Core.step, opSplitTo, bind_apply, getHandle_eq hi] at h
    by_cases h1 : k = len
    · simp [h1] at h
    by_cases h2 : k = 0
    · subst h2
      have h1' : ¬ (0 = len) := fun hh => h1 hh
      simp [h1'] at h
    simp only [h1, h2, if_false, ite_apply'] at h
    by_cases h3 : k > len
    · simp only [if_pos h3, panic_apply] at h; cases h; exact ⟨rfl, h3⟩
    exfalso
    obtain ⟨repr', crepr, C', ev, heq, _⟩ := bytesClone_spec hI hi
    have hlt : i < s.hs.length := lookup_lt hi
    have hg' : getHandle i ⟨s.regions, C', s.hs.set i (some (.bytes repr' reg off len)), s.owners, ev⟩
        = .ok (.bytes repr' reg off len) _ := getHandle_eq (by simp [hlt])
    simp [h3, heq, hg'] at h

theorem panic_splitTo_mut (e : Env) {s : St} (hI : Inv s) {i : Nat} {arc reg : Option Nat}
    {off len cap orig : Nat} (hi : s.hs[i]? = some (some (.mut arc reg off len cap orig))) (k : Nat) :
    PanicIff cfg0 e (.splitTo i k) s (k > len) := by
  constructor
  · intro hc; simp [Core.step, opSplitTo, getHandle_eq hi, hc]
  · intro s' h
    simp only [Core.step, opSplitTo, bind_apply, getHandle_eq hi] at h
    rcases ite_panic_inv h with ⟨h1, rfl⟩ | ⟨h1, h⟩
    · exact ⟨rfl, h1⟩
    exfalso
    refine ((NoP_mutShallowClone arc reg off len cap orig).at s).bind (fun a s1 hc => ?_) s' h
    obtain ⟨a1, a2⟩ := a
    obtain ⟨_, c, rfl, rfl⟩ := mutShallowClone_ok hc
    exact ((NoP_mutAdvance0 _ _ _ _ _ _ _).bind fun o => (NoP_setHandle _ _).bind fun _ =>
      (NoP_newHandle _).bind fun _ => NoP.pure _).at s1

theorem panic_split (e : Env) {s : St} (hI : Inv s) {i : Nat} {arc reg : Option Nat}
    {off len cap orig : Nat} (hi : s.hs[i]? = some (some (.mut arc reg off len cap orig))) :
    PanicIff cfg0 e (.split i) s False := by
  have h := panic_splitTo_mut e hI hi len
  refine ⟨fun hc => hc.elim, fun s' hp => ?_⟩
  have hp' : Core.step cfg0 e (.splitTo i len) s = .panic s' := by
    simp only [Core.step, bind_apply, getHandle_eq hi] at hp ⊢
    exact hp
  have := (h.2 s' hp').2
  omega

theorem NoPAt_opTruncate {s : St} (hI : Inv s) {i : Nat} {x : Handle}
    (hi : s.hs[i]? = some (some x)) (n : Nat) : NoPAt (opTruncate i n) s := by
  intro s' h
  simp only [opTruncate, bind_apply, getHandle_eq hi] at h
  cases x with
  | bytes repr reg off len =>
    simp only at h
    by_cases hn : n < len
    · simp only [if_pos hn] at h
      have plain : ∀ x' : Handle,
          ¬ ((setHandle i x' >>= fun _ => (pure Val.unit : M Val)) s = .panic s') := by
        intro x' h'; simp at h'
      cases repr with
      | prom vt oc =>
        simp only at h
        rcases OpsB.bytesSplitOffCore_spec hI hi n with ⟨hk, _⟩ | ⟨hk, repr', orepr, C', ev, heq, _⟩
        · omega
        · simp only [bind_apply, heq] at h
          exact ((NoP_bytesDrop _ _ _ _).bind fun _ => NoP.pure _) _ s' h
      | «static» => exact plain _ h
      | owned c => exact plain _ h
      | shared c => exact plain _ h
      | sharedV c => exact plain _ h
    · simp [hn] at h
  | «mut» arc reg off len cap orig =>
    simp only at h
    split at h <;> simp at h
  | vec reg len cap =>
    simp only at h
    split at h <;> simp at h

theorem panic_truncate (e : Env) {s : St} (hI : Inv s) {i : Nat} {x : Handle}
    (hi : s.hs[i]? = some (some x)) (n : Nat) : PanicIff cfg0 e (.truncate i n) s False :=
  PanicIff.never (NoPAt_opTruncate hI hi n)

theorem panic_clear (e : Env) {s : St} (hI : Inv s) {i : Nat} {x : Handle}
    (hi : s.hs[i]? = some (some x)) : PanicIff cfg0 e (.clear i) s False :=
  PanicIff.never (NoPAt_opTruncate hI hi 0)

theorem panic_advance_bytes (e : Env) {s : St} {i : Nat} {repr : BRepr} {reg : Option Nat}
    {off len : Nat} (hi : s.hs[i]? = some (some (.bytes repr reg off len))) (n : Nat) :
    PanicIff cfg0 e (.advance i n) s (n > len) := by
  constructor
  · intro hc; simp [Core.step, getHandle_eq hi, hc]
  · intro s' h
    simp only [Core.step, bind_apply, getHandle_eq hi] at h
    rcases ite_panic_inv h with ⟨h1, rfl⟩ | ⟨h1, h⟩
    · exact ⟨rfl, h1⟩
    · simp at h

theorem panic_advance_mut (e : Env) {s : St} {i : Nat} {arc reg : Option Nat}
    {off len cap orig : Nat} (hi : s.hs[i]? = some (some (.mut arc reg off len cap orig))) (n : Nat) :
    PanicIff cfg0 e (.advance i n) s (n > len) := by
  constructor
  · intro hc; simp [Core.step, getHandle_eq hi, hc]
  · intro s' h
    simp only [Core.step, bind_apply, getHandle_eq hi] at h
    rcases ite_panic_inv h with ⟨h1, rfl⟩ | ⟨h1, h⟩
    · exact ⟨rfl, h1⟩
    · exact (((NoP_mutAdvance0 _ _ _ _ _ _ _).bind fun o => (NoP_setHandle _ _).bind fun _ =>
        NoP.pure _) s s' h).elim

theorem panic_setByte (e : Env) {s : St} {i : Nat} {arc reg : Option Nat}
    {off len cap orig : Nat} (hi : s.hs[i]? = some (some (.mut arc reg off len cap orig))) (k b : Nat) :
    PanicIff cfg0 e (.setByte i k b) s (k ≥ len) := by
  constructor
  · intro hc; simp [Core.step, getHandle_eq hi, hc]
  · intro s' h
    simp only [Core.step, bind_apply, getHandle_eq hi] at h
    rcases ite_panic_inv h with ⟨h1, rfl⟩ | ⟨h1, h⟩
    · exact ⟨rfl, h1⟩
    · exact (((NoP_writeRange _ _ _).bind fun _ => NoP.pure _) s s' h).elim

theorem panic_isUnique (e : Env) {s : St} (hI : Inv s) {i : Nat} {repr : BRepr} {reg : Option Nat}
    {off len : Nat} (hi : s.hs[i]? = some (some (.bytes repr reg off len))) :
    PanicIff cfg0 e (.isUnique i) s False := by
  apply PanicIff.never
  intro s' h
  simp [Core.step, getHandle_eq hi, PropC08.bytesIsUnique_eq hI hi] at h

theorem panic_tryIntoMut (e : Env) {s : St} (hI : Inv s) {i : Nat} {repr : BRepr} {reg : Option Nat}
    {off len : Nat} (hi : s.hs[i]? = some (some (.bytes repr reg off len))) :
    PanicIff cfg0 e (.tryIntoMut i) s False := by
  apply PanicIff.never
  intro s' h
  have hl := hlen_le_isizeMax hI hi
  simp only [Core.step, bind_apply, getHandle_eq hi, PropC08.bytesIsUnique_eq hI hi] at h
  split at h
  · exact ((NoP_bytesIntoMut0 e repr reg off hl).bind fun _ => (NoP_setHandle _ _).bind fun _ =>
      NoP.pure _) s s' h
  · simp at h

theorem panic_intoMut (e : Env) {s : St} (hI : Inv s) {i : Nat} {repr : BRepr} {reg : Option Nat}
    {off len : Nat} (hi : s.hs[i]? = some (some (.bytes repr reg off len))) :
    PanicIff cfg0 e (.intoMut i) s False := by
  apply PanicIff.never
  intro s' h
  have hl := hlen_le_isizeMax hI hi
  simp only [Core.step, bind_apply, getHandle_eq hi] at h
  exact ((NoP_bytesIntoMut0 e repr reg off hl).bind fun _ => (NoP_setHandle _ _).bind fun _ =>
    NoP.pure _) s s' h

theorem panic_intoVec (e : Env) {s : St} (hI : Inv s) {i : Nat} {x : Handle}
    (hi : s.hs[i]? = some (some x)) (hk : kindOf x ≠ .vec) :
    PanicIff cfg0 e (.intoVec i) s False := by
  apply PanicIff.never
  intro s' h
  have hl := hlen_le_isizeMax hI hi
  simp only [Core.step, bind_apply, getHandle_eq hi] at h
  cases x with
  | bytes repr reg off len =>
    exact ((NoP_bytesIntoVec e repr reg off hl).bind fun _ => (NoP_setHandle _ _).bind fun _ =>
      NoP.pure _) s s' h
  | «mut» arc reg off len cap orig =>
    cases arc with
    | none =>
      exact ((NoP_copyWithin _ _ _ _).bind fun _ => (NoP_setHandle _ _).bind fun _ =>
        NoP.pure _) s s' h
    | some c =>
      refine ((NoP_getCtrl c).bind fun ce => NoP.ite ?_ ?_) s s' h
      · split
        · exact (NoP_setCtrl _ _).bind fun _ => (NoP_releaseCtrl c).bind fun _ =>
            (NoP_copyWithin _ _ _ _).bind fun _ => (NoP_setHandle _ _).bind fun _ => NoP.pure _
        · exact NoP.ub _
      · exact (NoP_toVecCopy e reg off hl).bind fun _ => (NoP_releaseCtrl c).bind fun _ =>
          (NoP_setHandle _ _).bind fun _ => NoP.pure _
  | vec reg len cap => exact (hk rfl).elim

theorem panic_freeze (e : Env) {s : St} {i : Nat} {arc reg : Option Nat}
    {off len cap orig : Nat} (hi : s.hs[i]? = some (some (.mut arc reg off len cap orig))) :
    PanicIff cfg0 e (.freeze i) s False := by
  apply PanicIff.never
  intro s' h
  simp only [Core.step, bind_apply, getHandle_eq hi] at h
  cases arc with
  | some c => simp at h
  | none =>
    refine ((NoP_bytesFromVec reg (off + len) (off + cap)).at s).bind (fun b s1 hb => ?_) s' h
    obtain ⟨_, repr, reg', rfl, _⟩ := bytesFromVec_ok hb
    intro s2 h2
    have : ¬ off > off + len := by omega
    simp [this] at h2

theorem panic_drop (e : Env) {s : St} {i : Nat} {x : Handle}
    (hi : s.hs[i]? = some (some x)) : PanicIff cfg0 e (.drop i) s False := by
  apply PanicIff.never
  intro s' h
  simp only [Core.step, opDrop, bind_apply, getHandle_eq hi, killHandle_apply] at h
  cases x with
  | bytes repr reg off len =>
    exact ((NoP_bytesDrop repr reg off len).bind fun _ => NoP.pure _) _ s' h
  | «mut» arc reg off len cap orig =>
    exact ((NoP_mutDrop arc reg off len cap orig).bind fun _ => NoP.pure _) _ s' h
  | vec reg len cap =>
    exact ((NoP_vecFree reg cap).bind fun _ => NoP.pure _) _ s' h

theorem panic_tryReclaim (e : Env) {s : St} (hI : Inv s) {i : Nat} {arc reg : Option Nat}
    {off len cap orig : Nat} (hi : s.hs[i]? = some (some (.mut arc reg off len cap orig))) (n : Nat) :
    PanicIff cfg0 e (.tryReclaim i n) s False := by
  apply PanicIff.never
  intro s' h
  simp only [Core.step, bind_apply, getHandle_eq hi] at h
  by_cases hadd : n ≤ cap - len
  · simp [hadd] at h
  · simp only [if_neg hadd, ite_apply', bind_apply] at h
    rcases PropC08.mri_false hI cfg0 e hi n with h1 | ⟨R1, off', cap', h1, _⟩
    · simp [h1] at h
    · simp [h1] at h

/-! ### the operations whose panics are not (fully) pinned down by `mustPanic` -/

/-- a panic of the call leaves the state untouched -/
def PSOp (cfg : Cfg) (e : Env) (op : Op) (s : St) : Prop := PS (Core.step cfg e op) s

theorem PanicIff.ps {cfg : Cfg} {e : Env} {op : Op} {s : St} {C : Prop} (h : PanicIff cfg e op s C) :
    PSOp cfg e op s := fun s' hp => (h.2 s' hp).1

theorem PSOp.cfg {cfg : Cfg} {e : Env} {op : Op} {s : St} (hI : Inv s) (h : PSOp cfg0 e op s) :
    PSOp cfg e op s := by
  unfold PSOp PS
  rw [P16.step_cfg cfg cfg0 e op s hI]
  exact h

theorem reserve_fits (cfg : Cfg) (e : Env) {s : St} {i : Nat} {arc reg : Option Nat}
    {off len cap orig : Nat} (hi : s.hs[i]? = some (some (.mut arc reg off len cap orig))) {n : Nat}
    (hn : n ≤ cap - len) : Core.step cfg e (.reserve i n) s = .ok .unit s := by
  simp only [Core.step, bind_apply, getHandle_eq hi, mutReserve, if_pos hn, pure_apply, setHandle_apply,
    set_self hi]

theorem reserve_huge (cfg : Cfg) (e : Env) {s : St} (hI : Inv s) {i : Nat} {arc reg : Option Nat}
    {off len cap orig : Nat} (hi : s.hs[i]? = some (some (.mut arc reg off len cap orig))) {n : Nat}
    (hbig : isizeMax < len + n) : Core.step cfg e (.reserve i n) s = .panic s := by
  simp only [Core.step, bind_apply, getHandle_eq hi]
  rcases OpsD.mutReserve_spec hI cfg e hi n with hp | ⟨h', R1, C1, heq, hG⟩
  · have h1 : mutReserve cfg e (.mut arc reg off len cap orig) n s = .panic s := hp s.hs s.events
    simp only [h1]
  · exfalso
    obtain ⟨arc', reg', off', cap', orig', rfl, hle⟩ := hG.shape
    have hI' := hG.inv []
    have := PropC08.mut_cap_le hI' (i := i) (lookup_set_eq _ hi)
    omega

theorem ps_reserve (cfg : Cfg) (e : Env) {s : St} (hI : Inv s) {i : Nat} {arc reg : Option Nat}
    {off len cap orig : Nat} (hi : s.hs[i]? = some (some (.mut arc reg off len cap orig))) (n : Nat) :
    PSOp cfg e (.reserve i n) s := by
  intro s' h
  simp only [Core.step, bind_apply, getHandle_eq hi] at h
  rcases OpsD.mutReserve_spec hI cfg e hi n with hp | ⟨h', R1, C1, heq, hG⟩
  · have h1 : mutReserve cfg e (.mut arc reg off len cap orig) n s = .panic s := hp s.hs s.events
    simp only [h1] at h; cases h; rfl
  · obtain ⟨ev1, h1⟩ := heq s.hs s.events
    have h1' : mutReserve cfg e (.mut arc reg off len cap orig) n s =
        .ok h' ⟨R1, C1, s.hs, s.owners, ev1⟩ := h1
    simp [h1'] at h

theorem ps_extend (cfg : Cfg) (e : Env) {s : St} (hI : Inv s) {i : Nat} {arc reg : Option Nat}
    {off len cap orig : Nat} (hi : s.hs[i]? = some (some (.mut arc reg off len cap orig))) (bs : List Byte) :
    PSOp cfg e (.extend i bs) s := by
  intro s' h
  simp only [Core.step, bind_apply, getHandle_eq hi] at h
  obtain ⟨v, hv, _⟩ := hI.view hi
  simp only [viewOfL, hreg, hoff, hlen] at hv
  rcases OpsD.mutExtend_spec hI cfg e hi bs hv with hp | ⟨h'', R2, C2, heq, _⟩
  · have h1 : mutExtend cfg e (.mut arc reg off len cap orig) bs s = .panic s := hp s.hs s.events
    simp only [h1] at h; cases h; rfl
  · obtain ⟨ev1, h1⟩ := heq s.hs s.events
    have h1' : mutExtend cfg e (.mut arc reg off len cap orig) bs s =
        .ok h'' ⟨R2, C2, s.hs, s.owners, ev1⟩ := h1
    simp [h1'] at h

theorem ps_resize (cfg : Cfg) (e : Env) {s : St} (hI : Inv s) {i : Nat} {arc reg : Option Nat}
    {off len cap orig : Nat} (hi : s.hs[i]? = some (some (.mut arc reg off len cap orig))) (n b : Nat) :
    PSOp cfg e (.resize i n b) s := by
  intro s' h
  simp only [Core.step, bind_apply, getHandle_eq hi] at h
  by_cases hn : n ≤ len
  · simp [hn] at h
  · simp only [if_neg hn, ite_apply', bind_apply] at h
    rcases OpsD.mutReserve_spec hI cfg e hi (n - len) with hp | ⟨h', R1, C1, heq, hG⟩
    · have h1 : mutReserve cfg e (.mut arc reg off len cap orig) (n - len) s = .panic s := hp s.hs s.events
      simp only [h1] at h; cases h; rfl
    · obtain ⟨ev1, h1⟩ := heq s.hs s.events
      have h1' : mutReserve cfg e (.mut arc reg off len cap orig) (n - len) s =
          .ok h' ⟨R1, C1, s.hs, s.owners, ev1⟩ := h1
      obtain ⟨arc', reg', off', cap', orig', rfl, _⟩ := hG.shape
      simp only [h1'] at h
      exact (((NoP_writeRange _ _ _).bind fun _ => (NoP_setHandle _ _).bind fun _ => NoP.pure _) _ s' h).elim

theorem ps_vecNew_then {α : Type} (e : Env) (bs : List Byte) (cap : Nat) (k : Option Nat → M α)
    (hk : ∀ r, NoP (k r)) (s : St) : PS (vecNew e bs cap >>= k) s :=
  (PS_vecNew e bs cap s).bindN fun a s1 _ => (hk a).at s1

/-- every well-typed call other than `unsplit` and `from_owner` with a panicking `as_ref` that panics
does so before it touches the state -/
theorem panic_state (cfg : Cfg) (e : Env) {op : Op} {s : St} (hI : Inv s) (ht : Typed op s)
    (hu : ∀ i j, op ≠ .unsplit i j) (ho : ∀ bs, op ≠ .fromOwner bs true) : PSOp cfg e op s := by
  apply PSOp.cfg hI
  unfold Typed typedB at ht
  cases op with
  | fromStatic bs => intro s' h; simp [Core.step] at h
  | newVec bs cap =>
    intro s' h
    simp only [Core.step] at h
    rcases ite_panic_inv h with ⟨_, rfl⟩ | ⟨_, h⟩
    · rfl
    · exact ps_vecNew_then e bs cap _ (fun r => (NoP_newHandle _).bind fun _ => NoP.pure _) s s' h
  | fromVec i =>
    simp only [beq_iff_eq] at ht
    obtain ⟨x, hi, hk⟩ := kindAt_some ht
    obtain ⟨reg, len, cap, rfl⟩ := kindOf_vec hk
    intro s' h
    simp only [Core.step, bind_apply, getHandle_eq hi] at h
    exact (((NoP_bytesFromVec _ _ _).bind fun _ => (NoP_setHandle _ _).bind fun _ => NoP.pure _) s s' h).elim
  | copyFromSlice bs =>
    exact ps_vecNew_then e bs _ _ (fun r => (NoP_bytesFromVec _ _ _).bind fun _ =>
      (NoP_newHandle _).bind fun _ => NoP.pure _) s
  | fromOwner bs p =>
    cases p with
    | true => exact (ho bs rfl).elim
    | false =>
      intro s' h
      simp [Core.step] at h
      split at h <;> simp at h
  | mutWithCapacity cap =>
    exact ps_vecNew_then e [] _ _ (fun r => (NoP_newHandle _).bind fun _ => NoP.pure _) s
  | mutFromSlice bs =>
    exact ps_vecNew_then e bs _ _ (fun r => (NoP_newHandle _).bind fun _ => NoP.pure _) s
  | mutZeroed n =>
    exact ps_vecNew_then e _ _ _ (fun r => (NoP_newHandle _).bind fun _ => NoP.pure _) s
  | clone i =>
    obtain ⟨x, hi⟩ := kindAt_isSome ht
    exact (panic_clone e hI hi).ps
  | slice i lo hi' =>
    simp only [beq_iff_eq] at ht
    obtain ⟨x, hi, hk⟩ := kindAt_some ht
    obtain ⟨repr, reg, off, len, rfl⟩ := kindOf_bytes hk
    exact (panic_slice e hI hi lo hi').ps
  | splitOff i k =>
    simp only [Bool.or_eq_true, beq_iff_eq] at ht
    rcases ht with ht | ht
    · obtain ⟨x, hi, hk⟩ := kindAt_some ht
      obtain ⟨repr, reg, off, len, rfl⟩ := kindOf_bytes hk
      exact (panic_splitOff_bytes e hI hi k).ps
    · obtain ⟨x, hi, hk⟩ := kindAt_some ht
      obtain ⟨arc, reg, off, len, cap, orig, rfl⟩ := kindOf_mut hk
      exact (panic_splitOff_mut e hI hi k).ps
  | splitTo i k =>
    simp only [Bool.or_eq_true, beq_iff_eq] at ht
    rcases ht with ht | ht
    · obtain ⟨x, hi, hk⟩ := kindAt_some ht
      obtain ⟨repr, reg, off, len, rfl⟩ := kindOf_bytes hk
      exact (panic_splitTo_bytes e hI hi k).ps
    · obtain ⟨x, hi, hk⟩ := kindAt_some ht
      obtain ⟨arc, reg, off, len, cap, orig, rfl⟩ := kindOf_mut hk
      exact (panic_splitTo_mut e hI hi k).ps
  | split i =>
    simp only [beq_iff_eq] at ht
    obtain ⟨x, hi, hk⟩ := kindAt_some ht
    obtain ⟨arc, reg, off, len, cap, orig, rfl⟩ := kindOf_mut hk
    exact (panic_split e hI hi).ps
  | truncate i n =>
    obtain ⟨x, hi⟩ := kindAt_isSome ht
    exact (panic_truncate e hI hi n).ps
  | clear i =>
    obtain ⟨x, hi⟩ := kindAt_isSome ht
    exact (panic_clear e hI hi).ps
  | advance i n =>
    simp only [Bool.or_eq_true, beq_iff_eq] at ht
    rcases ht with ht | ht
    · obtain ⟨x, hi, hk⟩ := kindAt_some ht
      obtain ⟨repr, reg, off, len, rfl⟩ := kindOf_bytes hk
      exact (panic_advance_bytes e hi n).ps
    · obtain ⟨x, hi, hk⟩ := kindAt_some ht
      obtain ⟨arc, reg, off, len, cap, orig, rfl⟩ := kindOf_mut hk
      exact (panic_advance_mut e hi n).ps
  | isUnique i =>
    simp only [beq_iff_eq] at ht
    obtain ⟨x, hi, hk⟩ := kindAt_some ht
    obtain ⟨repr, reg, off, len, rfl⟩ := kindOf_bytes hk
    exact (panic_isUnique e hI hi).ps
  | tryIntoMut i =>
    simp only [beq_iff_eq] at ht
    obtain ⟨x, hi, hk⟩ := kindAt_some ht
    obtain ⟨repr, reg, off, len, rfl⟩ := kindOf_bytes hk
    exact (panic_tryIntoMut e hI hi).ps
  | intoMut i =>
    simp only [beq_iff_eq] at ht
    obtain ⟨x, hi, hk⟩ := kindAt_some ht
    obtain ⟨repr, reg, off, len, rfl⟩ := kindOf_bytes hk
    exact (panic_intoMut e hI hi).ps
  | intoVec i =>
    simp only [Bool.or_eq_true, beq_iff_eq] at ht
    rcases ht with ht | ht
    · obtain ⟨x, hi, hk⟩ := kindAt_some ht
      exact (panic_intoVec e hI hi (by rw [hk]; decide)).ps
    · obtain ⟨x, hi, hk⟩ := kindAt_some ht
      exact (panic_intoVec e hI hi (by rw [hk]; decide)).ps
  | freeze i =>
    simp only [beq_iff_eq] at ht
    obtain ⟨x, hi, hk⟩ := kindAt_some ht
    obtain ⟨arc, reg, off, len, cap, orig, rfl⟩ := kindOf_mut hk
    exact (panic_freeze e hi).ps
  | reserve i n =>
    simp only [beq_iff_eq] at ht
    obtain ⟨x, hi, hk⟩ := kindAt_some ht
    obtain ⟨arc, reg, off, len, cap, orig, rfl⟩ := kindOf_mut hk
    exact ps_reserve cfg0 e hI hi n
  | tryReclaim i n =>
    simp only [beq_iff_eq] at ht
    obtain ⟨x, hi, hk⟩ := kindAt_some ht
    obtain ⟨arc, reg, off, len, cap, orig, rfl⟩ := kindOf_mut hk
    exact (panic_tryReclaim e hI hi n).ps
  | extend i bs =>
    simp only [beq_iff_eq] at ht
    obtain ⟨x, hi, hk⟩ := kindAt_some ht
    obtain ⟨arc, reg, off, len, cap, orig, rfl⟩ := kindOf_mut hk
    exact ps_extend cfg0 e hI hi bs
  | resize i n b =>
    simp only [beq_iff_eq] at ht
    obtain ⟨x, hi, hk⟩ := kindAt_some ht
    obtain ⟨arc, reg, off, len, cap, orig, rfl⟩ := kindOf_mut hk
    exact ps_resize cfg0 e hI hi n b
  | unsplit i j => exact (hu i j rfl).elim
  | setByte i k b =>
    simp only [beq_iff_eq] at ht
    obtain ⟨x, hi, hk⟩ := kindAt_some ht
    obtain ⟨arc, reg, off, len, cap, orig, rfl⟩ := kindOf_mut hk
    exact (panic_setByte e hi k b).ps
  | fillSpare i b =>
    simp only [beq_iff_eq] at ht
    obtain ⟨x, hi, hk⟩ := kindAt_some ht
    obtain ⟨arc, reg, off, len, cap, orig, rfl⟩ := kindOf_mut hk
    intro s' h
    simp only [Core.step, bind_apply, getHandle_eq hi] at h
    exact (((NoP_writeRange _ _ _).bind fun _ => NoP.pure _) s s' h).elim
  | drop i =>
    obtain ⟨x, hi⟩ := kindAt_isSome ht
    exact (panic_drop e hi).ps

/-! ## `opOracle`: the zero-copy predicate as a stand-alone function -/

/-- "a byte buffer was allocated during the call" as `opOracle` computes it -/
def a1allocOf (evs : List Evt) : Bool := evs.any fun e => e.alloc && e.align == 1 && !e.noise

/-- `opOracle`'s local function `zeroCopy`, verbatim -/
def zc (pre post : List Obs) (a1alloc pack : Bool) (src res delta : Nat) (checkEmpty : Bool) :
    Option (String × String) :=
  match findObs pre src, findObs post res with
  | some a, some b =>
    if a1alloc then some ("C07", "a byte buffer was allocated by a sharing operation")
    else if (b.len > 0 || (checkEmpty && !pack && (a.len > 0 || (a.cap.getD 0) > 0 || a.uniq == some true))) && a.blk.isSome then
      (match addrOf a, addrOf b with
       | some (s, o), some (s', o') => if s == s' && o' == o + delta then none else some ("C07", s!"result handle {res} does not start at the source address + {delta}")
       | _, _ => some ("C07", s!"result handle {res} has no address"))
    else none
  | _, _ => none

theorem opOracle_clone (i j : Nat) (pre post : List Obs) (evs : List Evt) (pack : Bool) :
    opOracle (.clone i) (.ok (.handle j)) pre post evs pack =
      if (findObs pre i).map (·.kind) == some .bytes then zc pre post (a1allocOf evs) pack i j 0 false else none := rfl
theorem opOracle_slice (i lo hi j : Nat) (pre post : List Obs) (evs : List Evt) (pack : Bool) :
    opOracle (.slice i lo hi) (.ok (.handle j)) pre post evs pack = zc pre post (a1allocOf evs) pack i j lo false := rfl
theorem opOracle_splitOff (i k j : Nat) (pre post : List Obs) (evs : List Evt) (pack : Bool) :
    opOracle (.splitOff i k) (.ok (.handle j)) pre post evs pack =
      (zc pre post (a1allocOf evs) pack i j k true).orElse fun _ => zc pre post (a1allocOf evs) pack i i 0 true := rfl
theorem opOracle_splitTo (i k j : Nat) (pre post : List Obs) (evs : List Evt) (pack : Bool) :
    opOracle (.splitTo i k) (.ok (.handle j)) pre post evs pack =
      (zc pre post (a1allocOf evs) pack i j 0 true).orElse fun _ => zc pre post (a1allocOf evs) pack i i k true := rfl
theorem opOracle_split (i j : Nat) (pre post : List Obs) (evs : List Evt) (pack : Bool) :
    opOracle (.split i) (.ok (.handle j)) pre post evs pack = zc pre post (a1allocOf evs) pack i j 0 false := rfl
theorem opOracle_truncate (i n : Nat) (v : Val) (pre post : List Obs) (evs : List Evt) (pack : Bool) :
    opOracle (.truncate i n) (.ok v) pre post evs pack =
      if (findObs pre i).map (·.kind) != some .vec then zc pre post (a1allocOf evs) pack i i 0 false else none := by
  cases v <;> rfl
theorem opOracle_clear (i : Nat) (v : Val) (pre post : List Obs) (evs : List Evt) (pack : Bool) :
    opOracle (.clear i) (.ok v) pre post evs pack =
      if (findObs pre i).map (·.kind) != some .vec then zc pre post (a1allocOf evs) pack i i 0 false else none := by
  cases v <;> rfl
theorem opOracle_advance (i n : Nat) (v : Val) (pre post : List Obs) (evs : List Evt) (pack : Bool) :
    opOracle (.advance i n) (.ok v) pre post evs pack = zc pre post (a1allocOf evs) pack i i n false := by
  cases v <;> rfl
theorem opOracle_freeze (i : Nat) (v : Val) (pre post : List Obs) (evs : List Evt) (pack : Bool) :
    opOracle (.freeze i) (.ok v) pre post evs pack = zc pre post (a1allocOf evs) pack i i 0 false := by
  cases v <;> rfl
theorem opOracle_fromVec (i : Nat) (v : Val) (pre post : List Obs) (evs : List Evt) (pack : Bool) :
    opOracle (.fromVec i) (.ok v) pre post evs pack = zc pre post (a1allocOf evs) pack i i 0 false := by
  cases v <;> rfl
theorem opOracle_tryIntoMut (i j : Nat) (pre post : List Obs) (evs : List Evt) (pack : Bool) :
    opOracle (.tryIntoMut i) (.ok (.handle j)) pre post evs pack =
      (zc pre post (a1allocOf evs) pack i i 0 true).map fun (_, m) => ("C07+C08", m) := rfl
theorem opOracle_intoMut (i j : Nat) (pre post : List Obs) (evs : List Evt) (pack : Bool) :
    opOracle (.intoMut i) (.ok (.handle j)) pre post evs pack =
      if ((findObs pre i).bind (·.uniq)) == some true then
        (zc pre post (a1allocOf evs) pack i i 0 true).map fun (_, m) => ("C07+C08", m) else none := rfl
theorem opOracle_unsplit (i j : Nat) (v : Val) (pre post : List Obs) (evs : List Evt) (pack : Bool) :
    opOracle (.unsplit i j) (.ok v) pre post evs pack =
      match findObs pre i, findObs pre j with
      | some a, some b =>
        match addrOf a, addrOf b with
        | some (s, o), some (s', o') =>
          if s == s' && o' == o + a.len && a.len > 0 && a.cap == some a.len && (b.cap.getD 0) > 0 then
            zc pre post (a1allocOf evs) pack i i 0 false else none
        | _, _ => none
      | _, _ => none := by
  cases v <;> rfl

theorem findObs_live' {s : St} {i : Nat} {x : Handle} (hi : s.hs[i]? = some (some x)) :
    findObs (obsOfModel s) i = some (obsOfHandle s i x) := by
  rw [findObs_obsOfModel, hi]; rfl

/-- the events of the step contain no byte-buffer allocation -/
def NoAllocStep (s s' : St) : Prop :=
  ∀ ev ∈ s'.events.take (s'.events.length - s.events.length), ∀ r z, ev ≠ Ev.alloc r z

theorem a1alloc_false {s s' : St} (h : NoAllocStep s s') : a1allocOf (evsOfModel s s') = false := by
  unfold a1allocOf
  rw [List.any_eq_false]
  intro x hx
  simp only [evsOfModel, newEvents, List.mem_filterMap, List.mem_reverse] at hx
  obtain ⟨ev, hev, hx⟩ := hx
  have := h ev hev
  cases ev with
  | alloc r z => exact (this r z rfl).elim
  | dealloc r z => simp [evtOf] at hx; subst hx; simp
  | allocCtrl c => simp [evtOf] at hx; subst hx; simp
  | deallocCtrl c => simp [evtOf] at hx; subst hx; simp
  | ownerAsRef o => simp [evtOf] at hx
  | ownerDrop o => simp [evtOf] at hx

theorem NoAllocStep.of_events {s s' : St} {evs : List Ev} (h : s'.events = evs ++ s.events)
    (hno : PropC08.NoAlloc evs) : NoAllocStep s s' := by
  unfold NoAllocStep
  rw [h, List.length_append, Nat.add_sub_cancel, List.take_left']
  · exact hno
  · rfl

theorem NoAllocStep.same {s s' : St} (h : s'.events = s.events) : NoAllocStep s s' :=
  NoAllocStep.of_events (evs := []) (by simpa using h) PropC08.NoAlloc_nil

/-- the general shape of every zero-copy obligation: no allocation, and *if* the oracle looks at
the addresses (non-empty result, or an empty one of an owning source when `checkEmpty`) and the
source has one, the result sits `delta` bytes further in the same block -/
theorem zc_none {s s' : St} {src res delta : Nat} {ce : Bool} {x y : Handle}
    (hx : s.hs[src]? = some (some x)) (hy : s'.hs[res]? = some (some y))
    (hev : NoAllocStep s s')
    (haddr : (hlen y > 0 ∨ (ce = true ∧ (hlen x > 0 ∨ (hcapO x).getD 0 > 0 ∨
          (obsOfHandle s src x).uniq = some true))) →
      ∀ r o z, (obsOfHandle s src x).blk = some (r, o, z) →
        ∃ z', (obsOfHandle s' res y).blk = some (r, o + delta, z')) :
    zc (obsOfModel s) (obsOfModel s') (a1allocOf (evsOfModel s s')) false src res delta ce = none := by
  unfold zc
  rw [findObs_live' hx, findObs_live' hy, a1alloc_false hev]
  simp only [Bool.false_eq_true, if_false, Bool.not_false, Bool.and_true]
  split
  · next hg =>
    simp only [Bool.and_eq_true, Bool.or_eq_true, decide_eq_true_eq, obs_len, obs_cap, beq_iff_eq] at hg
    obtain ⟨hg, hb⟩ := hg
    obtain ⟨⟨r, o, z⟩, hblk⟩ := Option.isSome_iff_exists.mp hb
    obtain ⟨z', hb'⟩ := haddr (by
      rcases hg with hg | ⟨hce, hg⟩
      · exact .inl hg
      · exact .inr ⟨hce, by rcases hg with (hg | hg) | hg; exact .inl hg; exact .inr (.inl hg); exact .inr (.inr hg)⟩) r o z hblk
    simp [addrOf, hblk, hb']
  · rfl

/-- address part for a non-empty result, from the invariant of the successor state -/
theorem haddr_nonempty {s s' : St} (hI' : Inv s') {src res delta : Nat} {x y : Handle}
    (hy : s'.hs[res]? = some (some y)) (hl : hlen y ≠ 0)
    (hreg' : hreg y = hreg x) (hoff' : hoff y = hoff x + delta) :
    ∀ r o z, (obsOfHandle s src x).blk = some (r, o, z) →
      ∃ z', (obsOfHandle s' res y).blk = some (r, o + delta, z') := by
  intro r o z hb
  rw [obs_blk] at hb
  split at hb
  · cases hb
  · obtain ⟨h1, h2, _⟩ := locate_eq_some hb
    have hext : extent y ≠ 0 := by
      have := hI'.hok res y hy
      cases y with
      | bytes repr reg off len => simpa [extent, hcapO, hlen] using hl
      | «mut» arc reg off len cap orig =>
        simp only [extent, hcapO, Option.getD_some]
        simp only [hlen] at hl
        cases arc with
        | none => have := (handleOKL_mutV.mp (hI'.hok res _ hy)).1; omega
        | some c => have := (handleOKL_mutA.mp (hI'.hok res _ hy)).1; omega
      | vec reg len cap =>
        simp only [extent, hcapO, Option.getD_some]
        simp only [hlen] at hl
        have := (handleOKL_vec.mp (hI'.hok res _ hy)).1; omega
    obtain ⟨r', z', h3, h4, _⟩ := located_of_inv hI' hy hext
    rw [hreg', h1] at h3; cases h3
    refine ⟨z', ?_⟩
    rw [obs_blk, if_neg (fun h => hext h.2), h4, hoff', h2]

/-- address part for a `BytesMut` result that names the source's region (empty or not) -/
theorem haddr_mut {s s' : St} (hI' : Inv s') {src res delta : Nat} {x : Handle}
    {arc reg : Option Nat} {off len cap orig : Nat}
    (hy : s'.hs[res]? = some (some (.mut arc reg off len cap orig)))
    (hreg' : reg = hreg x) (hoff' : off = hoff x + delta) :
    ∀ r o z, (obsOfHandle s src x).blk = some (r, o, z) →
      ∃ z', (obsOfHandle s' res (.mut arc reg off len cap orig)).blk = some (r, o + delta, z') := by
  intro r o z hb
  rw [obs_blk] at hb
  split at hb
  · cases hb
  · obtain ⟨h1, h2, _⟩ := locate_eq_some hb
    rw [h1] at hreg'; subst hreg'
    obtain ⟨z', h4, _⟩ := located_mut_of_inv hI' hy
    refine ⟨z', ?_⟩
    rw [obs_blk, if_neg (by simp [kindOf])]
    subst hoff' h2
    simpa only [hreg, hoff] using h4

/-- address part when the regions did not change and the result stays inside the source's block -/
theorem haddr_same_regions {s s' : St} (hR : s'.regions = s.regions) {src res delta : Nat} {x y : Handle}
    (hkx : kindOf x ≠ .vec) (hky : kindOf y ≠ .vec)
    (hreg' : hreg y = hreg x) (hoff' : hoff y = hoff x + delta)
    (hb : ∀ r o z, locate s (hreg x) (hoff x) = some (r, o, z) → o + delta ≤ z) :
    ∀ r o z, (obsOfHandle s src x).blk = some (r, o, z) →
      ∃ z', (obsOfHandle s' res y).blk = some (r, o + delta, z') := by
  intro r o z hblk
  rw [obs_blk, if_neg (fun h => hkx h.1)] at hblk
  have hle := hb r o z hblk
  obtain ⟨h1, h2, rg, h3, h4, h5, h6⟩ := locate_eq_some hblk
  refine ⟨z, ?_⟩
  rw [obs_blk, if_neg (fun h => hky h.1), hreg', hoff', h1, h2, h6]
  exact locate_some_of (by rw [hR]; exact h3) h4 (by omega)

/-! ## shapes of the successor state for the splitting operations -/

theorem PropC07_addrOf (h : Handle) : PropC07.addrOf h = (hreg h, hoff h) := by cases h <;> rfl
theorem PropC07_lenOf (h : Handle) : PropC07.lenOf h = hlen h := by cases h <;> rfl

theorem noAlloc_of_NC {s s' : St} (h : NC s s') : NoAllocStep s s' := h.take

theorem splitOff_bytes_ok (cfg : Cfg) (e : Env) {s s' : St} (hI : Inv s) {i k : Nat} {repr : BRepr}
    {reg : Option Nat} {off len : Nat} (hi : s.hs[i]? = some (some (.bytes repr reg off len))) {v : Val}
    (hs : Core.step cfg e (.splitOff i k) s = .ok v s') :
    k ≤ len ∧ v = .handle s.hs.length ∧ s'.regions = s.regions ∧ ∃ repr' orepr,
      s'.hs = s.hs.set i (some (.bytes repr' reg off k)) ++ [some (.bytes orepr reg (off + k) (len - k))] := by
  rcases OpsB.bytesSplitOffCore_spec hI hi k with ⟨hk, heq⟩ | ⟨hk, repr', orepr, C', ev, heq, _⟩
  · simp [Core.step, opSplitOff, getHandle_eq hi, heq] at hs
  · simp only [Core.step, opSplitOff, bind_apply, getHandle_eq hi, heq, newHandle_apply, pure_apply,
      R.ok.injEq] at hs
    obtain ⟨rfl, rfl⟩ := hs
    exact ⟨hk, by simp, rfl, repr', orepr, rfl⟩

theorem splitTo_bytes_ok (cfg : Cfg) (e : Env) {s s' : St} (hI : Inv s) {i k : Nat} {repr : BRepr}
    {reg : Option Nat} {off len : Nat} (hi : s.hs[i]? = some (some (.bytes repr reg off len))) {v : Val}
    (hs : Core.step cfg e (.splitTo i k) s = .ok v s') :
    k ≤ len ∧ v = .handle s.hs.length ∧ s'.regions = s.regions ∧ ∃ repr' crepr,
      s'.hs = s.hs.set i (some (.bytes repr' reg (off + k) (len - k))) ++ [some (.bytes crepr reg off k)] := by
  simp only [Core.step, opSplitTo, bind_apply, getHandle_eq hi] at hs
  by_cases h1 : k = len
  · subst h1
    simp only [if_true, setHandle_apply, newHandle_apply, pure_apply, R.ok.injEq] at hs
    obtain ⟨rfl, rfl⟩ := hs
    exact ⟨Nat.le_refl _, by simp, rfl, .static, repr, by simp [emptyWithPtr]⟩
  by_cases h2 : k = 0
  · subst h2
    have h1' : ¬ (0 = len) := fun hh => h1 hh
    simp only [h1', if_false, if_true, ite_apply', newHandle_apply, pure_apply, R.ok.injEq] at hs
    obtain ⟨rfl, rfl⟩ := hs
    exact ⟨Nat.zero_le _, rfl, rfl, repr, .static, by simp [emptyWithPtr, set_self hi]⟩
  simp only [h1, h2, if_false, ite_apply'] at hs
  by_cases h3 : k > len
  · simp [h3] at hs
  obtain ⟨repr', crepr, C', ev, heq, _⟩ := bytesClone_spec hI hi
  have hlt : i < s.hs.length := lookup_lt hi
  have hg' : getHandle i ⟨s.regions, C', s.hs.set i (some (.bytes repr' reg off len)), s.owners, ev⟩
      = .ok (.bytes repr' reg off len) _ := getHandle_eq (by simp [hlt])
  simp only [if_neg h3, bind_apply, heq, hg', setHandle_apply, newHandle_apply, pure_apply,
    R.ok.injEq] at hs
  obtain ⟨rfl, rfl⟩ := hs
  exact ⟨by omega, by simp, rfl, repr', crepr, by simp [List.set_set]⟩

theorem splitOff_mut_ok (cfg : Cfg) (e : Env) {s s' : St} {i k : Nat} {arc reg : Option Nat}
    {off len cap orig : Nat} (hi : s.hs[i]? = some (some (.mut arc reg off len cap orig))) {v : Val}
    (hs : Core.step cfg e (.splitOff i k) s = .ok v s') :
    k ≤ cap ∧ v = .handle s.hs.length ∧ NoAllocStep s s' ∧ ∃ c arc' cap',
      s'.hs = s.hs.set i (some (.mut (some c) reg off (min len k) k orig)) ++
        [some (.mut arc' reg (off + k) (len - k) cap' orig)] := by
  simp only [Core.step, opSplitOff] at hs
  have hs := getHandle_bind_ok hi hs
  simp only at hs
  split at hs
  · cases hs
  · next hk =>
    obtain ⟨⟨a, b⟩, s1, hc, hs⟩ := bind_ok hs
    obtain ⟨f1, c, rfl, rfl⟩ := mutShallowClone_ok hc
    simp only at hs
    obtain ⟨o', s2, ha, hs⟩ := bind_ok hs
    obtain ⟨f2, arc', cap', rfl⟩ := mutAdvanceUnchecked_ok ha
    obtain ⟨u, s3, h3, hs⟩ := bind_ok hs
    cases h3
    obtain ⟨j', s4, hn, hs⟩ := bind_ok hs
    cases hn; cases hs
    have f := f1.trans f2
    refine ⟨by omega, by simp [f.2], noAlloc_of_NC (f.1.congr rfl rfl), c, arc', cap', ?_⟩
    simp only [f.2]

theorem splitTo_mut_ok (cfg : Cfg) (e : Env) {s s' : St} {i k : Nat} {arc reg : Option Nat}
    {off len cap orig : Nat} (hi : s.hs[i]? = some (some (.mut arc reg off len cap orig))) {v : Val}
    (hs : Core.step cfg e (.splitTo i k) s = .ok v s') :
    k ≤ len ∧ v = .handle s.hs.length ∧ NoAllocStep s s' ∧ ∃ c arc' cap',
      s'.hs = s.hs.set i (some (.mut arc' reg (off + k) (len - k) cap' orig)) ++
        [some (.mut (some c) reg off k k orig)] := by
  simp only [Core.step, opSplitTo] at hs
  have hs := getHandle_bind_ok hi hs
  simp only at hs
  split at hs
  · cases hs
  · next hk =>
    obtain ⟨⟨a, b⟩, s1, hc, hs⟩ := bind_ok hs
    obtain ⟨f1, c, rfl, rfl⟩ := mutShallowClone_ok hc
    simp only at hs
    obtain ⟨o', s2, ha, hs⟩ := bind_ok hs
    obtain ⟨f2, arc', cap', rfl⟩ := mutAdvanceUnchecked_ok ha
    obtain ⟨u, s3, h3, hs⟩ := bind_ok hs
    cases h3
    simp only at hs
    obtain ⟨j', s4, hn, hs⟩ := bind_ok hs
    cases hn; cases hs
    have f := f1.trans f2
    refine ⟨by omega, by simp [f.2], noAlloc_of_NC (f.1.congr rfl rfl), c, arc', cap', ?_⟩
    simp only [f.2]

/-! ## the other branches of `opOracle` -/

/-- `opOracle`'s local predicate `same`, verbatim -/
def sameObs (pre post : List Obs) (i : Nat) : Bool :=
  match findObs pre i, findObs post i with
  | some a, some b => a.len == b.len && a.cap == b.cap && a.contents == b.contents && (a.blk == b.blk || (a.cap.getD a.len) == 0)
  | none, none => true
  | _, _ => false

def movedOf : Op → List Nat
  | .unsplit _ j => [j]
  | _ => []

def isFromOwner : Op → Bool
  | .fromOwner .. => true
  | _ => false

theorem opOracle_panic (op : Op) (pre post : List Obs) (evs : List Evt) (pack : Bool) :
    opOracle op .panic pre post evs pack =
      match pre.find? fun o => !(movedOf op).contains o.id && !sameObs pre post o.id with
      | some o => some ("C13", s!"handle {o.id} changed although the call panicked")
      | none => if post.length + (movedOf op).length != pre.length && !isFromOwner op then
          some ("C13", "set of live handles changed across a panic") else none := by
  cases op <;> rfl

theorem opOracle_panic_none {op : Op} {pre post : List Obs} {evs : List Evt} {pack : Bool}
    (h1 : ∀ o ∈ pre, (movedOf op).contains o.id = true ∨ sameObs pre post o.id = true)
    (h2 : post.length + (movedOf op).length = pre.length ∨ isFromOwner op = true) :
    opOracle op .panic pre post evs pack = none := by
  rw [opOracle_panic]
  have : (pre.find? fun o => !(movedOf op).contains o.id && !sameObs pre post o.id) = none := by
    rw [List.find?_eq_none]
    intro o ho
    rcases h1 o ho with h | h
    · rw [h]; simp
    · rw [h]; simp
  rw [this]
  rcases h2 with h | h <;> simp [h]

theorem opOracle_reserve_none {i n : Nat} {v : Val} {pre post : List Obs} {evs : List Evt} {pack : Bool}
    {a b : Obs} (ha : findObs pre i = some a) (hb : findObs post i = some b)
    (h1 : n ≤ (b.cap.getD 0) - b.len) (h2 : a.len = b.len) (h3 : a.contents = b.contents)
    (h4 : a.len + n < W) : opOracle (.reserve i n) (.ok v) pre post evs pack = none := by
  have h1' : ¬ (b.cap.getD 0) - b.len < n := by omega
  have h4' : ¬ b.len + n ≥ W := by omega
  cases v <;> simp [opOracle, ha, hb, h1', h2, h3, h4']

theorem opOracle_tryReclaim_true {i n : Nat} {pre post : List Obs} {evs : List Evt} {pack : Bool}
    {a b : Obs} (ha : findObs pre i = some a) (hb : findObs post i = some b)
    (h1 : n ≤ (b.cap.getD 0) - b.len) (h2 : a.len = b.len) (h3 : a.contents = b.contents)
    (h4 : a1allocOf evs = false) : opOracle (.tryReclaim i n) (.ok (.bool true)) pre post evs pack = none := by
  have h1' : ¬ (b.cap.getD 0) - b.len < n := by omega
  unfold a1allocOf at h4
  simp [opOracle, ha, hb, h1', h2, h3, h4]

theorem opOracle_tryReclaim_false {i n : Nat} {pre post : List Obs} {evs : List Evt} {pack : Bool}
    (h : sameObs pre post i = true) :
    opOracle (.tryReclaim i n) (.ok (.bool false)) pre post evs pack = none := by
  unfold sameObs at h
  cases ha : findObs pre i with
  | none => simp [opOracle, ha]
  | some a =>
    cases hb : findObs post i with
    | none => simp [opOracle, ha, hb]
    | some b =>
      rw [ha, hb] at h
      simp only [opOracle, ha, hb]
      simp [h]

/-- an unchanged handle in unchanged surroundings is `same` -/
theorem sameObs_of_eq {s s' : St} {i : Nat}
    (h : findObs (obsOfModel s') i = findObs (obsOfModel s) i) :
    sameObs (obsOfModel s) (obsOfModel s') i = true := by
  unfold sameObs
  rw [h]
  cases findObs (obsOfModel s) i <;> simp

/-- zero-copy obligation without the empty-result clause -/
theorem zc_none_false {s s' : St} (hI' : Inv s') {src res delta : Nat} {x y : Handle}
    (hx : s.hs[src]? = some (some x)) (hy : s'.hs[res]? = some (some y)) (hev : NoAllocStep s s')
    (h : hlen y ≠ 0 → hreg y = hreg x ∧ hoff y = hoff x + delta) :
    zc (obsOfModel s) (obsOfModel s') (a1allocOf (evsOfModel s s')) false src res delta false = none :=
  zc_none hx hy hev (fun hg => by
    rcases hg with hg | ⟨hce, _⟩
    · have hl : hlen y ≠ 0 := by omega
      obtain ⟨h1, h2⟩ := h hl
      exact haddr_nonempty hI' hy hl h1 h2
    · cases hce)

theorem addr_shift {x y : Handle} {k : Nat}
    (h : PropC07.addrOf y = PropC07.shift (PropC07.addrOf x) k) : hreg y = hreg x ∧ hoff y = hoff x + k := by
  rw [PropC07_addrOf, PropC07_addrOf] at h
  simp only [PropC07.shift, Prod.mk.injEq] at h
  exact h

theorem addr_same {x y : Handle} (h : PropC07.addrOf y = PropC07.addrOf x) :
    hreg y = hreg x ∧ hoff y = hoff x + 0 := by
  rw [PropC07_addrOf, PropC07_addrOf] at h
  simp only [Prod.mk.injEq] at h
  exact ⟨h.1, by simp [h.2]⟩

/-- a located `Bytes` has its whole view inside the block -/
theorem bytes_bound {s : St} (hI : Inv s) {i : Nat} {repr : BRepr} {reg : Option Nat} {off len : Nat}
    (hi : s.hs[i]? = some (some (.bytes repr reg off len))) {r o z : Nat}
    (h : locate s reg off = some (r, o, z)) : o + len ≤ z := by
  by_cases hl : len = 0
  · obtain ⟨_, h2, rg, _, _, h5, h6⟩ := locate_eq_some h
    omega
  · obtain ⟨r', rg, _, _, _, h4, h5⟩ := locate_of_rd (handleOKL_rd (hI.hok i _ hi)) hl
    simp only [hreg, hoff, hlen] at h4 h5
    rw [h5] at h; cases h; exact h4

theorem lookup_new {hs : List (Option Handle)} {i : Nat} {a b : Option Handle} :
    (hs.set i a ++ [b])[hs.length]? = some b := by
  have : hs.length = (hs.set i a).length := by simp
  rw [this]; exact lookup_append_new _ _

theorem lookup_old {hs : List (Option Handle)} {i : Nat} {x : Option Handle} {a b : Option Handle}
    (hi : hs[i]? = some x) : (hs.set i a ++ [b])[i]? = some a :=
  lookup_append_of_some _ (lookup_set_eq _ hi)

end BytesVerif.Judge.SeqJ
