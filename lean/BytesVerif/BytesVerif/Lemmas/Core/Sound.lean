/-
The workhorse of M1: one step of the model preserves the (strengthened) representation invariant,
never reaches undefined behaviour, and refines the reference model in which every handle is an
independent `Vec<u8>` value.  Assembled from the per-operation lemmas in OpsPilot / OpsA–OpsD.
-/
import BytesVerif.Lemmas.Core.OpsA
import BytesVerif.Lemmas.Core.OpsB
import BytesVerif.Lemmas.Core.OpsC
import BytesVerif.Lemmas.Core.OpsD
namespace BytesVerif.Core

/-- Preconditions on operation *arguments* that the Rust type system guarantees: a slice handed to
`from_static` / returned by an owner's `as_ref` has at most `isize::MAX` bytes. -/
def OpOK : Op → Prop
  | .fromStatic bs => bs.length ≤ isizeMax
  | .fromOwner bs _ => bs.length ≤ isizeMax
  | _ => True

theorem step_sound (cfg : Cfg) (e : Env) (op : Op) (s : St) (h : WFx s) (ho : OpOK op) :
    StepOKx cfg e op s := by
  cases op with
  | fromStatic bs => exact OpsA.step_fromStatic cfg e bs ho s h
  | newVec bs cap => exact OpsA.step_newVec cfg e bs cap s h
  | fromVec v => exact OpsA.step_fromVec cfg e v s h
  | copyFromSlice bs => exact OpsA.step_copyFromSlice cfg e bs s h
  | fromOwner bs p => exact OpsA.step_fromOwner cfg e bs p ho s h
  | mutWithCapacity cap => exact OpsA.step_mutWithCapacity cfg e cap s h
  | mutFromSlice bs => exact OpsA.step_mutFromSlice cfg e bs s h
  | mutZeroed n => exact OpsA.step_mutZeroed cfg e n s h
  | clone i => exact step_clone cfg e i s h
  | slice i lo hi => exact OpsB.step_slice cfg e i lo hi s h
  | splitOff i k => exact step_splitOff cfg e i k s h
  | splitTo i k => exact OpsB.step_splitTo cfg e i k s h
  | split i => exact OpsB.step_split cfg e i s h
  | truncate i n => exact OpsB.step_truncate cfg e i n s h
  | clear i => exact OpsB.step_clear cfg e i s h
  | advance i n => exact OpsB.step_advance cfg e i n s h
  | isUnique i => exact OpsA.step_isUnique cfg e i s h
  | tryIntoMut i => exact OpsC.step_tryIntoMut cfg e i s h
  | intoMut i => exact OpsC.step_intoMut cfg e i s h
  | intoVec i => exact OpsC.step_intoVec cfg e i s h
  | freeze i => exact OpsC.step_freeze cfg e i s h
  | reserve i n => exact OpsD.step_reserve cfg e i n s h
  | tryReclaim i n => exact OpsD.step_tryReclaim cfg e i n s h
  | extend i bs => exact OpsD.step_extend cfg e i bs s h
  | resize i n b => exact OpsD.step_resize cfg e i n b s h
  | unsplit i j => exact OpsD.step_unsplit cfg e i j s h
  | setByte i k b => exact OpsA.step_setByte cfg e i k b s h
  | fillSpare i b => exact OpsA.step_fillSpare cfg e i b s h
  | drop i => exact step_drop cfg e i s h

end BytesVerif.Core
