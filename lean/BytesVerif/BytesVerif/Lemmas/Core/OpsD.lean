/-
Group D (growth): `Op.reserve`, `Op.tryReclaim`, `Op.extend`, `Op.resize`, `Op.unsplit`.

New transitions: `Inv_set_excl`, `Inv_rewrite_alone` (sole ownership of a region), `Inv_fill_ctrl_fresh`
(a dead control block is revived with a fresh buffer), `Inv_move`, `Inv_merge`.
Helper specs: `mutReserveInner_spec` (`mri_vec`, `mri_arc`), `mutReserve_spec`, `grown_write`,
`mutExtend_spec`, `mutDrop_spec`.  All execution equations are stated for `s.wh hsX evX` (the state
with an arbitrary handle table / event list) because none of these helpers reads the handle table and
`unsplit` runs them after it has already removed its second operand from the table.
-/
import BytesVerif.Lemmas.Core.OpsPilot
set_option linter.unusedVariables false
set_option linter.unusedSimpArgs false
namespace BytesVerif.Core
namespace OpsD

/-! ## more transitions (group D) -/

theorem ctrlBufOK_of_meta {R R' : List Region} {ow : Nat} {ct : Ctrl}
    (hm : ∀ r, metaL R' r = metaL R r) (h : ctrlBufOK R ow ct) : ctrlBufOK R' ow ct := by
  cases ct with
  | sharedB r cap =>
    simp only [ctrlBufOK] at h ⊢
    rw [isHeapLiveL_of_meta (hm r), regionSizeL_of_meta (hm r)]; exact h
  | sharedV reg vlen vcap orig =>
    cases reg with
    | none => exact h
    | some r =>
      simp only [ctrlBufOK] at h ⊢
      rw [isHeapLiveL_of_meta (hm r), regionSizeL_of_meta (hm r)]; exact h
  | owned o => exact h

theorem ctrlBufOK_append {R : List Region} {ow : Nat} {ct : Ctrl} (X : List Region)
    (h : ctrlBufOK R ow ct) : ctrlBufOK (R ++ X) ow ct := by
  cases ct with
  | sharedB r cap =>
    simp only [ctrlBufOK] at h ⊢
    have := isHeapLiveL_lt h.1
    rw [isHeapLiveL_append _ this, regionSizeL_append _ this]; exact h
  | sharedV reg vlen vcap orig =>
    cases reg with
    | none => exact h
    | some r =>
      simp only [ctrlBufOK] at h ⊢
      have := isHeapLiveL_lt h.1
      rw [isHeapLiveL_append _ this, regionSizeL_append _ this]; exact h
  | owned o => exact h

theorem statOK_append {R : List Region} {b : Handle} (X : List Region)
    (hrd : (rdL R (hreg b) (hoff b) (hlen b)).isSome = true) (h : statOK R b) : statOK (R ++ X) b := by
  cases b with
  | bytes repr reg off len =>
    cases repr with
    | «static» =>
      cases reg with
      | none => trivial
      | some r =>
        intro hl
        have h5 := h hl
        have : r < R.length := rdL_isSome_lt hrd hl
        show kindL (R ++ X) r = _
        rw [kindL_append _ this]; exact h5
    | _ => trivial
  | _ => trivial

/-- T9': replace slot `i` by a handle with the same resources; exclusivity is the caller's obligation -/
theorem Inv_set_excl {s : St} (hI : Inv s) {i : Nat} {h h' : Handle} (hi : s.hs[i]? = some (some h))
    (hc : ctrlOf h' = ctrlOf h) (hd : directRegion h' = directRegion h)
    (ok : handleOKL s.regions s.ctrls h' = true) (st : statOK s.regions h')
    (hex : ∀ (j : Nat) (b : Handle), j ≠ i → s.hs[j]? = some (some b) →
      (isMutable b = true → disjointB b h' = true) ∧ (isMutable h' = true → disjointB h' b = true))
    (ev : List Ev) :
    Inv ⟨s.regions, s.ctrls, s.hs.set i (some h'), s.owners, ev⟩ := by
  constructor
  · exact hI.regs
  · intro j b hj
    rcases hs_set_cases hj with ⟨_, h3, _⟩ | ⟨_, hj'⟩
    · cases h3; exact ok
    · exact hI.hok j b hj'
  · intro c e he hl
    rw [refCountL_set_same hi hc]; exact hI.cok c e he hl
  · intro r hr
    rw [dirCountL_set_same hi hd]; exact hI.own r hr
  · exact Excl_set hI.excl hex
  · apply stat_of_statOK
    intro j b hj
    rcases hs_set_cases hj with ⟨_, h3, _⟩ | ⟨_, hj'⟩
    · cases h3; exact st
    · exact hI.statOK hj'
  · exact hI.odist

/-- Sole ownership: nobody but slot `i` is anchored in region `r`.  Then the contents of `r` may be
rewritten arbitrarily (`R'`: same meta data, other regions untouched) and slot `i` be replaced by
any mutable handle with the same resources whose span lies in `r` (`reserve`'s in-place and
move-to-front paths, where the new capacity range is *not* inside the old one). -/
theorem Inv_rewrite_alone {s : St} (hI : Inv s) {i : Nat} {h h' : Handle} {r : Nat} {rg rg' : Region}
    {R' : List Region}
    (hi : s.hs[i]? = some (some h))
    (halone : ∀ (j : Nat) (b : Handle), j ≠ i → s.hs[j]? = some (some b) →
      ¬ Anchor s.regions s.ctrls b r)
    (hr : s.regions[r]? = some rg) (hr' : R'[r]? = some rg')
    (hother : ∀ r', r' ≠ r → R'[r']? = s.regions[r']?)
    (hRlen : R'.length = s.regions.length)
    (hsz : rg'.size = rg.size) (hlv : rg'.live = rg.live) (hkd : rg'.kind = rg.kind)
    (hdl : rg'.data.length = rg.data.length)
    (hc : ctrlOf h' = ctrlOf h) (hd : directRegion h' = directRegion h)
    (hsp : ∀ r' o l, span h' = some (r', o, l) → r' = r)
    (hm' : isMutable h' = true)
    (ok : handleOKL R' s.ctrls h' = true) (ev : List Ev) :
    Inv ⟨R', s.ctrls, s.hs.set i (some h'), s.owners, ev⟩ ∧
    ∀ (j : Nat) (b : Handle), j ≠ i → s.hs[j]? = some (some b) →
      viewOfL R' b = viewOfL s.regions b := by
  have hmeta : ∀ r', metaL R' r' = metaL s.regions r' := by
    intro r'
    by_cases h : r' = r
    · subst h; simp [metaL, hr, hr', hsz, hlv, hkd]
    · exact metaL_of_lookup (hother r' h)
  have hlook : ∀ (j : Nat) (b : Handle), j ≠ i → s.hs[j]? = some (some b) →
      ∀ r', hreg b = some r' → (usesMeta b = true ∨ hlen b ≠ 0) → R'[r']? = s.regions[r']? := by
    intro j b hji hj r' h1 h2
    by_cases h : r' = r
    · subst h; exact (halone j b hji hj (hI.anchor hj h1 h2)).elim
    · exact hother r' h
  have hview : ∀ (j : Nat) (b : Handle), j ≠ i → s.hs[j]? = some (some b) →
      viewOfL R' b = viewOfL s.regions b := fun j b hji hj =>
    viewOfL_of_lookup (fun r' h1 h2 => hlook j b hji hj r' h1 (.inr h2))
  refine ⟨?_, hview⟩
  constructor
  · intro r' x hx
    by_cases h : r' = r
    · subst h
      have hx' : R'[r']? = some x := hx
      rw [hr'] at hx'; cases hx'
      have := hI.regs r' rg hr
      simp only [regionOKB, hsz, hkd, hdl] at this ⊢; exact this
    · have hx' : R'[r']? = some x := hx
      rw [hother r' h] at hx'; exact hI.regs r' x hx'
  · intro j b hj
    rcases hs_set_cases hj with ⟨_, h3, _⟩ | ⟨hji, hj'⟩
    · cases h3; exact ok
    · show handleOKL R' s.ctrls b = true
      rw [handleOKL_of_lookup (hlook j b hji hj') (fun _ _ => rfl)]; exact hI.hok j b hj'
  · intro c e he hl
    obtain ⟨h1, h2, h3⟩ := hI.cok c e he hl
    exact ⟨by rw [refCountL_set_same hi hc]; exact h1, h2, ctrlBufOK_of_meta hmeta h3⟩
  · intro r' hr'
    have hr'' : r' < R'.length := hr'
    rw [hRlen] at hr''
    show dirCountL (s.hs.set i (some h')) r' + ctrlCountL s.ctrls r' = if isHeapLiveL R' r' = true then 1 else 0
    rw [dirCountL_set_same hi hd, isHeapLiveL_of_meta (hmeta r')]; exact hI.own r' hr''
  · apply Excl_set hI.excl
    intro j b hji hj
    have key : disjointB b h' = true := by
      rw [disjointB_iff]
      intro r1 o1 l1 r2 o2 l2 h1 h2
      by_cases hl0 : l1 = 0
      · exact .inr (.inl hl0)
      · have := hsp r2 o2 l2 h2; subst this
        left; rintro rfl
        exact halone j b hji hj (hI.anchor_span hj h1 hl0)
    exact ⟨fun _ => key, fun _ => by rw [disjointB_symm]; exact key⟩
  · apply stat_of_statOK
    intro j b hj
    rcases hs_set_cases hj with ⟨_, h3, _⟩ | ⟨_, hj'⟩
    · cases h3
      cases h' with
      | bytes => simp [isMutable] at hm'
      | _ => trivial
    · have := hI.statOK hj'
      cases b with
      | bytes repr reg off' len' =>
        cases repr with
        | «static» =>
          cases reg with
          | none => trivial
          | some r' =>
            intro hl'; show kindL _ r' = _
            rw [kindL_of_meta (hmeta r')]; exact this hl'
        | _ => trivial
      | _ => trivial
  · exact hI.odist

/-- a dead control block is not named by any live handle -/
theorem _root_.BytesVerif.Core.Inv.dead_unref {s : St} (hI : Inv s) {c : Nat} {e0 : CtrlE} (he : s.ctrls[c]? = some e0)
    (hdead : e0.live = false) {j : Nat} {b : Handle} (hj : s.hs[j]? = some (some b)) :
    ctrlOf b ≠ some c := by
  intro hcb
  have := handleOKL_ctrl_live (hI.hok j b hj) hcb
  simp [liveCtrlL_def, he, hdead] at this

/-- allocate a region, revive the dead control block `c` as a block (count 1) owning it, and fill the
empty slot `i` with a handle naming `c` (second half of "a unique KIND_ARC BytesMut regrows its
shared vector") -/
theorem Inv_fill_ctrl_fresh {s : St} (hI : Inv s) {i c : Nat} {e0 : CtrlE} {rg : Region} {o : Bool}
    {h' : Handle} {ct : Ctrl}
    (hi : s.hs[i]? = some none) (he : s.ctrls[c]? = some e0) (hdead : e0.live = false)
    (hrg : regionOKB rg = true) (hlive : rg.live = true) (hkind : rg.kind = .heap o)
    (hc : ctrlOf h' = some c) (hct : ctrlRegion ct = some s.regions.length)
    (hbuf : ctrlBufOK (s.regions ++ [rg]) s.owners ct) (hno : ∀ o, ct ≠ .owned o)
    (hsp : ∀ r o l, span h' = some (r, o, l) → r = s.regions.length)
    (ok : handleOKL (s.regions ++ [rg]) (s.ctrls.set c ⟨ct, 1, true⟩) h' = true) (ev : List Ev) :
    Inv ⟨s.regions ++ [rg], s.ctrls.set c ⟨ct, 1, true⟩, s.hs.set i (some h'), s.owners, ev⟩ ∧
    ∀ (j : Nat) (b : Handle), s.hs[j]? = some (some b) →
      viewOfL (s.regions ++ [rg]) b = viewOfL s.regions b := by
  have hview : ∀ (j : Nat) (b : Handle), s.hs[j]? = some (some b) →
      viewOfL (s.regions ++ [rg]) b = viewOfL s.regions b := by
    intro j b hj
    obtain ⟨v, hv, _⟩ := hI.view hj
    rw [hv]; exact rdL_append _ hv
  refine ⟨?_, hview⟩
  have hnoc : ∀ (j : Nat) (b : Handle), s.hs[j]? = some (some b) → ctrlOf b ≠ some c :=
    fun j b hj => hI.dead_unref he hdead hj
  have hd' : directRegion h' = none := ctrlOf_some_direct_none hc
  constructor
  · intro r rg' hr
    have hr' : (s.regions ++ [rg])[r]? = some rg' := hr
    by_cases hrl : r < s.regions.length
    · rw [lookup_append_left _ hrl] at hr'; exact hI.regs r rg' hr'
    · have := lookup_lt hr'; simp at this
      have : r = s.regions.length := by omega
      subst this; rw [lookup_append_new] at hr'; cases hr'; exact hrg
  · intro j b hj
    rcases hs_set_cases hj with ⟨_, h3, _⟩ | ⟨_, hj'⟩
    · cases h3; exact ok
    · have h1 := handleOKL_append (R := s.regions) (C := s.ctrls) [rg] [] (hI.hok j b hj')
      show handleOKL (s.regions ++ [rg]) (s.ctrls.set c ⟨ct, 1, true⟩) b = true
      rw [handleOKL_of_lookup (R := s.regions ++ [rg]) (C := s.ctrls) (fun _ _ _ => rfl)
        (fun c' hc' => liveCtrlL_set_ne _ (fun h => hnoc j b hj' (by rw [h]; exact hc')))]
      simpa using h1
  · intro c' e' he' hl'
    have he'' : (s.ctrls.set c ⟨ct, 1, true⟩)[c']? = some e' := he'
    have hk := refCountL_set (some h') c' hi
    simp only [optCount_none, optCount_some, beq_iff_eq, hc, Option.some.injEq, Nat.add_zero] at hk
    show e'.rc = refCountL (s.hs.set i (some h')) c' ∧ 1 ≤ e'.rc ∧ ctrlBufOK (s.regions ++ [rg]) s.owners e'.c
    by_cases hcc : c' = c
    · subst hcc
      rw [lookup_set_eq _ he] at he''; cases he''
      have h0 : refCountL s.hs c' = 0 := refCountL_eq_zero.mpr (fun j b hj => hnoc j b hj)
      simp only [if_true] at hk
      exact ⟨by show 1 = _; omega, Nat.le_refl _, hbuf⟩
    · rw [lookup_set_ne _ (Ne.symm hcc)] at he''
      obtain ⟨h1, h2, h3⟩ := hI.cok c' e' he'' hl'
      have : ¬ c = c' := fun h => hcc h.symm
      simp only [this, if_false, Nat.add_zero] at hk
      exact ⟨by rw [hk]; exact h1, h2, ctrlBufOK_append _ h3⟩
  · intro r hr
    have hr' : r < (s.regions ++ [rg]).length := hr
    simp only [List.length_append, List.length_singleton] at hr'
    have hk := dirCountL_set (some h') r hi
    simp only [optCount_none, optCount_some, beq_iff_eq, hd', reduceCtorEq, if_false, Nat.add_zero] at hk
    have hcs := ctrlCountL_set ⟨ct, 1, true⟩ r he
    simp only [hdead, Bool.false_and, Bool.false_eq_true, if_false, Nat.add_zero, Bool.true_and,
      beq_iff_eq, hct, Option.some.injEq] at hcs
    show dirCountL (s.hs.set i (some h')) r + ctrlCountL (s.ctrls.set c ⟨ct, 1, true⟩) r =
      if isHeapLiveL (s.regions ++ [rg]) r = true then 1 else 0
    rw [hk, hcs]
    by_cases hrl : r < s.regions.length
    · have : s.regions.length ≠ r := by omega
      simp only [this, if_false, Nat.add_zero, isHeapLiveL_append _ hrl]
      exact hI.own r hrl
    · have : r = s.regions.length := by omega
      subst this
      simp only [if_true, hI.dir_fresh (Nat.le_refl _), hI.ctrl_fresh (Nat.le_refl _),
        isHeapLiveL_new, hlive, hkind, Bool.and_self]
  · apply Excl_set hI.excl
    intro j b _ hj
    have key : disjointB b h' = true := by
      rw [disjointB_iff]
      intro r o l r' o' l' h1 h2
      by_cases hl0 : l = 0
      · exact .inr (.inl hl0)
      · have := hI.span_lt hj h1 hl0
        have := hsp r' o' l' h2
        left; omega
    exact ⟨fun _ => key, fun _ => by rw [disjointB_symm]; exact key⟩
  · apply stat_of_statOK
    intro j b hj
    rcases hs_set_cases hj with ⟨_, h3, _⟩ | ⟨_, hj'⟩
    · cases h3; exact statOK_of_ctrl hc
    · exact statOK_append _ (handleOKL_rd (hI.hok j b hj')) (hI.statOK hj')
  · intro c1 c2 ow h1 h2
    have key : ∀ c', liveCtrlL (s.ctrls.set c ⟨ct, 1, true⟩) c' = some (.owned ow) →
        liveCtrlL s.ctrls c' = some (.owned ow) := by
      intro c' hcc
      by_cases hc' : c' = c
      · subst hc'
        rw [liveCtrlL_set_eq _ he] at hcc
        simp at hcc; exact (hno ow hcc).elim
      · rwa [liveCtrlL_set_ne _ (Ne.symm hc')] at hcc
    exact hI.odist c1 c2 ow (key c1 h1) (key c2 h2)

/-- move the handle in slot `j` into the empty slot `i` -/
theorem Inv_move {s : St} (hI : Inv s) {i j : Nat} {o : Handle} (hij : i ≠ j)
    (hi : s.hs[i]? = some none) (hj : s.hs[j]? = some (some o)) (ev : List Ev) :
    Inv ⟨s.regions, s.ctrls, (s.hs.set j none).set i (some o), s.owners, ev⟩ := by
  have hi' : (s.hs.set j none)[i]? = some none := by
    rw [lookup_set_ne _ (Ne.symm hij)]; exact hi
  have hall : ∀ (k : Nat) (b : Handle), ((s.hs.set j none).set i (some o))[k]? = some (some b) →
      (k = i ∧ b = o) ∨ (k ≠ i ∧ k ≠ j ∧ s.hs[k]? = some (some b)) := by
    intro k b hk
    rcases hs_set_cases hk with ⟨h1, h2, _⟩ | ⟨h1, hk'⟩
    · cases h2; exact .inl ⟨h1, rfl⟩
    · rcases hs_set_cases hk' with ⟨_, h2, _⟩ | ⟨h3, hk''⟩
      · cases h2
      · exact .inr ⟨h1, h3, hk''⟩
  constructor
  · exact hI.regs
  · intro k b hk
    rcases hall k b hk with ⟨_, rfl⟩ | ⟨_, _, hk'⟩
    · exact hI.hok j b hj
    · exact hI.hok k b hk'
  · intro c e he hl
    have h1 := refCountL_kill c hj
    have h2 := refCountL_set (some o) c hi'
    simp only [optCount_none, optCount_some, beq_iff_eq, Nat.add_zero] at h2
    obtain ⟨h3, h4, h5⟩ := hI.cok c e he hl
    refine ⟨?_, h4, h5⟩
    show e.rc = refCountL ((s.hs.set j none).set i (some o)) c
    omega
  · intro r hr
    have h1 := dirCountL_kill r hj
    have h2 := dirCountL_set (some o) r hi'
    simp only [optCount_none, optCount_some, beq_iff_eq, Nat.add_zero] at h2
    have h3 := hI.own r hr
    show dirCountL ((s.hs.set j none).set i (some o)) r + ctrlCountL s.ctrls r =
      if isHeapLiveL s.regions r = true then 1 else 0
    omega
  · apply Excl_set (Excl_kill j hI.excl)
    intro k b hki hk
    rcases hs_set_cases hk with ⟨_, h2, _⟩ | ⟨hkj, hk'⟩
    · cases h2
    · exact ⟨fun hb => hI.excl k j b o hk' hj hkj hb, fun ho => hI.excl j k o b hj hk' (Ne.symm hkj) ho⟩
  · apply stat_of_statOK
    intro k b hk
    rcases hall k b hk with ⟨_, rfl⟩ | ⟨_, _, hk'⟩
    · exact hI.statOK hj
    · exact hI.statOK hk'
  · exact hI.odist

/-- two handles `h` (slot `i`) and `o` (slot `j`) on the same control block are merged into `h'`
(slot `i`); `o`'s reference is released.  `hdis`: whatever is disjoint from both is disjoint from the
merged handle. -/
theorem Inv_merge {s : St} (hI : Inv s) {i j : Nat} {h o h' : Handle} {c : Nat} {e : CtrlE}
    (hij : i ≠ j) (hi : s.hs[i]? = some (some h)) (hj : s.hs[j]? = some (some o))
    (hco : ctrlOf o = some c) (he : s.ctrls[c]? = some e) (hl : e.live = true) (h1 : e.rc ≠ 1)
    (hc' : ctrlOf h' = ctrlOf h) (hd' : directRegion h' = directRegion h)
    (ok : handleOKL s.regions s.ctrls h' = true) (st : statOK s.regions h')
    (hmh : isMutable h = true) (hmo : isMutable o = true)
    (hdis : ∀ b, disjointB h b = true → disjointB o b = true → disjointB h' b = true)
    (ev : List Ev) :
    Inv ⟨s.regions, s.ctrls.set c { e with rc := e.rc - 1 }, (s.hs.set j none).set i (some h'),
      s.owners, ev⟩ := by
  have hIa := Inv_kill_dec hI hj hco he hl h1 ev
  have hia : (s.hs.set j none)[i]? = some (some h) := by
    rw [lookup_set_ne _ (Ne.symm hij)]; exact hi
  have hlc : ∀ c', liveCtrlL (s.ctrls.set c { e with rc := e.rc - 1 }) c' = liveCtrlL s.ctrls c' :=
    fun c' => liveCtrlL_set_rc _ c' he
  refine Inv_set_excl hIa hia hc' hd' ?_ st ?_ ev
  · show handleOKL s.regions (s.ctrls.set c { e with rc := e.rc - 1 }) h' = true
    rw [handleOKL_of_lookup (R := s.regions) (C := s.ctrls) (fun _ _ _ => rfl) (fun c' _ => hlc c')]
    exact ok
  · intro k b hki hk
    rcases hs_set_cases hk with ⟨_, h2, _⟩ | ⟨hkj, hk'⟩
    · cases h2
    · have d1 : disjointB h b = true := hI.excl i k h b hi hk' (Ne.symm hki) hmh
      have d2 : disjointB o b = true := hI.excl j k o b hj hk' (Ne.symm hkj) hmo
      have := hdis b d1 d2
      exact ⟨fun _ => by rw [disjointB_symm]; exact this, fun _ => this⟩

/-! ## `reserve_inner` -/

theorem _root_.BytesVerif.Core.Region.write_data_length (rg : Region) {off : Nat} {bs : List Byte}
    (hb : off + bs.length ≤ rg.data.length) : (rg.write off bs).data.length = rg.data.length := by
  rw [Region.write_data, ← List.length_map (f := some) (as := bs)]
  exact write_length _ _ _ (by simpa using hb)

theorem slice_prefix {α} (d X : List α) {off len n : Nat} (hn : off + len ≤ n) (hdl : n ≤ d.length) :
    ((d.take n ++ X).drop off).take len = (d.drop off).take len := by
  apply slice_congr
  intro k _ hk
  have : k < (d.take n).length := by simp; omega
  rw [List.getElem?_append_left this, List.getElem?_take]
  simp; omega

/-- a range that lies in the preserved prefix of a reallocated buffer reads as before -/
theorem rdL_prefix_copy {R R' : List Region} {r r' : Nat} {rg rg' : Region} {off len n : Nat}
    {X : List (Option Byte)} {v : List Byte}
    (hv : rdL R (some r) off len = some v) (hr : R[r]? = some rg) (hr' : R'[r']? = some rg')
    (hl' : rg'.live = true) (hd' : rg'.data = rg.data.take n ++ X) (hn : off + len ≤ n)
    (hsz : off + len ≤ rg'.size) (hdl : n ≤ rg.data.length) :
    rdL R' (some r') off len = some v := by
  rcases rdL_eq_some_iff.mp hv with ⟨h0, hv0⟩ | ⟨h0, r0, rg0, h1, h2, _, _, hd⟩
  · exact rdL_eq_some_iff.mpr (.inl ⟨h0, hv0⟩)
  · cases h1; rw [hr] at h2; cases h2
    exact rdL_some_of hr' hl' hsz (by rw [hd', slice_prefix _ _ hn hdl]; exact hd)

/-- the state an operation on slot `i` runs in when the caller has meanwhile changed the handle table
(`unsplit` kills slot `j` before it extends slot `i`): the helpers below never look at `hs` -/
abbrev _root_.BytesVerif.Core.St.wh (s : St) (hsX : List (Option Handle)) (evX : List Ev) : St :=
  ⟨s.regions, s.ctrls, hsX, s.owners, evX⟩

/-- what a successful `reserve_inner` / `reserve` on slot `i` establishes; `R1`, `C1` are the regions
and control blocks afterwards, `h'` the new handle (not yet stored), `reg off len` the old view -/
structure Grown (s : St) (i : Nat) (reg : Option Nat) (off len additional : Nat)
    (h' : Handle) (R1 : List Region) (C1 : List CtrlE) : Prop where
  shape : ∃ arc' reg' off' cap' orig', h' = .mut arc' reg' off' len cap' orig' ∧ additional ≤ cap' - len
  inv : ∀ ev, Inv ⟨R1, C1, s.hs.set i (some h'), s.owners, ev⟩
  view : viewOfL R1 h' = rdL s.regions reg off len
  others : ∀ (j : Nat) (b : Handle), j ≠ i → s.hs[j]? = some (some b) →
    viewOfL R1 b = viewOfL s.regions b

/-- the three outcomes of `reserve_inner` when the spare capacity does not suffice -/
def ReserveInnerSpec (cfg : Cfg) (e : Env) (s : St) (i : Nat) (arc reg : Option Nat)
    (off len cap orig additional : Nat) (allocate : Bool) : Prop :=
  (allocate = true ∧ ∀ hsX evX,
    mutReserveInner cfg e (.mut arc reg off len cap orig) additional allocate (s.wh hsX evX) =
      .panic (s.wh hsX evX)) ∨
  (allocate = false ∧ ∀ hsX evX,
    mutReserveInner cfg e (.mut arc reg off len cap orig) additional allocate (s.wh hsX evX) =
      .ok (.mut arc reg off len cap orig, false) (s.wh hsX evX)) ∨
  ∃ h' R1 C1,
    (∀ hsX evX, ∃ ev1,
      mutReserveInner cfg e (.mut arc reg off len cap orig) additional allocate (s.wh hsX evX) =
        .ok (h', true) ⟨R1, C1, hsX, s.owners, ev1⟩) ∧
    Grown s i reg off len additional h' R1 C1

/-- KIND_VEC -/
theorem mri_vec {s : St} (hI : Inv s) (cfg : Cfg) (e : Env) {i : Nat} {reg : Option Nat}
    {off len cap orig : Nat} (hi : s.hs[i]? = some (some (.mut none reg off len cap orig)))
    (additional : Nat) (allocate : Bool) (hadd : ¬ additional ≤ cap - len) :
    ReserveInnerSpec cfg e s i none reg off len cap orig additional allocate := by
  have hok := hI.hok i _ hi
  obtain ⟨hlc, hoffb, hregc, hrd⟩ := handleOKL_mutV.mp hok
  obtain ⟨v, hv⟩ := Option.isSome_iff_exists.mp hrd
  have hvl := rdL_length hI.regs hv
  by_cases hfront : cap - len + off ≥ additional ∧ off ≥ len
  · -- move the contents to the front of the allocation
    right; right
    cases reg with
    | none => simp only at hregc; omega
    | some r =>
      simp only at hregc
      obtain ⟨rg, k, hr, hlive, hkind⟩ := isHeapLiveL_iff.mp hregc.1
      have hsz : off + cap = rg.size := by simpa [regionSizeL_def, hr] using hregc.2
      obtain ⟨hszle, hdl⟩ := region_size_le hI.regs hr
      have hW : cap + off < W := by rw [W_eq]; rw [isizeMax_eq] at hszle; omega
      have halone : ∀ (j : Nat) (b : Handle), j ≠ i → s.hs[j]? = some (some b) →
          ¬ Anchor s.regions s.ctrls b r := fun j b hji hj => hI.alone_direct hi rfl hji hj
      have key : ∀ (R' : List Region) (rg' : Region), R'[r]? = some rg' →
          (∀ r', r' ≠ r → R'[r']? = s.regions[r']?) → R'.length = s.regions.length →
          rg'.size = rg.size → rg'.live = rg.live → rg'.kind = rg.kind →
          rg'.data.length = rg.data.length → rdL R' (some r) 0 len = some v →
          Grown s i (some r) off len additional (.mut none (some r) 0 len (cap + off) orig) R' s.ctrls := by
        intro R' rg' hr' hoth hRl h1 h2 h3 h4 hrd'
        have ok' : handleOKL R' s.ctrls (.mut none (some r) 0 len (cap + off) orig) = true := by
          refine handleOKL_mutV.mpr ⟨by omega, Nat.zero_le _, ⟨?_, ?_⟩, by simp [hrd']⟩
          · exact isHeapLiveL_iff.mpr ⟨rg', k, hr', by rw [h2]; exact hlive, by rw [h3]; exact hkind⟩
          · simp [regionSizeL_def, hr', h1]; omega
        have hsp : ∀ r' o l, span (.mut none (some r) 0 len (cap + off) orig) = some (r', o, l) → r' = r := by
          intro r' o l h; simp [span] at h; exact h.1.symm
        exact ⟨⟨_, _, _, _, _, rfl, by omega⟩,
          fun ev => (Inv_rewrite_alone (h' := .mut none (some r) 0 len (cap + off) orig) hI hi halone hr hr' hoth hRl h1 h2 h3 h4 rfl rfl hsp rfl ok' ev).1,
          by simpa [viewOfL, hreg, hoff, hlen, hv] using hrd',
          (Inv_rewrite_alone (h' := .mut none (some r) 0 len (cap + off) orig) hI hi halone hr hr' hoth hRl h1 h2 h3 h4 rfl rfl hsp rfl ok' []).2⟩
      by_cases hl0 : len = 0
      · subst hl0
        have hv0 : v = [] := by cases v <;> simp_all
        refine ⟨_, s.regions, s.ctrls, ?_,
          key s.regions rg hr (fun _ _ => rfl) rfl rfl rfl rfl rfl (by rw [hv0]; exact rdL_zero _ _ _)⟩
        intro hsX evX
        refine ⟨evX, ?_⟩
        simp only [mutReserveInner, bind_apply, ite_apply', if_pos hfront, copyWithin_zero,
          uadd_eq cfg hW, pure_apply]
      · have hwl : 0 + v.length ≤ rg.data.length := by omega
        refine ⟨_, s.regions.set r (rg.write 0 v), s.ctrls, ?_,
          key _ (rg.write 0 v) (lookup_set_eq _ hr) (fun r' h => lookup_set_ne _ (Ne.symm h)) (by simp)
            rfl rfl rfl (rg.write_data_length hwl)
            (by have := rdL_write_same hr hlive (off := 0) (bs := v) (by omega) hdl; rwa [hvl] at this)⟩
        intro hsX evX
        refine ⟨evX, ?_⟩
        have hcw := copyWithin_eq (s := s.wh hsX evX) hl0 hv hvl hr hlive
          (by omega : 0 + len ≤ rg.size) hkind
        simp only [mutReserveInner, bind_apply, ite_apply', if_pos hfront, hcw, uadd_eq cfg hW,
          pure_apply]
  · cases allocate with
    | false =>
      right; left
      refine ⟨rfl, fun hsX evX => ?_⟩
      simp only [mutReserveInner, bind_apply, ite_apply', if_neg hfront, Bool.not_false, if_true,
        pure_apply]
    | true =>
      have hna : ¬ additional ≤ (off + cap) - (off + len) := by omega
      by_cases hg : vecGrowCap (off + cap) (off + len + additional) > isizeMax
      · left
        refine ⟨rfl, fun hsX evX => ?_⟩
        simp only [mutReserveInner, bind_apply, ite_apply', if_neg hfront, Bool.not_true,
          Bool.false_eq_true, if_false, vecReserve_panic_grow e hna hg]
      · right; right
        have hg' : vecGrowCap (off + cap) (off + len + additional) ≤ isizeMax := by omega
        have hle := le_vecGrowCap (off + cap) (off + len + additional)
        cases reg with
        | none =>
          simp only at hregc
          have h1 : off = 0 := by omega
          have h2 : cap = 0 := by omega
          have h3 : len = 0 := by omega
          subst h1 h2 h3
          have hv0 : v = [] := by cases v <;> simp_all
          simp only [Nat.add_zero] at hg' hle hna
          let N := vecGrowCap 0 (0 + additional)
          let new : Region := ⟨N, List.replicate N none, true, .heap (e.odd s.regions.length)⟩
          have hnew : regionOKB new = true := by
            have := vecReserve_region_ok (cap := 0) (needed := 0 + additional) [] (e.odd s.regions.length)
              hg' (Nat.zero_le _)
            simpa [new, N] using this
          refine ⟨.mut none (some s.regions.length) 0 0 (N - 0) orig, s.regions ++ [new], s.ctrls, ?_, ?_⟩
          · intro hsX evX
            refine ⟨.alloc s.regions.length N :: evX, ?_⟩
            simp only [mutReserveInner, bind_apply, ite_apply', if_neg hfront, Bool.not_true,
              Bool.false_eq_true, if_false, Nat.add_zero, vecReserve_grow_none e hna hg', pure_apply]
            rfl
          · have hIa := Inv_kill_plain hI hi rfl rfl
            have hia : (s.hs.set i none)[i]? = some none := lookup_set_eq _ hi
            have ok' : handleOKL (s.regions ++ [new]) s.ctrls
                (.mut none (some s.regions.length) 0 0 (N - 0) orig) = true := by
              refine handleOKL_mutV.mpr ⟨Nat.zero_le _, Nat.zero_le _, ⟨?_, ?_⟩, by simp [rdL_zero]⟩
              · simp [isHeapLiveL_new, new]
              · simp [regionSizeL_new, new]
            have hfill := fun ev => Inv_fill_fresh (hIa ev) (h' := .mut none (some s.regions.length) 0 0 (N - 0) orig)
              hia hnew rfl rfl rfl rfl (by intro r o l h; simp [span] at h; exact h.1.symm) ok' ev
            refine ⟨⟨_, _, _, _, _, rfl, ?_⟩, fun ev => ?_, ?_, ?_⟩
            · simp only [N]; omega
            · have := (hfill ev).1
              simpa [List.set_set] using this
            · simp [viewOfL, hreg, hoff, hlen, rdL_zero]
            · intro j b hji hj
              exact (hfill []).2 j b (by simp [lookup_set_ne _ (Ne.symm hji), hj])
        | some r =>
          simp only at hregc
          obtain ⟨rg, k, hr, hlive, hkind⟩ := isHeapLiveL_iff.mp hregc.1
          have hsz : off + cap = rg.size := by simpa [regionSizeL_def, hr] using hregc.2
          obtain ⟨hszle, hdl⟩ := region_size_le hI.regs hr
          have h0 : off + cap ≠ 0 := by rw [hregc.2]; exact heap_size_pos hI.regs hregc.1
          let N := vecGrowCap (off + cap) (off + len + additional)
          let old := rg.data.take (off + len)
          let new : Region := ⟨N, old ++ List.replicate (N - old.length) none, true, .heap (e.odd s.regions.length)⟩
          have holdl : old.length = off + len := by simp [old]; omega
          have hnew : regionOKB new = true :=
            vecReserve_region_ok old (e.odd s.regions.length) hg' (by rw [holdl]; omega)
          have hrlt : r < s.regions.length := lookup_lt hr
          have hRR : (s.regions ++ [new]).set r rg.kill = s.regions.set r rg.kill ++ [new] :=
            List.set_append_left _ _ hrlt
          refine ⟨.mut none (some s.regions.length) off len (N - off) orig,
            (s.regions ++ [new]).set r rg.kill, s.ctrls, ?_, ?_⟩
          · intro hsX evX
            refine ⟨.dealloc r (off + cap) :: .alloc s.regions.length N :: evX, ?_⟩
            simp only [mutReserveInner, bind_apply, ite_apply', if_neg hfront, Bool.not_true,
              Bool.false_eq_true, if_false,
              vecReserve_grow_some e (s := s.wh hsX evX) hna hg' hr hlive hsz.symm hkind h0, pure_apply]
            rfl
          · obtain ⟨_, hva⟩ := Inv_kill_direct hI hi (r0 := r) rfl hr []
            have hIa := fun ev => (Inv_kill_direct hI hi (r0 := r) rfl hr ev).1
            have hia : (s.hs.set i none)[i]? = some none := lookup_set_eq _ hi
            have hlen' : (s.regions.set r rg.kill).length = s.regions.length := by simp
            have hnewlk : (s.regions.set r rg.kill ++ [new])[s.regions.length]? = some new := by
              rw [← hlen']; exact lookup_append_new _ _
            have hvnew : rdL (s.regions.set r rg.kill ++ [new]) (some s.regions.length) off len = some v :=
              rdL_prefix_copy (n := off + len) hv hr hnewlk rfl rfl (Nat.le_refl _)
                (by show off + len ≤ N; omega) (by omega)
            have ok' : handleOKL (s.regions.set r rg.kill ++ [new]) s.ctrls
                (.mut none (some s.regions.length) off len (N - off) orig) = true := by
              refine handleOKL_mutV.mpr ⟨by simp only [N]; omega, hoffb, ⟨?_, ?_⟩, by simp [hvnew]⟩
              · exact isHeapLiveL_iff.mpr ⟨new, _, hnewlk, rfl, rfl⟩
              · simp only [regionSizeL_def, hnewlk, new, N]; omega
            have hfill := fun ev => Inv_fill_fresh (hIa ev)
              (h' := .mut none (some s.regions.length) off len (N - off) orig)
              hia hnew rfl rfl rfl (by simp [directRegion])
              (by intro r o l h; simp [span] at h; simp [h.1]) ok' ev
            refine ⟨⟨_, _, _, _, _, rfl, ?_⟩, fun ev => ?_, ?_, ?_⟩
            · simp only [N]; omega
            · have := (hfill ev).1
              rw [hRR]
              simpa [List.set_set] using this
            · rw [hRR]; simpa [viewOfL, hreg, hoff, hlen, hv] using hvnew
            · intro j b hji hj
              rw [hRR, (hfill []).2 j b (by simp [lookup_set_ne _ (Ne.symm hji), hj])]
              exact hva j b hji hj

/-- KIND_ARC -/
theorem mri_arc {s : St} (hI : Inv s) (cfg : Cfg) (e : Env) {i c : Nat} {reg : Option Nat}
    {off len cap orig : Nat} (hi : s.hs[i]? = some (some (.mut (some c) reg off len cap orig)))
    (additional : Nat) (allocate : Bool) (hadd : ¬ additional ≤ cap - len) :
    ReserveInnerSpec cfg e s i (some c) reg off len cap orig additional allocate := by
  have hok := hI.hok i _ hi
  obtain ⟨hlc, ⟨vlen, vcap, vorig, hlivec, hcap⟩, hrd⟩ := handleOKL_mutA.mp hok
  obtain ⟨v, hv⟩ := Option.isSome_iff_exists.mp hrd
  have hvl := rdL_length hI.regs hv
  obtain ⟨ce, he, hl, hct, hrc, hrc1, hbuf⟩ := hI.cok' hlivec
  obtain ⟨ct, rc, live⟩ := ce
  simp only at hl hct hrc hrc1
  subst hl hct
  have hnoalloc : allocate = false → (∀ hsX evX,
      mutReserveInner cfg e (.mut (some c) reg off len cap orig) additional allocate (s.wh hsX evX) =
        .ok (.mut (some c) reg off len cap orig, false) (s.wh hsX evX)) →
      ReserveInnerSpec cfg e s i (some c) reg off len cap orig additional allocate :=
    fun h1 h2 => .inr (.inl ⟨h1, h2⟩)
  by_cases hW : len + additional ≥ W
  · -- `checked_add` overflows
    cases allocate with
    | true =>
      left
      refine ⟨rfl, fun hsX evX => ?_⟩
      simp only [mutReserveInner, bind_apply, ite_apply', if_pos hW, if_true, panic_apply]
    | false =>
      refine hnoalloc rfl (fun hsX evX => ?_)
      simp only [mutReserveInner, bind_apply, ite_apply', if_pos hW, Bool.false_eq_true, if_false,
        pure_apply]
  have hget : ∀ hsX evX, getCtrl c (s.wh hsX evX) =
      .ok ⟨.sharedV reg vlen vcap vorig, rc, true⟩ (s.wh hsX evX) :=
    fun hsX evX => getCtrl_eq (s := s.wh hsX evX) he rfl
  -- the shared vector is at most `isize::MAX` long
  have hvc : vcap ≤ isizeMax ∧ (reg = none → vcap = 0) := by
    cases reg with
    | none => simp only [ctrlBufOK] at hbuf; subst hbuf; exact ⟨Nat.zero_le _, fun _ => rfl⟩
    | some r =>
      simp only [ctrlBufOK] at hbuf
      obtain ⟨rg, k, hr, _, _⟩ := isHeapLiveL_iff.mp hbuf.1
      have : rg.size = vcap := by simpa [regionSizeL_def, hr] using hbuf.2
      exact ⟨by rw [← this]; exact (region_size_le hI.regs hr).1, fun h => by cases h⟩
  by_cases hu : rc = 1
  · subst hu
    -- facts about the buffer when it exists
    have hbufr : ∀ r, reg = some r → ∃ rg k, s.regions[r]? = some rg ∧ rg.live = true ∧
        rg.kind = .heap k ∧ rg.size = vcap ∧ rg.data.length = rg.size ∧
        (∀ (j : Nat) (b : Handle), j ≠ i → s.hs[j]? = some (some b) → ¬ Anchor s.regions s.ctrls b r) := by
      intro r hreg; subst hreg
      simp only [ctrlBufOK] at hbuf
      obtain ⟨rg, k, hr, hlive, hkind⟩ := isHeapLiveL_iff.mp hbuf.1
      have : rg.size = vcap := by simpa [regionSizeL_def, hr] using hbuf.2
      exact ⟨rg, k, hr, hlive, hkind, this, (region_size_le hI.regs hr).2,
        fun j b hji hj => hI.alone_ctrl hi rfl he rfl rfl rfl hji hj⟩
    -- generic "rewrite the buffer in place" step
    have key : ∀ (r : Nat) (rg : Region) (k : Bool) (R' : List Region) (rg' : Region) (off' cap' : Nat),
        reg = some r → s.regions[r]? = some rg → rg.live = true → rg.kind = .heap k →
        (∀ (j : Nat) (b : Handle), j ≠ i → s.hs[j]? = some (some b) → ¬ Anchor s.regions s.ctrls b r) →
        R'[r]? = some rg' →
        (∀ r', r' ≠ r → R'[r']? = s.regions[r']?) → R'.length = s.regions.length →
        rg'.size = rg.size → rg'.live = rg.live → rg'.kind = rg.kind →
        rg'.data.length = rg.data.length → rdL R' (some r) off' len = some v →
        len ≤ cap' → off' + cap' ≤ vcap → additional ≤ cap' - len →
        Grown s i reg off len additional (.mut (some c) (some r) off' len cap' orig) R' s.ctrls := by
      intro r rg k R' rg' off' cap' hreg hr hlive hkind halone hr' hoth hRl h1 h2 h3 h4 hrd' hlc' hcap' hadd'
      subst hreg
      have ok' : handleOKL R' s.ctrls (.mut (some c) (some r) off' len cap' orig) = true :=
        handleOKL_mutA.mpr ⟨hlc', ⟨vlen, vcap, vorig, hlivec, hcap'⟩, by simp [hrd']⟩
      have hsp : ∀ r' o l, span (.mut (some c) (some r) off' len cap' orig) = some (r', o, l) → r' = r := by
        intro r' o l h; simp [span] at h; exact h.1.symm
      exact ⟨⟨_, _, _, _, _, rfl, hadd'⟩,
        fun ev => (Inv_rewrite_alone (h' := .mut (some c) (some r) off' len cap' orig) hI hi halone hr hr'
          hoth hRl h1 h2 h3 h4 rfl rfl hsp rfl ok' ev).1,
        by simpa [viewOfL, hreg, hoff, hlen, hv] using hrd',
        (Inv_rewrite_alone (h' := .mut (some c) (some r) off' len cap' orig) hI hi halone hr hr'
          hoth hRl h1 h2 h3 h4 rfl rfl hsp rfl ok' []).2⟩
    by_cases hin : vcap ≥ min (len + additional + off) (W - 1)
    · -- enough room behind the view: in place
      right; right
      have hin' : vcap ≥ len + additional + off := by
        have := hvc.1; rw [W_eq] at hin; rw [isizeMax_eq] at this; omega
      cases reg with
      | none => have := hvc.2 rfl; omega
      | some r =>
        obtain ⟨rg, k, hr, hlive, hkind, hsz, hdl, halone⟩ := hbufr r rfl
        refine ⟨_, s.regions, s.ctrls, ?_,
          key r rg k s.regions rg off (len + additional) rfl hr hlive hkind halone hr (fun _ _ => rfl) rfl rfl rfl rfl rfl hv
            (by omega) (by omega) (by omega)⟩
        intro hsX evX
        refine ⟨evX, ?_⟩
        simp only [mutReserveInner, bind_apply, ite_apply', if_neg hW, hget, if_true, if_pos hin,
          pure_apply]
    · by_cases hfr : vcap ≥ len + additional ∧ off ≥ len
      · -- move to the front of the shared vector
        right; right
        cases reg with
        | none => have := hvc.2 rfl; omega
        | some r =>
          obtain ⟨rg, k, hr, hlive, hkind, hsz, hdl, halone⟩ := hbufr r rfl
          by_cases hl0 : len = 0
          · subst hl0
            have hv0 : v = [] := by cases v <;> simp_all
            refine ⟨_, s.regions, s.ctrls, ?_,
              key r rg k s.regions rg 0 vcap rfl hr hlive hkind halone hr (fun _ _ => rfl) rfl rfl rfl rfl rfl
                (by rw [hv0]; exact rdL_zero _ _ _) (by omega) (by omega) (by omega)⟩
            intro hsX evX
            refine ⟨evX, ?_⟩
            simp only [mutReserveInner, bind_apply, ite_apply', if_neg hW, hget, if_true, if_neg hin,
              if_pos hfr, copyWithin_zero, pure_apply]
          · have hwl : 0 + v.length ≤ rg.data.length := by omega
            refine ⟨_, s.regions.set r (rg.write 0 v), s.ctrls, ?_,
              key r rg k _ (rg.write 0 v) 0 vcap rfl hr hlive hkind halone (lookup_set_eq _ hr)
                (fun r' h => lookup_set_ne _ (Ne.symm h)) (by simp)
                rfl rfl rfl (rg.write_data_length hwl)
                (by have := rdL_write_same hr hlive (off := 0) (bs := v) (by omega) hdl; rwa [hvl] at this)
                (by omega) (by omega) (by omega)⟩
            intro hsX evX
            refine ⟨evX, ?_⟩
            have hcw := copyWithin_eq (s := s.wh hsX evX) hl0 hv hvl hr hlive
              (by omega : 0 + len ≤ rg.size) hkind
            simp only [mutReserveInner, bind_apply, ite_apply', if_neg hW, hget, if_true, if_neg hin,
              if_pos hfr, hcw, pure_apply]
      · cases allocate with
        | false =>
          refine hnoalloc rfl (fun hsX evX => ?_)
          simp only [mutReserveInner, bind_apply, ite_apply', if_neg hW, hget, if_true, if_neg hin,
            if_neg hfr, Bool.not_false, pure_apply]
        | true =>
          by_cases hov : len + additional + off ≥ W
          · left
            refine ⟨rfl, fun hsX evX => ?_⟩
            simp only [mutReserveInner, bind_apply, ite_apply', if_neg hW, hget, if_true, if_neg hin,
              if_neg hfr, Bool.not_true, Bool.false_eq_true, if_false, if_pos hov, panic_apply]
          · -- grow the shared vector
            have hlt : vcap < len + additional + off := by rw [W_eq] at hin hov; omega
            have hda : ∀ s', dassert cfg (decide (off + len ≤ vcap)) s' = .ok () s' :=
              fun s' => dassert_eq cfg (by simp; omega) s'
            obtain ⟨T, hT, hTw⟩ : ∃ T, T = max (if vcap * 2 < W then vcap * 2 else len + additional + off)
                (len + additional + off) ∧ len + additional + off ≤ T := ⟨_, rfl, Nat.le_max_right _ _⟩
            have hna : ¬ T - (off + len) ≤ vcap - (off + len) := by omega
            have hexec : ∀ hsX evX,
                mutReserveInner cfg e (.mut (some c) reg off len cap orig) additional true (s.wh hsX evX) =
                match vecReserve e reg (off + len) vcap (T - (off + len)) (s.wh hsX evX) with
                | .ok x s' => .ok (.mut (some c) x.fst off len (x.snd - off) orig, true)
                    { s' with ctrls := s'.ctrls.set c ⟨.sharedV x.fst (off + len) x.snd vorig, 1, true⟩ }
                | .panic s' => .panic s'
                | .ub w s' => .ub w s' := by
              intro hsX evX
              simp only [mutReserveInner, bind_apply, ite_apply', if_neg hW, hget, if_true, if_neg hin,
                if_neg hfr, Bool.not_true, Bool.false_eq_true, if_false, if_neg hov, hda, ← hT]
              cases vecReserve e reg (off + len) vcap (T - (off + len)) (s.wh hsX evX) <;>
                simp only [setCtrl_apply, pure_apply, bind_apply]
            by_cases hg : vecGrowCap vcap (off + len + (T - (off + len))) > isizeMax
            · left
              refine ⟨rfl, fun hsX evX => ?_⟩
              rw [hexec, vecReserve_panic_grow e hna hg]
            · right; right
              have hg' : vecGrowCap vcap (off + len + (T - (off + len))) ≤ isizeMax := by omega
              have hle := le_vecGrowCap vcap (off + len + (T - (off + len)))
              obtain ⟨hIk, hvk⟩ := Inv_kill_last hI hi rfl he rfl rfl []
              have hIa := fun ev => (Inv_kill_last hI hi rfl he rfl rfl ev).1
              have hia : (s.hs.set i none)[i]? = some none := lookup_set_eq _ hi
              have hca : (s.ctrls.set c ⟨.sharedV reg vlen vcap vorig, 0, false⟩)[c]? =
                  some ⟨.sharedV reg vlen vcap vorig, 0, false⟩ := lookup_set_eq _ he
              let N := vecGrowCap vcap (off + len + (T - (off + len)))
              cases reg with
              | none =>
                have hvc0 := hvc.2 rfl
                subst hvc0
                have hoff0 : off = 0 := by omega
                have hlen0 : len = 0 := by omega
                subst hoff0 hlen0
                have hv0 : v = [] := by cases v <;> simp_all
                let new : Region := ⟨N, List.replicate N none, true, .heap (e.odd s.regions.length)⟩
                have hnew : regionOKB new = true := by
                  have := vecReserve_region_ok (cap := 0) (needed := 0 + 0 + (T - (0 + 0))) []
                    (e.odd s.regions.length) hg' (Nat.zero_le _)
                  simpa [new, N] using this
                let ct' : Ctrl := .sharedV (some s.regions.length) (0 + 0) N vorig
                refine ⟨.mut (some c) (some s.regions.length) 0 0 (N - 0) orig, s.regions ++ [new],
                  s.ctrls.set c ⟨ct', 1, true⟩, ?_, ?_⟩
                · intro hsX evX
                  refine ⟨.alloc s.regions.length N :: evX, ?_⟩
                  rw [hexec, vecReserve_grow_none e hna hg']
                · simp only [freeBuf] at hIa hvk
                  have hnewlk : (s.regions ++ [new])[s.regions.length]? = some new := lookup_append_new _ _
                  have hlc' : liveCtrlL ((s.ctrls.set c ⟨.sharedV none vlen 0 vorig, 0, false⟩).set c ⟨ct', 1, true⟩) c
                      = some ct' := by
                    rw [liveCtrlL_set_eq _ hca]; rfl
                  have ok' : handleOKL (s.regions ++ [new])
                      ((s.ctrls.set c ⟨.sharedV none vlen 0 vorig, 0, false⟩).set c ⟨ct', 1, true⟩)
                      (.mut (some c) (some s.regions.length) 0 0 (N - 0) orig) = true :=
                    handleOKL_mutA.mpr ⟨Nat.zero_le _, ⟨_, _, _, hlc', by omega⟩, by simp [rdL_zero]⟩
                  have hfill := fun ev => Inv_fill_ctrl_fresh (hIa ev)
                    (h' := .mut (some c) (some s.regions.length) 0 0 (N - 0) orig) (ct := ct')
                    hia hca rfl hnew rfl rfl rfl rfl
                    ⟨isHeapLiveL_iff.mpr ⟨new, _, hnewlk, rfl, rfl⟩, by simp [regionSizeL_def, hnewlk, new]⟩
                    (by intro o h; simp [ct'] at h)
                    (by intro r o l h; simp [span] at h; exact h.1.symm) ok' ev
                  refine ⟨⟨_, _, _, _, _, rfl, ?_⟩, fun ev => ?_, ?_, ?_⟩
                  · simp only [N]; omega
                  · have := (hfill ev).1
                    simpa [List.set_set] using this
                  · simp [viewOfL, hreg, hoff, hlen, rdL_zero]
                  · intro j b hji hj
                    rw [(hfill []).2 j b (by simp [lookup_set_ne _ (Ne.symm hji), hj])]
              | some r =>
                obtain ⟨rg, k, hr, hlive, hkind, hsz, hdl, _⟩ := hbufr r rfl
                have h0 : vcap ≠ 0 := by
                  simp only [ctrlBufOK] at hbuf
                  rw [← hbuf.2]; exact heap_size_pos hI.regs hbuf.1
                let old := rg.data.take (off + len)
                let new : Region :=
                  ⟨N, old ++ List.replicate (N - old.length) none, true, .heap (e.odd s.regions.length)⟩
                have holdl : old.length = off + len := by simp [old]; omega
                have hnew : regionOKB new = true :=
                  vecReserve_region_ok old (e.odd s.regions.length) hg' (by rw [holdl]; omega)
                have hrlt : r < s.regions.length := lookup_lt hr
                have hRR : (s.regions ++ [new]).set r rg.kill = s.regions.set r rg.kill ++ [new] :=
                  List.set_append_left _ _ hrlt
                let ct' : Ctrl := .sharedV (some s.regions.length) (off + len) N vorig
                refine ⟨.mut (some c) (some s.regions.length) off len (N - off) orig,
                  (s.regions ++ [new]).set r rg.kill, s.ctrls.set c ⟨ct', 1, true⟩, ?_, ?_⟩
                · intro hsX evX
                  refine ⟨.dealloc r vcap :: .alloc s.regions.length N :: evX, ?_⟩
                  rw [hexec, vecReserve_grow_some e (s := s.wh hsX evX) hna hg' hr hlive hsz hkind h0]
                · simp only [freeBuf, hr] at hIa hvk
                  have hlen' : (s.regions.set r rg.kill).length = s.regions.length := by simp
                  have hnewlk : (s.regions.set r rg.kill ++ [new])[s.regions.length]? = some new := by
                    rw [← hlen']; exact lookup_append_new _ _
                  have hvnew : rdL (s.regions.set r rg.kill ++ [new]) (some s.regions.length) off len = some v :=
                    rdL_prefix_copy (n := off + len) hv hr hnewlk rfl rfl (Nat.le_refl _)
                      (by show off + len ≤ N; omega) (by omega)
                  have hlc' : liveCtrlL ((s.ctrls.set c ⟨.sharedV (some r) vlen vcap vorig, 0, false⟩).set c ⟨ct', 1, true⟩) c
                      = some ct' := by
                    rw [liveCtrlL_set_eq _ hca]; rfl
                  have ok' : handleOKL (s.regions.set r rg.kill ++ [new])
                      ((s.ctrls.set c ⟨.sharedV (some r) vlen vcap vorig, 0, false⟩).set c ⟨ct', 1, true⟩)
                      (.mut (some c) (some s.regions.length) off len (N - off) orig) = true :=
                    handleOKL_mutA.mpr ⟨by simp only [N]; omega, ⟨_, _, _, hlc', by simp only [N]; omega⟩,
                      by simp [hvnew]⟩
                  have hfill := fun ev => Inv_fill_ctrl_fresh (hIa ev)
                    (h' := .mut (some c) (some s.regions.length) off len (N - off) orig) (ct := ct')
                    hia hca rfl hnew rfl rfl rfl (by simp [ct', ctrlRegion])
                    ⟨isHeapLiveL_iff.mpr ⟨new, _, hnewlk, rfl, rfl⟩, by simp [regionSizeL_def, hnewlk, new]⟩
                    (by intro o h; simp [ct'] at h)
                    (by intro r o l h; simp [span] at h; simp [h.1]) ok' ev
                  refine ⟨⟨_, _, _, _, _, rfl, ?_⟩, fun ev => ?_, ?_, ?_⟩
                  · simp only [N]; omega
                  · have := (hfill ev).1
                    rw [hRR]
                    simpa [List.set_set] using this
                  · rw [hRR]; simpa [viewOfL, hreg, hoff, hlen, hv] using hvnew
                  · intro j b hji hj
                    rw [hRR, (hfill []).2 j b (by simp [lookup_set_ne _ (Ne.symm hji), hj])]
                    exact hvk j b hji hj
  · -- shared with other handles: copy into a fresh vector, release the old block
    cases allocate with
    | false =>
      refine hnoalloc rfl (fun hsX evX => ?_)
      simp only [mutReserveInner, bind_apply, ite_apply', if_neg hW, hget, if_neg hu, Bool.not_false,
        if_true, pure_apply]
    | true =>
      obtain ⟨T, hT⟩ : ∃ T, T = max (len + additional) (originalCapacityFromRepr vorig) := ⟨_, rfl⟩
      have hTle : len + additional ≤ T := by rw [hT]; exact Nat.le_max_left _ _
      have hT0 : T ≠ 0 := by omega
      have hrdX : ∀ hsX evX, readRange reg off len (s.wh hsX evX) = .ok v (s.wh hsX evX) :=
        fun hsX evX => readRange_of_rdL (s := s.wh hsX evX) hv
      by_cases hTmax : T > isizeMax
      · left
        refine ⟨rfl, fun hsX evX => ?_⟩
        simp only [mutReserveInner, bind_apply, ite_apply', if_neg hW, hget, if_neg hu, Bool.not_true,
          Bool.false_eq_true, if_false, hrdX, ← hT, vecNew_panic e v hTmax]
      · right; right
        have hTmax' : T ≤ isizeMax := by omega
        subst hvl
        let new := vecRegion v T (e.odd s.regions.length)
        refine ⟨.mut none (some s.regions.length) 0 v.length T vorig, s.regions ++ [new],
          s.ctrls.set c ⟨.sharedV reg vlen vcap vorig, rc - 1, true⟩, ?_, ?_⟩
        · intro hsX evX
          refine ⟨.alloc s.regions.length T :: evX, ?_⟩
          have hrel : releaseCtrl c ⟨s.regions ++ [vecRegion v T (e.odd s.regions.length)], s.ctrls, hsX,
                s.owners, .alloc s.regions.length T :: evX⟩ = .ok ()
              ⟨s.regions ++ [vecRegion v T (e.odd s.regions.length)],
                s.ctrls.set c ⟨.sharedV reg vlen vcap vorig, rc - 1, true⟩, hsX, s.owners,
                .alloc s.regions.length T :: evX⟩ :=
            releaseCtrl_dec (s := ⟨s.regions ++ [vecRegion v T (e.odd s.regions.length)], s.ctrls, hsX,
              s.owners, .alloc s.regions.length T :: evX⟩) he rfl (by simp only; omega) hu
          simp only [mutReserveInner, bind_apply, ite_apply', if_neg hW, hget, if_neg hu, Bool.not_true,
            Bool.false_eq_true, if_false, hrdX, ← hT, vecNew_eq' e v hT0 hTmax', hrel, pure_apply]
          rfl
        · have hIa := fun ev => Inv_kill_dec hI hi (c := c) rfl he rfl hu ev
          have hia : (s.hs.set i none)[i]? = some none := lookup_set_eq _ hi
          have hvT : v.length ≤ T := by omega
          have hfill := fun ev => Inv_fill_fresh (hIa ev)
            (h' := .mut none (some s.regions.length) 0 v.length T vorig)
            (rg := vecRegion v T (e.odd s.regions.length))
            hia (vecRegion_ok _ hT0 hTmax' hvT) rfl rfl rfl rfl
            (by intro r o l h; simp [span] at h; exact h.1.symm)
            (handleOKL_fresh_mut _ _ (e.odd s.regions.length) _ hvT) ev
          refine ⟨⟨_, _, _, _, _, rfl, by omega⟩, fun ev => ?_, ?_, ?_⟩
          · have := (hfill ev).1
            simpa [List.set_set] using this
          · simpa [viewOfL, hreg, hoff, hlen, hv] using rdL_vecRegion s.regions (e.odd s.regions.length) hvT
          · intro j b hji hj
            exact (hfill []).2 j b (by simp [lookup_set_ne _ (Ne.symm hji), hj])

/-- `reserve_inner(additional, allocate)` when `additional` exceeds the spare capacity: it panics
without effect (capacity overflow; only if `allocate`), or gives up without effect (only if
`!allocate`), or succeeds (`Grown`).  Never `ub`. -/
theorem mutReserveInner_spec {s : St} (hI : Inv s) (cfg : Cfg) (e : Env) {i : Nat} {arc reg : Option Nat}
    {off len cap orig : Nat} (hi : s.hs[i]? = some (some (.mut arc reg off len cap orig)))
    (additional : Nat) (allocate : Bool) (hadd : ¬ additional ≤ cap - len) :
    ReserveInnerSpec cfg e s i arc reg off len cap orig additional allocate := by
  cases arc with
  | none => exact mri_vec hI cfg e hi additional allocate hadd
  | some c => exact mri_arc hI cfg e hi additional allocate hadd

/-- `reserve(additional)`: panics without effect or succeeds -/
def ReserveSpec (cfg : Cfg) (e : Env) (s : St) (i : Nat) (arc reg : Option Nat)
    (off len cap orig additional : Nat) : Prop :=
  (∀ hsX evX, mutReserve cfg e (.mut arc reg off len cap orig) additional (s.wh hsX evX) =
      .panic (s.wh hsX evX)) ∨
  ∃ h' R1 C1,
    (∀ hsX evX, ∃ ev1, mutReserve cfg e (.mut arc reg off len cap orig) additional (s.wh hsX evX) =
        .ok h' ⟨R1, C1, hsX, s.owners, ev1⟩) ∧
    Grown s i reg off len additional h' R1 C1

theorem mutReserve_spec {s : St} (hI : Inv s) (cfg : Cfg) (e : Env) {i : Nat} {arc reg : Option Nat}
    {off len cap orig : Nat} (hi : s.hs[i]? = some (some (.mut arc reg off len cap orig)))
    (additional : Nat) : ReserveSpec cfg e s i arc reg off len cap orig additional := by
  by_cases hadd : additional ≤ cap - len
  · right
    refine ⟨.mut arc reg off len cap orig, s.regions, s.ctrls, fun hsX evX => ⟨evX, ?_⟩,
      ⟨_, _, _, _, _, rfl, hadd⟩, fun ev => ?_, rfl, fun _ _ _ _ => rfl⟩
    · simp only [mutReserve, if_pos hadd, pure_apply]
    · rw [set_self hi]; exact Inv_events hI ev
  · rcases mutReserveInner_spec hI cfg e hi additional true hadd with ⟨_, hp⟩ | ⟨hf, _⟩ | ⟨h', R1, C1, heq, hG⟩
    · left
      intro hsX evX
      simp only [mutReserve, if_neg hadd, bind_apply, hp]
    · cases hf
    · right
      refine ⟨h', R1, C1, fun hsX evX => ?_, hG⟩
      obtain ⟨ev1, h1⟩ := heq hsX evX
      exact ⟨ev1, by simp only [mutReserve, if_neg hadd, bind_apply, h1, pure_apply]⟩

/-- `abs` after a successful reserve: nothing changes -/
theorem absL_grown {s : St} (hI : Inv s) {i : Nat} {arc reg : Option Nat} {off len cap orig additional : Nat}
    (hi : s.hs[i]? = some (some (.mut arc reg off len cap orig))) {h' : Handle} {R1 : List Region}
    {C1 : List CtrlE} (hG : Grown s i reg off len additional h' R1 C1) :
    absL R1 (s.hs.set i (some h')) = absL s.regions s.hs := by
  obtain ⟨v, hv, _⟩ := hI.view hi
  obtain ⟨arc', reg', off', cap', orig', rfl, _⟩ := hG.shape
  have hv' := hG.view
  simp only [viewOfL, hreg, hoff, hlen] at hv hv'
  rw [absL_set_of_view _ hG.others]
  have := set_self (absL_lookup hi (v := v) (by simpa [viewOfL, hreg, hoff, hlen] using hv))
  simp only [kindOf] at this
  simp [viewOfL, hreg, hoff, hlen, hv', hv, kindOf, this]

/-! ## reserve -/

theorem step_reserve (cfg : Cfg) (e : Env) (i n : Nat) (s : St) (hw : WFx s) :
    StepOKx cfg e (.reserve i n) s := by
  have hI := hw.inv
  unfold StepOKx
  simp only [step, bind_apply]
  have hpanic : WFx s ∧ abs s = Spec.stepPanic (.reserve i n) (abs s) := ⟨hw, rfl⟩
  rcases getHandle_cases s i with ⟨h, hi, hg⟩ | ⟨hn, hg⟩
  · simp only [hg]
    cases h with
    | bytes repr reg off len => simp only [mutReserve, panic_apply, sat_panic]; exact hpanic
    | vec reg len cap => simp only [mutReserve, panic_apply, sat_panic]; exact hpanic
    | «mut» arc reg off len cap orig =>
      rcases mutReserve_spec hI cfg e hi n with hp | ⟨h', R1, C1, heq, hG⟩
      · have h1 : mutReserve cfg e (.mut arc reg off len cap orig) n s = .panic s := hp s.hs s.events
        simp only [h1, sat_panic]; exact hpanic
      · obtain ⟨ev1, h1⟩ := heq s.hs s.events
        have h1' : mutReserve cfg e (.mut arc reg off len cap orig) n s =
            .ok h' ⟨R1, C1, s.hs, s.owners, ev1⟩ := h1
        simp only [h1', setHandle_apply, pure_apply, sat_ok]
        refine finish_ok (hG.inv ev1) ?_
        show absL R1 (s.hs.set i (some h')) = abs s
        rw [abs_eq]; exact absL_grown hI hi hG
  · simp only [hg, sat_panic]; exact hpanic

/-! ## try_reclaim -/

theorem step_tryReclaim (cfg : Cfg) (e : Env) (i n : Nat) (s : St) (hw : WFx s) :
    StepOKx cfg e (.tryReclaim i n) s := by
  have hI := hw.inv
  unfold StepOKx
  simp only [step, bind_apply]
  have hpanic : WFx s ∧ abs s = Spec.stepPanic (.tryReclaim i n) (abs s) := ⟨hw, rfl⟩
  have hsame : ∀ v, WFx s ∧ abs s = Spec.stepOk (.tryReclaim i n) v (abs s) := fun v => ⟨hw, rfl⟩
  rcases getHandle_cases s i with ⟨h, hi, hg⟩ | ⟨hn, hg⟩
  · simp only [hg]
    cases h with
    | bytes repr reg off len => simp only [panic_apply, sat_panic]; exact hpanic
    | vec reg len cap => simp only [panic_apply, sat_panic]; exact hpanic
    | «mut» arc reg off len cap orig =>
      by_cases hadd : n ≤ cap - len
      · simp only [if_pos hadd, ite_apply', pure_apply, sat_ok]; exact hsame _
      · simp only [if_neg hadd, ite_apply', bind_apply]
        rcases mutReserveInner_spec hI cfg e hi n false hadd with ⟨hf, _⟩ | ⟨_, hq⟩ | ⟨h', R1, C1, heq, hG⟩
        · cases hf
        · have h1 : mutReserveInner cfg e (.mut arc reg off len cap orig) n false s =
              .ok (.mut arc reg off len cap orig, false) s := hq s.hs s.events
          simp only [h1, setHandle_apply, pure_apply, sat_ok, set_self hi]
          exact hsame _
        · obtain ⟨ev1, h1⟩ := heq s.hs s.events
          have h1' : mutReserveInner cfg e (.mut arc reg off len cap orig) n false s =
              .ok (h', true) ⟨R1, C1, s.hs, s.owners, ev1⟩ := h1
          simp only [h1', setHandle_apply, pure_apply, sat_ok]
          refine finish_ok (hG.inv ev1) ?_
          show absL R1 (s.hs.set i (some h')) = abs s
          rw [abs_eq]; exact absL_grown hI hi hG
  · simp only [hg, sat_panic]; exact hpanic

/-! ## writing into the spare capacity after a reserve -/

/-- a `BytesMut` without a buffer has no capacity -/
theorem _root_.BytesVerif.Core.Inv.mut_none_cap {s : St} (hI : Inv s) {i : Nat} {arc : Option Nat} {off len cap orig : Nat}
    (hi : s.hs[i]? = some (some (.mut arc none off len cap orig))) : cap = 0 := by
  have hok := hI.hok i _ hi
  cases arc with
  | none =>
    obtain ⟨_, _, h, _⟩ := handleOKL_mutV.mp hok
    simp only at h; omega
  | some c =>
    obtain ⟨_, ⟨vlen, vcap, vorig, h1, h2⟩, _⟩ := handleOKL_mutA.mp hok
    obtain ⟨_, _, _, _, _, _, hb⟩ := hI.cok' h1
    simp only [ctrlBufOK] at hb; omega

/-- after a successful reserve: write `ws` behind the view and lengthen the handle -/
theorem grown_write {s : St} {i : Nat} {h : Handle} (hi : s.hs[i]? = some (some h))
    {reg : Option Nat} {off len additional : Nat}
    {arc' reg' : Option Nat} {off' cap' orig' : Nat} {R1 : List Region} {C1 : List CtrlE}
    {v ws : List Byte}
    (hG : Grown s i reg off len additional (.mut arc' reg' off' len cap' orig') R1 C1)
    (hv : rdL s.regions reg off len = some v) (hvl : v.length = len)
    (hws : ws.length ≤ cap' - len) (hne : ws ≠ []) :
    ∃ R2, (∀ hsX evX, writeRange reg' (off' + len) ws ⟨R1, C1, hsX, s.owners, evX⟩ =
        .ok () ⟨R2, C1, hsX, s.owners, evX⟩) ∧
      (∀ ev, Inv ⟨R2, C1, s.hs.set i (some (.mut arc' reg' off' (len + ws.length) cap' orig')), s.owners, ev⟩) ∧
      rdL R2 reg' off' (len + ws.length) = some (v ++ ws) ∧
      (∀ (j : Nat) (b : Handle), j ≠ i → s.hs[j]? = some (some b) → viewOfL R2 b = viewOfL s.regions b) := by
  have hI2 := hG.inv []
  have hi2 : (s.hs.set i (some (.mut arc' reg' off' len cap' orig')))[i]? =
      some (some (.mut arc' reg' off' len cap' orig')) := lookup_set_eq _ hi
  have hwpos : 0 < ws.length := by cases ws <;> simp_all
  cases reg' with
  | none => have := hI2.mut_none_cap hi2; omega
  | some r' =>
    obtain ⟨rg, k, hr, hlive, hkind, hsz⟩ := hI2.span_le_size hi2 rfl (r := r') (o := off') (c := cap') rfl
    simp only at hr
    have hdl := (region_size_le hI2.regs hr).2
    have hb : off' + len + ws.length ≤ rg.size := by omega
    have hview1 : rdL R1 (some r') off' len = some v := by
      have := hG.view; simpa [viewOfL, hreg, hoff, hlen, hv] using this
    refine ⟨R1.set r' (rg.write (off' + len) ws), fun hsX evX => ?_, ?_, ?_, ?_⟩
    · exact writeRange_eq (s := ⟨R1, C1, hsX, s.owners, evX⟩) hne hr hlive hb hkind
    · have h1 : rdL (R1.set r' (rg.write (off' + len) ws)) (some r') off' len = some v := by
        rw [rdL_write_other hr (by omega) (fun _ => .inl (Nat.le_refl _))]; exact hview1
      have h2 := rdL_write_same hr hlive hb hdl
      have hrd2 := rdL_concat h1 h2 hvl
      have hmeta : ∀ r'', metaL (R1.set r' (rg.write (off' + len) ws)) r'' = metaL R1 r'' :=
        fun r'' => by rw [Region.write_eq]; exact metaL_set_data _ r'' hr
      have hok' := hI2.hok i _ hi2
      have ok2 : handleOKL (R1.set r' (rg.write (off' + len) ws)) C1
          (.mut arc' (some r') off' (len + ws.length) cap' orig') = true := by
        cases arc' with
        | none =>
          obtain ⟨_, hoffb, ⟨hl, hs⟩, _⟩ := handleOKL_mutV.mp hok'
          exact handleOKL_mutV.mpr ⟨by omega, hoffb,
            ⟨by rw [isHeapLiveL_of_meta (hmeta r')]; exact hl, by rw [regionSizeL_of_meta (hmeta r')]; exact hs⟩,
            by simp [hrd2]⟩
        | some c =>
          obtain ⟨_, hc, _⟩ := handleOKL_mutA.mp hok'
          exact handleOKL_mutA.mpr ⟨by omega, hc, by simp [hrd2]⟩
      intro ev
      have := (Inv_write_set hI2 (h' := .mut arc' (some r') off' (len + ws.length) cap' orig') hi2 rfl rfl hr
        ⟨by omega, by omega⟩ (by cases arc' <;> rfl) (by cases arc' <;> rfl)
        (by intro r o l h _; exact ⟨o, l, h, Nat.le_refl _, Nat.le_refl _⟩) rfl ok2 ev).1
      simpa [List.set_set] using this
    · have h1 : rdL (R1.set r' (rg.write (off' + len) ws)) (some r') off' len = some v := by
        rw [rdL_write_other hr (by omega) (fun _ => .inl (Nat.le_refl _))]; exact hview1
      exact rdL_concat h1 (rdL_write_same hr hlive hb hdl) hvl
    · intro j b hji hj
      have hmeta : ∀ r'', metaL (R1.set r' (rg.write (off' + len) ws)) r'' = metaL R1 r'' :=
        fun r'' => by rw [Region.write_eq]; exact metaL_set_data _ r'' hr
      -- exclusivity in the intermediate state: nobody else sees the written range
      have hj2 : (s.hs.set i (some (.mut arc' (some r') off' len cap' orig')))[j]? = some (some b) := by
        rw [lookup_set_ne _ (Ne.symm hji)]; exact hj
      rw [← hG.others j b hji hj]
      show rdL _ _ _ _ = rdL _ _ _ _
      rw [Region.write_eq]
      apply rdL_set_data hr
      intro hrb kk hk1 hk2
      obtain ⟨ob, lb, hsb, hb1, hb2⟩ := view_in_span (hI2.hok j b hj2) hrb
      have hdis := disjointB_iff.mp (hI2.excl i j _ b hi2 hj2 (Ne.symm hji) rfl) r' off' cap' r' ob lb rfl hsb
      have hw := write_getElem? rg.data (ws.map some) (off' + len) kk (by simp; omega)
      simp only [List.length_map] at hw
      rw [hw]
      split
      · rfl
      · split
        · exfalso; omega
        · rfl

/-! ## extend_from_slice -/

/-- `extend_from_slice(bs)` on slot `i`: panics without effect or appends -/
def ExtendSpec (cfg : Cfg) (e : Env) (s : St) (i : Nat) (h : Handle) (v bs : List Byte) : Prop :=
  (∀ hsX evX, mutExtend cfg e h bs (s.wh hsX evX) = .panic (s.wh hsX evX)) ∨
  ∃ h'' R2 C2,
    (∀ hsX evX, ∃ ev, mutExtend cfg e h bs (s.wh hsX evX) = .ok h'' ⟨R2, C2, hsX, s.owners, ev⟩) ∧
    kindOf h'' = .mut ∧
    (∀ ev, Inv ⟨R2, C2, s.hs.set i (some h''), s.owners, ev⟩) ∧
    viewOfL R2 h'' = some (v ++ bs) ∧
    (∀ (j : Nat) (b : Handle), j ≠ i → s.hs[j]? = some (some b) → viewOfL R2 b = viewOfL s.regions b)

theorem mutExtend_spec {s : St} (hI : Inv s) (cfg : Cfg) (e : Env) {i : Nat} {arc reg : Option Nat}
    {off len cap orig : Nat} (hi : s.hs[i]? = some (some (.mut arc reg off len cap orig)))
    (bs : List Byte) {v : List Byte} (hv : rdL s.regions reg off len = some v) :
    ExtendSpec cfg e s i (.mut arc reg off len cap orig) v bs := by
  have hvl := rdL_length hI.regs hv
  rcases mutReserve_spec hI cfg e hi bs.length with hp | ⟨h', R1, C1, heq, hG⟩
  · left
    intro hsX evX
    simp only [mutExtend, bind_apply, hp]
  · right
    obtain ⟨arc', reg', off', cap', orig', rfl, hcap⟩ := hG.shape
    have hnlt : ¬ cap' - len < bs.length := by omega
    have hda : ∀ s', dassert cfg (decide (cap' - len ≥ bs.length)) s' = .ok () s' :=
      fun s' => dassert_eq cfg (by simpa using hcap) s'
    by_cases hne : bs = []
    · subst hne
      refine ⟨.mut arc' reg' off' len cap' orig', R1, C1, fun hsX evX => ?_, rfl, hG.inv, ?_, hG.others⟩
      · obtain ⟨ev1, h1⟩ := heq hsX evX
        refine ⟨ev1, ?_⟩
        simp only [List.length_nil] at h1 hnlt hda
        simp only [mutExtend, bind_apply, List.length_nil, h1, ite_apply', if_neg hnlt, hda,
          writeRange_nil, pure_apply, Nat.add_zero]
      · rw [hG.view, hv]; simp
    · obtain ⟨R2, hw, hI2, hv2, hoth⟩ := grown_write hi hG hv hvl hcap hne
      refine ⟨.mut arc' reg' off' (len + bs.length) cap' orig', R2, C1, fun hsX evX => ?_, rfl, hI2, hv2, hoth⟩
      obtain ⟨ev1, h1⟩ := heq hsX evX
      refine ⟨ev1, ?_⟩
      simp only [mutExtend, bind_apply, h1, ite_apply', if_neg hnlt, hda, hw, pure_apply]

theorem Spec_stepOk_extend {a : Spec.St} {i : Nat} {x : SH} (h : Spec.get a i = some x)
    (bs : List Byte) (v : Val) :
    Spec.stepOk (.extend i bs) v a = a.set i (some ⟨x.kind, x.val ++ bs⟩) := by
  simp [Spec.stepOk, h, Spec.setAt]

theorem step_extend (cfg : Cfg) (e : Env) (i : Nat) (bs : List Byte) (s : St) (hw : WFx s) :
    StepOKx cfg e (.extend i bs) s := by
  have hI := hw.inv
  unfold StepOKx
  simp only [step, bind_apply]
  have hpanic : WFx s ∧ abs s = Spec.stepPanic (.extend i bs) (abs s) := ⟨hw, rfl⟩
  rcases getHandle_cases s i with ⟨h, hi, hg⟩ | ⟨hn, hg⟩
  · simp only [hg]
    cases h with
    | bytes repr reg off len =>
      simp only [mutExtend, mutReserve, bind_apply, panic_apply, sat_panic]; exact hpanic
    | vec reg len cap =>
      simp only [mutExtend, mutReserve, bind_apply, panic_apply, sat_panic]; exact hpanic
    | «mut» arc reg off len cap orig =>
      obtain ⟨v, hv, hvl⟩ := hI.view hi
      have hspec : ∀ x, Spec.stepOk (.extend i bs) x (abs s) =
          (absL s.regions s.hs).set i (some ⟨.mut, v ++ bs⟩) := by
        intro x; rw [abs_eq]; exact Spec_stepOk_extend (Spec_get_absL hi hv) bs x
      simp only [hspec]
      simp only [viewOfL, hreg, hoff, hlen] at hv
      rcases mutExtend_spec hI cfg e hi bs hv with hp | ⟨h'', R2, C2, heq, hk, hI2, hv2, hoth⟩
      · have h1 : mutExtend cfg e (.mut arc reg off len cap orig) bs s = .panic s := hp s.hs s.events
        simp only [h1, sat_panic]; exact hpanic
      · obtain ⟨ev1, h1⟩ := heq s.hs s.events
        have h1' : mutExtend cfg e (.mut arc reg off len cap orig) bs s =
            .ok h'' ⟨R2, C2, s.hs, s.owners, ev1⟩ := h1
        simp only [h1', setHandle_apply, pure_apply, sat_ok]
        refine finish_ok (hI2 ev1) ?_
        show absL R2 (s.hs.set i (some h'')) = _
        rw [absL_set_of_view _ hoth]
        simp [hv2, hk]
  · simp only [hg, sat_panic]; exact hpanic

/-! ## resize -/

theorem Spec_stepOk_resize {a : Spec.St} {i : Nat} {x : SH} (h : Spec.get a i = some x)
    (n : Nat) (b : Byte) (v : Val) :
    Spec.stepOk (.resize i n b) v a = a.set i (some ⟨x.kind,
      if n ≤ x.val.length then x.val.take n else x.val ++ List.replicate (n - x.val.length) b⟩) := by
  simp [Spec.stepOk, h, Spec.setAt]

theorem step_resize (cfg : Cfg) (e : Env) (i n : Nat) (b : Byte) (s : St) (hw : WFx s) :
    StepOKx cfg e (.resize i n b) s := by
  have hI := hw.inv
  unfold StepOKx
  simp only [step, bind_apply]
  have hpanic : WFx s ∧ abs s = Spec.stepPanic (.resize i n b) (abs s) := ⟨hw, rfl⟩
  rcases getHandle_cases s i with ⟨h, hi, hg⟩ | ⟨hn, hg⟩
  · simp only [hg]
    cases h with
    | bytes repr reg off len => simp only [panic_apply, sat_panic]; exact hpanic
    | vec reg len cap => simp only [panic_apply, sat_panic]; exact hpanic
    | «mut» arc reg off len cap orig =>
      obtain ⟨v, hv, hvl⟩ := hI.view hi
      have hspec : ∀ x, Spec.stepOk (.resize i n b) x (abs s) =
          (absL s.regions s.hs).set i (some ⟨.mut,
            if n ≤ v.length then v.take n else v ++ List.replicate (n - v.length) b⟩) := by
        intro x; rw [abs_eq]; exact Spec_stepOk_resize (Spec_get_absL hi hv) n b x
      simp only [hspec]
      simp only [viewOfL, hreg, hoff, hlen] at hv hvl
      have hok := hI.hok i _ hi
      by_cases hn : n ≤ len
      · -- shrinking: `set_len`
        simp only [ite_apply', if_pos hn, bind_apply, setHandle_apply, pure_apply, sat_ok]
        have hrdn : rdL s.regions reg off n = some (v.take n) := by
          have := rdL_take hv n; rwa [Nat.min_eq_right hn] at this
        have ok' : handleOKL s.regions s.ctrls (.mut arc reg off n cap orig) = true := by
          cases arc with
          | none =>
            obtain ⟨h1, h2, h3, _⟩ := handleOKL_mutV.mp hok
            exact handleOKL_mutV.mpr ⟨by omega, h2, h3, by simp [hrdn]⟩
          | some c =>
            obtain ⟨h1, h2, _⟩ := handleOKL_mutA.mp hok
            exact handleOKL_mutA.mpr ⟨by omega, h2, by simp [hrdn]⟩
        have hlc : len ≤ cap := by
          cases arc with
          | none => exact (handleOKL_mutV.mp hok).1
          | some c => exact (handleOKL_mutA.mp hok).1
        refine finish_ok (Inv_set_sub hI hi (h' := .mut arc reg off n cap orig) (by cases arc <;> rfl)
          (by cases arc <;> rfl) ok' trivial
          (spanSub_mut ⟨Nat.le_refl _, Nat.le_refl _, by omega, .inr (by omega)⟩) (fun _ => rfl) _) ?_
        show absL s.regions (s.hs.set i (some (.mut arc reg off n cap orig))) = _
        rw [absL_set]
        simp [viewOfL, hreg, hoff, hlen, hrdn, kindOf, hvl, hn]
      · simp only [ite_apply', if_neg hn, bind_apply]
        rcases mutReserve_spec hI cfg e hi (n - len) with hp | ⟨h', R1, C1, heq, hG⟩
        · have h1 : mutReserve cfg e (.mut arc reg off len cap orig) (n - len) s = .panic s :=
            hp s.hs s.events
          simp only [h1, sat_panic]; exact hpanic
        · obtain ⟨arc', reg', off', cap', orig', rfl, hcap⟩ := hG.shape
          obtain ⟨ev1, h1⟩ := heq s.hs s.events
          have h1' : mutReserve cfg e (.mut arc reg off len cap orig) (n - len) s =
              .ok (.mut arc' reg' off' len cap' orig') ⟨R1, C1, s.hs, s.owners, ev1⟩ := h1
          have hwl : (List.replicate (n - len) b).length ≤ cap' - len := by simpa using hcap
          have hwne : List.replicate (n - len) b ≠ [] := by
            intro h; have := congrArg List.length h; simp at this; omega
          obtain ⟨R2, hwr, hI2, hv2, hoth⟩ := grown_write hi hG hv hvl hwl hwne
          have hlen2 : len + (List.replicate (n - len) b).length = n := by simp; omega
          rw [hlen2] at hI2 hv2
          simp only [h1', bind_apply, hwr, setHandle_apply, pure_apply, sat_ok]
          refine finish_ok (hI2 ev1) ?_
          show absL R2 (s.hs.set i (some (.mut arc' reg' off' n cap' orig'))) = _
          rw [absL_set_of_view _ hoth]
          have : ¬ n ≤ v.length := by omega
          simp [viewOfL, hreg, hoff, hlen, hv2, kindOf, this, hvl, hn]
  · simp only [hg, sat_panic]; exact hpanic

/-! ## dropping a `BytesMut` while the handle table is in an arbitrary state -/

/-- `drop` of the `BytesMut` `h` stored in slot `i` -/
def DropSpec (s : St) (i : Nat) (h : Handle) : Prop :=
  ∃ R' C',
    (∀ hsX evX, ∃ ev, mutDrop h (s.wh hsX evX) = .ok () ⟨R', C', hsX, s.owners, ev⟩) ∧
    (∀ ev, Inv ⟨R', C', s.hs.set i none, s.owners, ev⟩) ∧
    (∀ (j : Nat) (b : Handle), j ≠ i → s.hs[j]? = some (some b) → viewOfL R' b = viewOfL s.regions b)

theorem mutDrop_spec {s : St} (hI : Inv s) {i : Nat} {arc reg : Option Nat} {off len cap orig : Nat}
    (hi : s.hs[i]? = some (some (.mut arc reg off len cap orig))) :
    DropSpec s i (.mut arc reg off len cap orig) := by
  have hok := hI.hok i _ hi
  cases arc with
  | some c =>
    obtain ⟨e, he, hl, hrc, h1, hb⟩ := hI.ctrl_of_handle hi (c := c) rfl
    by_cases hu : e.rc = 1
    · refine ⟨freeBuf s.regions e.c, s.ctrls.set c ⟨e.c, 0, false⟩, fun hsX evX => ?_,
        fun ev => (Inv_kill_last hI hi rfl he hl hu ev).1, (Inv_kill_last hI hi rfl he hl hu []).2⟩
      obtain ⟨ev, h2⟩ := releaseCtrl_last (s := s.wh hsX evX) he hl hu hb hI.regs
      exact ⟨ev, by simp only [mutDrop]; exact h2⟩
    · refine ⟨s.regions, s.ctrls.set c { e with rc := e.rc - 1 }, fun hsX evX => ⟨evX, ?_⟩,
        fun ev => Inv_kill_dec hI hi rfl he hl hu ev, fun _ _ _ _ => rfl⟩
      simp only [mutDrop]
      exact releaseCtrl_dec (s := s.wh hsX evX) he hl (by omega) hu
  | none =>
    obtain ⟨_, _, hregc, _⟩ := handleOKL_mutV.mp hok
    cases reg with
    | none =>
      simp only at hregc
      refine ⟨s.regions, s.ctrls, fun hsX evX => ⟨evX, ?_⟩, fun ev => Inv_kill_plain hI hi rfl rfl ev,
        fun _ _ _ _ => rfl⟩
      simp only [mutDrop, hregc, vecFree_none]
    | some r =>
      simp only at hregc
      obtain ⟨rg, k, hr, hlive, hkind⟩ := isHeapLiveL_iff.mp hregc.1
      have hsz : rg.size = off + cap := by
        have := hregc.2; simp [regionSizeL_def, hr] at this; omega
      have h0 : off + cap ≠ 0 := by rw [hregc.2]; exact heap_size_pos hI.regs hregc.1
      refine ⟨s.regions.set r rg.kill, s.ctrls, fun hsX evX => ⟨.dealloc r (off + cap) :: evX, ?_⟩,
        fun ev => (Inv_kill_direct hI hi (r0 := r) rfl hr ev).1,
        (Inv_kill_direct hI hi (r0 := r) rfl hr []).2⟩
      simp only [mutDrop, vecFree, h0, if_false]
      exact freeRegion_eq (s := s.wh hsX evX) hr hlive hsz hkind

/-! ## unsplit -/

theorem Spec_stepOk_unsplit {a : Spec.St} {i j : Nat} {x y : SH} (hx : Spec.get a i = some x)
    (hy : Spec.get a j = some y) (v : Val) :
    Spec.stepOk (.unsplit i j) v a = (a.set i (some ⟨x.kind, x.val ++ y.val⟩)).set j none := by
  simp [Spec.stepOk, hx, hy, Spec.setAt]

theorem Spec_stepPanic_unsplit {a : Spec.St} {i j : Nat} {x y : SH} (hij : i ≠ j)
    (hx : Spec.get a i = some x) (hy : Spec.get a j = some y) (kx : x.kind = .mut) (ky : y.kind = .mut) :
    Spec.stepPanic (.unsplit i j) a = a.set j none := by
  simp [Spec.stepPanic, hx, hy, Spec.setAt, hij, kx, ky]

theorem Spec_get_absL_inv {R : List Region} {hs : List (Option Handle)} {i : Nat} {x : SH}
    (h : Spec.get (absL R hs) i = some x) : ∃ a, hs[i]? = some (some a) ∧ x.kind = kindOf a := by
  simp only [Spec.get, absL, List.getElem?_map] at h
  cases hi : hs[i]? with
  | none => simp [hi] at h
  | some oh =>
    cases oh with
    | none => simp [hi] at h
    | some a =>
      simp [hi] at h
      obtain ⟨v, _, rfl⟩ := h
      exact ⟨a, rfl, rfl⟩

/-- every way `unsplit` is rejected before it touches the state -/
theorem unsplit_panic_id {s : St} (hw : WFx s) {i j : Nat}
    (h : i = j ∨ (∀ a, s.hs[i]? ≠ some (some a)) ∨ (∀ a, s.hs[j]? ≠ some (some a)) ∨
      (∃ a, s.hs[i]? = some (some a) ∧ kindOf a ≠ .mut) ∨
      (∃ a, s.hs[j]? = some (some a) ∧ kindOf a ≠ .mut)) :
    WFx s ∧ abs s = Spec.stepPanic (.unsplit i j) (abs s) := by
  refine ⟨hw, ?_⟩
  rw [abs_eq]
  simp only [Spec.stepPanic]
  cases hgi : Spec.get (absL s.regions s.hs) i with
  | none => rfl
  | some x =>
    cases hgj : Spec.get (absL s.regions s.hs) j with
    | none => rfl
    | some y =>
      obtain ⟨a, ha, hka⟩ := Spec_get_absL_inv hgi
      obtain ⟨b, hb, hkb⟩ := Spec_get_absL_inv hgj
      simp only
      rw [if_neg]
      rintro ⟨h1, h2, h3⟩
      rcases h with h | h | h | ⟨a', h4, h5⟩ | ⟨b', h4, h5⟩
      · exact h1 h
      · exact h a ha
      · exact h b hb
      · rw [ha] at h4; cases h4; exact h5 (hka ▸ h2)
      · rw [hb] at h4; cases h4; exact h5 (hkb ▸ h3)

theorem step_unsplit (cfg : Cfg) (e : Env) (i j : Nat) (s : St) (hw : WFx s) :
    StepOKx cfg e (.unsplit i j) s := by
  have hI := hw.inv
  unfold StepOKx
  simp only [step, bind_apply, ite_apply']
  by_cases hij : i = j
  · simp only [if_pos hij, panic_apply, sat_panic]
    exact unsplit_panic_id hw (.inl hij)
  simp only [if_neg hij]
  rcases getHandle_cases s i with ⟨h, hi, hg⟩ | ⟨hn, hg⟩
  rotate_left
  · simp only [hg, sat_panic]; exact unsplit_panic_id hw (.inr (.inl hn))
  simp only [hg]
  rcases getHandle_cases s j with ⟨o, hj, hgj⟩ | ⟨hn, hgj⟩
  rotate_left
  · simp only [hgj, sat_panic]; exact unsplit_panic_id hw (.inr (.inr (.inl hn)))
  simp only [hgj]
  cases h with
  | bytes repr reg off len =>
    simp only [panic_apply, sat_panic]
    exact unsplit_panic_id hw (.inr (.inr (.inr (.inl ⟨_, hi, by simp [kindOf]⟩))))
  | vec reg len cap =>
    simp only [panic_apply, sat_panic]
    exact unsplit_panic_id hw (.inr (.inr (.inr (.inl ⟨_, hi, by simp [kindOf]⟩))))
  | «mut» arc reg off len cap orig =>
    cases o with
    | bytes orepr oreg ooff olen =>
      simp only [panic_apply, sat_panic]
      exact unsplit_panic_id hw (.inr (.inr (.inr (.inr ⟨_, hj, by simp [kindOf]⟩))))
    | vec oreg olen ocap =>
      simp only [panic_apply, sat_panic]
      exact unsplit_panic_id hw (.inr (.inr (.inr (.inr ⟨_, hj, by simp [kindOf]⟩))))
    | «mut» oarc oreg ooff olen ocap oorig =>
      obtain ⟨vh, hvh, hvhl⟩ := hI.view hi
      obtain ⟨vo, hvo, hvol⟩ := hI.view hj
      have hspec : ∀ x, Spec.stepOk (.unsplit i j) x (abs s) =
          ((absL s.regions s.hs).set i (some ⟨.mut, vh ++ vo⟩)).set j none := by
        intro x; rw [abs_eq]
        exact Spec_stepOk_unsplit (Spec_get_absL hi hvh) (Spec_get_absL hj hvo) x
      have hspecp : Spec.stepPanic (.unsplit i j) (abs s) = (absL s.regions s.hs).set j none := by
        rw [abs_eq]
        exact Spec_stepPanic_unsplit hij (Spec_get_absL hi hvh) (Spec_get_absL hj hvo) rfl rfl
      simp only [hspec, hspecp]
      simp only [viewOfL, hreg, hoff, hlen] at hvh hvhl hvo hvol
      have hji : j ≠ i := Ne.symm hij
      have hokh := hI.hok i _ hi
      have hoko := hI.hok j _ hj
      have hlc : len ≤ cap := by
        cases arc with
        | none => exact (handleOKL_mutV.mp hokh).1
        | some c => exact (handleOKL_mutA.mp hokh).1
      have holc : olen ≤ ocap := by
        cases oarc with
        | none => exact (handleOKL_mutV.mp hoko).1
        | some c => exact (handleOKL_mutA.mp hoko).1
      -- dropping `other` from the initial state (branches 2 and 4-panic)
      have hdropo : ∀ ev0, (mutDrop (.mut oarc oreg ooff olen ocap oorig)
          ⟨s.regions, s.ctrls, s.hs.set j none, s.owners, ev0⟩).sat
          (fun _ s' => WFx s' ∧ abs s' = (absL s.regions s.hs).set j none)
          (fun s' => WFx s' ∧ abs s' = (absL s.regions s.hs).set j none) := by
        intro ev0
        obtain ⟨R', C', hd, hId, hvd⟩ := mutDrop_spec hI hj
        obtain ⟨ev, h1⟩ := hd (s.hs.set j none) ev0
        have h1' : mutDrop (.mut oarc oreg ooff olen ocap oorig)
            ⟨s.regions, s.ctrls, s.hs.set j none, s.owners, ev0⟩ =
            .ok () ⟨R', C', s.hs.set j none, s.owners, ev⟩ := h1
        rw [h1']
        simp only [sat_ok]
        refine finish_ok (hId ev) ?_
        exact absL_set_of_view none hvd
      by_cases hl0 : len = 0
      · -- `*self = other`
        subst hl0
        have hvh0 : vh = [] := by cases vh <;> simp_all
        subst hvh0
        simp only [if_true, bind_apply, killHandle_apply]
        obtain ⟨R', C', hd, hId, hvd⟩ := mutDrop_spec hI hi
        obtain ⟨ev, h1⟩ := hd (s.hs.set j none) s.events
        have h1' : mutDrop (.mut arc reg off 0 cap orig)
            ⟨s.regions, s.ctrls, s.hs.set j none, s.owners, s.events⟩ =
            .ok () ⟨R', C', s.hs.set j none, s.owners, ev⟩ := h1
        simp only [h1', setHandle_apply, pure_apply, sat_ok]
        have hia : (s.hs.set i none)[i]? = some none := lookup_set_eq _ hi
        have hja : (s.hs.set i none)[j]? = some (some (.mut oarc oreg ooff olen ocap oorig)) := by
          rw [lookup_set_ne _ hij]; exact hj
        have hmove := Inv_move (hId ev) hij hia hja ev
        have hhs : ((s.hs.set i none).set j none).set i (some (.mut oarc oreg ooff olen ocap oorig)) =
            (s.hs.set j none).set i (some (.mut oarc oreg ooff olen ocap oorig)) := by
          rw [List.set_comm _ _ hij, List.set_set]
        simp only [hhs] at hmove
        refine finish_ok hmove ?_
        show absL R' ((s.hs.set j none).set i (some (.mut oarc oreg ooff olen ocap oorig))) = _
        have hoth : ∀ (k : Nat) (b : Handle), k ≠ i → (s.hs.set j none)[k]? = some (some b) →
            viewOfL R' b = viewOfL s.regions b := by
          intro k b hki hk
          rcases hs_set_cases hk with ⟨_, h2, _⟩ | ⟨_, hk'⟩
          · cases h2
          · exact hvd k b hki hk'
        rw [absL_set_of_view _ hoth, absL_set]
        have hvo' : viewOfL R' (.mut oarc oreg ooff olen ocap oorig) = some vo := by
          rw [hvd j _ hji hj]; simpa [viewOfL, hreg, hoff, hlen] using hvo
        simp only [hvo', Option.bind_some, Option.map_some, kindOf, Option.bind_none, List.nil_append]
        exact List.set_comm _ _ hji
      · simp only [if_neg hl0]
        by_cases hoc0 : ocap = 0
        · -- `other` has no capacity: it is dropped
          subst hoc0
          have hol0 : olen = 0 := by omega
          subst hol0
          have hvo0 : vo = [] := by cases vo <;> simp_all
          subst hvo0
          simp only [if_true, bind_apply, killHandle_apply]
          have hself := set_self (absL_lookup hi (v := vh) (by simpa [viewOfL, hreg, hoff, hlen] using hvh))
          simp only [kindOf] at hself
          simp only [List.append_nil, hself]
          have := hdropo s.events
          rcases R.sat_cases this with ⟨_, s', h1, h2⟩ | ⟨s', h1, _⟩
          · simp only [h1, pure_apply, sat_ok]; exact h2
          · simp only [h1, sat_panic]
            -- `mutDrop` never panics
            obtain ⟨R', C', hd, _, _⟩ := mutDrop_spec hI hj
            obtain ⟨ev, h3⟩ := hd (s.hs.set j none) s.events
            have h3' : mutDrop (.mut oarc oreg ooff 0 0 oorig)
                ⟨s.regions, s.ctrls, s.hs.set j none, s.owners, s.events⟩ =
                .ok () ⟨R', C', s.hs.set j none, s.owners, ev⟩ := h3
            rw [h3'] at h1; cases h1
        · simp only [if_neg hoc0]
          by_cases hcont : oreg = reg ∧ ooff = off + len ∧ arc.isSome = true ∧ arc = oarc
          · -- contiguous halves of the same shared buffer
            simp only [if_pos hcont, bind_apply, killHandle_apply]
            obtain ⟨rfl, rfl, hsome, rfl⟩ := hcont
            cases arc with
            | none => simp at hsome
            | some c =>
              obtain ⟨ce, he, hl, hrc, hrc1, hb⟩ := hI.ctrl_of_handle hi (c := c) rfl
              have hne1 : ce.rc ≠ 1 := by
                intro h1
                exact hji (refCountL_unique (by omega) hi rfl hj rfl)
              have hrel := releaseCtrl_dec (s := ⟨s.regions, s.ctrls, s.hs.set j none, s.owners, s.events⟩)
                he hl (by omega) hne1
              simp only [mutDrop, hrel, setHandle_apply, pure_apply, sat_ok]
              cases oreg with
              | none => have := hI.mut_none_cap hi; omega
              | some r =>
                -- exclusivity: the capacity of `self` ends where `other` begins
                have hex := disjointB_iff.mp (hI.excl i j _ _ hi hj hij rfl) r off cap r (off + len) ocap rfl rfl
                have hcl : cap = len := by omega
                subst hcl
                obtain ⟨_, ⟨vlen, vcap, vorig, hlive, hcapo⟩, _⟩ := handleOKL_mutA.mp hoko
                have hrdm := rdL_concat hvh hvo hvhl
                have ok' : handleOKL s.regions s.ctrls (.mut (some c) (some r) off (cap + olen) (cap + ocap) orig) = true :=
                  handleOKL_mutA.mpr ⟨by omega, ⟨vlen, vcap, vorig, hlive, by omega⟩, by simp [hrdm]⟩
                have hdis : ∀ b, disjointB (.mut (some c) (some r) off cap cap orig) b = true →
                    disjointB (.mut (some c) (some r) (off + cap) olen ocap oorig) b = true →
                    disjointB (.mut (some c) (some r) off (cap + olen) (cap + ocap) orig) b = true := by
                  intro b d1 d2
                  rw [disjointB_iff] at d1 d2 ⊢
                  intro r1 o1 l1 r2 o2 l2 h1 h2
                  simp only [span, Option.some.injEq, Prod.mk.injEq] at h1
                  obtain ⟨rfl, rfl, rfl⟩ := h1
                  have e1 := d1 r off cap r2 o2 l2 rfl h2
                  have e2 := d2 r (off + cap) ocap r2 o2 l2 rfl h2
                  omega
                refine finish_ok (Inv_merge hI (h' := .mut (some c) (some r) off (cap + olen) (cap + ocap) orig)
                  hij hi hj rfl he hl hne1 rfl rfl ok' trivial rfl rfl hdis _) ?_
                show absL s.regions ((s.hs.set j none).set i
                  (some (.mut (some c) (some r) off (cap + olen) (cap + ocap) orig))) = _
                rw [absL_set, absL_set]
                simp only [viewOfL, hreg, hoff, hlen, hrdm, Option.bind_some, Option.map_some, kindOf,
                  Option.bind_none]
                exact List.set_comm _ _ hji
          · -- general case: `extend_from_slice(other)`, then `other` is dropped
            simp only [if_neg hcont, bind_apply, readRange_of_rdL hvo, killHandle_apply]
            rcases mutExtend_spec hI cfg e hi vo hvh with hp | ⟨h'', R2, C2, heq, hk, hI2, hv2, hoth⟩
            · -- the extension panics (capacity overflow); `other` is dropped during unwinding
              have h1 : mutExtend cfg e (.mut arc reg off len cap orig) vo
                  ⟨s.regions, s.ctrls, s.hs.set j none, s.owners, s.events⟩ =
                  .panic ⟨s.regions, s.ctrls, s.hs.set j none, s.owners, s.events⟩ :=
                hp (s.hs.set j none) s.events
              simp only [h1, bind_apply]
              have := hdropo s.events
              rcases R.sat_cases this with ⟨_, s', h2, h3⟩ | ⟨s', h2, h3⟩
              · simp only [h2, panic_apply, sat_panic]; exact h3
              · simp only [h2, sat_panic]; exact h3
            · obtain ⟨ev1, h1⟩ := heq (s.hs.set j none) s.events
              have h1' : mutExtend cfg e (.mut arc reg off len cap orig) vo
                  ⟨s.regions, s.ctrls, s.hs.set j none, s.owners, s.events⟩ =
                  .ok h'' ⟨R2, C2, s.hs.set j none, s.owners, ev1⟩ := h1
              simp only [h1', bind_apply, setHandle_apply]
              have hj2 : (s.hs.set i (some h''))[j]? = some (some (.mut oarc oreg ooff olen ocap oorig)) := by
                rw [lookup_set_ne _ hij]; exact hj
              obtain ⟨R3, C3, hd3, hId3, hvd3⟩ := mutDrop_spec (hI2 ev1) hj2
              obtain ⟨ev3, h3⟩ := hd3 ((s.hs.set j none).set i (some h'')) ev1
              have h3' : mutDrop (.mut oarc oreg ooff olen ocap oorig)
                  ⟨R2, C2, (s.hs.set j none).set i (some h''), s.owners, ev1⟩ =
                  .ok () ⟨R3, C3, (s.hs.set j none).set i (some h''), s.owners, ev3⟩ := h3
              simp only [h3', pure_apply, sat_ok]
              have hInv := hId3 ev3
              have hhs : (s.hs.set i (some h'')).set j none = (s.hs.set j none).set i (some h'') :=
                List.set_comm _ _ hij
              simp only [hhs] at hInv
              refine finish_ok hInv ?_
              show absL R3 ((s.hs.set j none).set i (some h'')) = _
              rw [← hhs, absL_set_of_view none hvd3]
              show (absL R2 (s.hs.set i (some h''))).set j none = _
              rw [absL_set_of_view _ hoth]
              simp [hv2, hk]


end OpsD
end BytesVerif.Core
