/- Helper lemmas for the concurrency protocol model (M5). -/
import BytesVerif.Model.Conc
namespace BytesVerif.Conc

/-! ### sums over the first `n` threads -/

def sumTo (f : Nat → Nat) : Nat → Nat
  | 0 => 0
  | n+1 => sumTo f n + f n

theorem sum_range_eq (f : Nat → Nat) (n : Nat) : ((List.range n).map f).sum = sumTo f n := by
  induction n with
  | zero => rfl
  | succ n ih => simp [List.range_succ, sumTo, ih]

theorem sumTo_congr {f g : Nat → Nat} {n : Nat} (h : ∀ u, u < n → f u = g u) :
    sumTo f n = sumTo g n := by
  induction n with
  | zero => rfl
  | succ n ih =>
    simp only [sumTo]
    rw [ih (fun u hu => h u (by omega)), h n (by omega)]

theorem sumTo_split (f : Nat → Nat) {n t : Nat} (ht : t < n) :
    sumTo f n = f t + sumTo (fun u => if u = t then 0 else f u) n := by
  induction n with
  | zero => omega
  | succ n ih =>
    simp only [sumTo]
    by_cases h : t = n
    · subst h
      have : sumTo (fun u => if u = t then 0 else f u) t = sumTo f t :=
        sumTo_congr (fun u hu => by
          have : ¬ u = t := by omega
          simp [this])
      simp [this]; omega
    · have := ih (by omega)
      have hn : ¬ n = t := fun e => h e.symm
      simp [hn]; omega

theorem le_sumTo (f : Nat → Nat) {n t : Nat} (ht : t < n) : f t ≤ sumTo f n := by
  rw [sumTo_split f ht]; omega

theorem sumTo_two (f : Nat → Nat) {n t u : Nat} (ht : t < n) (hu : u < n) (hne : u ≠ t) :
    f t + f u ≤ sumTo f n := by
  rw [sumTo_split f ht]
  have := le_sumTo (fun u => if u = t then 0 else f u) hu
  simp [hne] at this
  omega

theorem sumTo_update (f g : Nat → Nat) {n t : Nat} (ht : t < n)
    (h : ∀ u, u < n → u ≠ t → g u = f u) : sumTo g n + f t = sumTo f n + g t := by
  rw [sumTo_split f ht, sumTo_split g ht]
  have : sumTo (fun u => if u = t then 0 else g u) n = sumTo (fun u => if u = t then 0 else f u) n :=
    sumTo_congr (fun u hu => by
      by_cases e : u = t
      · simp [e]
      · simp [e, h u hu e])
  omega

theorem sumTo_update2 (f g : Nat → Nat) {n t u : Nat} (ht : t < n) (hu : u < n) (hne : t ≠ u)
    (h : ∀ w, w < n → w ≠ t → w ≠ u → g w = f w) :
    sumTo g n + f t + f u = sumTo f n + g t + g u := by
  -- go through the intermediate function that agrees with g at t and with f elsewhere
  let m : Nat → Nat := fun w => if w = t then g t else f w
  have h1 : sumTo m n + f t = sumTo f n + m t :=
    sumTo_update f m ht (fun w _ hw => by simp [m, hw])
  have h2 : sumTo g n + m u = sumTo m n + g u :=
    sumTo_update m g hu (fun w hw hwu => by
      by_cases e : w = t
      · subst e; simp [m]
      · simp [m, e, h w hw e hwu])
  have hmt : m t = g t := by simp [m]
  have hmu : m u = f u := by
    have : ¬ u = t := fun e => hne e.symm
    simp [m, this]
  omega

theorem sumTo_zero_fun (n : Nat) (f : Nat → Nat) (h : ∀ u, u < n → f u = 0) : sumTo f n = 0 := by
  induction n with
  | zero => rfl
  | succ n ih => simp [sumTo, ih (fun u hu => h u (by omega)), h n (by omega)]

/-! ### vector clocks -/

theorem le_tick (t : Nat) (v : VC) (u : Nat) : v u ≤ tick t v u := by
  unfold tick; split <;> omega

theorem tick_self (t : Nat) (v : VC) : tick t v t = v t + 1 := by simp [tick]

theorem le_join_left (a b : VC) (u : Nat) : a u ≤ (a.join b) u := Nat.le_max_left _ _
theorem le_join_right (a b : VC) (u : Nat) : b u ≤ (a.join b) u := Nat.le_max_right _ _

/-! ### the modification order -/

def lastOf (l : List Msg) : Msg := l.getLast?.getD ⟨0, VC.zero⟩

theorem latest_eq (s : St) : latest s = lastOf s.mo := rfl

theorem lastOf_append (l : List Msg) (m : Msg) : lastOf (l ++ [m]) = m := by
  simp [lastOf]

theorem getElem?_last {l : List Msg} (h : l ≠ []) : l[l.length - 1]? = some (lastOf l) := by
  unfold lastOf
  rw [List.getLast?_eq_getElem?]
  cases hl : l[l.length - 1]? with
  | none =>
    have : 0 < l.length := List.length_pos_iff.mpr h
    rw [List.getElem?_eq_none_iff] at hl
    omega
  | some m => rfl


/-! ### the invariant -/

/-- total number of handles of the first `n` threads -/
def total (s : St) (n : Nat) : Nat := sumTo (fun u => (s.th u).handles) n

/-- (J, reads) every read of the buffer is contained in the view of the newest counter message or in
the clock of a thread that still holds a handle -/
def CovR (n : Nat) (s : St) : Prop :=
  ∀ u, u < n → s.readEpoch u ≤ (latest s).view u ∨
    ∃ v, v < n ∧ 0 < (s.th v).handles ∧ s.readEpoch u ≤ (s.th v).vc u

/-- (J, writes) every holder has the last write in its clock -/
def CovW (n : Nat) (s : St) : Prop :=
  ∀ v, v < n → 0 < (s.th v).handles → ∀ w e, s.lastWrite = some (w, e) → e ≤ (s.th v).vc w

/-- (K) a holder can read the value 1 only from the newest message -/
def NoStale (n : Nat) (s : St) : Prop :=
  ∀ t, t < n → 0 < (s.th t).handles → ∀ k m, (s.th t).seen ≤ k → k + 1 < s.mo.length →
    s.mo[k]? = some m → m.val ≠ 1

def Dying (p : Pc) : Prop := p = .dropped ∨ p = .loadedFree

structure Inv (n : Nat) (s : St) : Prop where
  mo_ne : s.mo ≠ []
  seen_lt : ∀ u, u < n → (s.th u).seen < s.mo.length
  count : (latest s).val = total s n
  failed_h : ∀ u, u < n → (s.th u).pc = .failedToVec → 0 < (s.th u).handles
  dying : ∀ u, u < n → Dying (s.th u).pc →
    (latest s).val = 0 ∧ s.freed = false ∧ s.ctrlFreed = false ∧
      ∀ v, v < n → v ≠ u → (s.th v).pc = .idle
  ctrl0 : s.ctrlFreed = true → (latest s).val = 0
  freed_ctrl : s.freed = true → s.ctrlFreed = true
  safe : s.race = false ∧ s.uaf = false ∧ s.doubleFree = false
  noStale : NoStale n s
  covR : s.ctrlFreed = false → CovR n s
  covW : CovW n s
  covW0 : s.ctrlFreed = false → (latest s).val = 0 →
    ∀ w e, s.lastWrite = some (w, e) → e ≤ (latest s).view w
  loaded : ∀ t, t < n → (s.th t).pc = .loadedFree → ∀ u, (latest s).view u ≤ (s.th t).vc u
  droppedSeen : ∀ t, t < n → (s.th t).pc = .dropped → (s.th t).seen + 1 = s.mo.length

/-- what a thread holding a handle knows about the global state -/
structure Alive (n : Nat) (s : St) : Prop where
  val_pos : 1 ≤ (latest s).val
  ctrl : s.ctrlFreed = false
  freed : s.freed = false
  notDying : ∀ u, u < n → ¬ Dying (s.th u).pc

theorem Inv.alive {n s t} (h : Inv n s) (ht : t < n) (hh : 0 < (s.th t).handles) : Alive n s := by
  have hv : 1 ≤ (latest s).val := by
    rw [h.count]; exact Nat.le_trans hh (le_sumTo (fun u => (s.th u).handles) ht)
  have hc : s.ctrlFreed = false := by
    cases hc : s.ctrlFreed with
    | false => rfl
    | true => have := h.ctrl0 hc; omega
  refine ⟨hv, hc, ?_, ?_⟩
  · cases hf : s.freed with
    | false => rfl
    | true => have := h.freed_ctrl hf; simp [hc] at this
  · intro u hu hd
    have := (h.dying u hu hd).1; omega

theorem Inv.no_holder_of_zero {n s} (h : Inv n s) (h0 : (latest s).val = 0) :
    ∀ u, u < n → (s.th u).handles = 0 := by
  intro u hu
  have := le_sumTo (fun u => (s.th u).handles) hu
  have hc := h.count
  unfold total at hc
  omega

theorem Inv.sole {n s t} (h : Inv n s) (ht : t < n) (hh : 0 < (s.th t).handles)
    (h1 : (latest s).val = 1) : ∀ u, u < n → u ≠ t → (s.th u).handles = 0 := by
  intro u hu hne
  have := sumTo_two (fun u => (s.th u).handles) ht hu hne
  have hc := h.count
  unfold total at hc
  omega

theorem Inv.sole_one {n s t} (h : Inv n s) (ht : t < n) (hh : 0 < (s.th t).handles)
    (h1 : (latest s).val = 1) : (s.th t).handles = 1 := by
  have := le_sumTo (fun u => (s.th u).handles) ht
  have hc := h.count
  unfold total at hc
  omega

theorem Inv.two_le {n s t u} (h : Inv n s) (ht : t < n) (hu : u < n) (hne : u ≠ t)
    (hh : 0 < (s.th t).handles) (hh' : 0 < (s.th u).handles) : 2 ≤ (latest s).val := by
  have := sumTo_two (fun u => (s.th u).handles) ht hu hne
  have hc := h.count
  unfold total at hc
  omega

theorem Pc.idle_of {p : Pc} (h1 : ¬ Dying p) (h2 : p ≠ .failedToVec) : p = .idle := by
  cases p <;> simp_all [Dying]

/-- when the counter is 1 and `t` holds the handle, every other thread is idle -/
theorem Inv.others_idle {n s t} (h : Inv n s) (ht : t < n) (hh : 0 < (s.th t).handles)
    (h1 : (latest s).val = 1) : ∀ u, u < n → u ≠ t → (s.th u).pc = .idle := by
  intro u hu hne
  apply Pc.idle_of ((h.alive ht hh).notDying u hu)
  intro hf
  have := h.failed_h u hu hf
  have := h.sole ht hh h1 u hu hne
  omega


/-! ### generic preservation lemmas for the components -/

theorem CovR.step {n s s'} (h : CovR n s)
    (hview : ∀ u, (latest s).view u ≤ (latest s').view u)
    (hhold : ∀ v, v < n → 0 < (s.th v).handles →
      (∀ u, (s.th v).vc u ≤ (latest s').view u) ∨
      ∃ v', v' < n ∧ 0 < (s'.th v').handles ∧ ∀ u, (s.th v).vc u ≤ (s'.th v').vc u)
    (hre : ∀ u, u < n → s'.readEpoch u = s.readEpoch u ∨
      ∃ v', v' < n ∧ 0 < (s'.th v').handles ∧ s'.readEpoch u ≤ (s'.th v').vc u) : CovR n s' := by
  intro u hu
  rcases hre u hu with e | hx
  · rw [e]
    rcases h u hu with l | ⟨v, hv, hh, hle⟩
    · exact Or.inl (Nat.le_trans l (hview u))
    · rcases hhold v hv hh with a | ⟨v', hv', hh', hle'⟩
      · exact Or.inl (Nat.le_trans hle (a u))
      · exact Or.inr ⟨v', hv', hh', Nat.le_trans hle (hle' u)⟩
  · exact Or.inr hx

theorem CovW.step {n s s'} (h : CovW n s) (hlw : s'.lastWrite = s.lastWrite)
    (hhold : ∀ v', v' < n → 0 < (s'.th v').handles →
      ∃ v, v < n ∧ 0 < (s.th v).handles ∧ ∀ u, (s.th v).vc u ≤ (s'.th v').vc u) : CovW n s' := by
  intro v' hv' hh' w e hl
  rcases hhold v' hv' hh' with ⟨v, hv, hh, hle⟩
  rw [hlw] at hl
  exact Nat.le_trans (h v hv hh w e hl) (hle w)

theorem NoStale.step_same {n s s'} (h : NoStale n s) (hmo : s'.mo = s.mo)
    (hhold : ∀ t, t < n → 0 < (s'.th t).handles →
      ∃ v, v < n ∧ 0 < (s.th v).handles ∧ (s.th v).seen ≤ (s'.th t).seen) : NoStale n s' := by
  intro t ht hh k m hk hlen hm
  rcases hhold t ht hh with ⟨v, hv, hhv, hle⟩
  rw [hmo] at hlen hm
  exact h v hv hhv k m (Nat.le_trans hle hk) hlen hm

theorem NoStale.step_rmw {n s s' t m'} (hI : Inv n s) (ht : t < n) (hh : 0 < (s.th t).handles)
    (hmo : s'.mo = s.mo ++ [m']) (hseen : (s'.th t).seen = s.mo.length)
    (hoth : ∀ u, u < n → u ≠ t → 0 < (s'.th u).handles →
      0 < (s.th u).handles ∧ (s.th u).seen ≤ (s'.th u).seen) : NoStale n s' := by
  intro u hu hhu k m hk hlen hm
  rw [hmo] at hlen hm
  simp only [List.length_append, List.length_singleton] at hlen
  by_cases e : u = t
  · subst e; omega
  · rcases hoth u hu e hhu with ⟨hhu0, hseen0⟩
    rw [List.getElem?_append_left (by omega)] at hm
    by_cases hk2 : k + 1 < s.mo.length
    · exact hI.noStale u hu hhu0 k m (by omega) hk2 hm
    · have hkk : k = s.mo.length - 1 := by omega
      rw [hkk, getElem?_last hI.mo_ne] at hm
      have := hI.two_le ht hu e hh hhu0
      rw [latest_eq] at this
      cases hm
      omega

/-! ### the steps preserve the invariant -/

theorem inv_read {n s t} (h : Inv n s) (ht : t < n) (hh : 0 < (s.th t).handles) :
    Inv n (doRead s t) := by
  have ha := h.alive ht hh
  have hvc : ∀ v u, (s.th v).vc u ≤ ((doRead s t).th v).vc u := by
    intro v u
    by_cases e : v = t
    · subst e; simp [doRead]; exact le_tick _ _ _
    · simp [doRead, e]
  have hhd : ∀ v, ((doRead s t).th v).handles = (s.th v).handles := by
    intro v; by_cases e : v = t
    · subst e; simp [doRead]
    · simp [doRead, e]
  have hseen : ∀ v, ((doRead s t).th v).seen = (s.th v).seen := by
    intro v; by_cases e : v = t
    · subst e; simp [doRead]
    · simp [doRead, e]
  have hpc : ∀ v, ((doRead s t).th v).pc = (s.th v).pc := by
    intro v; by_cases e : v = t
    · subst e; simp [doRead]
    · simp [doRead, e]
  have hlat : latest (doRead s t) = latest s := rfl
  refine
    { mo_ne := h.mo_ne
      seen_lt := fun u hu => by rw [hseen]; exact h.seen_lt u hu
      count := by
        rw [hlat, h.count]; exact (sumTo_congr (fun u _ => hhd u)).symm
      failed_h := fun u hu hp => by rw [hhd]; rw [hpc] at hp; exact h.failed_h u hu hp
      dying := fun u hu hd => by rw [hpc] at hd; exact absurd hd (ha.notDying u hu)
      ctrl0 := fun hc => by
        have : s.ctrlFreed = true := hc
        simp [ha.ctrl] at this
      freed_ctrl := fun hf => by
        have : s.freed = true := hf
        simp [ha.freed] at this
      safe := ?_
      noStale := h.noStale.step_same rfl (fun v hv hhv => ⟨v, hv, by rw [← hhd]; exact hhv, by rw [hseen]; exact Nat.le_refl _⟩)
      covR := fun _ => (h.covR ha.ctrl).step (fun u => by rw [hlat]; exact Nat.le_refl _)
        (fun v hv hhv => Or.inr ⟨v, hv, by rw [hhd]; exact hhv, hvc v⟩)
        (fun u hu => by
          by_cases e : u = t
          · subst e
            exact Or.inr ⟨u, hu, by rw [hhd]; exact hh, by simp [doRead]⟩
          · exact Or.inl (by simp [doRead, e]))
      covW := h.covW.step rfl (fun v hv hhv => ⟨v, hv, by rw [← hhd]; exact hhv, hvc v⟩)
      covW0 := fun _ h0 => by
        rw [hlat] at h0; have := ha.val_pos; omega
      loaded := fun u hu hp => by rw [hpc] at hp; exact absurd (Or.inr hp) (ha.notDying u hu)
      droppedSeen := fun u hu hp => by rw [hpc] at hp; exact absurd (Or.inl hp) (ha.notDying u hu) }
  obtain ⟨hr, hu, hd⟩ := h.safe
  refine ⟨?_, ?_, hd⟩
  · show (s.race || _) = false
    rw [hr]
    cases hl : s.lastWrite with
    | none => simp
    | some p =>
      obtain ⟨w, e⟩ := p
      have := h.covW t ht hh w e hl
      simp; intro _; exact this
  · show (s.uaf || s.freed) = false
    rw [hu, ha.freed]; rfl


/-- a step that only lets clocks and coherence indices grow; a pc may move idle → failedToVec (for a
holder) or dropped → loadedFree (once the newest view is in the clock) -/
theorem inv_local {n s s'} (h : Inv n s)
    (hmo : s'.mo = s.mo) (hlw : s'.lastWrite = s.lastWrite) (hre : s'.readEpoch = s.readEpoch)
    (hfreed : s'.freed = s.freed) (hctrl : s'.ctrlFreed = s.ctrlFreed) (hrace : s'.race = s.race)
    (huaf : s'.uaf = s.uaf) (hdf : s'.doubleFree = s.doubleFree)
    (hhd : ∀ v, (s'.th v).handles = (s.th v).handles)
    (hpc : ∀ v, v < n → (s'.th v).pc = (s.th v).pc ∨
      ((s'.th v).pc = .failedToVec ∧ 0 < (s.th v).handles) ∨
      ((s'.th v).pc = .loadedFree ∧ (s.th v).pc = .dropped ∧ ∀ u, (latest s).view u ≤ (s'.th v).vc u))
    (hvc : ∀ v u, (s.th v).vc u ≤ (s'.th v).vc u)
    (hseen : ∀ v, v < n → (s.th v).seen ≤ (s'.th v).seen ∧ (s'.th v).seen < s.mo.length) :
    Inv n s' := by
  have hlat : latest s' = latest s := by simp [latest, hmo]
  refine
    { mo_ne := by rw [hmo]; exact h.mo_ne
      seen_lt := fun u hu => by rw [hmo]; exact (hseen u hu).2
      count := by
        rw [hlat, h.count]; exact (sumTo_congr (fun u _ => hhd u)).symm
      failed_h := fun u hu hp => by
        rw [hhd]
        rcases hpc u hu with e | ⟨_, hh⟩ | ⟨e, _⟩
        · rw [e] at hp; exact h.failed_h u hu hp
        · exact hh
        · rw [e] at hp; cases hp
      dying := fun u hu hd => by
        have hd0 : Dying (s.th u).pc := by
          rcases hpc u hu with e | ⟨e, _⟩ | ⟨_, e, _⟩
          · rw [e] at hd; exact hd
          · rw [e] at hd; rcases hd with hd | hd <;> cases hd
          · exact Or.inl e
        rw [hlat, hfreed, hctrl]
        obtain ⟨a, b, c, d⟩ := h.dying u hu hd0
        refine ⟨a, b, c, fun v hv hne => ?_⟩
        rcases hpc v hv with e | ⟨_, hh⟩ | ⟨_, e, _⟩
        · rw [e]; exact d v hv hne
        · have := h.no_holder_of_zero a v hv; omega
        · have := d v hv hne; rw [e] at this; cases this
      ctrl0 := fun hc => by rw [hlat]; rw [hctrl] at hc; exact h.ctrl0 hc
      freed_ctrl := fun hf => by rw [hctrl]; rw [hfreed] at hf; exact h.freed_ctrl hf
      safe := by rw [hrace, huaf, hdf]; exact h.safe
      noStale := h.noStale.step_same hmo (fun v hv hhv =>
        ⟨v, hv, by rw [← hhd]; exact hhv, (hseen v hv).1⟩)
      covR := fun hc => (h.covR (by rw [← hctrl]; exact hc)).step
        (fun u => by rw [hlat]; exact Nat.le_refl _)
        (fun v hv hhv => Or.inr ⟨v, hv, by rw [hhd]; exact hhv, hvc v⟩)
        (fun u _ => Or.inl (by rw [hre]))
      covW := h.covW.step hlw (fun v hv hhv => ⟨v, hv, by rw [← hhd]; exact hhv, hvc v⟩)
      covW0 := fun hc h0 w e hl => by
        rw [hlat] at h0 ⊢; rw [hlw] at hl; rw [hctrl] at hc
        exact h.covW0 hc h0 w e hl
      loaded := fun u hu hp v => by
        rw [hlat]
        rcases hpc u hu with e | ⟨e, _⟩ | ⟨_, _, hle⟩
        · rw [e] at hp; exact Nat.le_trans (h.loaded u hu hp v) (hvc u v)
        · rw [e] at hp; cases hp
        · exact hle v
      droppedSeen := fun u hu hp => by
        rw [hmo]
        rcases hpc u hu with e | ⟨e, _⟩ | ⟨e, _⟩
        · rw [e] at hp
          have := h.droppedSeen u hu hp
          have := hseen u hu
          omega
        · rw [e] at hp; cases hp
        · rw [e] at hp; cases hp }

theorem load_spec {s t o k s' v} (hl : load s t o k = some (s', v)) :
    ∃ m, (s.th t).seen ≤ k ∧ s.mo[k]? = some m ∧ v = m.val ∧
      s' = { s with th := fun u => if u = t then
              { s.th t with vc := if o.isAcq then (s.th t).vc.join m.view else (s.th t).vc, seen := k }
            else s.th u } := by
  unfold load at hl
  simp only at hl
  split at hl
  · cases hl
  · split at hl
    · cases hl
    · rename_i m hm
      cases hl
      exact ⟨m, by omega, hm, rfl, rfl⟩

theorem inv_load {n s t o k s' v} (h : Inv n s) (hl : load s t o k = some (s', v)) : Inv n s' := by
  obtain ⟨m, hk, hm, _, rfl⟩ := load_spec hl
  have hklen : k < s.mo.length := by
    have := (List.getElem?_eq_some_iff.mp hm).1; exact this
  refine inv_local h (by rfl) (by rfl) (by rfl) (by rfl) (by rfl) (by rfl) (by rfl) (by rfl) ?_ ?_ ?_ ?_
  · intro v; by_cases e : v = t
    · subst e; simp
    · simp [e]
  · intro v _; left; by_cases e : v = t
    · subst e; simp
    · simp [e]
  · intro v u; by_cases e : v = t
    · subst e; simp only [if_true]; split
      · exact le_join_left _ _ _
      · exact Nat.le_refl _
    · simp [e]
  · intro v _; by_cases e : v = t
    · subst e; simp; exact ⟨hk, hklen⟩
    · simp [e]; exact h.seen_lt v ‹_›


/-- the view of the message written by an RMW -/
def rmwVc (s : St) (t : Nat) (od : Ord) : VC :=
  tick t (if od.isAcq then (s.th t).vc.join (latest s).view else (s.th t).vc)

def rmwView (s : St) (t : Nat) (od : Ord) : VC :=
  if od.isRel then (latest s).view.join (rmwVc s t od) else (latest s).view

theorem le_rmwVc (s : St) (t : Nat) (od : Ord) (u : Nat) : (s.th t).vc u ≤ rmwVc s t od u := by
  unfold rmwVc
  split
  · exact Nat.le_trans (le_join_left _ _ _) (le_tick _ _ _)
  · exact le_tick _ _ _

theorem view_le_rmwVc (s : St) (t : Nat) (od : Ord) (ha : od.isAcq = true) (u : Nat) :
    (latest s).view u ≤ rmwVc s t od u := by
  unfold rmwVc
  rw [if_pos ha]
  exact Nat.le_trans (le_join_right _ _ _) (le_tick _ _ _)

theorem le_rmwView (s : St) (t : Nat) (od : Ord) (u : Nat) : (latest s).view u ≤ rmwView s t od u := by
  unfold rmwView
  split
  · exact le_join_left _ _ _
  · exact Nat.le_refl _

theorem rmwVc_le_rmwView (s : St) (t : Nat) (od : Ord) (hr : od.isRel = true) (u : Nat) :
    rmwVc s t od u ≤ rmwView s t od u := by
  unfold rmwView
  rw [if_pos hr]
  exact le_join_right _ _ _

theorem rmw_mo (s : St) (t : Nat) (od : Ord) (f : Nat → Nat) :
    (rmw s t od f).1.mo = s.mo ++ [⟨f (latest s).val, rmwView s t od⟩] := rfl

theorem rmw_val (s : St) (t : Nat) (od : Ord) (f : Nat → Nat) : (rmw s t od f).2 = (latest s).val := rfl

theorem rmw_th_self (s : St) (t : Nat) (od : Ord) (f : Nat → Nat) :
    (rmw s t od f).1.th t = { s.th t with vc := rmwVc s t od, seen := s.mo.length } := by
  simp [rmw, rmwVc]

theorem rmw_th_other (s : St) (t : Nat) (od : Ord) (f : Nat → Nat) {u : Nat} (h : u ≠ t) :
    (rmw s t od f).1.th u = s.th u := by
  simp [rmw, h]

/-- clone, and both forms of the decrement: an RMW by a holder, then an update of its handle count and pc -/
theorem inv_rmw {n s t} (od : Ord) (f : Nat → Nat) (hnew : Nat) (pnew : Pc)
    (h : Inv n s) (ht : t < n) (hh : 0 < (s.th t).handles)
    (hcount : f (latest s).val + (s.th t).handles = (latest s).val + hnew)
    (hrel : hnew = 0 → od.isRel = true)
    (hpn : pnew = .idle ∨ (pnew = .dropped ∧ (latest s).val = 1 ∧ f (latest s).val = 0)) :
    Inv n (setTh (rmw s t od f).1 t fun T => { T with handles := hnew, pc := pnew }) := by
  have ha := h.alive ht hh
  generalize hs' : (setTh (rmw s t od f).1 t fun T => { T with handles := hnew, pc := pnew }) = s'
  have hmo : s'.mo = s.mo ++ [⟨f (latest s).val, rmwView s t od⟩] := by rw [← hs']; rfl
  have hlat : latest s' = ⟨f (latest s).val, rmwView s t od⟩ := by
    rw [latest_eq, hmo, lastOf_append]
  have htt : s'.th t = { s.th t with vc := rmwVc s t od, seen := s.mo.length, handles := hnew, pc := pnew } := by
    rw [← hs']; simp [setTh, rmw_th_self]
  have hto : ∀ u, u ≠ t → s'.th u = s.th u := by
    intro u hu; rw [← hs']; simp [setTh, hu, rmw_th_other]
  have hlw : s'.lastWrite = s.lastWrite := by rw [← hs']; rfl
  have hre : s'.readEpoch = s.readEpoch := by rw [← hs']; rfl
  have hfreed : s'.freed = s.freed := by rw [← hs']; rfl
  have hctrl : s'.ctrlFreed = s.ctrlFreed := by rw [← hs']; rfl
  have hrace : s'.race = s.race := by rw [← hs']; rfl
  have huaf : s'.uaf = s.uaf := by rw [← hs']; rfl
  have hdf : s'.doubleFree = s.doubleFree := by rw [← hs']; rfl
  have hvc : ∀ v u, (s.th v).vc u ≤ (s'.th v).vc u := by
    intro v u; by_cases e : v = t
    · subst e; rw [htt]; exact le_rmwVc _ _ _ _
    · rw [hto v e]; exact Nat.le_refl _
  have hle : (s.th t).handles ≤ (latest s).val := by
    rw [h.count]; exact le_sumTo (fun u => (s.th u).handles) ht
  refine
    { mo_ne := by rw [hmo]; simp
      seen_lt := fun u hu => by
        rw [hmo]; simp only [List.length_append, List.length_singleton]
        by_cases e : u = t
        · subst e; rw [htt]; simp
        · rw [hto u e]; have := h.seen_lt u hu; omega
      count := by
        rw [hlat]
        have := sumTo_update (fun u => (s.th u).handles) (fun u => (s'.th u).handles) ht
          (fun u _ hne => by rw [hto u hne])
        have hc := h.count
        unfold total at hc ⊢
        have htth : (s'.th t).handles = hnew := by rw [htt]
        rw [htth] at this
        show f (latest s).val = _
        omega
      failed_h := fun u hu hp => by
        by_cases e : u = t
        · subst e; rw [htt] at hp; simp only at hp
          rcases hpn with hpn | hpn
          · rw [hpn] at hp; cases hp
          · rw [hpn.1] at hp; cases hp
        · rw [hto u e] at hp ⊢; exact h.failed_h u hu hp
      dying := fun u hu hd => by
        by_cases e : u = t
        · subst e; rw [htt] at hd; simp only at hd
          rcases hpn with hpn | ⟨_, h1, h0⟩
          · rw [hpn] at hd; rcases hd with hd | hd <;> cases hd
          · refine ⟨by rw [hlat]; exact h0, by rw [hfreed]; exact ha.freed, by rw [hctrl]; exact ha.ctrl, ?_⟩
            intro v hv hne
            rw [hto v hne]; exact h.others_idle hu hh h1 v hv hne
        · rw [hto u e] at hd; exact absurd hd (ha.notDying u hu)
      ctrl0 := fun hc => by rw [hctrl, ha.ctrl] at hc; cases hc
      freed_ctrl := fun hf => by rw [hfreed, ha.freed] at hf; cases hf
      safe := by rw [hrace, huaf, hdf]; exact h.safe
      noStale := NoStale.step_rmw h ht hh hmo (by rw [htt]) (fun u _ hne hhu => by
        rw [hto u hne] at hhu ⊢; exact ⟨hhu, Nat.le_refl _⟩)
      covR := fun _ => (h.covR ha.ctrl).step
        (fun u => by rw [hlat]; exact le_rmwView _ _ _ _)
        (fun v hv hhv => by
          by_cases e : v = t
          · subst e
            by_cases h0 : hnew = 0
            · left; intro u; rw [hlat]
              exact Nat.le_trans (le_rmwVc s v od u) (rmwVc_le_rmwView s v od (hrel h0) u)
            · right; exact ⟨v, hv, by rw [htt]; simp only; omega, hvc v⟩
          · right; exact ⟨v, hv, by rw [hto v e]; exact hhv, hvc v⟩)
        (fun u _ => Or.inl (by rw [hre]))
      covW := h.covW.step hlw (fun v hv hhv => by
        by_cases e : v = t
        · subst e; exact ⟨v, hv, hh, hvc v⟩
        · exact ⟨v, hv, by rw [hto v e] at hhv; exact hhv, hvc v⟩)
      covW0 := fun _ h0 w e hl => by
        rw [hlat] at h0 ⊢; simp only at h0 ⊢
        have hr : od.isRel = true := hrel (by omega)
        rw [hlw] at hl
        exact Nat.le_trans (h.covW t ht hh w e hl)
          (Nat.le_trans (le_rmwVc s t od w) (rmwVc_le_rmwView s t od hr w))
      loaded := fun u hu hp => by
        by_cases e : u = t
        · subst e; rw [htt] at hp; simp only at hp
          rcases hpn with hpn | hpn
          · rw [hpn] at hp; cases hp
          · rw [hpn.1] at hp; cases hp
        · rw [hto u e] at hp; exact absurd (Or.inr hp) (ha.notDying u hu)
      droppedSeen := fun u hu hp => by
        by_cases e : u = t
        · subst e; rw [htt, hmo]; simp
        · rw [hto u e] at hp; exact absurd (Or.inl hp) (ha.notDying u hu) }


theorem allBefore_of {s t n} (hr : ∀ u, u < n → s.readEpoch u ≤ (s.th t).vc u)
    (hw : ∀ w e, s.lastWrite = some (w, e) → e ≤ (s.th t).vc w) : allBefore s t n = true := by
  unfold allBefore
  simp only [Bool.and_eq_true, List.all_eq_true, List.mem_range, Bool.or_eq_true, decide_eq_true_eq]
  refine ⟨fun u hu => Or.inr (hr u hu), ?_⟩
  cases hl : s.lastWrite with
  | none => rfl
  | some p =>
    obtain ⟨w, e⟩ := p
    simp only [Bool.or_eq_true, decide_eq_true_eq]
    exact Or.inr (hw w e hl)

/-- after the counter reached 0 and the control block is gone, with every thread idle -/
theorem inv_terminal {n s} (hmo : s.mo ≠ []) (hseen : ∀ u, u < n → (s.th u).seen < s.mo.length)
    (hval : (latest s).val = 0) (hh : ∀ u, u < n → (s.th u).handles = 0)
    (hpc : ∀ u, u < n → (s.th u).pc = .idle) (hctrl : s.ctrlFreed = true)
    (hsafe : s.race = false ∧ s.uaf = false ∧ s.doubleFree = false) : Inv n s :=
  { mo_ne := hmo
    seen_lt := hseen
    count := by rw [hval]; exact (sumTo_zero_fun n _ hh).symm
    failed_h := fun u hu hp => by rw [hpc u hu] at hp; cases hp
    dying := fun u hu hd => by rw [hpc u hu] at hd; rcases hd with hd | hd <;> cases hd
    ctrl0 := fun _ => hval
    freed_ctrl := fun _ => hctrl
    safe := hsafe
    noStale := fun t ht hht => by rw [hh t ht] at hht; omega
    covR := fun hc => by rw [hctrl] at hc; cases hc
    covW := fun t ht hht => by rw [hh t ht] at hht; omega
    covW0 := fun hc => by rw [hctrl] at hc; cases hc
    loaded := fun u hu hp => by rw [hpc u hu] at hp; cases hp
    droppedSeen := fun u hu hp => by rw [hpc u hu] at hp; cases hp }

theorem inv_send {n s t u} (h : Inv n s) (ht : t < n) (hu : u < n) (hne : t ≠ u)
    (hh : 0 < (s.th t).handles) (hp : (s.th t).pc = .idle) :
    Inv n (setTh (setTh s t fun T => { T with handles := T.handles - 1, vc := tick t T.vc }) u
      fun U => { U with handles := U.handles + 1, vc := U.vc.join (tick t (s.th t).vc),
                        seen := max U.seen (s.th t).seen }) := by
  have ha := h.alive ht hh
  have hne' : u ≠ t := fun e => hne e.symm
  generalize hs' : (setTh (setTh s t fun T => { T with handles := T.handles - 1, vc := tick t T.vc }) u
      fun U => { U with handles := U.handles + 1, vc := U.vc.join (tick t (s.th t).vc),
                        seen := max U.seen (s.th t).seen }) = s'
  have htt : s'.th t = { s.th t with handles := (s.th t).handles - 1, vc := tick t (s.th t).vc } := by
    rw [← hs']; simp [setTh, hne]
  have htu : s'.th u = { s.th u with handles := (s.th u).handles + 1, vc := (s.th u).vc.join (tick t (s.th t).vc), seen := max (s.th u).seen (s.th t).seen } := by
    rw [← hs']; simp [setTh, hne']
  have hto : ∀ w, w ≠ t → w ≠ u → s'.th w = s.th w := by
    intro w h1 h2; rw [← hs']; simp [setTh, h1, h2]
  have hlat : latest s' = latest s := by rw [← hs']; rfl
  have hmo : s'.mo = s.mo := by rw [← hs']; rfl
  have hlw : s'.lastWrite = s.lastWrite := by rw [← hs']; rfl
  have hre : s'.readEpoch = s.readEpoch := by rw [← hs']; rfl
  have hfreed : s'.freed = s.freed := by rw [← hs']; rfl
  have hctrl : s'.ctrlFreed = s.ctrlFreed := by rw [← hs']; rfl
  have hrace : s'.race = s.race := by rw [← hs']; rfl
  have huaf : s'.uaf = s.uaf := by rw [← hs']; rfl
  have hdf : s'.doubleFree = s.doubleFree := by rw [← hs']; rfl
  have hpc : ∀ w, (s'.th w).pc = (s.th w).pc := by
    intro w
    by_cases e1 : w = t
    · subst e1; rw [htt]
    · by_cases e2 : w = u
      · subst e2; rw [htu]
      · rw [hto w e1 e2]
  have hvc : ∀ v w, (s.th v).vc w ≤ (s'.th v).vc w := by
    intro v w
    by_cases e1 : v = t
    · subst e1; rw [htt]; exact le_tick _ _ _
    · by_cases e2 : v = u
      · subst e2; rw [htu]; exact le_join_left _ _ _
      · rw [hto v e1 e2]; exact Nat.le_refl _
  have hvctu : ∀ w, (s.th t).vc w ≤ (s'.th u).vc w := by
    intro w; rw [htu]
    exact Nat.le_trans (le_tick t _ w) (le_join_right _ _ _)
  have hhu' : 0 < (s'.th u).handles := by rw [htu]; simp
  refine
    { mo_ne := by rw [hmo]; exact h.mo_ne
      seen_lt := fun w hw => by
        rw [hmo]
        by_cases e1 : w = t
        · subst e1; rw [htt]; exact h.seen_lt w hw
        · by_cases e2 : w = u
          · subst e2; rw [htu]; simp only
            have := h.seen_lt w hw; have := h.seen_lt t ht; omega
          · rw [hto w e1 e2]; exact h.seen_lt w hw
      count := by
        rw [hlat, h.count]
        have := sumTo_update2 (fun w => (s.th w).handles) (fun w => (s'.th w).handles) ht hu hne
          (fun w _ h1 h2 => by rw [hto w h1 h2])
        have h1 : (s'.th t).handles = (s.th t).handles - 1 := by rw [htt]
        have h2 : (s'.th u).handles = (s.th u).handles + 1 := by rw [htu]
        rw [h1, h2] at this
        unfold total
        omega
      failed_h := fun w hw hpw => by
        rw [hpc] at hpw
        by_cases e1 : w = t
        · subst e1; rw [hp] at hpw; cases hpw
        · by_cases e2 : w = u
          · subst e2; exact hhu'
          · rw [hto w e1 e2]; exact h.failed_h w hw hpw
      dying := fun w hw hd => by rw [hpc] at hd; exact absurd hd (ha.notDying w hw)
      ctrl0 := fun hc => by rw [hctrl, ha.ctrl] at hc; cases hc
      freed_ctrl := fun hf => by rw [hfreed, ha.freed] at hf; cases hf
      safe := by rw [hrace, huaf, hdf]; exact h.safe
      noStale := h.noStale.step_same hmo (fun w hw hhw => by
        by_cases e1 : w = t
        · subst e1; exact ⟨w, hw, hh, by rw [htt]; exact Nat.le_refl _⟩
        · by_cases e2 : w = u
          · subst e2; exact ⟨t, ht, hh, by rw [htu]; exact Nat.le_max_right _ _⟩
          · rw [hto w e1 e2] at hhw ⊢; exact ⟨w, hw, hhw, Nat.le_refl _⟩)
      covR := fun _ => (h.covR ha.ctrl).step
        (fun w => by rw [hlat]; exact Nat.le_refl _)
        (fun v hv hhv => by
          right
          by_cases e1 : v = t
          · subst e1; exact ⟨u, hu, hhu', hvctu⟩
          · by_cases e2 : v = u
            · subst e2; exact ⟨v, hv, hhu', hvc v⟩
            · exact ⟨v, hv, by rw [hto v e1 e2]; exact hhv, hvc v⟩)
        (fun w _ => Or.inl (by rw [hre]))
      covW := h.covW.step hlw (fun v hv hhv => by
        by_cases e1 : v = t
        · subst e1; exact ⟨v, hv, hh, hvc v⟩
        · by_cases e2 : v = u
          · subst e2; exact ⟨t, ht, hh, hvctu⟩
          · exact ⟨v, hv, by rw [hto v e1 e2] at hhv; exact hhv, hvc v⟩)
      covW0 := fun _ h0 => by
        rw [hlat] at h0; have := ha.val_pos; omega
      loaded := fun w hw hpw => by rw [hpc] at hpw; exact absurd (Or.inr hpw) (ha.notDying w hw)
      droppedSeen := fun w hw hpw => by rw [hpc] at hpw; exact absurd (Or.inl hpw) (ha.notDying w hw) }

/-- in-place mutation by the sole holder that has the newest view in its clock -/
theorem inv_write {n s t} (h : Inv n s) (ht : t < n) (hh : 0 < (s.th t).handles)
    (h1 : (latest s).val = 1) (hview : ∀ u, (latest s).view u ≤ (s.th t).vc u) :
    Inv n (doWrite s t n false) := by
  have ha := h.alive ht hh
  have hsole := h.sole ht hh h1
  have htt : (doWrite s t n false).th t = { s.th t with vc := tick t (s.th t).vc } := by
    simp [doWrite]
  have hto : ∀ v, v ≠ t → (doWrite s t n false).th v = s.th v := by
    intro v e; simp [doWrite, e]
  have hvc : ∀ v u, (s.th v).vc u ≤ ((doWrite s t n false).th v).vc u := by
    intro v u
    by_cases e : v = t
    · subst e; rw [htt]; exact le_tick _ _ _
    · rw [hto v e]; exact Nat.le_refl _
  have hhd : ∀ v, ((doWrite s t n false).th v).handles = (s.th v).handles := by
    intro v; by_cases e : v = t
    · subst e; rw [htt]
    · rw [hto v e]
  have hseen : ∀ v, ((doWrite s t n false).th v).seen = (s.th v).seen := by
    intro v; by_cases e : v = t
    · subst e; rw [htt]
    · rw [hto v e]
  have hpc : ∀ v, ((doWrite s t n false).th v).pc = (s.th v).pc := by
    intro v; by_cases e : v = t
    · subst e; rw [htt]
    · rw [hto v e]
  have hlat : latest (doWrite s t n false) = latest s := rfl
  have hfreed : (doWrite s t n false).freed = s.freed := by simp [doWrite]
  have hab : allBefore s t n = true := by
    apply allBefore_of
    · intro u hu
      rcases h.covR ha.ctrl u hu with l | ⟨v, hv, hhv, hle⟩
      · exact Nat.le_trans l (hview u)
      · by_cases e : v = t
        · subst e; exact hle
        · have := hsole v hv e; omega
    · exact h.covW t ht hh
  refine
    { mo_ne := h.mo_ne
      seen_lt := fun u hu => by rw [hseen]; exact h.seen_lt u hu
      count := by
        rw [hlat, h.count]; exact (sumTo_congr (fun u _ => hhd u)).symm
      failed_h := fun u hu hp => by rw [hhd]; rw [hpc] at hp; exact h.failed_h u hu hp
      dying := fun u hu hd => by rw [hpc] at hd; exact absurd hd (ha.notDying u hu)
      ctrl0 := fun hc => by
        have : s.ctrlFreed = true := hc
        simp [ha.ctrl] at this
      freed_ctrl := fun hf => by
        rw [hfreed, ha.freed] at hf; cases hf
      safe := ?_
      noStale := h.noStale.step_same rfl (fun v hv hhv => ⟨v, hv, by rw [← hhd]; exact hhv, by rw [hseen]; exact Nat.le_refl _⟩)
      covR := fun _ => (h.covR ha.ctrl).step (fun u => by rw [hlat]; exact Nat.le_refl _)
        (fun v hv hhv => Or.inr ⟨v, hv, by rw [hhd]; exact hhv, hvc v⟩)
        (fun u _ => Or.inl rfl)
      covW := fun v hv hhv w e hl => by
        rw [hhd] at hhv
        by_cases e1 : v = t
        · subst e1
          have : (doWrite s v n false).lastWrite = some (v, tick v (s.th v).vc v) := rfl
          rw [this] at hl; cases hl
          rw [htt]; exact Nat.le_refl _
        · have := hsole v hv e1; omega
      covW0 := fun _ h0 => by
        rw [hlat] at h0; have := ha.val_pos; omega
      loaded := fun u hu hp => by rw [hpc] at hp; exact absurd (Or.inr hp) (ha.notDying u hu)
      droppedSeen := fun u hu hp => by rw [hpc] at hp; exact absurd (Or.inl hp) (ha.notDying u hu) }
  obtain ⟨hr, hu, hd⟩ := h.safe
  refine ⟨?_, ?_, ?_⟩
  · show (s.race || !allBefore s t n) = false
    rw [hr, hab]; rfl
  · show (s.uaf || (s.freed && !false)) = false
    rw [hu, ha.freed]; rfl
  · show (s.doubleFree || (s.freed && false)) = false
    rw [hd, ha.freed]; rfl


theorem inv_dropFree {n s t} (h : Inv n s) (ht : t < n) (hp : (s.th t).pc = .loadedFree) :
    Inv n (setTh { (doWrite s t n true) with ctrlFreed := true } t fun T => { T with pc := .idle }) := by
  obtain ⟨h0, hfr, hctrl, hidle⟩ := h.dying t ht (Or.inr hp)
  have hnh := h.no_holder_of_zero h0
  have hab : allBefore s t n = true := by
    apply allBefore_of
    · intro u hu
      rcases h.covR hctrl u hu with l | ⟨v, hv, hhv, _⟩
      · exact Nat.le_trans l (h.loaded t ht hp u)
      · have := hnh v hv; omega
    · intro w e hl
      exact Nat.le_trans (h.covW0 hctrl h0 w e hl) (h.loaded t ht hp w)
  obtain ⟨hr, hu, hd⟩ := h.safe
  apply inv_terminal
  · exact h.mo_ne
  · intro u hu
    by_cases e : u = t
    · subst e; simp [setTh, doWrite]; exact h.seen_lt u hu
    · simp [setTh, doWrite, e]; exact h.seen_lt u hu
  · exact h0
  · intro u hu
    by_cases e : u = t
    · subst e; simp [setTh, doWrite]; exact hnh u hu
    · simp [setTh, doWrite, e]; exact hnh u hu
  · intro u hu
    by_cases e : u = t
    · subst e; simp [setTh, doWrite]
    · simp [setTh, doWrite, e]; exact hidle u hu e
  · rfl
  · refine ⟨?_, ?_, ?_⟩
    · show (s.race || !allBefore s t n) = false
      rw [hr, hab]; rfl
    · show (s.uaf || (s.freed && !true)) = false
      rw [hu, hfr]; rfl
    · show (s.doubleFree || (s.freed && true)) = false
      rw [hd, hfr]; rfl

theorem inv_toVecOk {n s t} (od : Ord) (ec : Nat) (hacq : od.isAcq = true) (h : Inv n s) (ht : t < n)
    (hh : 0 < (s.th t).handles) (hp : (s.th t).pc = .idle) (h1 : (latest s).val = 1) :
    Inv n (let r := rmw s t od (fun _ => 0)
           let s1 := setTh r.1 t fun T => { T with handles := T.handles - 1, exclusive := true }
           { (doWrite s1 t n false) with ctrlFreed := true, exclusiveCount := ec }) := by
  have ha := h.alive ht hh
  have hsole := h.sole ht hh h1
  have hone := h.sole_one ht hh h1
  have hidle := h.others_idle ht hh h1
  obtain ⟨hr, hu, hd⟩ := h.safe
  show Inv n { (doWrite (setTh (rmw s t od (fun _ => 0)).1 t fun T => { T with handles := T.handles - 1, exclusive := true }) t n false) with ctrlFreed := true, exclusiveCount := ec }
  generalize hs1 : (setTh (rmw s t od (fun _ => 0)).1 t fun T => { T with handles := T.handles - 1, exclusive := true }) = s1
  have h1t : s1.th t = { s.th t with vc := rmwVc s t od, seen := s.mo.length, handles := (s.th t).handles - 1, exclusive := true } := by
    rw [← hs1]; simp [setTh, rmw_th_self]
  have h1o : ∀ u, u ≠ t → s1.th u = s.th u := by
    intro u hu; rw [← hs1]; simp [setTh, hu, rmw_th_other]
  have h1mo : s1.mo = s.mo ++ [⟨0, rmwView s t od⟩] := by rw [← hs1]; rfl
  have h1re : s1.readEpoch = s.readEpoch := by rw [← hs1]; rfl
  have h1lw : s1.lastWrite = s.lastWrite := by rw [← hs1]; rfl
  have h1freed : s1.freed = s.freed := by rw [← hs1]; rfl
  have h1race : s1.race = s.race := by rw [← hs1]; rfl
  have h1uaf : s1.uaf = s.uaf := by rw [← hs1]; rfl
  have h1df : s1.doubleFree = s.doubleFree := by rw [← hs1]; rfl
  have hab : allBefore s1 t n = true := by
    apply allBefore_of
    · intro u hu
      rw [h1re, h1t]
      rcases h.covR ha.ctrl u hu with l | ⟨v, hv, hhv, hle⟩
      · exact Nat.le_trans l (view_le_rmwVc s t od hacq u)
      · by_cases e : v = t
        · subst e; exact Nat.le_trans hle (le_rmwVc s v od u)
        · have := hsole v hv e; omega
    · intro w e hl
      rw [h1lw] at hl; rw [h1t]
      exact Nat.le_trans (h.covW t ht hh w e hl) (le_rmwVc s t od w)
  show Inv n { (doWrite s1 t n false) with ctrlFreed := true, exclusiveCount := ec }
  have htt : (doWrite s1 t n false).th t = { s1.th t with vc := tick t (s1.th t).vc } := by
    simp [doWrite]
  have hto : ∀ v, v ≠ t → (doWrite s1 t n false).th v = s1.th v := by
    intro v e; simp [doWrite, e]
  apply inv_terminal
  · show s1.mo ≠ []
    rw [h1mo]; simp
  · intro u hu
    show ((doWrite s1 t n false).th u).seen < s1.mo.length
    rw [h1mo]; simp only [List.length_append, List.length_singleton]
    by_cases e : u = t
    · subst e; rw [htt, h1t]; simp
    · rw [hto u e, h1o u e]; have := h.seen_lt u hu; omega
  · show (lastOf s1.mo).val = 0
    rw [h1mo, lastOf_append]
  · intro u hu
    show ((doWrite s1 t n false).th u).handles = 0
    by_cases e : u = t
    · subst e; rw [htt, h1t]; simp only; omega
    · rw [hto u e, h1o u e]; exact hsole u hu e
  · intro u hu
    show ((doWrite s1 t n false).th u).pc = .idle
    by_cases e : u = t
    · subst e; rw [htt, h1t]; exact hp
    · rw [hto u e, h1o u e]; exact hidle u hu e
  · rfl
  · refine ⟨?_, ?_, ?_⟩
    · show (s1.race || !allBefore s1 t n) = false
      rw [h1race, hr, hab]; rfl
    · show (s1.uaf || (s1.freed && !false)) = false
      rw [h1uaf, hu, h1freed, ha.freed]; rfl
    · show (s1.doubleFree || (s1.freed && false)) = false
      rw [h1df, hd, h1freed, ha.freed]; rfl

theorem inv_init {n} (hn : 0 < n) : Inv n init := by
  have hcount : total init n = 1 := by
    unfold total
    rw [sumTo_split _ hn]
    have : sumTo (fun u => if u = 0 then 0 else (init.th u).handles) n = 0 :=
      sumTo_zero_fun n _ (fun u _ => by
        by_cases e : u = 0
        · simp [e]
        · simp [e, init])
    rw [this]; rfl
  refine
    { mo_ne := by simp [init]
      seen_lt := fun u _ => by simp [init]
      count := by rw [hcount]; rfl
      failed_h := fun u _ hp => by simp [init] at hp
      dying := fun u _ hd => by rcases hd with hd | hd <;> simp [init] at hd
      ctrl0 := fun hc => by simp [init] at hc
      freed_ctrl := fun hf => by simp [init] at hf
      safe := ⟨rfl, rfl, rfl⟩
      noStale := fun t _ _ k m _ hk => by simp [init] at hk
      covR := fun _ u _ => Or.inl (Nat.zero_le _)
      covW := fun v _ hhv w e hl => by
        have hv0 : v = 0 := by
          by_cases e : v = 0
          · exact e
          · simp [init, e] at hhv
        subst hv0
        have : init.lastWrite = some (0, 1) := rfl
        rw [this] at hl; cases hl
        simp [init, tick]
      covW0 := fun _ h0 => by simp [init, latest] at h0
      loaded := fun t _ hp => by simp [init] at hp
      droppedSeen := fun t _ hp => by simp [init] at hp }

theorem Sufficient.spec {o : Ords} (hs : Sufficient o = true) :
    o.dropSub.isRel = true ∧ o.dropLoad.isAcq = true ∧ o.toVecCasOk.isAcq = true ∧
      o.uniqueLoad.isAcq = true := by
  simp only [Sufficient, Bool.and_eq_true] at hs
  exact ⟨hs.1.1.1, hs.1.1.2, hs.1.2, hs.2⟩

theorem setTh_id_of {s : St} {t : Nat} {f : Thread → Thread} (h : f (s.th t) = s.th t) :
    setTh s t f = s := by
  unfold setTh
  have : (fun u => if u = t then f (s.th t) else s.th u) = s.th := by
    funext u; by_cases e : u = t
    · subst e; simp [h]
    · simp [e]
  rw [this]

/-- the decrement half of a drop (also after a failed CAS) -/
theorem inv_sub {o : Ords} {n s t} (hs : Sufficient o = true) (h : Inv n s) (ht : t < n)
    (hh : 0 < (s.th t).handles) :
    Inv n (let r := rmw s t o.dropSub (· - 1)
           setTh r.1 t fun T => { T with handles := T.handles - 1, pc := if r.2 = 1 then .dropped else .idle }) := by
  have hrel := (Sufficient.spec hs).1
  have ha := h.alive ht hh
  have := inv_rmw o.dropSub (· - 1) ((s.th t).handles - 1) (if (latest s).val = 1 then .dropped else .idle)
    h ht hh (by have := ha.val_pos; show (latest s).val - 1 + _ = _; omega) (fun _ => hrel)
    (by
      by_cases e : (latest s).val = 1
      · right; simp [e]
      · left; simp [e])
  have heq : (fun T : Thread => { T with handles := (s.th t).handles - 1, pc := if (latest s).val = 1 then Pc.dropped else Pc.idle }) ((rmw s t o.dropSub (· - 1)).1.th t)
      = (fun T : Thread => { T with handles := T.handles - 1, pc := if (rmw s t o.dropSub (· - 1)).2 = 1 then Pc.dropped else Pc.idle }) ((rmw s t o.dropSub (· - 1)).1.th t) := by
    simp [rmw_th_self, rmw_val]
    rfl
  show Inv n (setTh _ t _)
  unfold setTh at this ⊢
  rw [heq] at this
  exact this

theorem inv_step {o : Ords} {n s s'} (hs : Sufficient o = true) (h : Inv n s) (hst : Step o n s s') :
    Inv n s' := by
  obtain ⟨hrel, hdl, htv, hul⟩ := Sufficient.spec hs
  cases hst with
  | read t ht hh hp => exact inv_read h ht hh
  | clone t ht hh hp =>
    have := inv_rmw o.cloneAdd (· + 1) ((s.th t).handles + 1) .idle h ht hh (by show (latest s).val + 1 + _ = _; omega)
      (fun h0 => by omega) (Or.inl rfl)
    have heq : (fun T : Thread => { T with handles := (s.th t).handles + 1, pc := Pc.idle }) ((rmw s t o.cloneAdd (· + 1)).1.th t)
        = (fun T : Thread => { T with handles := T.handles + 1 }) ((rmw s t o.cloneAdd (· + 1)).1.th t) := by
      simp [rmw_th_self, hp]
    unfold setTh at this ⊢
    rw [heq] at this
    exact this
  | send t u ht hu hne hh hp => exact inv_send h ht hu hne hh hp
  | dropSub t ht hh hp => exact inv_sub hs h ht hh
  | dropLoad t k s1 v ht hp hl =>
    have h1 := inv_load h hl
    obtain ⟨m, hk, hm, _, rfl⟩ := load_spec hl
    have hds := h.droppedSeen t ht hp
    have hklen : k < s.mo.length := (List.getElem?_eq_some_iff.mp hm).1
    have hkk : k = s.mo.length - 1 := by omega
    rw [hkk, getElem?_last h.mo_ne] at hm
    cases hm
    refine inv_local h1 (by rfl) (by rfl) (by rfl) (by rfl) (by rfl) (by rfl) (by rfl) (by rfl) ?_ ?_ ?_ ?_
    · intro v; by_cases e : v = t
      · subst e; simp [setTh]
      · simp [setTh, e]
    · intro v hv; by_cases e : v = t
      · subst e; right; right
        refine ⟨by simp [setTh], by simp; exact hp, ?_⟩
        intro u
        simp [setTh, hdl]
        exact le_join_right _ _ _
      · left; simp [setTh, e]
    · intro v u; by_cases e : v = t
      · subst e; simp [setTh]
      · simp [setTh, e]
    · intro v hv; by_cases e : v = t
      · subst e; simp [setTh]; omega
      · simp [setTh, e]; exact h.seen_lt v hv
  | dropFree t ht hp => exact inv_dropFree h ht hp
  | toVecOk t ht hh hp h1 => exact inv_toVecOk o.toVecCasOk _ htv h ht hh hp h1
  | toVecFail t k s1 v ht hh hp hl hv =>
    have h1 := inv_load h hl
    obtain ⟨m, hk, hm, _, rfl⟩ := load_spec hl
    have h2 := inv_read (t := t) h1 ht (by simp; exact hh)
    refine inv_local h2 (by rfl) (by rfl) (by rfl) (by rfl) (by rfl) (by rfl) (by rfl) (by rfl) ?_ ?_ ?_ ?_
    · intro v; by_cases e : v = t
      · subst e; simp [setTh]
      · simp [setTh, e]
    · intro v hv; by_cases e : v = t
      · subst e; right; left
        exact ⟨by simp [setTh], by simp [doRead]; exact hh⟩
      · left; simp [setTh, e]
    · intro v u; by_cases e : v = t
      · subst e; simp [setTh]
      · simp [setTh, e]
    · intro v hv; by_cases e : v = t
      · subst e; simp [setTh]; exact h2.seen_lt v hv
      · simp [setTh, e]; exact h2.seen_lt v hv
  | toVecFailDrop t ht hp => exact inv_sub hs h ht (h.failed_h t ht hp)
  | uniqueOk t k s1 v ht hh hp hl hv =>
    have h1 := inv_load h hl
    obtain ⟨m, hk, hm, hvm, rfl⟩ := load_spec hl
    have hklen : k < s.mo.length := (List.getElem?_eq_some_iff.mp hm).1
    have hkk : k = s.mo.length - 1 := by
      by_cases hk2 : k + 1 < s.mo.length
      · have := h.noStale t ht hh k m hk hk2 hm; omega
      · omega
    rw [hkk, getElem?_last h.mo_ne] at hm
    cases hm
    have h2 := inv_write (t := t) h1 ht (by simp; exact hh) (by show (latest s).val = 1; rw [latest_eq]; omega)
      (by
        intro u
        simp [hul]
        exact le_join_right _ _ _)
    refine inv_local h2 (by rfl) (by rfl) (by rfl) (by rfl) (by rfl) (by rfl) (by rfl) (by rfl) ?_ ?_ ?_ ?_
    · intro v; by_cases e : v = t
      · subst e; simp [setTh]
      · simp [setTh, e]
    · intro v hv; left; by_cases e : v = t
      · subst e; simp [setTh]
      · simp [setTh, e]
    · intro v u; by_cases e : v = t
      · subst e; simp [setTh]
      · simp [setTh, e]
    · intro v hv; by_cases e : v = t
      · subst e; simp [setTh]; exact h2.seen_lt v hv
      · simp [setTh, e]; exact h2.seen_lt v hv

/-- `dropLoad` with the result of the load left implicit (for building concrete executions) -/
theorem Step.dropLoad' {o n} (s : St) (t k : Nat) (ht : t < n) (hp : (s.th t).pc = .dropped)
    (h : (load s t o.dropLoad k).isSome = true) :
    Step o n s (setTh ((load s t o.dropLoad k).get h).1 t fun T => { T with pc := .loadedFree }) :=
  Step.dropLoad s t k _ ((load s t o.dropLoad k).get h).2 ht hp (Option.eq_some_of_isSome h)

/-- `uniqueOk` with the result of the load left implicit (for building concrete executions) -/
theorem Step.uniqueOk' {o n} (s : St) (t k : Nat) (ht : t < n) (hh : 0 < (s.th t).handles) (hp : (s.th t).pc = .idle)
    (h : (load s t o.uniqueLoad k).isSome = true) (hv : ((load s t o.uniqueLoad k).get h).2 = 1) :
    Step o n s ({ (doWrite ((load s t o.uniqueLoad k).get h).1 t n false) with exclusiveCount := s.exclusiveCount + (if (s.th t).exclusive then 0 else 1) } |>
                  fun s2 => setTh s2 t fun T => { T with exclusive := true }) :=
  Step.uniqueOk s t k _ _ ht hh hp (Option.eq_some_of_isSome h) hv

theorem reach_zero {o : Ords} {s} (hr : Reach o 0 s) : s = init := by
  induction hr with
  | init => rfl
  | step _ hst _ => cases hst <;> omega

theorem reach_inv {o : Ords} {n s} (hs : Sufficient o = true) (hn : 0 < n) (hr : Reach o n s) :
    Inv n s := by
  induction hr with
  | init => exact inv_init hn
  | step _ hst ih => exact inv_step hs ih hst

end BytesVerif.Conc
