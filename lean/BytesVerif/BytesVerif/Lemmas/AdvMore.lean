/-
Helper lemmas for the round-8 consumers of M6 (Model/Adv.lean: Take / Chain / Limit around the adversary):
safety (never `ub`) and the bounds the wrappers keep whatever the adversary claims.
-/
import BytesVerif.Lemmas.Adv
namespace BytesVerif.Adv

theorem takeRemaining_safe (b : AdvBuf) (limit : Nat) : Safe (takeRemaining b limit) := by
  unfold takeRemaining
  exact Safe.bind (remaining_safe b) fun _ _ => safe_pure _

theorem takeChunk_safe (b : AdvBuf) (limit : Nat) : Safe (takeChunk b limit) := by
  unfold takeChunk
  exact Safe.bind (chunk_safe b) fun _ _ => sliceTo_safe _ _

theorem takeChunk_length {b : AdvBuf} {limit : Nat} {s : Bs} (h : takeChunk b limit = .ok s) : s.length ≤ limit := by
  unfold takeChunk at h
  obtain ⟨c, _, h⟩ := bind_eq_ok h
  have := sliceTo_length h
  omega

theorem takeAdvance_safe (b : AdvBuf) (limit cnt : Nat) : Safe (takeAdvance b limit cnt) := by
  unfold takeAdvance
  exact Safe.ite (fun _ => safe_panic) fun _ => Safe.bind (advance_safe _ _) fun _ _ => safe_pure _

theorem takeAdvance_eq_ok {b b' : AdvBuf} {limit cnt limit' : Nat} (h : takeAdvance b limit cnt = .ok (b', limit')) :
    cnt ≤ limit ∧ limit' = limit - cnt := by
  unfold takeAdvance at h
  split at h
  · cases h
  · obtain ⟨b1, _, h⟩ := bind_eq_ok h
    simp only [pure_eq, Res.ok.injEq, Prod.mk.injEq] at h
    exact ⟨by omega, h.2.symm⟩

theorem reserveCap_ge (len cap n : Nat) : n ≤ reserveCap len cap n - len := by
  unfold reserveCap; split <;> omega

theorem reserveCap_mono (len cap n : Nat) (h : len ≤ cap) : len + n ≤ reserveCap len cap n := by
  unfold reserveCap; split <;> omega

theorem putGrowTakeLoop_safe (fuel : Nat) (b : AdvBuf) (limit len cap : Nat) :
    Safe (putGrowTakeLoop fuel b limit len cap) := by
  induction fuel generalizing b limit len cap with
  | zero => simp [putGrowTakeLoop]
  | succ fuel ih =>
    simp only [putGrowTakeLoop]
    refine Safe.bind (takeRemaining_safe b limit) fun r _ => ?_
    apply Safe.ite (fun _ => safe_pure _) fun _ => ?_
    refine Safe.bind (takeChunk_safe b limit) fun s _ => ?_
    refine Safe.bind (unsafeWrite_safe_of_le (reserveCap_ge _ _ _)) fun _ _ => ?_
    refine Safe.bind (takeAdvance_safe _ _ _) fun p _ => ?_
    exact ih _ _ _ _

/-- what `put(src.take(limit))` appends is at most `limit` bytes and the destination keeps `len ≤ cap` -/
theorem putGrowTakeLoop_inv (fuel : Nat) (b : AdvBuf) (limit len cap len' cap' : Nat) (h : len ≤ cap)
    (hr : putGrowTakeLoop fuel b limit len cap = .ok (len', cap')) : len' ≤ len + limit ∧ len ≤ len' ∧ len' ≤ cap' := by
  induction fuel generalizing b limit len cap with
  | zero => simp [putGrowTakeLoop] at hr
  | succ fuel ih =>
    simp only [putGrowTakeLoop] at hr
    obtain ⟨r, _, hr⟩ := bind_eq_ok hr
    split at hr
    · simp only [pure_eq, Res.ok.injEq, Prod.mk.injEq] at hr
      obtain ⟨rfl, rfl⟩ := hr
      omega
    · obtain ⟨s, hs, hr⟩ := bind_eq_ok hr
      obtain ⟨_, _, hr⟩ := bind_eq_ok hr
      obtain ⟨⟨b1, l1⟩, ha, hr⟩ := bind_eq_ok hr
      have hsl := takeChunk_length hs
      obtain ⟨_, rfl⟩ := takeAdvance_eq_ok ha
      have hm := reserveCap_mono len cap s.length h
      have := ih _ _ _ _ hm hr
      omega

theorem defaultCopyToBytes_safe (fuel : Nat) (b : AdvBuf) (len : Nat) : Safe (defaultCopyToBytes fuel b len) := by
  unfold defaultCopyToBytes
  refine Safe.bind (remaining_safe b) fun r _ => ?_
  apply Safe.ite (fun _ => safe_panic) fun _ => ?_
  exact Safe.bind (putGrowTakeLoop_safe _ _ _ _ _) fun _ _ => safe_pure _

theorem defaultCopyToBytes_le (fuel : Nat) (b : AdvBuf) (len n : Nat)
    (hr : defaultCopyToBytes fuel b len = .ok n) : n ≤ len := by
  unfold defaultCopyToBytes at hr
  obtain ⟨r, _, hr⟩ := bind_eq_ok hr
  split at hr
  · cases hr
  · obtain ⟨⟨n', c'⟩, hp, hr⟩ := bind_eq_ok hr
    simp only [pure_eq, Res.ok.injEq] at hr
    subst hr
    have := putGrowTakeLoop_inv _ _ _ _ _ _ _ (Nat.zero_le _) hp
    omega

theorem takeCopyToBytes_safe (fuel : Nat) (b : AdvBuf) (lim len : Nat) : Safe (takeCopyToBytes fuel b lim len) := by
  unfold takeCopyToBytes
  refine Safe.bind (takeRemaining_safe b lim) fun r _ => ?_
  exact Safe.ite (fun _ => safe_panic) fun _ => defaultCopyToBytes_safe _ _ _

theorem chainCopyToBytes_safe (fuel : Nat) (b : AdvBuf) (bLen len : Nat) : Safe (chainCopyToBytes fuel b bLen len) := by
  unfold chainCopyToBytes
  refine Safe.bind (remaining_safe b) fun r _ => ?_
  apply Safe.ite (fun _ => defaultCopyToBytes_safe _ _ _) fun _ => ?_
  apply Safe.ite (fun _ => Safe.ite (fun _ => safe_panic) fun _ => safe_pure _) fun _ => ?_
  apply Safe.ite (fun _ => safe_panic) fun _ => ?_
  refine Safe.bind (putGrowLoop_safe _ _ _ _) fun p _ => ?_
  refine Safe.bind (unsafeWrite_safe_of_le ?_) fun _ _ => safe_pure _
  simpa using reserveCap_ge p.1 p.2 (len - r)

theorem chainChunksVectored_safe (b : AdvBuf) (bLen : Nat) : Safe (chainChunksVectored b bLen) := by
  unfold chainChunksVectored
  refine Safe.bind (remaining_safe b) fun r _ => ?_
  apply Safe.ite (fun _ => safe_pure _) fun _ => ?_
  exact Safe.bind (chunk_safe b) fun _ _ => safe_pure _

/-- never more slices than the caller's array holds (`dst.len() ≥ 2`) -/
theorem chainChunksVectored_le (b : AdvBuf) (bLen n : Nat) (hr : chainChunksVectored b bLen = .ok n) : n ≤ 2 := by
  unfold chainChunksVectored at hr
  obtain ⟨r, _, hr⟩ := bind_eq_ok hr
  split at hr
  · simp only [pure_eq, Res.ok.injEq] at hr; subst hr; split <;> omega
  · obtain ⟨c, _, hr⟩ := bind_eq_ok hr
    simp only [pure_eq, Res.ok.injEq] at hr; subst hr
    split
    · split <;> omega
    · omega

theorem chainGetFixed_safe (fuel : Nat) (pre : Bs) (b : AdvBuf) (size : Nat) : Safe (chainGetFixed fuel pre b size) := by
  unfold chainGetFixed
  refine Safe.bind (remaining_safe b) fun r _ => ?_
  apply Safe.ite (fun _ => safe_panic) fun _ => ?_
  exact Safe.bind (tryCopyLoop_safe _ _ _ _) fun _ _ => safe_pure _

theorem chainGetFixed_len (fuel : Nat) (pre : Bs) (b : AdvBuf) (size : Nat) (bs : Bs) (hp : pre.length ≤ size)
    (hr : chainGetFixed fuel pre b size = .ok bs) : bs.length = size := by
  unfold chainGetFixed at hr
  obtain ⟨r, _, hr⟩ := bind_eq_ok hr
  split at hr
  · cases hr
  · obtain ⟨⟨bs', b'⟩, hl, hr⟩ := bind_eq_ok hr
    simp only [pure_eq, Res.ok.injEq] at hr
    subst hr
    have := tryCopyLoop_len _ _ _ _ _ _ hl
    omega

theorem putLimitLoop_safe (fuel : Nat) (b : AdvBuf) (limit len cap : Nat) :
    Safe (putLimitLoop fuel b limit len cap) := by
  induction fuel generalizing b limit len cap with
  | zero => simp [putLimitLoop]
  | succ fuel ih =>
    simp only [putLimitLoop]
    refine Safe.bind (remaining_safe b) fun r _ => ?_
    apply Safe.ite (fun _ => safe_pure _) fun _ => ?_
    refine Safe.bind (chunk_safe b) fun s _ => ?_
    refine Safe.bind (sliceTo_safe _ _) fun _ _ => ?_
    apply Safe.ite (fun _ => safe_panic) fun _ => ?_
    apply Safe.ite (fun _ => safe_panic) fun _ => ?_
    refine Safe.bind (advance_safe _ _) fun b' _ => ?_
    exact ih _ _ _ _

theorem putLimit_safe (fuel : Nat) (b : AdvBuf) (limit len cap : Nat) : Safe (putLimit fuel b limit len cap) := by
  unfold putLimit
  refine Safe.bind (remaining_safe b) fun r _ => ?_
  exact Safe.ite (fun _ => safe_panic) fun _ => putLimitLoop_safe _ _ _ _ _

/-- `Limit` under a lying source: bytes written plus the limit left is the limit it had, and `len ≤ cap` is kept -/
theorem putLimitLoop_inv (fuel : Nat) (b : AdvBuf) (limit len cap len' cap' limit' : Nat) (h : len ≤ cap)
    (hr : putLimitLoop fuel b limit len cap = .ok (len', cap', limit')) :
    len' + limit' = len + limit ∧ len' ≤ cap' := by
  induction fuel generalizing b limit len cap with
  | zero => simp [putLimitLoop] at hr
  | succ fuel ih =>
    simp only [putLimitLoop] at hr
    obtain ⟨r, _, hr⟩ := bind_eq_ok hr
    split at hr
    · simp only [pure_eq, Res.ok.injEq, Prod.mk.injEq] at hr
      obtain ⟨rfl, rfl, rfl⟩ := hr
      exact ⟨rfl, h⟩
    · obtain ⟨s, _, hr⟩ := bind_eq_ok hr
      obtain ⟨_, _, hr⟩ := bind_eq_ok hr
      split at hr
      · cases hr
      · split at hr
        · cases hr
        · obtain ⟨b1, _, hr⟩ := bind_eq_ok hr
          have hc : len ≤ chunkMutCap len cap := by unfold chunkMutCap; split <;> omega
          have := ih _ _ _ _ (by omega) hr
          omega

end BytesVerif.Adv
