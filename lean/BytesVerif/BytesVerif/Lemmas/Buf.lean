/- Helper lemmas for the Buf adapter-tree model (M2). -/
import BytesVerif.Model.Buf
namespace BytesVerif.Buf

/-! ### arithmetic / list basics -/

theorem satAdd_eq {a b : Nat} (h : a + b < W) : satAdd a b = a + b := by
  simp [satAdd, h]

theorem satAdd_eq_zero {a b : Nat} (h : satAdd a b = 0) : a = 0 ∧ b = 0 := by
  unfold satAdd at h
  have hW := W_eq
  split at h <;> omega

theorem prefix_eq_take {l1 l2 : Bs} (h : l1 <+: l2) : l1 = l2.take l1.length := by
  obtain ⟨t, rfl⟩ := h
  simp

theorem prefix_append_drop {l1 l2 : Bs} (h : l1 <+: l2) : l1 ++ l2.drop l1.length = l2 := by
  obtain ⟨t, rfl⟩ := h
  simp

theorem prefix_nil {l : Bs} (h : l <+: []) : l = [] := by
  simpa using h

theorem take_take_drop (l : Bs) (c n : Nat) (h : c ≤ n) :
    l.take c ++ (l.drop c).take (n - c) = l.take n := by
  have : n = c + (n - c) := by omega
  conv => rhs; rw [this, List.take_add]

/-! ### `seg` leaves -/

theorem segChunk_prefix (cs : List Bs) : segChunk cs <+: cs.flatten := by
  induction cs with
  | nil => simp [segChunk]
  | cons c r ih =>
    simp only [segChunk, List.flatten_cons]
    split
    · next hc => subst hc; simpa using ih
    · exact List.prefix_append _ _

theorem segChunk_nil_iff (cs : List Bs) : segChunk cs = [] ↔ cs.flatten = [] := by
  induction cs with
  | nil => simp [segChunk]
  | cons c r ih =>
    simp only [segChunk, List.flatten_cons, List.append_eq_nil_iff]
    split
    · next hc => subst hc; simpa using ih
    · next hc => simp [hc]

theorem segAdvance_flatten (cs : List Bs) (n : Nat) :
    (segAdvance cs n).flatten = cs.flatten.drop n := by
  induction cs generalizing n with
  | nil => simp [segAdvance]
  | cons c r ih =>
    simp only [segAdvance, List.flatten_cons]
    split
    · next hlt =>
      simp only [List.flatten_cons]
      rw [List.drop_append_of_le_length (Nat.le_of_lt hlt)]
    · next hge =>
      rw [ih, List.drop_append, List.drop_eq_nil_of_le (Nat.le_of_not_lt hge)]
      simp

/-! ### `remaining`, `chunk` -/

theorem remaining_eq' (b : BufT) (h : wf b) : remaining b = (den b).length := by
  induction b with
  | seg cs => rfl
  | flat k bs => rfl
  | cursor d p => simp [remaining, den]
  | deque s1 s2 => simp [remaining, den]
  | chain a b iha ihb =>
    obtain ⟨ha, hb, hlt⟩ := h
    simp only [remaining, den, List.length_append]
    rw [iha ha, ihb hb, satAdd_eq hlt]
  | take i n ih =>
    obtain ⟨hi, _⟩ := h
    simp only [remaining, den, List.length_take]
    rw [ih hi]; exact Nat.min_comm _ _
  | refMut i ih => exact ih h
  | box i ih => exact ih h

theorem den_nil_of_remaining {b : BufT} (h : wf b) (h0 : remaining b = 0) : den b = [] := by
  rw [remaining_eq' b h] at h0
  exact List.eq_nil_of_length_eq_zero h0

theorem remaining_chain {a b : BufT} (h : wf (.chain a b)) :
    remaining (.chain a b) = (den a).length + (den b).length := by
  rw [remaining_eq' _ h]; simp [den]

theorem chunk_prefix' (b : BufT) (h : wf b) : chunk b <+: den b := by
  induction b with
  | seg cs => exact segChunk_prefix cs
  | flat k bs => exact List.prefix_refl _
  | cursor d p =>
    simp only [chunk, den]
    by_cases hp : p ≤ d.length
    · rw [Nat.min_eq_left hp]; exact List.prefix_refl _
    · have hp' : d.length ≤ p := by omega
      rw [Nat.min_eq_right hp', List.drop_eq_nil_of_le hp', List.drop_eq_nil_of_le (Nat.le_refl _)]
      exact List.prefix_refl _
  | deque s1 s2 =>
    simp only [chunk, den]
    split
    · next h1 => subst h1; simp
    · exact List.prefix_append _ _
  | chain a b iha ihb =>
    obtain ⟨ha, hb, _⟩ := h
    simp only [chunk, den]
    split
    · exact (iha ha).trans (List.prefix_append _ _)
    · next h0 =>
      have : den a = [] := den_nil_of_remaining ha (by omega)
      rw [this]; simpa using ihb hb
  | take i n ih =>
    obtain ⟨hi, _⟩ := h
    simp only [chunk, den]
    have : min (chunk i).length n ≤ n := Nat.min_le_right _ _
    have h1 : (chunk i).take (min (chunk i).length n) = (chunk i).take n := by
      by_cases hc : (chunk i).length ≤ n
      · rw [Nat.min_eq_left hc, List.take_of_length_le hc, List.take_of_length_le (Nat.le_refl _)]
      · rw [Nat.min_eq_right (by omega)]
    rw [h1]
    obtain ⟨t, ht⟩ := ih hi
    rw [← ht, List.take_append]
    exact List.prefix_append _ _
  | refMut i ih => exact ih h
  | box i ih => exact ih h

theorem chunk_nil_iff' (b : BufT) (h : wf b) : chunk b = [] ↔ remaining b = 0 := by
  induction b with
  | seg cs =>
    simp only [chunk, remaining]
    rw [segChunk_nil_iff]; exact List.length_eq_zero_iff.symm
  | flat k bs => simp only [chunk, remaining]; exact List.length_eq_zero_iff.symm
  | cursor d p =>
    simp only [chunk, remaining]
    rw [List.drop_eq_nil_iff]
    omega
  | deque s1 s2 =>
    obtain ⟨_, h12⟩ := h
    simp only [chunk, remaining]
    split
    · next h1 => subst h1; simp [h12 rfl]
    · next h1 =>
      have : 0 < s1.length := List.length_pos_iff.mpr h1
      simp only [h1, false_iff]; omega
  | chain a b iha ihb =>
    obtain ⟨ha, hb, hlt⟩ := h
    have ra := remaining_eq' a ha
    have rb := remaining_eq' b hb
    simp only [chunk, remaining]
    rw [satAdd_eq (by omega)]
    split
    · next hpos => rw [iha ha]; omega
    · next h0 => rw [ihb hb]; omega
  | take i n ih =>
    obtain ⟨hi, _⟩ := h
    simp only [chunk, remaining]
    rw [List.take_eq_nil_iff]
    have hl : (chunk i).length = 0 ↔ remaining i = 0 := by
      rw [List.length_eq_zero_iff]; exact ih hi
    rw [ih hi]
    omega
  | refMut i ih => exact ih h
  | box i ih => exact ih h

theorem chunk_length_le (b : BufT) (h : wf b) : (chunk b).length ≤ remaining b := by
  rw [remaining_eq' b h]; exact (chunk_prefix' b h).length_le

/-! ### `advance` -/

/-- chain case of `advance`, given the facts for the two children -/
theorem advance_chain_aux (a b : BufT) (n : Nat) (ha : wf a) (hb : wf b)
    (iha : ∀ n, n ≤ remaining a → ∃ a', advance a n = .ok a' ∧ den a' = (den a).drop n ∧ wf a')
    (ihb : ∀ n, n ≤ remaining b → ∃ b', advance b n = .ok b' ∧ den b' = (den b).drop n ∧ wf b')
    (hn : n ≤ (den a).length + (den b).length) :
    ∃ a' b', advance (.chain a b) n = .ok (.chain a' b') ∧
      den a' = (den a).drop n ∧ den b' = (den b).drop (n - (den a).length) ∧ wf a' ∧ wf b' := by
  have ra := remaining_eq' a ha
  have rb := remaining_eq' b hb
  simp only [advance]
  by_cases h0 : remaining a = 0
  · have hda : den a = [] := den_nil_of_remaining ha h0
    have hl : (den a).length = 0 := by rw [hda]; rfl
    obtain ⟨b', hb', hd, hw⟩ := ihb n (by omega)
    refine ⟨a, b', ?_, ?_, ?_, ha, hw⟩
    · simp [h0, hb', Res.map]
    · simp [hda]
    · rw [hd, hl]; rfl
  · by_cases hge : n ≤ remaining a
    · obtain ⟨a', ha', hd, hw⟩ := iha n hge
      refine ⟨a', b, ?_, hd, ?_, hw, hb⟩
      · simp [h0, hge, ha', Res.map]
      · have : n - (den a).length = 0 := by omega
        rw [this]; rfl
    · obtain ⟨a', ha', hda, hwa⟩ := iha (remaining a) (Nat.le_refl _)
      obtain ⟨b', hb', hdb, hwb⟩ := ihb (n - remaining a) (by omega)
      refine ⟨a', b', ?_, ?_, ?_, hwa, hwb⟩
      · simp [h0, hge, ha', hb', Res.map, Res.bind]
      · rw [hda, List.drop_eq_nil_of_le (by omega), List.drop_eq_nil_of_le (by omega)]
      · rw [hdb, ra]

theorem advance_ok' (b : BufT) (n : Nat) (h : wf b) (hn : n ≤ remaining b) :
    ∃ b', advance b n = .ok b' ∧ den b' = (den b).drop n ∧ wf b' := by
  induction b generalizing n with
  | seg cs =>
    simp only [remaining] at hn
    refine ⟨.seg (segAdvance cs n), ?_, ?_, ?_⟩
    · simp only [advance]; rw [if_neg (Nat.not_lt.mpr hn)]
    · simp [den, segAdvance_flatten]
    · simp only [wf, segAdvance_flatten, List.length_drop] at h ⊢; omega
  | flat k bs =>
    simp only [remaining] at hn
    refine ⟨.flat k (bs.drop n), ?_, rfl, ?_⟩
    · simp [advance, Nat.not_lt.mpr hn]
    · simp only [wf, List.length_drop] at h ⊢; omega
  | cursor d p =>
    simp only [remaining] at hn
    obtain ⟨hd, hp⟩ := h
    refine ⟨.cursor d (p + n), ?_, ?_, ?_⟩
    · simp [advance, Nat.not_lt.mpr hn]
    · simp [den, List.drop_drop]
    · refine ⟨hd, ?_⟩; omega
  | deque s1 s2 =>
    simp only [remaining] at hn
    obtain ⟨hl, h12⟩ := h
    simp only [advance, Nat.not_lt.mpr hn, if_false]
    by_cases h1 : n < s1.length
    · refine ⟨.deque (s1.drop n) s2, by simp [h1], ?_, ?_⟩
      · simp only [den]; rw [List.drop_append_of_le_length (Nat.le_of_lt h1)]
      · refine ⟨by simp only [List.length_drop]; omega, ?_⟩
        intro hnil
        have : (s1.drop n).length = 0 := by rw [hnil]; rfl
        simp only [List.length_drop] at this; omega
    · refine ⟨.deque (s2.drop (n - s1.length)) [], by simp [h1], ?_, ?_⟩
      · simp only [den, List.append_nil]
        rw [List.drop_append, List.drop_eq_nil_of_le (Nat.le_of_not_lt h1)]; rfl
      · refine ⟨by simp only [List.length_drop, List.length_nil]; omega, fun _ => rfl⟩
  | chain a b iha ihb =>
    obtain ⟨ha, hb, hlt⟩ := h
    have hn' : n ≤ (den a).length + (den b).length := by
      rw [remaining_chain ⟨ha, hb, hlt⟩] at hn; exact hn
    obtain ⟨a', b', he, hda, hdb, hwa, hwb⟩ :=
      advance_chain_aux a b n ha hb (fun n hn => iha n ha hn) (fun n hn => ihb n hb hn) hn'
    refine ⟨_, he, ?_, hwa, hwb, ?_⟩
    · simp only [den, hda, hdb, List.drop_append]
    · rw [hda, hdb]; simp only [List.length_drop]; omega
  | take i lim ih =>
    obtain ⟨hi, hlim⟩ := h
    simp only [remaining] at hn
    obtain ⟨i', hi', hd, hw⟩ := ih n hi (by omega)
    refine ⟨.take i' (lim - n), ?_, ?_, hw, by omega⟩
    · have : n ≤ lim := by omega
      simp [advance, this, hi', Res.map]
    · simp only [den, hd, List.drop_take]
  | refMut i ih =>
    obtain ⟨i', hi', hd, hw⟩ := ih n h hn
    exact ⟨.refMut i', by simp [advance, hi', Res.map], hd, hw⟩
  | box i ih =>
    obtain ⟨i', hi', hd, hw⟩ := ih n h hn
    exact ⟨.box i', by simp [advance, hi', Res.map], hd, hw⟩

theorem advance_panic' (b : BufT) (n : Nat) (h : wf b) (hn : remaining b < n) :
    advance b n = .panic := by
  induction b generalizing n with
  | seg cs => simp only [remaining] at hn; simp only [advance]; rw [if_pos hn]
  | flat k bs => simp only [remaining] at hn; simp [advance, hn]
  | cursor d p => simp only [remaining] at hn; simp [advance, hn]
  | deque s1 s2 => simp only [remaining] at hn; simp [advance, hn]
  | chain a b iha ihb =>
    have hr := remaining_chain h
    obtain ⟨ha, hb, hlt⟩ := h
    have ra := remaining_eq' a ha
    have rb := remaining_eq' b hb
    simp only [advance]
    by_cases h0 : remaining a = 0
    · simp [h0, ihb n hb (by omega), Res.map]
    · have hge : ¬ n ≤ remaining a := by omega
      obtain ⟨a', ha', -, -⟩ := advance_ok' a (remaining a) ha (Nat.le_refl _)
      simp [h0, hge, ha', ihb (n - remaining a) hb (by omega), Res.map, Res.bind]
  | take i lim ih =>
    obtain ⟨hi, _⟩ := h
    simp only [remaining] at hn
    simp only [advance]
    split
    · rw [ih n hi (by omega)]; rfl
    · rfl
  | refMut i ih => simp [advance, ih n h hn, Res.map]
  | box i ih => simp [advance, ih n h hn, Res.map]

/-! ### shape of `advance` results -/

theorem advance_chain_inner (a b : BufT) (n : Nat) (h : wf (.chain a b))
    (hn : n ≤ remaining (.chain a b)) :
    ∃ a' b', advance (.chain a b) n = .ok (.chain a' b') ∧
      den a' = (den a).drop n ∧ den b' = (den b).drop (n - (den a).length) ∧ wf a' ∧ wf b' := by
  rw [remaining_chain h] at hn
  obtain ⟨ha, hb, _⟩ := h
  exact advance_chain_aux a b n ha hb (fun n hn => advance_ok' a n ha hn)
    (fun n hn => advance_ok' b n hb hn) hn

theorem advance_take_shape {i : BufT} {lim n : Nat} {x : BufT}
    (h : advance (.take i lim) n = .ok x) :
    ∃ i', x = .take i' (lim - n) ∧ advance i n = .ok i' := by
  simp only [advance] at h
  split at h
  · cases hi : advance i n with
    | ok i' => rw [hi] at h; simp only [Res.map, Res.ok.injEq] at h; exact ⟨i', h.symm, rfl⟩
    | panic => rw [hi] at h; simp [Res.map] at h
  · cases h

theorem advance_refMut_shape {i : BufT} {n : Nat} {x : BufT}
    (h : advance (.refMut i) n = .ok x) :
    ∃ i', x = .refMut i' ∧ advance i n = .ok i' := by
  simp only [advance] at h
  cases hi : advance i n with
  | ok i' => rw [hi] at h; simp only [Res.map, Res.ok.injEq] at h; exact ⟨i', h.symm, rfl⟩
  | panic => rw [hi] at h; simp [Res.map] at h

/-! ### `Adv b c b'`: `b'` is reached from `b` by in-range `advance` calls totalling `c` bytes -/

inductive Adv : BufT → Nat → BufT → Prop where
  | refl (b : BufT) : Adv b 0 b
  | step {b b1 b' : BufT} {m c : Nat} : wf b → m ≤ remaining b → advance b m = .ok b1 →
      Adv b1 c b' → Adv b (m + c) b'

theorem Adv.cast {b b' : BufT} {c d : Nat} (h : Adv b c b') (e : c = d) : Adv b d b' := e ▸ h

theorem Adv.spec {b b' : BufT} {c : Nat} (h : Adv b c b') (hw : wf b) :
    den b' = (den b).drop c ∧ wf b' := by
  induction h with
  | refl b => exact ⟨rfl, hw⟩
  | @step b b1 b' m c hwb hm ha _ ih =>
    obtain ⟨b2, h2, hd, hw2⟩ := advance_ok' b m hwb hm
    rw [ha] at h2; cases h2
    obtain ⟨hd', hw'⟩ := ih hw2
    refine ⟨?_, hw'⟩
    rw [hd', hd, List.drop_drop]

theorem Adv.take_shape {x y : BufT} {c : Nat} (h : Adv x c y) :
    ∀ i lim, x = .take i lim → ∃ i', y = .take i' (lim - c) ∧ Adv i c i' := by
  induction h with
  | refl b => intro i lim e; subst e; exact ⟨i, rfl, Adv.refl i⟩
  | @step b b1 b' m c hwb hm ha _ ih =>
    intro i lim e; subst e
    obtain ⟨i1, e1, hi1⟩ := advance_take_shape ha
    obtain ⟨i', ey, hadv⟩ := ih i1 (lim - m) e1
    refine ⟨i', ?_, Adv.step hwb.1 ?_ hi1 hadv⟩
    · rw [ey, Nat.sub_sub]
    · simp only [remaining] at hm; omega

theorem Adv.refMut_shape {x y : BufT} {c : Nat} (h : Adv x c y) :
    ∀ i, x = .refMut i → ∃ i', y = .refMut i' ∧ Adv i c i' := by
  induction h with
  | refl b => intro i e; subst e; exact ⟨i, rfl, Adv.refl i⟩
  | @step b b1 b' m c hwb hm ha _ ih =>
    intro i e; subst e
    obtain ⟨i1, e1, hi1⟩ := advance_refMut_shape ha
    obtain ⟨i', ey, hadv⟩ := ih i1 e1
    exact ⟨i', ey, Adv.step hwb hm hi1 hadv⟩

theorem Adv.chain_shape {x y : BufT} {c : Nat} (h : Adv x c y) :
    ∀ a b, x = .chain a b → wf (.chain a b) → ∃ a' b', y = .chain a' b' ∧
      den a' = (den a).drop c ∧ den b' = (den b).drop (c - (den a).length) ∧ wf a' ∧ wf b' := by
  induction h with
  | refl b => intro a b e hw; subst e; exact ⟨a, b, rfl, rfl, by simp, hw.1, hw.2.1⟩
  | @step b0 b1 b' m c hwb hm ha _ ih =>
    intro a b e hw; subst e
    obtain ⟨a1, b1', he, hda, hdb, hwa, hwb'⟩ := advance_chain_inner a b m hw hm
    rw [ha] at he; cases he
    have hw1 : wf (.chain a1 b1') := by
      refine ⟨hwa, hwb', ?_⟩
      have := hw.2.2
      rw [hda, hdb]; simp only [List.length_drop]; omega
    obtain ⟨a', b', ey, hda', hdb', hwa', hwb''⟩ := ih a1 b1' rfl hw1
    refine ⟨a', b', ey, ?_, ?_, hwa', hwb''⟩
    · rw [hda', hda, List.drop_drop]
    · rw [hdb', hdb, hda, List.drop_drop]
      simp only [List.length_drop]
      congr 1; omega

/-! ### the copy loop -/

theorem copyLoop_ok (fuel : Nat) (b : BufT) (need : Nat) (acc : Bs) (h : wf b)
    (hn : need ≤ remaining b) (hf : need ≤ fuel) :
    ∃ b', copyLoop fuel b need acc = .ok (acc ++ (den b).take need, b') ∧ Adv b need b' := by
  induction fuel generalizing b need acc with
  | zero =>
    have : need = 0 := by omega
    subst this
    exact ⟨b, by simp [copyLoop], Adv.refl b⟩
  | succ fuel ih =>
    by_cases h0 : need = 0
    · subst h0
      exact ⟨b, by simp [copyLoop], Adv.refl b⟩
    · have hrem : remaining b ≠ 0 := by omega
      have hcne : chunk b ≠ [] := fun e => hrem ((chunk_nil_iff' b h).mp e)
      have hcl : 0 < (chunk b).length := List.length_pos_iff.mpr hcne
      have hcr := chunk_length_le b h
      have hcnt : min (chunk b).length need ≤ remaining b := by omega
      obtain ⟨b1, hb1, hd1, hw1⟩ := advance_ok' b _ h hcnt
      have hr1 : remaining b1 = remaining b - min (chunk b).length need := by
        rw [remaining_eq' b1 hw1, hd1, List.length_drop, remaining_eq' b h]
      obtain ⟨b', hb', hadv⟩ := ih b1 (need - min (chunk b).length need)
        (acc ++ (chunk b).take (min (chunk b).length need)) hw1 (by omega) (by omega)
      refine ⟨b', ?_, (Adv.step h hcnt hb1 hadv).cast (by omega)⟩
      simp only [copyLoop, h0, if_false, hb1, Res.bind]
      rw [hb', hd1]
      have hpre : (chunk b).take (min (chunk b).length need)
          = (den b).take (min (chunk b).length need) := by
        obtain ⟨t, ht⟩ := chunk_prefix' b h
        rw [← ht, List.take_append_of_le_length (Nat.min_le_left _ _)]
      rw [hpre, List.append_assoc, take_take_drop _ _ _ (Nat.min_le_right _ _)]

theorem tryCopyToSlice_adv (b : BufT) (n : Nat) (h : wf b) (hn : n ≤ remaining b) :
    ∃ b', tryCopyToSlice b n = .ok (some ((den b).take n), b') ∧ Adv b n b' := by
  obtain ⟨b', hb', hadv⟩ := copyLoop_ok (n + 1) b n [] h hn (by omega)
  refine ⟨b', ?_, hadv⟩
  simp [tryCopyToSlice, Nat.not_lt.mpr hn, hb', Res.map]

theorem tryCopyToSlice_err' (b : BufT) (n : Nat) (hn : remaining b < n) :
    tryCopyToSlice b n = .ok (none, b) := by
  simp [tryCopyToSlice, hn]

/-! ### the drain loop -/

theorem drainLoop_ok (fuel : Nat) (b : BufT) (acc : Bs) (h : wf b) (hf : remaining b ≤ fuel) :
    ∃ b', drainLoop fuel b acc = .ok (acc ++ den b, b') ∧ Adv b (remaining b) b' := by
  induction fuel generalizing b acc with
  | zero =>
    have h0 : remaining b = 0 := by omega
    refine ⟨b, ?_, (Adv.refl b).cast h0.symm⟩
    simp [drainLoop, h0, den_nil_of_remaining h h0]
  | succ fuel ih =>
    by_cases h0 : remaining b = 0
    · refine ⟨b, ?_, (Adv.refl b).cast h0.symm⟩
      simp [drainLoop, h0, den_nil_of_remaining h h0]
    · have hcne : chunk b ≠ [] := fun e => h0 ((chunk_nil_iff' b h).mp e)
      have hcl : 0 < (chunk b).length := List.length_pos_iff.mpr hcne
      have hcr := chunk_length_le b h
      obtain ⟨b1, hb1, hd1, hw1⟩ := advance_ok' b _ h hcr
      have hr1 : remaining b1 = remaining b - (chunk b).length := by
        rw [remaining_eq' b1 hw1, hd1, List.length_drop, remaining_eq' b h]
      obtain ⟨b', hb', hadv⟩ := ih b1 (acc ++ chunk b) hw1 (by omega)
      refine ⟨b', ?_, (Adv.step h hcr hb1 hadv).cast (by omega)⟩
      simp only [drainLoop, h0, if_false, hb1, Res.bind]
      rw [hb', hd1, List.append_assoc, prefix_append_drop (chunk_prefix' b h)]

theorem drain_ok (b : BufT) (h : wf b) :
    ∃ b', drain b = .ok (den b, b') ∧ Adv b (remaining b) b' := by
  obtain ⟨b', hb', hadv⟩ := drainLoop_ok (remaining b + 1) b [] h (by omega)
  exact ⟨b', by simpa [drain] using hb', hadv⟩

theorem den_length_lt (b : BufT) (h : wf b) : (den b).length < W := by
  induction b with
  | seg cs => exact h
  | flat k bs => exact h
  | cursor d p => have := h.1; simp only [den, List.length_drop]; omega
  | deque s1 s2 => have := h.1; simp only [den, List.length_append]; omega
  | chain a b _ _ => have := h.2.2; simp only [den, List.length_append]; omega
  | take i n _ => have := h.2; simp only [den, List.length_take]; omega
  | refMut i ih => exact ih h
  | box i ih => exact ih h

/-- draining `take i lim` with `lim` in range: the inner buffer is advanced by exactly `lim` -/
theorem drain_take_ok (i : BufT) (lim : Nat) (h : wf i) (hl : lim ≤ remaining i) :
    ∃ i' l', drain (.take i lim) = .ok ((den i).take lim, .take i' l') ∧ Adv i lim i' := by
  have hlW : lim < W := by
    have := remaining_eq' i h
    have := den_length_lt i h
    omega
  have hw : wf (.take i lim) := ⟨h, hlW⟩
  obtain ⟨b', hb', hadv⟩ := drain_ok (.take i lim) hw
  obtain ⟨i', e, hadv'⟩ := hadv.take_shape i lim rfl
  have hr : remaining (.take i lim) = lim := by simp only [remaining]; omega
  subst e
  exact ⟨i', _, hb', hadv'.cast hr⟩

/-! ### `chunks_vectored` -/

theorem takeLoop_length (sl : List Bs) (lim : Nat) : (takeLoop sl lim).length ≤ sl.length := by
  induction sl generalizing lim with
  | nil => simp [takeLoop]
  | cons s r ih =>
    simp only [takeLoop]
    split
    · simp
    · have := ih (lim - s.length); simp only [List.length_cons]; omega

theorem takeLoop_flatten (sl : List Bs) (lim : Nat) :
    (takeLoop sl lim).flatten = sl.flatten.take lim := by
  induction sl generalizing lim with
  | nil => simp [takeLoop]
  | cons s r ih =>
    simp only [takeLoop]
    split
    · next hle =>
      simp only [List.flatten_cons, List.flatten_nil, List.append_nil]
      rw [List.take_append_of_le_length hle]
    · next hgt =>
      simp only [List.flatten_cons, ih, List.take_append]
      rw [List.take_of_length_le (l := s) (by omega)]

theorem takeLoop_nonempty (sl : List Bs) (lim : Nat) (hl : 0 < lim) (h : ∃ s ∈ sl, s ≠ []) :
    ∃ s ∈ takeLoop sl lim, s ≠ [] := by
  induction sl generalizing lim with
  | nil => obtain ⟨s, hs, _⟩ := h; cases hs
  | cons s r ih =>
    simp only [takeLoop]
    split
    · next hle =>
      refine ⟨s.take lim, by simp, ?_⟩
      intro e
      have : (s.take lim).length = 0 := by rw [e]; rfl
      simp only [List.length_take] at this; omega
    · next hgt =>
      by_cases hs : s = []
      · subst hs
        obtain ⟨t, ht, htne⟩ := h
        have htr : t ∈ r := by
          cases ht with
          | head => exact absurd rfl htne
          | tail _ h' => exact h'
        obtain ⟨u, hu, hune⟩ := ih lim hl ⟨t, htr, htne⟩
        exact ⟨u, by simpa using Or.inr hu, hune⟩
      · exact ⟨s, by simp, hs⟩

theorem chunksVectored_length' (b : BufT) (k : Nat) : (chunksVectored b k).length ≤ k := by
  induction b generalizing k with
  | seg cs =>
    simp only [chunksVectored]
    split
    · simp
    · split
      · simp only [List.length_cons, List.length_nil]; omega
      · simp
  | flat f bs =>
    simp only [chunksVectored]
    split
    · simp
    · split
      · simp only [List.length_cons, List.length_nil]; omega
      · simp
  | cursor d p =>
    simp only [chunksVectored]
    split
    · simp
    · split
      · simp only [List.length_cons, List.length_nil]; omega
      · simp
  | deque s1 s2 =>
    simp only [chunksVectored]
    split
    · simp
    · next h1 =>
      split
      · simp; omega
      · next h2 => simp; omega
  | chain a b iha ihb =>
    simp only [chunksVectored]
    have h1 := iha k
    split
    · have h2 := ihb (k - (chunksVectored a k).length)
      simp only [List.length_append]; omega
    · exact h1
  | take i lim ih =>
    simp only [chunksVectored]
    split
    · simp
    · have h1 := takeLoop_length (chunksVectored i (min k 16)) lim
      have h2 := ih (min k 16)
      omega
  | refMut i ih => exact ih k
  | box i ih => exact ih k

theorem chunksVectored_prefix' (b : BufT) (k : Nat) (h : wf b) :
    (chunksVectored b k).flatten <+: den b := by
  induction b generalizing k with
  | seg cs =>
    simp only [chunksVectored, den]
    split
    · simp
    · split
      · simpa using segChunk_prefix cs
      · simp
  | flat f bs =>
    simp only [chunksVectored, den]
    split
    · simp
    · split <;> simp
  | cursor d p =>
    simp only [chunksVectored]
    split
    · simp
    · split
      · simpa [chunk] using chunk_prefix' (.cursor d p) h
      · simp
  | deque s1 s2 =>
    simp only [chunksVectored, den]
    split
    · simp
    · split <;> simp
  | chain a b iha ihb =>
    obtain ⟨ha, hb, _⟩ := h
    simp only [chunksVectored, den]
    split
    · next htot =>
      have hpa := iha k ha
      have heq : (chunksVectored a k).flatten = den a := by
        apply hpa.eq_of_length
        rw [← remaining_eq' a ha]; exact htot
      rw [List.flatten_append, heq]
      exact (List.prefix_append_right_inj _).mpr (ihb _ hb)
    · exact (iha k ha).trans (List.prefix_append _ _)
  | take i lim ih =>
    obtain ⟨hi, _⟩ := h
    simp only [chunksVectored, den]
    split
    · simp
    · rw [takeLoop_flatten]
      obtain ⟨t, ht⟩ := ih (min k 16) hi
      rw [← ht, List.take_append]
      exact List.prefix_append _ _
  | refMut i ih => exact ih k h
  | box i ih => exact ih k h

theorem chunksVectored_nil_of_remaining (b : BufT) (k : Nat) (h : wf b) (h0 : remaining b = 0) :
    chunksVectored b k = [] := by
  induction b generalizing k with
  | seg cs => simp only [remaining] at h0; simp [chunksVectored, h0]
  | flat f bs => simp only [remaining] at h0; simp [chunksVectored, h0]
  | cursor d p => simp only [remaining] at h0; simp [chunksVectored, h0]
  | deque s1 s2 => simp only [remaining] at h0; simp [chunksVectored, h0]
  | chain a b iha ihb =>
    obtain ⟨ha, hb, _⟩ := h
    obtain ⟨h0a, h0b⟩ := satAdd_eq_zero h0
    simp [chunksVectored, iha k ha h0a, ihb _ hb h0b]
  | take i lim ih =>
    obtain ⟨hi, _⟩ := h
    simp only [remaining] at h0
    simp only [chunksVectored]
    split
    · rfl
    · rw [ih _ hi (by omega)]; rfl
  | refMut i ih => exact ih k h h0
  | box i ih => exact ih k h h0

theorem chunksVectored_nonempty' (b : BufT) (k : Nat) (h : wf b) (hr : 0 < remaining b)
    (hk : 0 < k) : ∃ s ∈ chunksVectored b k, s ≠ [] := by
  induction b generalizing k with
  | seg cs =>
    simp only [remaining] at hr
    refine ⟨segChunk cs, by
      simp only [chunksVectored]; rw [if_neg (by omega), if_pos hr]; simp, ?_⟩
    intro e
    have := (chunk_nil_iff' (.seg cs) h).mp e
    simp only [remaining] at this; omega
  | flat f bs =>
    simp only [remaining] at hr
    exact ⟨bs, by simp [chunksVectored, Nat.pos_iff_ne_zero.mp hk, hr],
      List.length_pos_iff.mp hr⟩
  | cursor d p =>
    simp only [remaining] at hr
    refine ⟨d.drop (min p d.length), by simp [chunksVectored, Nat.pos_iff_ne_zero.mp hk, hr], ?_⟩
    intro e
    have := (chunk_nil_iff' (.cursor d p) h).mp e
    simp only [remaining] at this; omega
  | deque s1 s2 =>
    simp only [remaining] at hr
    have h1 : s1 ≠ [] := by
      intro e
      have e2 := h.2 e
      subst e e2
      simp at hr
    refine ⟨s1, ?_, h1⟩
    simp only [chunksVectored]
    rw [if_neg (by omega)]
    split <;> simp
  | chain a b iha ihb =>
    obtain ⟨ha, hb, hlt⟩ := h
    simp only [chunksVectored]
    by_cases h0 : remaining a = 0
    · have hb0 : 0 < remaining b := by
        simp only [remaining, h0] at hr
        rw [satAdd_eq (by rw [remaining_eq' b hb]; omega)] at hr; omega
      have hnil := chunksVectored_nil_of_remaining a k ha h0
      obtain ⟨s, hs, hne⟩ := ihb k hb hb0 hk
      refine ⟨s, ?_, hne⟩
      simpa [hnil, totalLen, h0] using hs
    · obtain ⟨s, hs, hne⟩ := iha k ha (by omega) hk
      refine ⟨s, ?_, hne⟩
      split
      · exact List.mem_append_left _ hs
      · exact hs
  | take i lim ih =>
    obtain ⟨hi, _⟩ := h
    simp only [remaining] at hr
    simp only [chunksVectored]
    rw [if_neg (by omega)]
    exact takeLoop_nonempty _ _ (by omega) (ih (min k 16) hi (by omega) (by omega))
  | refMut i ih => exact ih k h hr hk
  | box i ih => exact ih k h hr hk

/-! ### `copy_to_slice` -/

theorem copyToSlice_default_adv (b : BufT) (n : Nat) (h : wf b) (hn : n ≤ remaining b)
    (h1 : ∀ bs, b = .flat .slice bs → False) (h2 : ∀ i, b = .refMut i → False)
    (h3 : ∀ i, b = .box i → False) :
    ∃ b', copyToSlice b n = .ok ((den b).take n, b') ∧ Adv b n b' := by
  obtain ⟨b', hb', hadv⟩ := tryCopyToSlice_adv b n h hn
  exact ⟨b', by rw [copyToSlice.eq_4 b n h1 h2 h3, hb'], hadv⟩

theorem copyToSlice_default_spec (b : BufT) (n : Nat) (h : wf b) (hn : n ≤ remaining b)
    (h1 : ∀ bs, b = .flat .slice bs → False) (h2 : ∀ i, b = .refMut i → False)
    (h3 : ∀ i, b = .box i → False) :
    ∃ b', copyToSlice b n = .ok ((den b).take n, b') ∧ den b' = (den b).drop n ∧ wf b' := by
  obtain ⟨b', hb', hadv⟩ := copyToSlice_default_adv b n h hn h1 h2 h3
  exact ⟨b', hb', hadv.spec h⟩

theorem copyToSlice_ok' (b : BufT) (n : Nat) (h : wf b) (hn : n ≤ remaining b) :
    ∃ b', copyToSlice b n = .ok ((den b).take n, b') ∧ den b' = (den b).drop n ∧ wf b' := by
  induction b generalizing n with
  | seg cs => exact copyToSlice_default_spec _ n h hn (by simp) (by simp) (by simp)
  | flat k bs =>
    cases k with
    | slice =>
      simp only [remaining] at hn
      refine ⟨.flat .slice (bs.drop n), ?_, rfl, ?_⟩
      · simp [copyToSlice, Nat.not_lt.mpr hn, den]
      · simp only [wf, List.length_drop] at h ⊢; omega
    | bytes => exact copyToSlice_default_spec _ n h hn (by simp) (by simp) (by simp)
    | bytesMut => exact copyToSlice_default_spec _ n h hn (by simp) (by simp) (by simp)
  | cursor d p => exact copyToSlice_default_spec _ n h hn (by simp) (by simp) (by simp)
  | deque s1 s2 => exact copyToSlice_default_spec _ n h hn (by simp) (by simp) (by simp)
  | chain a b _ _ => exact copyToSlice_default_spec _ n h hn (by simp) (by simp) (by simp)
  | take i lim _ => exact copyToSlice_default_spec _ n h hn (by simp) (by simp) (by simp)
  | refMut i ih =>
    obtain ⟨i', hi', hd, hw⟩ := ih n h hn
    exact ⟨.refMut i', by simp [copyToSlice, hi', Res.map, den], hd, hw⟩
  | box i ih =>
    obtain ⟨i', hi', hd, hw⟩ := ih n h hn
    exact ⟨.box i', by simp [copyToSlice, hi', Res.map, den], hd, hw⟩

theorem copyToSlice_default_panic (b : BufT) (n : Nat) (hn : remaining b < n)
    (h1 : ∀ bs, b = .flat .slice bs → False) (h2 : ∀ i, b = .refMut i → False)
    (h3 : ∀ i, b = .box i → False) : copyToSlice b n = .panic := by
  rw [copyToSlice.eq_4 b n h1 h2 h3, tryCopyToSlice_err' b n hn]

theorem copyToSlice_panic' (b : BufT) (n : Nat) (hn : remaining b < n) :
    copyToSlice b n = .panic := by
  induction b generalizing n with
  | seg cs => exact copyToSlice_default_panic _ n hn (by simp) (by simp) (by simp)
  | flat k bs =>
    cases k with
    | slice => simp only [remaining] at hn; simp [copyToSlice, hn]
    | bytes => exact copyToSlice_default_panic _ n hn (by simp) (by simp) (by simp)
    | bytesMut => exact copyToSlice_default_panic _ n hn (by simp) (by simp) (by simp)
  | cursor d p => exact copyToSlice_default_panic _ n hn (by simp) (by simp) (by simp)
  | deque s1 s2 => exact copyToSlice_default_panic _ n hn (by simp) (by simp) (by simp)
  | chain a b _ _ => exact copyToSlice_default_panic _ n hn (by simp) (by simp) (by simp)
  | take i lim _ => exact copyToSlice_default_panic _ n hn (by simp) (by simp) (by simp)
  | refMut i ih => simp [copyToSlice, ih n hn, Res.map]
  | box i ih => simp [copyToSlice, ih n hn, Res.map]

/-! ### `copy_to_bytes` -/

theorem copyToBytesDefault_adv (b : BufT) (n : Nat) (h : wf b) (hn : n ≤ remaining b) :
    ∃ b', copyToBytesDefault b n = .ok ((den b).take n, b') ∧ Adv b n b' := by
  obtain ⟨i', l', hd, hadv⟩ := drain_take_ok b n h hn
  refine ⟨i', ?_, hadv⟩
  rw [copyToBytesDefault, if_neg (Nat.not_lt.mpr hn), hd]

theorem copyToBytes_default_spec (b : BufT) (n : Nat) (h : wf b) (hn : n ≤ remaining b)
    (e : copyToBytes b n = copyToBytesDefault b n) :
    ∃ b', copyToBytes b n = .ok ((den b).take n, b') ∧ den b' = (den b).drop n ∧ wf b' := by
  obtain ⟨b', hb', hadv⟩ := copyToBytesDefault_adv b n h hn
  exact ⟨b', by rw [e, hb'], hadv.spec h⟩

theorem copyToBytes_chain_aux (a b : BufT) (n : Nat) (hw : wf (.chain a b))
    (iha : ∀ n, n ≤ remaining a →
      ∃ a', copyToBytes a n = .ok ((den a).take n, a') ∧ den a' = (den a).drop n ∧ wf a')
    (ihb : ∀ n, n ≤ remaining b →
      ∃ b', copyToBytes b n = .ok ((den b).take n, b') ∧ den b' = (den b).drop n ∧ wf b')
    (hn : n ≤ remaining (.chain a b)) :
    ∃ a' b', copyToBytes (.chain a b) n = .ok ((den a ++ den b).take n, .chain a' b') ∧
      den a' = (den a).drop n ∧ den b' = (den b).drop (n - (den a).length) ∧ wf a' ∧ wf b' := by
  rw [remaining_chain hw] at hn
  obtain ⟨ha, hb, _⟩ := hw
  have ra := remaining_eq' a ha
  have rb := remaining_eq' b hb
  rw [copyToBytes.eq_3]
  by_cases hge : remaining a ≥ n
  · obtain ⟨a', ha', hd, hwa⟩ := iha n hge
    refine ⟨a', b, ?_, hd, ?_, hwa, hb⟩
    · rw [if_pos hge, ha', List.take_append_of_le_length (by omega)]; rfl
    · have : n - (den a).length = 0 := by omega
      rw [this]; rfl
  · rw [if_neg hge]
    by_cases h0 : remaining a = 0
    · have hda : den a = [] := den_nil_of_remaining ha h0
      have hl : (den a).length = 0 := by rw [hda]; rfl
      obtain ⟨b', hb', hd, hwb⟩ := ihb n (by omega)
      refine ⟨a, b', ?_, ?_, ?_, ha, hwb⟩
      · rw [if_pos h0, hb', hda]; rfl
      · simp [hda]
      · rw [hd, hl]; rfl
    · rw [if_neg h0, if_pos (by omega)]
      obtain ⟨x, hx, hxa⟩ := drain_ok (.refMut a) ha
      obtain ⟨a1, ex, haa⟩ := hxa.refMut_shape a rfl
      subst ex
      obtain ⟨y, l', hy, hya⟩ := drain_take_ok (.refMut b) (n - remaining a) hb
        (by simp only [remaining]; omega)
      obtain ⟨b1, ey, hbb⟩ := hya.refMut_shape b rfl
      subst ey
      obtain ⟨hda1, hwa1⟩ := haa.spec ha
      obtain ⟨hdb1, hwb1⟩ := hbb.spec hb
      refine ⟨a1, b1, ?_, ?_, ?_, hwa1, hwb1⟩
      · rw [hx]; simp only [Res.bind, den]; rw [hy]
        simp only [den]
        rw [List.take_append, List.take_of_length_le (l := den a) (by omega), ra]
      · simp only [remaining] at hda1
        rw [hda1, List.drop_eq_nil_of_le (by omega), List.drop_eq_nil_of_le (by omega)]
      · rw [hdb1, ra]

theorem copyToBytes_take_aux (i : BufT) (lim n : Nat)
    (ih : ∀ n, n ≤ remaining i →
      ∃ i', copyToBytes i n = .ok ((den i).take n, i') ∧ den i' = (den i).drop n ∧ wf i')
    (hn : n ≤ remaining (.take i lim)) :
    ∃ i', copyToBytes (.take i lim) n = .ok ((den i).take n, .take i' (lim - n)) ∧
      den i' = (den i).drop n ∧ wf i' := by
  simp only [remaining] at hn
  obtain ⟨i', hi', hd, hwi⟩ := ih n (by omega)
  refine ⟨i', ?_, hd, hwi⟩
  simp only [copyToBytes]
  rw [if_pos hn, hi']; rfl

theorem copyToBytes_ok' (b : BufT) (n : Nat) (h : wf b) (hn : n ≤ remaining b) :
    ∃ b', copyToBytes b n = .ok ((den b).take n, b') ∧ den b' = (den b).drop n ∧ wf b' := by
  induction b generalizing n with
  | seg cs =>
    exact copyToBytes_default_spec _ n h hn
      (copyToBytes.eq_7 _ n (by simp) (by simp) (by simp) (by simp) (by simp) (by simp))
  | flat k bs =>
    cases k with
    | slice =>
      exact copyToBytes_default_spec _ n h hn
        (copyToBytes.eq_7 _ n (by simp) (by simp) (by simp) (by simp) (by simp) (by simp))
    | bytes =>
      simp only [remaining] at hn
      refine ⟨.flat .bytes (bs.drop n), ?_, rfl, ?_⟩
      · simp [copyToBytes, Nat.not_lt.mpr hn, den]
      · simp only [wf, List.length_drop] at h ⊢; omega
    | bytesMut =>
      simp only [remaining] at hn
      refine ⟨.flat .bytesMut (bs.drop n), ?_, rfl, ?_⟩
      · simp [copyToBytes, Nat.not_lt.mpr hn, den]
      · simp only [wf, List.length_drop] at h ⊢; omega
  | cursor d p =>
    exact copyToBytes_default_spec _ n h hn
      (copyToBytes.eq_7 _ n (by simp) (by simp) (by simp) (by simp) (by simp) (by simp))
  | deque s1 s2 =>
    exact copyToBytes_default_spec _ n h hn
      (copyToBytes.eq_7 _ n (by simp) (by simp) (by simp) (by simp) (by simp) (by simp))
  | chain a b iha ihb =>
    obtain ⟨a', b', he, hda, hdb, hwa, hwb⟩ := copyToBytes_chain_aux a b n h
      (fun n hn => iha n h.1 hn) (fun n hn => ihb n h.2.1 hn) hn
    refine ⟨.chain a' b', he, ?_, hwa, hwb, ?_⟩
    · simp only [den, hda, hdb, List.drop_append]
    · have := h.2.2
      rw [hda, hdb]; simp only [List.length_drop]; omega
  | take i lim ih =>
    obtain ⟨i', he, hd, hwi⟩ := copyToBytes_take_aux i lim n (fun n hn => ih n h.1 hn) hn
    have := h.2
    simp only [remaining] at hn
    refine ⟨.take i' (lim - n), ?_, ?_, hwi, by omega⟩
    · rw [he]; simp only [den, List.take_take, Nat.min_eq_left (show n ≤ lim by omega)]
    · simp only [den, hd, List.drop_take]
  | refMut i ih =>
    obtain ⟨i', hi', hd, hw⟩ := ih n h hn
    exact ⟨.refMut i', by simp [copyToBytes, hi', Res.map, den], hd, hw⟩
  | box i ih =>
    obtain ⟨i', hi', hd, hw⟩ := ih n h hn
    exact ⟨.box i', by simp [copyToBytes, hi', Res.map, den], hd, hw⟩

theorem copyToBytes_default_panic (b : BufT) (n : Nat) (hn : remaining b < n)
    (e : copyToBytes b n = copyToBytesDefault b n) : copyToBytes b n = .panic := by
  rw [e, copyToBytesDefault, if_pos hn]

theorem copyToBytes_panic' (b : BufT) (n : Nat) (h : wf b) (hn : remaining b < n) :
    copyToBytes b n = .panic := by
  induction b generalizing n with
  | seg cs =>
    exact copyToBytes_default_panic _ n hn
      (copyToBytes.eq_7 _ n (by simp) (by simp) (by simp) (by simp) (by simp) (by simp))
  | flat k bs =>
    cases k with
    | slice =>
      exact copyToBytes_default_panic _ n hn
        (copyToBytes.eq_7 _ n (by simp) (by simp) (by simp) (by simp) (by simp) (by simp))
    | bytes => simp only [remaining] at hn; simp [copyToBytes, hn]
    | bytesMut => simp only [remaining] at hn; simp [copyToBytes, hn]
  | cursor d p =>
    exact copyToBytes_default_panic _ n hn
      (copyToBytes.eq_7 _ n (by simp) (by simp) (by simp) (by simp) (by simp) (by simp))
  | deque s1 s2 =>
    exact copyToBytes_default_panic _ n hn
      (copyToBytes.eq_7 _ n (by simp) (by simp) (by simp) (by simp) (by simp) (by simp))
  | chain a b iha ihb =>
    rw [remaining_chain h] at hn
    obtain ⟨ha, hb, _⟩ := h
    have ra := remaining_eq' a ha
    have rb := remaining_eq' b hb
    rw [copyToBytes.eq_3, if_neg (by omega)]
    by_cases h0 : remaining a = 0
    · rw [if_pos h0, ihb n hb (by omega)]; rfl
    · rw [if_neg h0, if_neg (by omega)]
  | take i lim ih =>
    simp only [remaining] at hn
    simp only [copyToBytes]
    rw [if_neg (by omega)]
  | refMut i ih => simp [copyToBytes, ih n h hn, Res.map]
  | box i ih => simp [copyToBytes, ih n h hn, Res.map]

/-! ### `IntoIter::next` -/

theorem iterNext_some' (b : BufT) (h : wf b) (x : Nat) (r : Bs) (hd : den b = x :: r) :
    ∃ b', iterNext b = .ok (some x, b') ∧ den b' = r ∧ wf b' := by
  have hr : remaining b = r.length + 1 := by rw [remaining_eq' b h, hd]; rfl
  have hcne : chunk b ≠ [] := fun e => by
    have := (chunk_nil_iff' b h).mp e; omega
  obtain ⟨t, ht⟩ : ∃ t, chunk b = x :: t := by
    obtain ⟨u, hu⟩ := chunk_prefix' b h
    rw [hd] at hu
    cases hc : chunk b with
    | nil => exact absurd hc hcne
    | cons y t =>
      rw [hc] at hu
      simp only [List.cons_append, List.cons.injEq] at hu
      exact ⟨t, by rw [hu.1]⟩
  obtain ⟨b', hb', hd', hw'⟩ := advance_ok' b 1 h (by omega)
  refine ⟨b', ?_, by rw [hd', hd]; rfl, hw'⟩
  simp only [iterNext]
  rw [if_neg (by omega), ht]
  simp only [hb', Res.map]

theorem iterNext_none' (b : BufT) (h : wf b) (hd : den b = []) : iterNext b = .ok (none, b) := by
  have hr : remaining b = 0 := by rw [remaining_eq' b h, hd]; rfl
  simp [iterNext, hr]

/-! ### inner state of `Take` / `Chain` / `Reader` (C12) -/

theorem take_den' (i : BufT) (n : Nat) (h : wf i) :
    den (.take i n) = (den i).take (min n (remaining i)) := by
  simp only [den]
  rw [remaining_eq' i h]
  by_cases hle : n ≤ (den i).length
  · rw [Nat.min_eq_left hle]
  · rw [Nat.min_eq_right (by omega), List.take_of_length_le (by omega),
      List.take_of_length_le (Nat.le_refl _)]

theorem take_advance_inner' (i : BufT) (lim n : Nat) (h : wf (.take i lim))
    (hn : n ≤ remaining (.take i lim)) :
    ∃ i', advance (.take i lim) n = .ok (.take i' (lim - n)) ∧ den i' = (den i).drop n ∧ wf i' := by
  obtain ⟨x, hx, -, -⟩ := advance_ok' _ n h hn
  obtain ⟨i', e, hi'⟩ := advance_take_shape hx
  subst e
  simp only [remaining] at hn
  obtain ⟨i2, h2, hd, hw⟩ := advance_ok' i n h.1 (by omega)
  rw [hi'] at h2; cases h2
  exact ⟨i', hx, hd, hw⟩

theorem take_copyToSlice_inner' (i : BufT) (lim n : Nat) (h : wf (.take i lim))
    (hn : n ≤ remaining (.take i lim)) :
    ∃ i', copyToSlice (.take i lim) n = .ok ((den i).take n, .take i' (lim - n)) ∧
      den i' = (den i).drop n ∧ wf i' := by
  obtain ⟨x, hx, hadv⟩ := copyToSlice_default_adv _ n h hn (by simp) (by simp) (by simp)
  obtain ⟨i', e, hadv'⟩ := hadv.take_shape i lim rfl
  subst e
  simp only [remaining] at hn
  refine ⟨i', ?_, hadv'.spec h.1⟩
  rw [hx]; simp only [den, List.take_take, Nat.min_eq_left (show n ≤ lim by omega)]

theorem take_copyToBytes_inner' (i : BufT) (lim n : Nat) (h : wf (.take i lim))
    (hn : n ≤ remaining (.take i lim)) :
    ∃ i', copyToBytes (.take i lim) n = .ok ((den i).take n, .take i' (lim - n)) ∧
      den i' = (den i).drop n ∧ wf i' :=
  copyToBytes_take_aux i lim n (fun n hn => copyToBytes_ok' i n h.1 hn) hn

theorem chain_copyToSlice_inner' (a b : BufT) (n : Nat) (h : wf (.chain a b))
    (hn : n ≤ remaining (.chain a b)) :
    ∃ a' b', copyToSlice (.chain a b) n = .ok ((den a ++ den b).take n, .chain a' b') ∧
      den a' = (den a).drop n ∧ den b' = (den b).drop (n - (den a).length) ∧ wf a' ∧ wf b' := by
  obtain ⟨x, hx, hadv⟩ := copyToSlice_default_adv _ n h hn (by simp) (by simp) (by simp)
  obtain ⟨a', b', e, rest⟩ := hadv.chain_shape a b rfl h
  subst e
  exact ⟨a', b', hx, rest⟩

theorem chain_copyToBytes_inner' (a b : BufT) (n : Nat) (h : wf (.chain a b))
    (hn : n ≤ remaining (.chain a b)) :
    ∃ a' b', copyToBytes (.chain a b) n = .ok ((den a ++ den b).take n, .chain a' b') ∧
      den a' = (den a).drop n ∧ den b' = (den b).drop (n - (den a).length) ∧ wf a' ∧ wf b' :=
  copyToBytes_chain_aux a b n h (fun n hn => copyToBytes_ok' a n h.1 hn)
    (fun n hn => copyToBytes_ok' b n h.2.1 hn) hn

theorem readerFillBuf_spec' (b : BufT) (h : wf b) :
    readerFillBuf b <+: den b ∧ (readerFillBuf b = [] ↔ den b = []) := by
  refine ⟨chunk_prefix' b h, ?_⟩
  simp only [readerFillBuf]
  rw [chunk_nil_iff' b h, remaining_eq' b h]
  exact List.length_eq_zero_iff

end BytesVerif.Buf
