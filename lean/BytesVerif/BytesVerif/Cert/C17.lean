/-
Per-run certificate for C17: the `unsafe` sites found by T1 in the code that consumes caller-implemented `Buf` /
`BufMut` / owner / iterator values are exactly the reviewed ones of Model/Sites.lean (each classified by how the
adversary model M6 covers it).
-/
import BytesVerif.Generated.UnsafeSites
import BytesVerif.Model.Sites
namespace BytesVerif.Cert.C17
open BytesVerif

theorem unsafe_inventory : Generated.unsafeSiteKeys = Sites.expectedUnsafe.map (·.1) := by decide +kernel

theorem unsafe_reviewed : (Sites.expectedUnsafe.all fun r => r.2.1 != Sites.UnsafeClass.unreviewed) = true := by decide +kernel

end BytesVerif.Cert.C17
