/-
Per-run certificate for C14: facts about the table regenerated from /repo/src, kernel-checked by
`decide` on every run, and the instantiated guarantee for every impl in the source.
-/
import BytesVerif.Props.C14
import BytesVerif.Generated.CmpImpls
namespace BytesVerif.Cert.C14
open BytesVerif.Cmp BytesVerif.Generated

theorem cmp_rows_ok : cmpImpls.all rowOK = true := by decide
theorem hash_rows_ok : hashImpls.all hashRowOK = true := by decide
theorem count_ok : cmpImpls.length = cmpImplCount := by decide

/-- Every comparison impl found in the source computes the slice operator on the byte views of
(self, other), for all byte strings. -/
theorem all_impls_correct : ∀ r ∈ cmpImpls, ∀ x y, eval r x y = some (spec r.trait x y) := by
  intro r hr x y
  exact rowOK_sound r (List.all_eq_true.mp cmp_rows_ok r hr) x y

theorem all_hash_impls_correct : ∀ r ∈ hashImpls, ∀ x, hashFeed r x = some x := by
  intro r hr x
  exact hashRow_sound r (List.all_eq_true.mp hash_rows_ok r hr) x

end BytesVerif.Cert.C14
