/-
Per-run certificate — override inventory, comparisons and hashing: every impl defines `eq` / `partial_cmp` / `cmp` / `hash` / `borrow` only — no `lt`/`le`/`gt`/`ge`/`ne` overrides (M4).
The trait impls of this class and the methods each defines itself, extracted by T1 from every file under src/, are exactly the
reviewed ones the models were written from (Model/Sites.lean `expectedOverrides`, class 3).  A new override (say
`Chain::copy_to_slice`, `IntoIter::nth`, `PartialOrd::ge`) or a dropped one changes which code a call dispatches to.
-/
import BytesVerif.Generated.Overrides
import BytesVerif.Model.Sites
namespace BytesVerif.Cert.OvCmp
open BytesVerif

theorem override_inventory_cmp : Generated.overrideKeysCmp = Sites.expectedOverrideKeys 3 := by decide +kernel

end BytesVerif.Cert.OvCmp
