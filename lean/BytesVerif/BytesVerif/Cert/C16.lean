/-
Per-run certificate for C16: the configuration-dependent sites found in /repo/src by T1 (cfg / cfg_attr attributes,
cfg! macros, debug assertions) are exactly the reviewed ones of Model/Sites.lean, and each of those has a class that
cannot change an observable result.
-/
import BytesVerif.Generated.CfgSites
import BytesVerif.Model.Sites
namespace BytesVerif.Cert.C16
open BytesVerif

theorem cfg_inventory : Generated.cfgSiteKeys = Sites.expectedCfg.map (·.1) := by decide +kernel

theorem cfg_reviewed : (Sites.expectedCfg.all fun r => r.2.1 != Sites.CfgClass.unreviewed) = true := by decide +kernel

/-- the debug assertions the model evaluates are still there -/
theorem dassert_modelled_count :
    (Sites.expectedCfg.filter fun r => r.2.1 == Sites.CfgClass.dassertModelled).length = 3 := by decide +kernel

end BytesVerif.Cert.C16
