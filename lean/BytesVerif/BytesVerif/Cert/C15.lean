/-
Per-run certificate for C15: the chains and tables regenerated from src/fmt/*.rs and src/serde.rs
are accepted by the decision procedures (kernel evaluation), and the instantiated guarantees.
-/
import BytesVerif.Props.C15
import BytesVerif.Generated.FmtTables
namespace BytesVerif.Cert.C15
open BytesVerif.Fmt BytesVerif.Generated

theorem debug_chain_ok : debugChainOK debugChain = true := by decide +kernel
theorem lower_hex_chain_ok : hexChainOK false lowerHexChain = true := by decide +kernel
theorem upper_hex_chain_ok : hexChainOK true upperHexChain = true := by decide +kernel
theorem forwards_ok : fmtForwardMacroOK = true ∧ fmtForwards = fmtForwardsExpected := by decide
theorem serde_rows_ok :
    serdeRows.all serdeRowOK = true ∧ serdeRows.map (fun r => (r.ty, r.method)) = serdeExpected := by decide

/-- Debug output of the source's chain round-trips for every byte string. -/
theorem debug_roundtrip_src (bs : List Nat) (hbs : ∀ b ∈ bs, b < 256) :
    ∃ s, fmtAll debugChain bs = some s ∧ parseLit s = some bs :=
  debug_roundtrip debugChain debug_chain_ok bs hbs

theorem lower_hex_roundtrip_src (bs : List Nat) (hbs : ∀ b ∈ bs, b < 256) :
    ∃ s, fmtAll lowerHexChain bs = some s ∧ parseHexStr false s = some bs ∧ s.length = 2 * bs.length :=
  hex_roundtrip false lowerHexChain lower_hex_chain_ok bs hbs

theorem upper_hex_roundtrip_src (bs : List Nat) (hbs : ∀ b ∈ bs, b < 256) :
    ∃ s, fmtAll upperHexChain bs = some s ∧ parseHexStr true s = some bs ∧ s.length = 2 * bs.length :=
  hex_roundtrip true upperHexChain upper_hex_chain_ok bs hbs

end BytesVerif.Cert.C15
