/-
Per-run certificate for C05 / C06: the orderings regenerated from src/bytes.rs and src/bytes_mut.rs
satisfy the lower bound the proof needs, the shape facts the protocol model was written from hold,
and the instantiated guarantee for the source's orderings.
-/
import BytesVerif.Props.C06
import BytesVerif.Props.C05
import BytesVerif.Generated.Atomics
namespace BytesVerif.Cert.C06
open BytesVerif.Conc BytesVerif.Generated

theorem ords_sufficient : Sufficient ords = true := by decide
theorem shape_ok : shapeFacts.all (·.2) = true := by decide

/-- With the orderings found in the source: no data race on buffer memory, no use after free, no
double free, in any execution of any number of threads and steps. -/
theorem src_ra_safe (n : Nat) (s : St) (hr : Reach ords n s) :
    s.race = false ∧ s.uaf = false ∧ s.doubleFree = false :=
  ra_safe ords ords_sufficient n s hr

theorem src_freed_no_handles (n : Nat) (s : St) (hr : Reach ords n s) (hf : s.freed = true) :
    totalHandles s n = 0 :=
  freed_no_handles ords ords_sufficient n s hr hf

/-! ### promotable handles (M5p) -/

theorem pords_sufficient : BytesVerif.Promo.Sufficient pords = true := by decide

/-- With the orderings found in the source, for a promotable root shared by reference among any number of threads, racing
promotions included: no data race on buffer memory, no unordered access to the non-atomically initialised control block, no
use after free, no double free. -/
theorem src_promo_safe (n : Nat) (s : BytesVerif.Promo.St) (hr : BytesVerif.Promo.Reach pords n s) :
    s.race = false ∧ s.ctrlRace = false ∧ s.uaf = false ∧ s.doubleFree = false :=
  BytesVerif.Promo.promo_safe pords pords_sufficient n s hr

theorem src_promo_freed_no_users (n : Nat) (s : BytesVerif.Promo.St) (hr : BytesVerif.Promo.Reach pords n s)
    (hf : s.freed = true) : s.rootLive = false ∧ BytesVerif.Promo.totalHandles s n = 0 :=
  BytesVerif.Promo.promo_freed_no_users pords pords_sufficient n s hr hf

end BytesVerif.Cert.C06
