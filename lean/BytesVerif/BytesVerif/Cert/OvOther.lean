/-
Per-run certificate — override inventory, conversions, Clone, Drop, Deref, AsRef, Default, Extend, FromIterator, IntoIterator of the handles: the entry points M1 models.
The trait impls of this class and the methods each defines itself, extracted by T1 from every file under src/, are exactly the
reviewed ones the models were written from (Model/Sites.lean `expectedOverrides`, class 0).  A new override (say
`Chain::copy_to_slice`, `IntoIter::nth`, `PartialOrd::ge`) or a dropped one changes which code a call dispatches to.
-/
import BytesVerif.Generated.Overrides
import BytesVerif.Model.Sites
namespace BytesVerif.Cert.OvOther
open BytesVerif

theorem override_inventory_other : Generated.overrideKeysOther = Sites.expectedOverrideKeys 0 := by decide +kernel

end BytesVerif.Cert.OvOther
