/-
Per-run certificate for the M1 properties (C01–C04, C07, C08, C13): the vtable slot wiring, the vtable each constructor /
conversion mentions, and the representation constants extracted by T1 from src/bytes.rs, src/bytes_mut.rs (and the two
adapter constants of src/buf) are exactly the reviewed ones Model/Core.lean was written from (Model/Sites.lean).
-/
import BytesVerif.Generated.Wiring
import BytesVerif.Model.Sites
namespace BytesVerif.Cert.C01
open BytesVerif

theorem wiring_inventory : Generated.wiringKeys = Sites.expectedWiring.map (·.1) := by decide +kernel

end BytesVerif.Cert.C01
