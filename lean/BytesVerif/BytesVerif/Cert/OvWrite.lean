/-
Per-run certificate — override inventory, write side: `BufMut` impls, `Writer`, `fmt::Write for BytesMut`, `UninitSlice` indexing (M2 write side).
The trait impls of this class and the methods each defines itself, extracted by T1 from every file under src/, are exactly the
reviewed ones the models were written from (Model/Sites.lean `expectedOverrides`, class 2).  A new override (say
`Chain::copy_to_slice`, `IntoIter::nth`, `PartialOrd::ge`) or a dropped one changes which code a call dispatches to.
-/
import BytesVerif.Generated.Overrides
import BytesVerif.Model.Sites
namespace BytesVerif.Cert.OvWrite
open BytesVerif

theorem override_inventory_write : Generated.overrideKeysWrite = Sites.expectedOverrideKeys 2 := by decide +kernel

end BytesVerif.Cert.OvWrite
