/-
Per-run certificate — override inventory, formatting and serde: Debug / LowerHex / UpperHex / Display impls, Serialize / Deserialize / Visitor methods (M4).
The trait impls of this class and the methods each defines itself, extracted by T1 from every file under src/, are exactly the
reviewed ones the models were written from (Model/Sites.lean `expectedOverrides`, class 4).  A new override (say
`Chain::copy_to_slice`, `IntoIter::nth`, `PartialOrd::ge`) or a dropped one changes which code a call dispatches to.
-/
import BytesVerif.Generated.Overrides
import BytesVerif.Model.Sites
namespace BytesVerif.Cert.OvFmt
open BytesVerif

theorem override_inventory_fmt : Generated.overrideKeysFmt = Sites.expectedOverrideKeys 4 := by decide +kernel

end BytesVerif.Cert.OvFmt
