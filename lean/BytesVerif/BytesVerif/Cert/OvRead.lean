/-
Per-run certificate — override inventory, read side: `Buf` impls, `IntoIter`, `Reader` — which provided `Buf` / `Iterator` methods each type overrides (M2 read side, M3 dispatch).
The trait impls of this class and the methods each defines itself, extracted by T1 from every file under src/, are exactly the
reviewed ones the models were written from (Model/Sites.lean `expectedOverrides`, class 1).  A new override (say
`Chain::copy_to_slice`, `IntoIter::nth`, `PartialOrd::ge`) or a dropped one changes which code a call dispatches to.
-/
import BytesVerif.Generated.Overrides
import BytesVerif.Model.Sites
namespace BytesVerif.Cert.OvRead
open BytesVerif

theorem override_inventory_read : Generated.overrideKeysRead = Sites.expectedOverrideKeys 1 := by decide +kernel

end BytesVerif.Cert.OvRead
