/-
M2 (write side): the `BufMut` implementations of the crate as adapter trees, transliterated from
src/buf/{buf_mut,limit,chain,writer,uninit_slice}.rs and `unsafe impl BufMut for BytesMut`.
Core-only.  `written t` is what has been written through `t`, in write order; fixed-size targets
also carry their remaining room, so a write outside the writable region cannot be expressed
without showing up in `written`/`room` (guard bytes are checked by the harness on the real code).
-/
import BytesVerif.Model.Buf
namespace BytesVerif.BufMut
open BytesVerif.Buf

def isizeMax : Nat := 9223372036854775807

/-- Growable targets. -/
inductive Grow | vec | bytesMut
  deriving Repr, DecidableEq, Inhabited

/-- Fixed-size targets: `&mut [u8]`, `&mut [MaybeUninit<u8>]`. -/
inductive Fixed | slice | uninit
  deriving Repr, DecidableEq, Inhabited

inductive MutT where
  /-- `Vec<u8>` / `BytesMut`: `pre` = contents before, `written` = appended since, `spare` = capacity - len -/
  | grow (k : Grow) (pre written : Bs) (spare : Nat)
  /-- `&mut [u8]`-like: `written` = the part already filled (left behind the cursor), `room` = `len()` -/
  | fixed (k : Fixed) (written : Bs) (room : Nat)
  | chain (a b : MutT)
  | limit (inner : MutT) (n : Nat)
  | refMut (inner : MutT)
  | box (inner : MutT)
  deriving Repr, Inhabited, DecidableEq

/-- What the allocator / `Vec::reserve` / `BytesMut::reserve` decide (any functions with these
bounds; the theorems quantify over them, the judge re-synchronises `spare` from the trace). -/
structure Env where
  /-- spare capacity after `reserve(64)` on a full vector of length `len` -/
  reserve64 : Nat → Nat
  /-- spare capacity after appending `n` bytes to a vector of length `len` with spare `spare < n` -/
  regrow : Nat → Nat → Nat → Nat

/-- `reserve` gives at least what was asked and never more than an allocation can hold. -/
def Env.ok (e : Env) : Prop :=
  (∀ len, len + 64 ≤ isizeMax → 64 ≤ e.reserve64 len ∧ len + e.reserve64 len ≤ isizeMax) ∧
  (∀ len spare n, len + n ≤ isizeMax → len + n + e.regrow len spare n ≤ isizeMax)

def defaultEnv : Env := ⟨fun _ => 64, fun _ _ _ => 0⟩

/-- Bytes written through the tree, in write order. -/
def written : MutT → Bs
  | .grow _ _ w _ => w
  | .fixed _ w _ => w
  | .chain a b => written a ++ written b
  | .limit i _ => written i
  | .refMut i => written i
  | .box i => written i

def growLen (pre w : Bs) : Nat := pre.length + w.length

/-- `BufMut::remaining_mut` -/
def remainingMut : MutT → Nat
  | .grow .vec pre w _ => isizeMax - growLen pre w
  | .grow .bytesMut pre w _ => (W - 1) - growLen pre w
  | .fixed _ _ room => room
  | .chain a b => satAdd (remainingMut a) (remainingMut b)
  | .limit i n => min (remainingMut i) n
  | .refMut i => remainingMut i
  | .box i => remainingMut i

/-- Sizes fit, and growable targets have not hit their hard limits. -/
def wfM : MutT → Prop
  | .grow _ pre w spare => growLen pre w + spare ≤ isizeMax
  | .fixed _ w room => w.length + room < W
  | .chain a b => wfM a ∧ wfM b
  | .limit i n => wfM i ∧ n < W
  | .refMut i => wfM i
  | .box i => wfM i

/-- Room of the tree in write order; `none` = unbounded (a growable target is reached before any
fixed-size room is exhausted). -/
def roomOpt : MutT → Option Nat
  | .grow _ _ _ _ => none
  | .fixed _ _ room => some room
  | .chain a b =>
    match roomOpt a with
    | none => none
    | some ra => (roomOpt b).map (ra + ·)
  | .limit i n =>
    match roomOpt i with
    | none => some n
    | some r => some (min r n)
  | .refMut i => roomOpt i
  | .box i => roomOpt i

def fits (t : MutT) (n : Nat) : Prop :=
  match roomOpt t with
  | none => True
  | some r => n ≤ r

/-- No growable leaf of the tree comes within `n` bytes of the allocation limit (`isize::MAX`);
the region beyond is not reachable with real memory. -/
def noHardLimit : MutT → Nat → Prop
  | .grow _ pre w _, n => growLen pre w + n ≤ isizeMax
  | .fixed _ _ _, _ => True
  | .chain a b, n => noHardLimit a n ∧ noHardLimit b n
  | .limit i _, n => noHardLimit i n
  | .refMut i, n => noHardLimit i n
  | .box i, n => noHardLimit i n

/-- `chunk_mut()`: may grow a full growable target first; returns (length of the chunk, new state). -/
def chunkMut (e : Env) : MutT → Nat × MutT
  | .grow k pre w spare =>
    let spare' := if spare = 0 then e.reserve64 (growLen pre w) else spare
    (spare', .grow k pre w spare')
  | .fixed k w room => (room, .fixed k w room)
  | .chain a b =>
    if remainingMut a > 0 then
      let (n, a') := chunkMut e a
      (n, .chain a' b)
    else
      let (n, b') := chunkMut e b
      (n, .chain a b')
  | .limit i lim =>
    let (n, i') := chunkMut e i
    (min n lim, .limit i' lim)
  | .refMut i => let (n, i') := chunkMut e i; (n, .refMut i')
  | .box i => let (n, i') := chunkMut e i; (n, .box i')

/-- Write `bs` into the current chunk and `advance_mut(bs.length)` (the two always go together in
the crate's own loops; `bs.length ≤` the chunk length is the callers' obligation and checked here:
a violation is a panic of `advance_mut`). -/
def writeAdvance : MutT → Bs → Res MutT
  | .grow k pre w spare, bs =>
    if spare < bs.length then .panic else .ok (.grow k pre (w ++ bs) (spare - bs.length))
  | .fixed k w room, bs =>
    if room < bs.length then .panic else .ok (.fixed k (w ++ bs) (room - bs.length))
  | .chain a b, bs =>
    let aRem := remainingMut a
    if aRem ≠ 0 then
      if aRem ≥ bs.length then (writeAdvance a bs).map (fun a' => .chain a' b)
      else
        -- advance_mut splits the count between a and b; the bytes were written into a's chunk only,
        -- so this branch is only correct when bs fits a's chunk, which the callers guarantee
        .panic
    else (writeAdvance b bs).map (fun b' => .chain a b')
  | .limit i lim, bs =>
    if bs.length ≤ lim then (writeAdvance i bs).map (fun i' => .limit i' (lim - bs.length)) else .panic
  | .refMut i, bs => (writeAdvance i bs).map .refMut
  | .box i, bs => (writeAdvance i bs).map .box

/-- Default `put_slice` loop. -/
def putLoop (e : Env) : Nat → MutT → Bs → Res MutT
  | 0, t, src => if src = [] then .ok t else .panic
  | fuel + 1, t, src =>
    if src = [] then .ok t
    else
      let (n, t1) := chunkMut e t
      let cnt := min src.length n
      (writeAdvance t1 (src.take cnt)).bind fun t2 => putLoop e fuel t2 (src.drop cnt)

def putSliceDefault (e : Env) (t : MutT) (src : Bs) : Res MutT :=
  if remainingMut t < src.length then .panic else putLoop e (src.length + 1) t src

/-- `BufMut::put_slice` with the overrides of `Vec<u8>`, `BytesMut`, `&mut [u8]`,
`&mut [MaybeUninit<u8>]` and the forwarders. -/
def putSlice (e : Env) : MutT → Bs → Res MutT
  | .grow k pre w spare, src =>
    -- extend_from_slice (reserve + copy); panics (capacity overflow) beyond the hard limit
    if isizeMax - growLen pre w < src.length then .panic
    else if src.length ≤ spare then .ok (.grow k pre (w ++ src) (spare - src.length))
    else .ok (.grow k pre (w ++ src) (e.regrow (growLen pre w) spare src.length))
  | .fixed k w room, src =>
    if room < src.length then .panic else .ok (.fixed k (w ++ src) (room - src.length))
  | .refMut i, src => (putSlice e i src).map .refMut
  | .box i, src => (putSlice e i src).map .box
  | t, src => putSliceDefault e t src

/-- `put_bytes(val, cnt)`: every implementation writes `cnt` copies of `val` (default loop, or
`resize` / `write_bytes`), i.e. behaves as `put_slice` of the replicated byte. -/
def putBytes (e : Env) (t : MutT) (val cnt : Nat) : Res MutT :=
  putSlice e t (List.replicate cnt val)

/-- `put(src: impl Buf)`: default loop (chunk-by-chunk, bounded by both chunk lengths) or the
`extend_from_slice` loops of `Vec<u8>` / `BytesMut`; `&mut T` / `Box<T>` do not forward `put`
(it needs `Self: Sized`), so they run the default loop on the forwarded primitives. -/
def putBufLoop (e : Env) : Nat → MutT → BufT → Res (MutT × BufT)
  | 0, t, src => if remaining src = 0 then .ok (t, src) else .panic
  | fuel + 1, t, src =>
    if remaining src = 0 then .ok (t, src)
    else
      let s := chunk src
      let (n, t1) := chunkMut e t
      let cnt := min s.length n
      (writeAdvance t1 (s.take cnt)).bind fun t2 =>
        match advance src cnt with
        | .ok src' => putBufLoop e fuel t2 src'
        | .panic => .panic

def putBufGrowLoop (e : Env) : Nat → MutT → BufT → Res (MutT × BufT)
  | 0, t, src => if remaining src = 0 then .ok (t, src) else .panic
  | fuel + 1, t, src =>
    if remaining src = 0 then .ok (t, src)
    else
      let s := chunk src
      (putSlice e t s).bind fun t' =>
        match advance src s.length with
        | .ok src' => putBufGrowLoop e fuel t' src'
        | .panic => .panic

def putBuf (e : Env) (t : MutT) (src : BufT) : Res (MutT × BufT) :=
  match t with
  | .grow _ _ _ _ =>
    if remainingMut t < remaining src then .panic      -- Vec: reserve(src.remaining()) overflows
    else putBufGrowLoop e (remaining src + 1) t src
  | _ =>
    if remainingMut t < remaining src then .panic
    else putBufLoop e (remaining src + 1) t src

/-- `Writer::write(src)`: `min(remaining_mut, src.len())` bytes, never an error. -/
def writerWrite (e : Env) (t : MutT) (src : Bs) : Res (Nat × MutT) :=
  let n := min (remainingMut t) src.length
  (putSlice e t (src.take n)).map fun t' => (n, t')

end BytesVerif.BufMut
