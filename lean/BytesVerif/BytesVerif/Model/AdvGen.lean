/-
M6-gen — the adversary of Model/Adv.lean generalised.  In M6 the answers of `remaining()` / `chunk()` change only
when `advance` is called (the script index moves in `advance`).  A safe Rust `Buf` with interior mutability can do
more: `chunk()` may hand out a long slice on one call and a short one on the next with no `advance` in between, and
`remaining()` may change between two reads.  Here the adversary's answer to the `c`-th call after the `k`-th advance
is `answers k c` — any function at all — and every call of any of the three methods consumes one answer.  The
consumers are the ones of Model/Adv.lean, same control flow and same order of calls, with the adversary state that
`remaining` / `chunk` return threaded through.
-/
import BytesVerif.Model.Adv
namespace BytesVerif.AdvGen
open BytesVerif.Adv

/-- the general adversary: its answer to the c-th call after the k-th advance is `answers k c` — any function at all -/
structure GAdv where
  answers : Nat → Nat → Lie
  k : Nat := 0        -- number of `advance` calls so far
  c : Nat := 0        -- number of calls (of any of the three methods) since the last advance
  backing : Bs

def GAdv.cur (b : GAdv) : Lie := b.answers b.k b.c

def remaining (b : GAdv) : Res (Nat × GAdv) :=
  if b.cur.panicAt = 1 then .panic else .ok (b.cur.rem, { b with c := b.c + 1 })

/-- the slice really returned: always inside the adversary's own memory -/
def chunk (b : GAdv) : Res (Bs × GAdv) :=
  if b.cur.panicAt = 2 then .panic
  else .ok (b.backing.take (min b.cur.chunk b.backing.length), { b with c := b.c + 1 })

def advance (b : GAdv) (_cnt : Nat) : Res GAdv :=
  if b.cur.panicAt = 3 then .panic else .ok { b with k := b.k + 1, c := 0 }

/-- the scripted adversary of Model/Adv.lean as an instance: answers ignore the call index -/
def ofScript (script : List Lie) (backing : Bs) : GAdv :=
  { answers := fun k _ => script.getD k ⟨0, 0, 0⟩, backing := backing }

/-! ### consumers -/

/-- default `try_copy_to_slice(dst)`, `dst.len() = n` (safe code: `dst[..cnt].copy_from_slice(&src[..cnt])`) -/
def tryCopyLoop : Nat → GAdv → Nat → Bs → Res (Bs × GAdv)
  | 0, _, _, _ => .hang
  | fuel + 1, b, need, acc =>
    if need = 0 then .ok (acc, b)
    else do
      let src ← chunk b
      let cnt := min src.1.length need
      let part ← sliceTo src.1 cnt
      let b' ← advance src.2 cnt
      tryCopyLoop fuel b' (need - cnt) (acc ++ part)

def tryCopyToSlice (fuel : Nat) (b : GAdv) (n : Nat) : Res (Option Bs × GAdv) := do
  let r ← remaining b
  if r.1 < n then pure (none, r.2)
  else do
    let q ← tryCopyLoop fuel r.2 n []
    pure (some q.1, q.2)

def copyToSlice (fuel : Nat) (b : GAdv) (n : Nat) : Res (Bs × GAdv) := do
  let q ← tryCopyToSlice fuel b n
  match q.1 with
  | some bs => pure (bs, q.2)
  | none => .panic

/-- first arm of `buf_try_get_impl!` for a SIZE-byte type: the unsafe array read is applied to what
`chunk().get(..SIZE)` returned (one `chunk()` call: the check and the read see the same slice) -/
def tryGetFixed (fuel : Nat) (b : GAdv) (size : Nat) : Res (Option Bs × GAdv) := do
  let r ← remaining b
  if r.1 < size then pure (none, r.2)
  else do
    let c ← chunk r.2
    -- `.get(..SIZE)`: Some(prefix) iff the slice is long enough
    if size ≤ c.1.length then do
      let bytes ← unsafeRead (c.1.take size) size
      let b' ← advance c.2 size
      pure (some bytes, b')
    else do
      let q ← copyToSlice fuel c.2 size
      pure (some q.1, q.2)

/-- `le =>` / `be =>` arms: `nbytes` into an 8-byte scratch buffer via `try_copy_to_slice` -/
def tryGetVar (fuel : Nat) (b : GAdv) (nbytes : Nat) : Res (Option Bs × GAdv) :=
  if nbytes > 8 then .panic else tryCopyToSlice fuel b nbytes

/-- `get_u8`: `self.chunk()[0]` is a safe index -/
def getU8 (b : GAdv) : Res (Nat × GAdv) := do
  let r ← remaining b
  if r.1 < 1 then .panic
  else do
    let c ← chunk r.2
    match c.1 with
    | [] => .panic
    | x :: _ => do
      let b' ← advance c.2 1
      pure (x, b')

/-- default `BufMut::put(src)` into a fixed destination with `room` bytes: the copy is
`d[..cnt].copy_from_slice(&s[..cnt])` (safe) followed by `unsafe { advance_mut(cnt) }`, whose
implementation for `&mut [u8]` re-checks `cnt ≤ len` and panics otherwise -/
def putFixedLoop : Nat → GAdv → Nat → Bs → Res (Bs × Nat)
  | 0, _, _, _ => .hang
  | fuel + 1, b, room, acc => do
    let r ← remaining b
    if r.1 = 0 then pure (acc, room)
    else do
      let s ← chunk r.2
      let cnt := min s.1.length room
      let part ← sliceTo s.1 cnt
      if cnt > room then .panic            -- advance_mut's own check
      else do
        let b' ← advance s.2 cnt
        putFixedLoop fuel b' (room - cnt) (acc ++ part)

def putFixed (fuel : Nat) (b : GAdv) (room : Nat) : Res (Bs × Nat) := do
  let r ← remaining b
  if room < r.1 then .panic else putFixedLoop fuel r.2 room []

/-- `BytesMut::put(src)` / `Vec::put(src)`: every chunk goes through `extend_from_slice`, which
reserves for the chunk's real length before the unsafe copy -/
def putGrowLoop : Nat → GAdv → Nat → Nat → Res (Nat × Nat)
  | 0, _, _, _ => .hang
  | fuel + 1, b, len, cap => do
    let r ← remaining b
    if r.1 = 0 then pure (len, cap)
    else do
      let s ← chunk r.2
      let cap' := if cap - len ≥ s.1.length then cap else max (2 * cap) (len + s.1.length)   -- reserve(s.len())
      unsafeWrite (cap' - len) s.1
      let b' ← advance s.2 s.1.length
      putGrowLoop fuel b' (len + s.1.length) cap'

/-- `Vec::put(src)`: `self.reserve(src.remaining())` up front (one more `remaining()` call than `BytesMut::put`), then the same loop -/
def vecPut (fuel : Nat) (b : GAdv) (len cap : Nat) : Res (Nat × Nat) := do
  let r ← remaining b
  putGrowLoop fuel r.2 len (reserveCap len cap r.1)

/-- `IntoIter::next` -/
def iterNext (b : GAdv) : Res (Option Nat × GAdv) := do
  let r ← remaining b
  if r.1 = 0 then pure (none, r.2)
  else do
    let c ← chunk r.2
    match c.1 with
    | [] => .panic
    | x :: _ => do
      let b' ← advance c.2 1
      pure (some x, b')

/-- `Reader::read(dst)`, `dst.len() = n`: `copy_to_slice(&mut dst[0..min(remaining, n)])` -/
def readerRead (fuel : Nat) (b : GAdv) (n : Nat) : Res (Bs × GAdv) := do
  let r ← remaining b
  copyToSlice fuel r.2 (min r.1 n)

/-- `Take::chunks_vectored(dst)` over an adversary that uses the default `chunks_vectored`:
`dst[..cnt]` is a safe slice of the caller's array -/
def takeChunksVectored (b : GAdv) (limit dstLen : Nat) : Res (List Bs) :=
  if limit = 0 then pure []
  else if dstLen = 0 then pure []
  else do
    let r ← remaining b
    if r.1 = 0 then pure []
    else do
      let c ← chunk r.2
      pure [c.1.take (min c.1.length limit)]

/-! ### round 8: the consumers that wrap the adversary in `Take` / `Chain` / feed it to `Limit` -/

/-- `Take<&mut Adv>::remaining`: `min(inner.remaining(), limit)` -/
def takeRemaining (b : GAdv) (limit : Nat) : Res (Nat × GAdv) := do
  let r ← remaining b
  pure (min r.1 limit, r.2)

/-- `Take::chunk`: `&bytes[..min(bytes.len(), limit)]` (a safe slice) -/
def takeChunk (b : GAdv) (limit : Nat) : Res (Bs × GAdv) := do
  let c ← chunk b
  let s ← sliceTo c.1 (min c.1.length limit)
  pure (s, c.2)

/-- `Take::advance`: `assert!(cnt <= limit); inner.advance(cnt); limit -= cnt` -/
def takeAdvance (b : GAdv) (limit cnt : Nat) : Res (GAdv × Nat) :=
  if cnt > limit then .panic
  else do
    let b' ← advance b cnt
    pure (b', limit - cnt)

/-- `BytesMut::put(src.take(limit))`: every chunk goes through `extend_from_slice` -/
def putGrowTakeLoop : Nat → GAdv → Nat → Nat → Nat → Res (Nat × Nat)
  | 0, _, _, _, _ => .hang
  | fuel + 1, b, limit, len, cap => do
    let r ← takeRemaining b limit
    if r.1 = 0 then pure (len, cap)
    else do
      let s ← takeChunk r.2 limit
      let cap' := reserveCap len cap s.1.length
      unsafeWrite (cap' - len) s.1
      let a ← takeAdvance s.2 limit s.1.length
      putGrowTakeLoop fuel a.1 a.2 (len + s.1.length) cap'

/-- default `Buf::copy_to_bytes(len)`: `BytesMut::with_capacity(len)`, `put(self.take(len))`, `freeze`; the result's length -/
def defaultCopyToBytes (fuel : Nat) (b : GAdv) (len : Nat) : Res Nat := do
  let r ← remaining b
  if r.1 < len then .panic
  else do
    let q ← putGrowTakeLoop fuel r.2 len 0 len
    pure q.1

/-- `Take::copy_to_bytes(len)` over the adversary (limit `lim`): `assert!(len <= self.remaining())`, then the inner one -/
def takeCopyToBytes (fuel : Nat) (b : GAdv) (lim len : Nat) : Res Nat := do
  let r ← takeRemaining b lim
  if len > r.1 then .panic else defaultCopyToBytes fuel r.2 len

/-- `Chain<Adv, &[u8]>::copy_to_bytes(len)`, the second half an honest slice of `bLen` bytes -/
def chainCopyToBytes (fuel : Nat) (b : GAdv) (bLen len : Nat) : Res Nat := do
  let aRem ← remaining b
  if aRem.1 ≥ len then defaultCopyToBytes fuel aRem.2 len
  else if aRem.1 = 0 then (if bLen < len then .panic else pure len)
  else if len - aRem.1 > bLen then .panic
  else do
    let q ← putGrowLoop fuel aRem.2 0 len            -- ret.put(&mut self.a)
    let k := len - aRem.1                             -- ret.put((&mut self.b).take(len - a_rem)): one honest chunk
    unsafeWrite (reserveCap q.1 q.2 k - q.1) (List.replicate k 0)
    pure (q.1 + k)

/-- `Chain<Adv, &[u8]>::chunks_vectored(dst)`, `dst.len() ≥ 2`, the adversary with the default `chunks_vectored`:
how many slices are filled (all through safe `dst[..]` indexing) -/
def chainChunksVectored (b : GAdv) (bLen : Nat) : Res Nat := do
  let r ← remaining b                                  -- a.chunks_vectored(dst): has_remaining()
  if r.1 = 0 then do
    let r2 ← remaining r.2                             -- `a_len == self.a.remaining()`: a second call, may answer differently
    pure (if 0 = r2.1 then (if bLen = 0 then 0 else 1) else 0)
  else do
    let c ← chunk r.2
    let r2 ← remaining c.2
    pure (if c.1.length = r2.1 then (if bLen = 0 then 1 else 2) else 1)

/-- `Chain<&[u8], Adv>::get_u64()` with a first half of `pre.length < 8` bytes: the fast path's `chunk().get(..8)` sees
the short first half (`None`), so the bytes come through `copy_to_slice` over the chain -/
def chainGetFixed (fuel : Nat) (pre : Bs) (b : GAdv) (size : Nat) : Res Bs := do
  let r ← remaining b                                  -- buf_try_get_impl!: `self.remaining() < SIZE`
  if pre.length + r.1 < size then .panic
  else do
    let r2 ← remaining r.2                             -- try_copy_to_slice asks again
    if pre.length + r2.1 < size then .panic
    else do
      let q ← tryCopyLoop fuel r2.2 (size - pre.length) pre
      pure q.1

/-- default `BufMut::put(src)` into `Limit<&mut BytesMut>`: state is the BytesMut's `(len, cap)` and the limit.
`chunk_mut` reserves 64 when full; the copy `d[..cnt].copy_from_slice(&s[..cnt])` is safe code; `advance_mut` re-checks
`cnt ≤ limit` (Limit) and `cnt ≤ cap - len` (BytesMut) -/
def putLimitLoop : Nat → GAdv → Nat → Nat → Nat → Res (Nat × Nat × Nat)
  | 0, _, _, _, _ => .hang
  | fuel + 1, b, limit, len, cap => do
    let r ← remaining b
    if r.1 = 0 then pure (len, cap, limit)
    else do
      let s ← chunk r.2
      let cap' := chunkMutCap len cap
      let d := min (cap' - len) limit
      let cnt := min s.1.length d
      let _ ← sliceTo s.1 cnt
      if cnt > limit then .panic                       -- Limit::advance_mut's assert
      else if cnt > cap' - len then .panic             -- BytesMut::advance_mut's check
      else do
        let b' ← advance s.2 cnt
        putLimitLoop fuel b' (limit - cnt) (len + cnt) cap'

def putLimit (fuel : Nat) (b : GAdv) (limit len cap : Nat) : Res (Nat × Nat × Nat) := do
  let r ← remaining b
  if limit < r.1 then .panic else putLimitLoop fuel r.2 limit len cap

end BytesVerif.AdvGen
