/-
M4 (formatting part): the per-byte formatter of `Debug` (an if/else-if chain of
(condition, format) pairs with a default), of `{:x}` / `{:X}`, an independent parser of Rust
byte-string literals and of hex strings, and the serde entry-point table.
The chains themselves are regenerated from src/fmt/*.rs by tools/extract.py.
-/
namespace BytesVerif.Fmt

inductive Cond
  | eq (n : Nat)                 -- b == b'…'
  | eq2 (n m : Nat)              -- b == x || b == y
  | range (lo hi : Nat)          -- (lo..hi).contains(&b)
  | unknown (text : String)
  deriving DecidableEq, Repr, Inhabited

inductive Piece
  | lit (cs : List Char)         -- literal text of the format string
  | argChar                      -- `{}` applied to `b as char`
  | argHexLower                  -- `{:02x}` applied to `b`
  | argHexUpper                  -- `{:02X}` applied to `b`
  | unknown (text : String)
  deriving DecidableEq, Repr, Inhabited

structure Chain where
  arms : List (Cond × List Piece)
  dflt : List Piece
  pre : List Char                -- written before the loop
  post : List Char               -- written after the loop
  deriving Repr, Inhabited

def Cond.holds : Cond → Nat → Bool
  | .eq n, b => b == n
  | .eq2 n m, b => b == n || b == m
  | .range lo hi, b => lo ≤ b && b < hi
  | .unknown _, _ => false

def hexDigit (up : Bool) (n : Nat) : Char :=
  if n < 10 then Char.ofNat (n + 48) else if up then Char.ofNat (n - 10 + 65) else Char.ofNat (n - 10 + 97)

def hex2 (up : Bool) (b : Nat) : List Char := [hexDigit up (b / 16), hexDigit up (b % 16)]

/-- `none`: the piece was not recognised by the translator. -/
def Piece.render : Piece → Nat → Option (List Char)
  | .lit cs, _ => some cs
  | .argChar, b => some [Char.ofNat b]
  | .argHexLower, b => some (hex2 false b)
  | .argHexUpper, b => some (hex2 true b)
  | .unknown _, _ => none

def renderPieces : List Piece → Nat → Option (List Char)
  | [], _ => some []
  | p :: ps, b =>
    match p.render b, renderPieces ps b with
    | some a, some r => some (a ++ r)
    | _, _ => none

def armsHaveUnknown : List (Cond × List Piece) → Bool
  | [] => false
  | (.unknown _, _) :: _ => true
  | _ :: rest => armsHaveUnknown rest

def selectArm : List (Cond × List Piece) → List Piece → Nat → List Piece
  | [], d, _ => d
  | (c, ps) :: rest, d, b => if c.holds b then ps else selectArm rest d b

/-- Text written for one byte. -/
def fmtByte (ch : Chain) (b : Nat) : Option (List Char) :=
  if armsHaveUnknown ch.arms then none else renderPieces (selectArm ch.arms ch.dflt b) b

def fmtBody (ch : Chain) : List Nat → Option (List Char)
  | [] => some []
  | b :: bs =>
    match fmtByte ch b, fmtBody ch bs with
    | some a, some r => some (a ++ r)
    | _, _ => none

/-- The whole output for contents `bs`. -/
def fmtAll (ch : Chain) (bs : List Nat) : Option (List Char) :=
  match fmtBody ch bs with
  | some body => some (ch.pre ++ body ++ ch.post)
  | none => none

/-! ### Independent parser of Rust byte-string literals (a strict subset of the Reference's
grammar: `b"` ( printable ASCII except `"` and `\` | `\n \r \t \\ \0 \" \'` | `\xHH` )* `"`). -/

def hexVal (c : Char) : Option Nat :=
  let n := c.toNat
  if 48 ≤ n ∧ n ≤ 57 then some (n - 48)
  else if 97 ≤ n ∧ n ≤ 102 then some (n - 97 + 10)
  else if 65 ≤ n ∧ n ≤ 70 then some (n - 65 + 10)
  else none

/-- Parse one (possibly escaped) byte off the front. -/
def parse1 : List Char → Option (Nat × List Char)
  | '\\' :: 'n' :: r => some (10, r)
  | '\\' :: 'r' :: r => some (13, r)
  | '\\' :: 't' :: r => some (9, r)
  | '\\' :: '\\' :: r => some (92, r)
  | '\\' :: '0' :: r => some (0, r)
  | '\\' :: '"' :: r => some (34, r)
  | '\\' :: '\'' :: r => some (39, r)
  | '\\' :: 'x' :: h :: l :: r =>
    match hexVal h, hexVal l with
    | some a, some b => some (a * 16 + b, r)
    | _, _ => none
  | '\\' :: _ => none
  | c :: r =>
    let n := c.toNat
    if 32 ≤ n ∧ n < 127 ∧ n ≠ 34 ∧ n ≠ 92 then some (n, r) else none
  | [] => none

/-- Body up to and including the closing quote, which must be the last character. -/
def parseBody : Nat → List Char → Option (List Nat)
  | 0, _ => none
  | fuel + 1, l =>
    if l = ['"'] then some []
    else if l.head? = some '"' then none
    else match parse1 l with
      | some (b, r) => (parseBody fuel r).map (b :: ·)
      | none => none

def parseLit : List Char → Option (List Nat)
  | 'b' :: '"' :: r => parseBody (r.length + 1) r
  | _ => none

/-- Hex strings: exactly two digits per byte; `up` selects which letter case is accepted. -/
def hexValCase (up : Bool) (c : Char) : Option Nat :=
  let n := c.toNat
  if 48 ≤ n ∧ n ≤ 57 then some (n - 48)
  else if up then (if 65 ≤ n ∧ n ≤ 70 then some (n - 65 + 10) else none)
  else (if 97 ≤ n ∧ n ≤ 102 then some (n - 97 + 10) else none)

def parseHexStr (up : Bool) : List Char → Option (List Nat)
  | [] => some []
  | [_] => none
  | h :: l :: r =>
    match hexValCase up h, hexValCase up l, parseHexStr up r with
    | some a, some b, some rest => some ((a * 16 + b) :: rest)
    | _, _, _ => none

/-- Decision procedures (256 kernel evaluations each). -/
def debugChainOK (ch : Chain) : Bool :=
  ch.pre == ['b', '"'] && ch.post == ['"'] &&
  (List.range 256).all fun b =>
    match fmtByte ch b with
    | some cs => parse1 cs == some (b, []) && cs.head? != some '"'
    | none => false

def hexChainOK (up : Bool) (ch : Chain) : Bool :=
  ch.pre == [] && ch.post == [] &&
  (List.range 256).all fun b => fmtByte ch b == some (hex2 up b)

/-! ### serde entry points -/
inductive SerdeBody
  | contentsOfInput     -- the value is built from exactly the bytes handed to the visitor method
  | serializeBytesSelf  -- `serializer.serialize_bytes(&self)`
  | dispatchByteBuf     -- `deserializer.deserialize_byte_buf(Visitor)`
  | unknown (text : String)
  deriving DecidableEq, Repr, Inhabited

inductive Ty | bytes | bytesMut | other
  deriving DecidableEq, Repr, Inhabited

inductive SerdeMethod
  | serialize | visitSeq | visitBytes | visitByteBuf | visitStr | visitString | deserialize | other
  deriving DecidableEq, Repr, Inhabited

structure SerdeRow where
  ty : Ty
  method : SerdeMethod
  body : SerdeBody
  deriving DecidableEq, Repr, Inhabited

def serdeRowOK (r : SerdeRow) : Bool :=
  match r.method, r.body with
  | .serialize, .serializeBytesSelf => true
  | .deserialize, .dispatchByteBuf => true
  | .visitSeq, .contentsOfInput | .visitBytes, .contentsOfInput | .visitByteBuf, .contentsOfInput
  | .visitStr, .contentsOfInput | .visitString, .contentsOfInput => true
  | _, _ => false

/-- The (type, method) pairs that must be present: both types, serializer, the five entry points. -/
def serdeExpected : List (Ty × SerdeMethod) :=
  [Ty.bytes, Ty.bytesMut].flatMap fun t =>
    [.serialize, .visitSeq, .visitBytes, .visitByteBuf, .visitStr, .visitString, .deserialize].map fun m => (t, m)

inductive FmtTrait | debug | lowerHex | upperHex | other
  deriving DecidableEq, Repr, Inhabited

def fmtForwardsExpected : List (FmtTrait × Ty) :=
  [(.debug, .bytes), (.debug, .bytesMut), (.lowerHex, .bytes), (.lowerHex, .bytesMut),
   (.upperHex, .bytes), (.upperHex, .bytesMut)]

/-- Contents of the value produced by a visitor row for input bytes `inp` (`none`: unknown). -/
def serdeVisit (r : SerdeRow) (inp : List Nat) : Option (List Nat) :=
  match r.body with
  | .contentsOfInput => some inp
  | _ => none

end BytesVerif.Fmt
