/- M4: small table row types shared by several generated tables. -/
namespace BytesVerif.Tables

/-- One method of a `deref_forward_*!` macro: `fn outer(params) { (**self).inner(args) }`. -/
structure FwdRow where
  outer : String
  inner : String
  params : List String
  args : List String
  deriving Repr, DecidableEq, Inhabited

/-- A forwarder is faithful when it calls the method of the same name with its own parameters,
in order. -/
def fwdRowOK (r : FwdRow) : Bool := r.outer == r.inner && r.params == r.args

end BytesVerif.Tables
