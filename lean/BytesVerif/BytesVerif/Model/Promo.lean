/-
M5p — the promotion protocol of a *promotable* `Bytes` (C05, C06): a root handle created from a
`Vec<u8>` / `Box<[u8]>` keeps the buffer address, tagged KIND_VEC, in its atomic `data` word.  The
first clone — possibly several clones racing through a shared `&Bytes` on different threads —
allocates a `Shared { buf, cap, ref_cnt: 2 }` control block and installs it with
`compare_exchange(data: VEC → shared, promCasOk, promCasFail)`; losers free their own block and
`fetch_add` the winner's counter.  From then on the reference-counting protocol of M5
(Model/Conc.lean) runs on that counter.  Same release/acquire view semantics as M5; the orderings
are a parameter.

What is new relative to M5 and is race-checked here:
* the control block is initialised *non-atomically* (`Box::new(Shared { .. AtomicUsize::new(2) })`):
  every later access to it by another thread must happen after that initialisation (`ctrlRace`);
* `data` is read by threads that only *borrow* the root handle (`&Bytes` shared across threads) while
  another such thread may be promoting it;
* the owner of a never-promoted root frees / takes over the buffer directly, without any counter.
-/
import BytesVerif.Model.Conc
namespace BytesVerif.Promo
open BytesVerif.Conc (Ord VC Msg tick)

/-- orderings: the six sites of the refcount protocol plus the promotion sites -/
structure POrds where
  cloneAdd : Ord        -- fetch_add in shallow_clone_arc
  dropSub : Ord         -- fetch_sub in release_shared
  dropLoad : Ord        -- load after the decrement hit zero
  toVecCasOk : Ord      -- compare_exchange(1, 0) success in shared_to_vec_impl
  toVecCasFail : Ord
  uniqueLoad : Ord      -- ref_cnt load in shared_to_mut_impl
  promLoad : Ord        -- data.load in promotable_{even,odd}_clone (through &self)
  promCasOk : Ord       -- shallow_clone_vec: compare_exchange success
  promCasFail : Ord     -- shallow_clone_vec: compare_exchange failure
  deriving Repr, DecidableEq, Inhabited

inductive Pc
  | idle
  | sawVec           -- loaded `data`, saw KIND_VEC, allocated an own control block: about to CAS
  | sawArc           -- loaded `data` (or failed the CAS) and knows the control block: about to fetch_add
  | dropped          -- fetch_sub returned 1: about to load and free
  | loadedFree
  | failedToVec      -- CAS(1→0) failed: will copy and then release its handle
  deriving Repr, DecidableEq, Inhabited

structure Thread where
  vc : VC
  seen : Nat          -- newest counter message observed (coherence on ref_cnt)
  dataSeen : Bool     -- has observed the promoted value of `data` (coherence on data)
  handles : Nat       -- owned `Shared`-representation handles (clones; and the root once re-labelled)
  borrow : Bool       -- holds a `&Bytes` to the root handle
  pc : Pc
  exclusive : Bool

structure St where
  /-- `data` of the root handle: `none` = still the KIND_VEC word written (non-atomically) at creation;
  `some v` = promoted, `v` = the view an acquire read of the CAS message synchronises with -/
  data : Option VC
  /-- (thread, epoch) of the non-atomic initialisation of the control block -/
  ctrlInit : Option (Nat × Nat)
  mo : List Msg                    -- modification order of ref_cnt (empty until promoted)
  th : Nat → Thread
  owner : Nat                      -- thread that owns the root handle
  rootLive : Bool                  -- the root handle still exists (as the root: not dropped, converted or re-labelled)
  lastWrite : Option (Nat × Nat)
  readEpoch : VC
  freed : Bool
  ctrlFreed : Bool
  race : Bool                      -- data race on buffer memory / its deallocation
  ctrlRace : Bool                  -- access to the control block not ordered after its initialisation
  uaf : Bool                       -- access to freed buffer memory or to a freed / non-existent control block
  doubleFree : Bool
  exclusiveCount : Nat
  promotions : Nat                 -- successful promoting CASes

def latest (s : St) : Msg := s.mo.getLast?.getD ⟨0, VC.zero⟩

def setTh (s : St) (t : Nat) (f : Thread → Thread) : St :=
  { s with th := fun u => if u = t then f (s.th t) else s.th u }

def doRead (s : St) (t : Nat) : St :=
  let T := s.th t
  let racy := match s.lastWrite with
    | some (w, e) => decide (w ≠ t ∧ ¬ e ≤ T.vc w)
    | none => false
  let vc' := tick t T.vc
  { s with race := s.race || racy, uaf := s.uaf || s.freed,
           readEpoch := fun u => if u = t then vc' t else s.readEpoch u,
           th := fun u => if u = t then { T with vc := vc' } else s.th u }

def allBefore (s : St) (t : Nat) (n : Nat) : Bool :=
  let T := s.th t
  (List.range n).all (fun u => u == t || decide (s.readEpoch u ≤ T.vc u)) &&
  (match s.lastWrite with
   | some (w, e) => w == t || decide (e ≤ T.vc w)
   | none => true)

def doWrite (s : St) (t : Nat) (n : Nat) (isFree : Bool) : St :=
  let T := s.th t
  let vc' := tick t T.vc
  { s with race := s.race || !allBefore s t n, uaf := s.uaf || (s.freed && !isFree),
           doubleFree := s.doubleFree || (s.freed && isFree),
           freed := s.freed || isFree,
           lastWrite := some (t, vc' t),
           th := fun u => if u = t then { T with vc := vc' } else s.th u }

/-- thread `t` touches the control block (any atomic operation on ref_cnt, reading buf/cap, freeing it):
it must exist, not be freed, and its non-atomic initialisation must be ordered before `t` now -/
def touchCtrl (s : St) (t : Nat) : St :=
  let T := s.th t
  let ordered := match s.ctrlInit with
    | some (w, e) => w == t || decide (e ≤ T.vc w)
    | none => true
  { s with ctrlRace := s.ctrlRace || !ordered, uaf := s.uaf || s.ctrlFreed || s.ctrlInit.isNone }

def rmw (s : St) (t : Nat) (o : Ord) (f : Nat → Nat) : St × Nat :=
  let s := touchCtrl s t
  let T := s.th t
  let m := latest s
  let vcAcq := if o.isAcq then T.vc.join m.view else T.vc
  let vc' := tick t vcAcq
  let newView := if o.isRel then m.view.join vc' else m.view
  ({ s with mo := s.mo ++ [⟨f m.val, newView⟩],
            th := fun u => if u = t then { T with vc := vc', seen := s.mo.length } else s.th u }, m.val)

def load (s : St) (t : Nat) (o : Ord) (k : Nat) : Option (St × Nat) :=
  let s := touchCtrl s t
  let T := s.th t
  if k < T.seen then none else
  match s.mo[k]? with
  | none => none
  | some m =>
    let vc' := if o.isAcq then T.vc.join m.view else T.vc
    some ({ s with th := fun u => if u = t then { T with vc := vc', seen := k } else s.th u }, m.val)

/-- may `t` use the root handle by reference now? (its owner, or a thread it was lent to) -/
def canUseRoot (s : St) (t : Nat) : Prop :=
  s.rootLive = true ∧ (s.owner = t ∨ (s.th t).borrow = true)

def noBorrows (s : St) (n : Nat) : Prop := ∀ u, u < n → (s.th u).borrow = false

inductive Step (o : POrds) (n : Nat) : St → St → Prop
  -- #### the root handle, used by reference
  /-- the owner lends `&root` to thread `u` (scoped spawn, `Arc<Bytes>`, a channel of references): happens-before edge -/
  | lend (s t u) (ht : t < n) (hu : u < n) (hne : t ≠ u) (hr : s.rootLive = true) (ho : s.owner = t)
      (hp : (s.th t).pc = .idle) (hb : (s.th u).borrow = false) :
      Step o n s (setTh (setTh s t fun T => { T with vc := tick t T.vc }) u fun U =>
        { U with borrow := true, vc := U.vc.join (tick t (s.th t).vc), dataSeen := U.dataSeen || (s.th t).dataSeen })
  /-- the borrow ends (join / drop of the reference): happens-before edge back to the owner -/
  | unlend (s u) (hu : u < n) (hb : (s.th u).borrow = true) (hp : (s.th u).pc = .idle) :
      Step o n s (setTh (setTh s u fun U => { U with borrow := false, vc := tick u U.vc }) s.owner fun T =>
        { T with vc := T.vc.join (tick u (s.th u).vc), dataSeen := T.dataSeen || (s.th u).dataSeen,
                 seen := max T.seen (s.th u).seen })
  /-- read the bytes through the root -/
  | readRoot (s t) (ht : t < n) (hc : canUseRoot s t) (hp : (s.th t).pc = .idle) :
      Step o n s (doRead s t)
  /-- `clone(&root)`, first action: `data.load(promLoad)` sees the KIND_VEC word (allowed while the thread has not
  yet observed the promotion); the thread allocates its own control block and goes on to the CAS -/
  | cloneSeesVec (s t) (ht : t < n) (hc : canUseRoot s t) (hp : (s.th t).pc = .idle) (hd : (s.th t).dataSeen = false) :
      Step o n s (setTh s t fun T => { T with pc := .sawVec })
  /-- `data.load(promLoad)` sees the promoted pointer -/
  | cloneSeesArc (s t v) (ht : t < n) (hc : canUseRoot s t) (hp : (s.th t).pc = .idle) (hd : s.data = some v) :
      Step o n s (setTh s t fun T =>
        { T with pc := .sawArc, dataSeen := true, vc := if o.promLoad.isAcq then T.vc.join v else T.vc })
  /-- the CAS succeeds: `data` was still KIND_VEC.  The control block (ref_cnt = 2: the root and the new clone) was
  initialised non-atomically by this thread just before; the CAS message carries this thread's view if it is a release -/
  | casOk (s t) (ht : t < n) (hp : (s.th t).pc = .sawVec) (hd : s.data = none) :
      Step o n s (let T := s.th t
                  let vcInit := tick t T.vc
                  let vcCas := tick t vcInit
                  { s with data := some (if o.promCasOk.isRel then vcCas else VC.zero),
                           ctrlInit := some (t, vcInit t),
                           mo := [⟨2, VC.zero⟩],
                           promotions := s.promotions + 1,
                           th := fun u => if u = t then { T with vc := vcCas, dataSeen := true, seen := 0,
                                                                  handles := T.handles + 1, pc := .idle } else s.th u })
  /-- the CAS fails: somebody else promoted.  The failure ordering decides whether the winner's view is acquired;
  the thread frees its own (never shared) block and goes on to `fetch_add` the winner's counter -/
  | casFail (s t v) (ht : t < n) (hp : (s.th t).pc = .sawVec) (hd : s.data = some v) :
      Step o n s (setTh s t fun T =>
        { T with pc := .sawArc, dataSeen := true, vc := if o.promCasFail.isAcq then T.vc.join v else T.vc })
  /-- `shallow_clone_arc`: `fetch_add(1, cloneAdd)` on the control block found in `data` -/
  | arcAdd (s t) (ht : t < n) (hp : (s.th t).pc = .sawArc) :
      Step o n s (setTh (rmw s t o.cloneAdd (· + 1)).1 t fun T => { T with handles := T.handles + 1, pc := .idle })
  /-- `is_unique(&root)` after seeing KIND_ARC: a (relaxed) load of ref_cnt, no other effect -/
  | peekCnt (s t) (ht : t < n) (hp : (s.th t).pc = .sawArc) :
      Step o n s (setTh (touchCtrl s t) t fun T => { T with pc := .idle })
  -- #### the root handle, used by its owner with no borrow outstanding
  /-- move the root handle to another thread -/
  | sendRoot (s t u) (ht : t < n) (hu : u < n) (hne : t ≠ u) (hr : s.rootLive = true) (ho : s.owner = t)
      (hp : (s.th t).pc = .idle) (hnb : noBorrows s n) :
      Step o n s ({ (setTh (setTh s t fun T => { T with vc := tick t T.vc }) u fun U =>
        { U with vc := U.vc.join (tick t (s.th t).vc), dataSeen := U.dataSeen || (s.th t).dataSeen,
                 seen := max U.seen (s.th t).seen }) with owner := u })
  /-- drop of a root whose owner reads the KIND_VEC word from `data` (possible exactly while it has not observed a
  promotion — that this implies there was none is part of what is proved): `free_boxed_slice` -/
  | dropRootVec (s t) (ht : t < n) (hr : s.rootLive = true) (ho : s.owner = t) (hp : (s.th t).pc = .idle)
      (hnb : noBorrows s n) (hd : (s.th t).dataSeen = false) :
      Step o n s { (doWrite s t n true) with rootLive := false }
  /-- `Vec::from(root)` / `BytesMut::from(root)` / `try_into_mut` of a root read as KIND_VEC: the buffer is taken over in place -/
  | takeRootVec (s t) (ht : t < n) (hr : s.rootLive = true) (ho : s.owner = t) (hp : (s.th t).pc = .idle)
      (hnb : noBorrows s n) (hd : (s.th t).dataSeen = false) :
      Step o n s (setTh { (doWrite s t n false) with rootLive := false, exclusiveCount := s.exclusiveCount + 1 } t
                    fun T => { T with exclusive := true })
  /-- once promoted, the owner's operations on the root (`promotable_*` read `data`, find KIND_ARC and forward to the
  `shared_*` implementations) are those of an ordinary `Shared` handle: re-label it -/
  | relabelRoot (s t) (ht : t < n) (hr : s.rootLive = true) (ho : s.owner = t) (hp : (s.th t).pc = .idle)
      (hnb : noBorrows s n) (hs : (s.th t).dataSeen = true) :
      Step o n s (setTh { s with rootLive := false } t fun T => { T with handles := T.handles + 1 })
  -- #### owned `Shared` handles: the protocol of M5
  | read (s t) (ht : t < n) (hh : 0 < (s.th t).handles) (hp : (s.th t).pc = .idle) :
      Step o n s (doRead s t)
  | clone (s t) (ht : t < n) (hh : 0 < (s.th t).handles) (hp : (s.th t).pc = .idle) :
      Step o n s (setTh (rmw s t o.cloneAdd (· + 1)).1 t fun T => { T with handles := T.handles + 1 })
  | send (s t u) (ht : t < n) (hu : u < n) (hne : t ≠ u) (hh : 0 < (s.th t).handles) (hp : (s.th t).pc = .idle) :
      Step o n s (setTh (setTh s t fun T => { T with handles := T.handles - 1, vc := tick t T.vc }) u
                    fun U => { U with handles := U.handles + 1, vc := U.vc.join (tick t (s.th t).vc),
                                      seen := max U.seen (s.th t).seen, dataSeen := U.dataSeen || (s.th t).dataSeen })
  | dropSub (s t) (ht : t < n) (hh : 0 < (s.th t).handles) (hp : (s.th t).pc = .idle) :
      Step o n s (let r := rmw s t o.dropSub (· - 1)
                  setTh r.1 t fun T => { T with handles := T.handles - 1, pc := if r.2 = 1 then .dropped else .idle })
  | dropLoad (s t k s' v) (ht : t < n) (hp : (s.th t).pc = .dropped) (hl : load s t o.dropLoad k = some (s', v)) :
      Step o n s (setTh s' t fun T => { T with pc := .loadedFree })
  | dropFree (s t) (ht : t < n) (hp : (s.th t).pc = .loadedFree) :
      Step o n s (setTh { (doWrite (touchCtrl s t) t n true) with ctrlFreed := true } t fun T => { T with pc := .idle })
  | toVecOk (s t) (ht : t < n) (hh : 0 < (s.th t).handles) (hp : (s.th t).pc = .idle) (h1 : (latest s).val = 1) :
      Step o n s (let r := rmw s t o.toVecCasOk (fun _ => 0)
                  let s1 := setTh r.1 t fun T => { T with handles := T.handles - 1, exclusive := true }
                  { (doWrite s1 t n false) with ctrlFreed := true, exclusiveCount := s.exclusiveCount + 1 })
  | toVecFail (s t k s' v) (ht : t < n) (hh : 0 < (s.th t).handles) (hp : (s.th t).pc = .idle)
      (hl : load s t o.toVecCasFail k = some (s', v)) (hv : v ≠ 1) :
      Step o n s (setTh (doRead s' t) t fun T => { T with pc := .failedToVec })
  | toVecFailDrop (s t) (ht : t < n) (hp : (s.th t).pc = .failedToVec) :
      Step o n s (let r := rmw s t o.dropSub (· - 1)
                  setTh r.1 t fun T => { T with handles := T.handles - 1, pc := if r.2 = 1 then .dropped else .idle })
  | uniqueOk (s t k s' v) (ht : t < n) (hh : 0 < (s.th t).handles) (hp : (s.th t).pc = .idle)
      (hl : load s t o.uniqueLoad k = some (s', v)) (hv : v = 1) :
      Step o n s ({ (doWrite s' t n false) with exclusiveCount := s.exclusiveCount + (if (s.th t).exclusive then 0 else 1) } |>
                  fun s2 => setTh s2 t fun T => { T with exclusive := true })

/-- initial state: thread 0 created the buffer (a write) and the root handle, whose `data` holds the KIND_VEC word -/
def init : St :=
  { data := none, ctrlInit := none, mo := [],
    th := fun t => { vc := if t = 0 then tick 0 VC.zero else VC.zero, seen := 0, dataSeen := false, handles := 0,
                     borrow := false, pc := .idle, exclusive := false },
    owner := 0, rootLive := true,
    lastWrite := some (0, 1), readEpoch := VC.zero, freed := false, ctrlFreed := false,
    race := false, ctrlRace := false, uaf := false, doubleFree := false, exclusiveCount := 0, promotions := 0 }

inductive Reach (o : POrds) (n : Nat) : St → Prop
  | init : Reach o n init
  | step {s s'} : Reach o n s → Step o n s s' → Reach o n s'

/-- lower bounds the proof needs (monotone) -/
def Sufficient (o : POrds) : Bool :=
  o.dropSub.isRel && o.dropLoad.isAcq && o.toVecCasOk.isAcq && o.uniqueLoad.isAcq &&
  o.promLoad.isAcq && o.promCasOk.isRel && o.promCasFail.isAcq

end BytesVerif.Promo
