/-
M4 (comparison part): the comparison / hashing impls of `Bytes` and `BytesMut`
as table rows, with an evaluator.  The rows themselves are regenerated from
/repo/src by tools/extract.py (Generated/CmpImpls.lean).

A row records, for one `impl PartialEq/PartialOrd/Ord<..> for ..`, which
operator the body applies and which of `self` / `other` ends up as the left and
right operand once byte-view coercions are stripped.  Core-only (no Mathlib).
-/
namespace BytesVerif.Cmp

abbrev Bs := List Nat     -- byte strings (values 0..255; the theorems need no range)

/-- Lexicographic comparison of byte strings: the specification of `[u8]`'s `Ord`. -/
def lexCmp : Bs → Bs → Ordering
  | [], [] => .eq
  | [], _ :: _ => .lt
  | _ :: _, [] => .gt
  | a :: as, b :: bs =>
    if a < b then .lt else if b < a then .gt else lexCmp as bs

inductive Root | self | other
  deriving DecidableEq, Repr, Inhabited

inductive Op | eq | partialCmp | cmp
  deriving DecidableEq, Repr, Inhabited

/-- Result of evaluating a comparison impl. -/
inductive Val
  | bool (b : Bool)
  | ord (o : Ordering)          -- `cmp`
  | pord (o : Option Ordering)  -- `partial_cmp`
  deriving DecidableEq, Repr

inductive Body
  | call (op : Op) (lhs rhs : Root)
  | unknown (text : String)      -- the extractor did not recognise the body (fail closed)
  deriving DecidableEq, Repr, Inhabited

structure Row where
  impl : String        -- e.g. "PartialOrd<BytesMut> for Vec<u8>"
  trait : Op           -- the trait method being implemented (eq / partial_cmp / cmp)
  body : Body
  deriving DecidableEq, Repr, Inhabited

def pick : Root → Bs → Bs → Bs
  | .self, x, _ => x
  | .other, _, y => y

def applyOp : Op → Bs → Bs → Val
  | .eq, a, b => .bool (a == b)
  | .partialCmp, a, b => .pord (some (lexCmp a b))
  | .cmp, a, b => .ord (lexCmp a b)

/-- What `impl.method(x, y)` must return: the slice operator on (x, y) in that order. -/
def spec (t : Op) (x y : Bs) : Val := applyOp t x y

/-- What the body computes (`none` for an unrecognised body). -/
def eval (r : Row) (x y : Bs) : Option Val :=
  match r.body with
  | .call op l rr => some (applyOp op (pick l x y) (pick rr x y))
  | .unknown _ => none

/-- The decision procedure. `==` is symmetric, so an `eq` body may take its operands in either
order as long as it uses both; `partial_cmp`/`cmp` must keep `self` on the left. -/
def rowOK (r : Row) : Bool :=
  match r.body with
  | .unknown _ => false
  | .call op l rr =>
    op == r.trait &&
    match r.trait with
    | .eq => (l == .self && rr == .other) || (l == .other && rr == .self)
    | _ => l == .self && rr == .other

/-- A pair on which a not-OK row differs from the specification. -/
def witness : Bs × Bs := ([0], [1])

/-- Hash / Borrow rows: what is fed to the hasher resp. returned. -/
inductive HashBody
  | selfSlice            -- exactly `self`'s byte view
  | unknown (text : String)
  deriving DecidableEq, Repr, Inhabited

structure HashRow where
  impl : String
  body : HashBody
  deriving DecidableEq, Repr, Inhabited

def hashRowOK (r : HashRow) : Bool :=
  match r.body with
  | .selfSlice => true
  | .unknown _ => false

/-- Bytes fed to the hasher by a hash row for contents `x` (`none`: unknown). -/
def hashFeed (r : HashRow) (x : Bs) : Option Bs :=
  match r.body with
  | .selfSlice => some x
  | .unknown _ => none

end BytesVerif.Cmp
