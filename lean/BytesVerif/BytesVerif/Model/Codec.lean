/-
M3 (read side): the typed getters of `trait Buf` — the three arms of `buf_try_get_impl!`,
`buf_get_impl!`, `sign_extend`, the hand-written `u8`/`i8` bodies — as functions over M2
buffers, plus the independent specification `decode`.  Which body each method has comes from T1
(Generated/Getters.lean); the arm semantics below are hand-written and tied by T2.
-/
import BytesVerif.Model.Buf
namespace BytesVerif.Codec
open BytesVerif.Buf

/-- Build configuration (debug profile: overflow checks on). -/
structure Cfg where
  overflowChecks : Bool
  deriving Repr, DecidableEq, Inhabited

inductive Endian | be | le | ne
  deriving Repr, DecidableEq, Inhabited

/-- What a method must compute, derived from its *name*. -/
inductive Kind
  | int (bytes : Nat) (signed : Bool)    -- get_u8 … get_i128
  | float (bytes : Nat)                  -- get_f32 / get_f64 (compared as bit patterns)
  | varUint                              -- get_uint(nbytes)
  | varInt                               -- get_int(nbytes)
  deriving Repr, DecidableEq, Inhabited

structure Spec where
  isTry : Bool
  kind : Kind
  endian : Endian
  deriving Repr, DecidableEq, Inhabited

/-- The body found in the source, with calls to sibling methods inlined by the translator. -/
inductive Body
  | byteDirect (signed : Bool) (isTry : Bool)          -- hand-written get_u8 / get_i8 / try_get_u8 / try_get_i8
  | fixed (bytes : Nat) (signed : Bool) (conv : Endian) (isTry : Bool)
                                                        -- buf_(try_)get_impl!(self, T::from_xx_bytes)
  | var (arm : Endian) (signed64 : Bool) (isTry : Bool) -- buf_(try_)get_impl!(be|le => self, u64|i64, nbytes)
  | signExt (inner : Body) (isTry : Bool)               -- sign_extend(<inner>(nbytes), nbytes)
  | neDispatch (big little : Body)                      -- if cfg!(target_endian = "big") {…} else {…}
  | floatBits (inner : Body)                            -- T::from_bits(<inner>())
  | unknown (text : String)
  deriving Repr, Inhabited

structure Row where
  name : String
  spec : Spec
  body : Body
  deriving Repr, Inhabited

/-- The text of `sign_extend` as recognised by the translator. -/
inductive SignExtForm
  | plainShift      -- `(val << shift) as i64 >> shift` with shift = (8 - nbytes) * 8 (overflows for nbytes = 0)
  | checkedShift    -- total: checked_shl / checked_shr
  | unknown
  deriving Repr, DecidableEq, Inhabited

/-! ### Independent specification -/

def beVal : Bs → Nat
  | [] => 0
  | b :: r => b * 256 ^ r.length + beVal r

def leVal : Bs → Nat
  | [] => 0
  | b :: r => b + 256 * leVal r

/-- Two's complement reading of an unsigned `bits`-bit value. -/
def toSigned (bits : Nat) (v : Nat) : Int :=
  if bits = 0 then 0 else if v < 2 ^ (bits - 1) then (v : Int) else (v : Int) - (2 ^ bits : Nat)

def unsignedVal (e : Endian) (bs : Bs) : Nat :=
  match e with
  | .be => beVal bs
  | .le => leVal bs
  | .ne => leVal bs        -- little-endian host (recorded in the trusted base)

/-- Number of bytes a method consumes (`nbytes` for the variable-width ones). -/
def Spec.size (s : Spec) (nbytes : Nat) : Nat :=
  match s.kind with
  | .int n _ => n
  | .float n => n
  | .varUint => nbytes
  | .varInt => nbytes

/-- The value of the next `size` bytes `bs` according to the method's name. -/
def decode (s : Spec) (bs : Bs) : Int :=
  match s.kind with
  | .int n signed => if signed then toSigned (8 * n) (unsignedVal s.endian bs) else unsignedVal s.endian bs
  | .float _ => unsignedVal s.endian bs
  | .varUint => unsignedVal s.endian bs
  | .varInt => toSigned (8 * bs.length) (unsignedVal s.endian bs)

/-! ### Semantics of the bodies (transliteration of the macros) -/

/-- Outcome of one getter call. -/
inductive Out
  | val (v : Int)
  | err (requested available : Nat)
  deriving Repr, DecidableEq, Inhabited

abbrev GetRes := Res (Out × BufT)

/-- `unwrap_or_else(|e| panic_advance(&e))` of `buf_get_impl!`. -/
def orPanic (isTry : Bool) (r : GetRes) : GetRes :=
  match r with
  | .ok (.err _ _, _) => if isTry then r else .panic
  | r => r

def convFixed (signed : Bool) (bytes : Nat) (conv : Endian) (bs : Bs) : Int :=
  if signed then toSigned (8 * bytes) (unsignedVal conv bs) else unsignedVal conv bs

/-- First arm of `buf_try_get_impl!` (fast path on `chunk()`, else `copy_to_slice`). -/
def tryGetFixed (bytes : Nat) (signed : Bool) (conv : Endian) (b : BufT) : GetRes :=
  if remaining b < bytes then .ok (.err bytes (remaining b), b)
  else if bytes ≤ (chunk b).length then
    (advance b bytes).map fun b' => (.val (convFixed signed bytes conv ((chunk b).take bytes)), b')
  else
    (copyToSlice b bytes).map fun (bs, b') => (.val (convFixed signed bytes conv bs), b')

/-- `le =>` / `be =>` arms: 8-byte scratch buffer, `nbytes` bytes copied to its low end. -/
def tryGetVar (arm : Endian) (signed64 : Bool) (nbytes : Nat) (b : BufT) : GetRes :=
  if nbytes > 8 then .panic                                   -- panic_does_not_fit
  else
    match tryCopyToSlice b nbytes with
    | .panic => .panic
    | .ok (none, b') => .ok (.err nbytes (remaining b), b')
    | .ok (some bs, b') =>
      let v := match arm with
        | .be => beVal (List.replicate (8 - nbytes) 0 ++ bs)
        | _ => leVal (bs ++ List.replicate (8 - nbytes) 0)
      .ok (.val (if signed64 then toSigned 64 v else v), b')

/-- `sign_extend(val, nbytes)` on a `u64` value. -/
def signExtend (c : Cfg) (form : SignExtForm) (val : Nat) (nbytes : Nat) : Res Int :=
  let shift := (8 - nbytes) * 8
  match form with
  | .plainShift =>
    if shift ≥ 64 then
      if c.overflowChecks then .panic
      else .ok (toSigned 64 val)           -- wrapping shift amount: 64 % 64 = 0
    else .ok (Int.fdiv (toSigned 64 (val * 2 ^ shift % 2 ^ 64)) (2 ^ shift : Nat))
  | .checkedShift =>
    if shift ≥ 64 then .ok 0
    else .ok (Int.fdiv (toSigned 64 (val * 2 ^ shift % 2 ^ 64)) (2 ^ shift : Nat))
  | .unknown => .panic

def bodyIsTry : Body → Bool
  | .byteDirect _ t => t
  | .fixed _ _ _ t => t
  | .var _ _ t => t
  | .signExt _ t => t
  | .neDispatch _ l => bodyIsTry l
  | .floatBits i => bodyIsTry i
  | .unknown _ => false

/-- Evaluate a body on buffer `b` (argument `nbytes` for the variable-width methods). -/
def evalBody (c : Cfg) (form : SignExtForm) : Body → Nat → BufT → GetRes
  | .byteDirect signed isTry, _, b =>
    if remaining b < 1 then (if isTry then .ok (.err 1 (remaining b), b) else .panic)
    else
      match chunk b with
      | [] => .panic                                         -- `chunk()[0]`
      | x :: _ => (advance b 1).map fun b' => (.val (if signed then toSigned 8 x else x), b')
  | .fixed bytes signed conv isTry, _, b => orPanic isTry (tryGetFixed bytes signed conv b)
  | .var arm s64 isTry, n, b => orPanic isTry (tryGetVar arm s64 n b)
  | .signExt inner _, n, b =>
    match evalBody c form inner n b with
    | .ok (.val v, b') =>
      match signExtend c form v.toNat n with
      | .ok r => .ok (.val r, b')
      | .panic => .panic
    | r => r
  | .neDispatch _ little, n, b => evalBody c form little n b      -- little-endian host
  | .floatBits inner, n, b => evalBody c form inner n b           -- from_bits is the identity on bits
  | .unknown _, _, _ => .panic

/-! ### Decision procedure: does the body found in the source match the method's name? -/

def isFixed (bytes : Nat) (signed : Bool) (e : Endian) (t : Bool) : Body → Bool
  | .fixed b s c t' => b == bytes && s == signed && c == e && t' == t
  | _ => false

def isVarU (e : Endian) (t : Bool) : Body → Bool
  | .var a s64 t' => a == e && !s64 && t' == t
  | _ => false

def isSignExtVarU (e : Endian) (t : Bool) : Body → Bool
  | .signExt inner t' => isVarU e t inner && t' == t
  | _ => false

def rowOK (form : SignExtForm) (r : Row) : Bool :=
  let t := r.spec.isTry
  match r.spec.kind, r.spec.endian, r.body with
  | .int 1 signed, _, .byteDirect s t' => s == signed && t' == t
  | .int n signed, e, body => n > 1 && n ≤ 16 && isFixed n signed e t body
  | .float n, e, .floatBits inner => (n == 4 || n == 8) && isFixed n false e t inner
  | .varUint, .be, body => isVarU .be t body
  | .varUint, .le, body => isVarU .le t body
  | .varUint, .ne, .neDispatch big little => isVarU .be t big && isVarU .le t little
  | .varInt, .be, body => isSignExtVarU .be t body && form == .checkedShift
  | .varInt, .le, body => isSignExtVarU .le t body && form == .checkedShift
  | .varInt, .ne, .neDispatch big little =>
    isSignExtVarU .be t big && isSignExtVarU .le t little && form == .checkedShift
  | _, _, _ => false

end BytesVerif.Codec
