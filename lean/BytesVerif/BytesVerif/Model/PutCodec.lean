/-
M3 (write side): the typed `put_*` methods of `trait BufMut` — which bytes each body hands to
`put_slice` — and the independent specification `encode`.  Bodies come from T1
(Generated/Putters.lean).
-/
import BytesVerif.Model.Codec
import BytesVerif.Model.BufMut
namespace BytesVerif.PutCodec
open BytesVerif.Buf BytesVerif.Codec BytesVerif.BufMut

inductive PutBody
  | byteDirect                              -- `let src = [n]` / `[n as u8]`; put_slice(&src)
  | fixed (bytes : Nat) (e : Endian)        -- put_slice(&n.to_xx_bytes())
  | varBe                                   -- put_slice(&n.to_be_bytes()[8 - nbytes ..]) (checked_sub, else panic)
  | varLe                                   -- put_slice(n.to_le_bytes().get(..nbytes)) (else panic)
  | neDispatch (big little : PutBody)
  | floatBits (inner : PutBody)             -- self.put_uNN(n.to_bits())
  | unknown (text : String)
  deriving Repr, Inhabited

structure PutRow where
  name : String
  spec : Spec                               -- `isTry` is always false here
  body : PutBody
  deriving Repr, Inhabited

/-- `n` little-endian bytes of `v`. -/
def leBytes : Nat → Nat → Bs
  | 0, _ => []
  | n + 1, v => (v % 256) :: leBytes n (v / 256)

def beBytes (n v : Nat) : Bs := (leBytes n v).reverse

/-- Two's complement representation of `v` in `bits` bits. -/
def toUnsigned (bits : Nat) (v : Int) : Nat := (v % (2 ^ bits : Nat)).toNat

/-- Specification: the byte-order encoding of value `v` for the method named by `s`. -/
def encode (s : Spec) (v : Int) (nbytes : Nat) : Bs :=
  let size := s.size nbytes
  let u := toUnsigned (8 * size) v
  match s.endian with
  | .be => beBytes size u
  | _ => leBytes size u

/-- The bytes a body hands to `put_slice` (`none`: panic / unknown). Values arrive as the
argument's own integer type, i.e. already reduced modulo its width (`width` bytes). -/
def bodyBytes : PutBody → (width : Nat) → Int → Nat → Option Bs
  | .byteDirect, _, v, _ => some [toUnsigned 8 v]
  | .fixed b .be, _, v, _ => some (beBytes b (toUnsigned (8 * b) v))
  | .fixed b _, _, v, _ => some (leBytes b (toUnsigned (8 * b) v))
  | .varBe, _, v, n => if n ≤ 8 then some ((beBytes 8 (toUnsigned 64 v)).drop (8 - n)) else none
  | .varLe, _, v, n => if n ≤ 8 then some ((leBytes 8 (toUnsigned 64 v)).take n) else none
  | .neDispatch _ little, w, v, n => bodyBytes little w v n
  | .floatBits inner, w, v, n => bodyBytes inner w v n
  | .unknown _, _, _, _ => none

/-- `put_X(v)` on target `t`. -/
def evalPut (e : BufMut.Env) (body : PutBody) (v : Int) (nbytes : Nat) (t : MutT) : Res MutT :=
  match bodyBytes body 0 v nbytes with
  | some bs => putSlice e t bs
  | none => .panic

def putRowOK (r : PutRow) : Bool :=
  !r.spec.isTry &&
  match r.spec.kind, r.spec.endian, r.body with
  | .int 1 _, _, .byteDirect => true
  | .int n _, e, .fixed b e' => n > 1 && n ≤ 16 && b == n && e' == e
  | .float n, e, .floatBits (.fixed b e') => (n == 4 || n == 8) && b == n && e' == e
  | .varUint, .be, .varBe | .varInt, .be, .varBe => true
  | .varUint, .le, .varLe | .varInt, .le, .varLe => true
  | .varUint, .ne, .neDispatch .varBe .varLe | .varInt, .ne, .neDispatch .varBe .varLe => true
  | _, _, _ => false

/-- Value range of a method's argument type. -/
def inRange (s : Spec) (v : Int) (nbytes : Nat) : Prop :=
  let bits := 8 * s.size nbytes
  match s.kind with
  | .int _ true | .varInt => if bits = 0 then v = 0 else -(2 ^ (bits - 1) : Int) ≤ v ∧ v < (2 ^ (bits - 1) : Int)
  | _ => 0 ≤ v ∧ v < (2 ^ bits : Int)

end BytesVerif.PutCodec
