/-
M6 — adversarial trait implementations (C17).  A `Buf` whose `remaining()`, `chunk()` and `advance()`
are scripted lies (any numbers, any slice of its own memory, panics at chosen calls) is handed to the
crate's consumers.  The consumers are transliterated with every *unsafe* step made explicit as a
bounds-checked primitive that reports `ub` when the real code would touch memory out of bounds
(`unsafeRead`, `unsafeWrite`, `advanceMut`), and every *safe* indexing as a primitive that panics.
The theorem (Props/C17.lean): no consumer ever reaches `ub`, for every script, argument and fuel.
-/
namespace BytesVerif.Adv

abbrev Bs := List Nat

/-- one scripted answer: what `remaining()` claims, how long the slice `chunk()` really returns is,
and whether a call panics (1: remaining, 2: chunk, 3: advance) -/
structure Lie where
  rem : Nat
  chunk : Nat
  panicAt : Nat
  deriving Repr, DecidableEq, Inhabited

/-- the adversary: a script of lies; every `advance` moves to the next one; after the script it
behaves like an honest empty buffer; `backing` is the memory it really owns -/
structure AdvBuf where
  script : List Lie
  k : Nat := 0
  calls : Nat := 0
  backing : Bs
  deriving Repr, Inhabited

inductive Res (α : Type) where
  | ok (a : α)
  | panic
  | ub (why : String)
  | hang                      -- out of fuel: the consumer would loop (allowed by the property)
  deriving Repr, Inhabited

def Res.bind {α β : Type} (r : Res α) (f : α → Res β) : Res β :=
  match r with
  | .ok a => f a
  | .panic => .panic
  | .ub w => .ub w
  | .hang => .hang

instance : Monad Res where
  pure := .ok
  bind := Res.bind

def AdvBuf.cur (b : AdvBuf) : Lie := b.script.getD b.k ⟨0, 0, 0⟩

def remaining (b : AdvBuf) : Res Nat :=
  if b.cur.panicAt = 1 then .panic else .ok b.cur.rem

/-- the slice really returned: always inside the adversary's own memory -/
def chunk (b : AdvBuf) : Res Bs :=
  if b.cur.panicAt = 2 then .panic else .ok (b.backing.take (min b.cur.chunk b.backing.length))

def advance (b : AdvBuf) (_cnt : Nat) : Res AdvBuf :=
  if b.cur.panicAt = 3 then .panic else .ok { b with k := b.k + 1, calls := b.calls + 1 }

/-- safe slicing `s[..n]`: panics when out of range -/
def sliceTo (s : Bs) (n : Nat) : Res Bs := if n ≤ s.length then .ok (s.take n) else .panic

/-- `*(src as *const [u8; n])`: an unsafe read of exactly `n` bytes through a raw pointer -/
def unsafeRead (src : Bs) (n : Nat) : Res Bs :=
  if n ≤ src.length then .ok (src.take n) else .ub "read past the end of the slice returned by chunk()"

/-- `ptr::copy_nonoverlapping` / `write_bytes` of `bs` into a destination with `room` bytes left -/
def unsafeWrite (room : Nat) (bs : Bs) : Res Unit :=
  if bs.length ≤ room then .ok () else .ub "write past the end of the destination"

/-! ### consumers -/

/-- default `try_copy_to_slice(dst)`, `dst.len() = n` (safe code: `dst[..cnt].copy_from_slice(&src[..cnt])`) -/
def tryCopyLoop : Nat → AdvBuf → Nat → Bs → Res (Bs × AdvBuf)
  | 0, _, _, _ => .hang
  | fuel + 1, b, need, acc =>
    if need = 0 then .ok (acc, b)
    else do
      let src ← chunk b
      let cnt := min src.length need
      let part ← sliceTo src cnt
      let b' ← advance b cnt
      tryCopyLoop fuel b' (need - cnt) (acc ++ part)

def tryCopyToSlice (fuel : Nat) (b : AdvBuf) (n : Nat) : Res (Option Bs × AdvBuf) := do
  let r ← remaining b
  if r < n then pure (none, b)
  else do
    let (bs, b') ← tryCopyLoop fuel b n []
    pure (some bs, b')

def copyToSlice (fuel : Nat) (b : AdvBuf) (n : Nat) : Res (Bs × AdvBuf) := do
  let (o, b') ← tryCopyToSlice fuel b n
  match o with
  | some bs => pure (bs, b')
  | none => .panic

/-- first arm of `buf_try_get_impl!` for a SIZE-byte type: the unsafe array read is applied to what
`chunk().get(..SIZE)` returned -/
def tryGetFixed (fuel : Nat) (b : AdvBuf) (size : Nat) : Res (Option Bs × AdvBuf) := do
  let r ← remaining b
  if r < size then pure (none, b)
  else do
    let c ← chunk b
    -- `.get(..SIZE)`: Some(prefix) iff the slice is long enough
    if size ≤ c.length then do
      let bytes ← unsafeRead (c.take size) size
      let b' ← advance b size
      pure (some bytes, b')
    else do
      let (bs, b') ← copyToSlice fuel b size
      pure (some bs, b')

/-- `le =>` / `be =>` arms: `nbytes` into an 8-byte scratch buffer via `try_copy_to_slice` -/
def tryGetVar (fuel : Nat) (b : AdvBuf) (nbytes : Nat) : Res (Option Bs × AdvBuf) :=
  if nbytes > 8 then .panic else tryCopyToSlice fuel b nbytes

/-- `get_u8`: `self.chunk()[0]` is a safe index -/
def getU8 (b : AdvBuf) : Res (Nat × AdvBuf) := do
  let r ← remaining b
  if r < 1 then .panic
  else do
    let c ← chunk b
    match c with
    | [] => .panic
    | x :: _ => do
      let b' ← advance b 1
      pure (x, b')

/-- default `BufMut::put(src)` into a fixed destination with `room` bytes: the copy is
`d[..cnt].copy_from_slice(&s[..cnt])` (safe) followed by `unsafe { advance_mut(cnt) }`, whose
implementation for `&mut [u8]` re-checks `cnt ≤ len` and panics otherwise -/
def putFixedLoop : Nat → AdvBuf → Nat → Bs → Res (Bs × Nat)
  | 0, _, _, _ => .hang
  | fuel + 1, b, room, acc => do
    let r ← remaining b
    if r = 0 then pure (acc, room)
    else do
      let s ← chunk b
      let cnt := min s.length room
      let part ← sliceTo s cnt
      if cnt > room then .panic            -- advance_mut's own check
      else do
        let b' ← advance b cnt
        putFixedLoop fuel b' (room - cnt) (acc ++ part)

def putFixed (fuel : Nat) (b : AdvBuf) (room : Nat) : Res (Bs × Nat) := do
  let r ← remaining b
  if room < r then .panic else putFixedLoop fuel b room []

/-- `BytesMut::put(src)` / `Vec::put(src)`: every chunk goes through `extend_from_slice`, which
reserves for the chunk's real length before the unsafe copy -/
def putGrowLoop : Nat → AdvBuf → Nat → Nat → Res (Nat × Nat)
  | 0, _, _, _ => .hang
  | fuel + 1, b, len, cap => do
    let r ← remaining b
    if r = 0 then pure (len, cap)
    else do
      let s ← chunk b
      let cap' := if cap - len ≥ s.length then cap else max (2 * cap) (len + s.length)   -- reserve(s.len())
      unsafeWrite (cap' - len) s
      let b' ← advance b s.length
      putGrowLoop fuel b' (len + s.length) cap'

/-- `IntoIter::next` -/
def iterNext (b : AdvBuf) : Res (Option Nat × AdvBuf) := do
  let r ← remaining b
  if r = 0 then pure (none, b)
  else do
    let c ← chunk b
    match c with
    | [] => .panic
    | x :: _ => do
      let b' ← advance b 1
      pure (some x, b')

/-- `Reader::read(dst)`, `dst.len() = n`: `copy_to_slice(&mut dst[0..min(remaining, n)])` -/
def readerRead (fuel : Nat) (b : AdvBuf) (n : Nat) : Res (Bs × AdvBuf) := do
  let r ← remaining b
  copyToSlice fuel b (min r n)

/-- `Take::chunks_vectored(dst)` over an adversary that uses the default `chunks_vectored`:
`dst[..cnt]` is a safe slice of the caller's array -/
def takeChunksVectored (b : AdvBuf) (limit dstLen : Nat) : Res (List Bs) :=
  if limit = 0 then pure []
  else if dstLen = 0 then pure []
  else do
    let r ← remaining b
    if r = 0 then pure []
    else do
      let c ← chunk b
      pure [c.take (min c.length limit)]

/-! ### round 8: the consumers that wrap the adversary in `Take` / `Chain` / feed it to `Limit` -/

/-- `Take<&mut Adv>::remaining`: `min(inner.remaining(), limit)` -/
def takeRemaining (b : AdvBuf) (limit : Nat) : Res Nat := do
  let r ← remaining b
  pure (min r limit)

/-- `Take::chunk`: `&bytes[..min(bytes.len(), limit)]` (a safe slice) -/
def takeChunk (b : AdvBuf) (limit : Nat) : Res Bs := do
  let c ← chunk b
  sliceTo c (min c.length limit)

/-- `Take::advance`: `assert!(cnt <= limit); inner.advance(cnt); limit -= cnt` -/
def takeAdvance (b : AdvBuf) (limit cnt : Nat) : Res (AdvBuf × Nat) :=
  if cnt > limit then .panic
  else do
    let b' ← advance b cnt
    pure (b', limit - cnt)

/-- capacity after `reserve(n)` on a growing destination (only `cap' - len ≥ n` matters for safety) -/
def reserveCap (len cap n : Nat) : Nat := if cap - len ≥ n then cap else max (2 * cap) (len + n)

/-- `BytesMut::put(src.take(limit))`: every chunk goes through `extend_from_slice` -/
def putGrowTakeLoop : Nat → AdvBuf → Nat → Nat → Nat → Res (Nat × Nat)
  | 0, _, _, _, _ => .hang
  | fuel + 1, b, limit, len, cap => do
    let r ← takeRemaining b limit
    if r = 0 then pure (len, cap)
    else do
      let s ← takeChunk b limit
      let cap' := reserveCap len cap s.length
      unsafeWrite (cap' - len) s
      let (b', limit') ← takeAdvance b limit s.length
      putGrowTakeLoop fuel b' limit' (len + s.length) cap'

/-- default `Buf::copy_to_bytes(len)`: `BytesMut::with_capacity(len)`, `put(self.take(len))`, `freeze`; the result's length -/
def defaultCopyToBytes (fuel : Nat) (b : AdvBuf) (len : Nat) : Res Nat := do
  let r ← remaining b
  if r < len then .panic
  else do
    let (n, _) ← putGrowTakeLoop fuel b len 0 len
    pure n

/-- `Take::copy_to_bytes(len)` over the adversary (limit `lim`): `assert!(len <= self.remaining())`, then the inner one -/
def takeCopyToBytes (fuel : Nat) (b : AdvBuf) (lim len : Nat) : Res Nat := do
  let r ← takeRemaining b lim
  if len > r then .panic else defaultCopyToBytes fuel b len

/-- `Chain<Adv, &[u8]>::copy_to_bytes(len)`, the second half an honest slice of `bLen` bytes -/
def chainCopyToBytes (fuel : Nat) (b : AdvBuf) (bLen len : Nat) : Res Nat := do
  let aRem ← remaining b
  if aRem ≥ len then defaultCopyToBytes fuel b len
  else if aRem = 0 then (if bLen < len then .panic else pure len)
  else if len - aRem > bLen then .panic
  else do
    let (n, cap) ← putGrowLoop fuel b 0 len          -- ret.put(&mut self.a)
    let k := len - aRem                               -- ret.put((&mut self.b).take(len - a_rem)): one honest chunk
    unsafeWrite (reserveCap n cap k - n) (List.replicate k 0)
    pure (n + k)

/-- `Chain<Adv, &[u8]>::chunks_vectored(dst)`, `dst.len() ≥ 2`, the adversary with the default `chunks_vectored`:
how many slices are filled (all through safe `dst[..]` indexing) -/
def chainChunksVectored (b : AdvBuf) (bLen : Nat) : Res Nat := do
  let r ← remaining b
  if r = 0 then pure (if bLen = 0 then 0 else 1)      -- nothing from a; a_len = 0 = a.remaining()
  else do
    let c ← chunk b
    pure (if c.length = r then (if bLen = 0 then 1 else 2) else 1)

/-- `Chain<&[u8], Adv>::get_u64()` with a first half of `pre.length < 8` bytes: the fast path's `chunk().get(..8)` sees
the short first half (`None`), so the bytes come through `copy_to_slice` over the chain -/
def chainGetFixed (fuel : Nat) (pre : Bs) (b : AdvBuf) (size : Nat) : Res Bs := do
  let r ← remaining b
  if pre.length + r < size then .panic
  else do
    let (bs, _) ← tryCopyLoop fuel b (size - pre.length) pre
    pure bs

/-- capacity after `BytesMut::chunk_mut`: `reserve(64)` when full -/
def chunkMutCap (len cap : Nat) : Nat := if cap = len then max (2 * cap) (len + 64) else cap

/-- default `BufMut::put(src)` into `Limit<&mut BytesMut>`: state is the BytesMut's `(len, cap)` and the limit.
`chunk_mut` reserves 64 when full; the copy `d[..cnt].copy_from_slice(&s[..cnt])` is safe code; `advance_mut` re-checks
`cnt ≤ limit` (Limit) and `cnt ≤ cap - len` (BytesMut) -/
def putLimitLoop : Nat → AdvBuf → Nat → Nat → Nat → Res (Nat × Nat × Nat)
  | 0, _, _, _, _ => .hang
  | fuel + 1, b, limit, len, cap => do
    let r ← remaining b
    if r = 0 then pure (len, cap, limit)
    else do
      let s ← chunk b
      let cap' := chunkMutCap len cap
      let d := min (cap' - len) limit
      let cnt := min s.length d
      let _ ← sliceTo s cnt
      if cnt > limit then .panic                       -- Limit::advance_mut's assert
      else if cnt > cap' - len then .panic             -- BytesMut::advance_mut's check
      else do
        let b' ← advance b cnt
        putLimitLoop fuel b' (limit - cnt) (len + cnt) cap'

def putLimit (fuel : Nat) (b : AdvBuf) (limit len cap : Nat) : Res (Nat × Nat × Nat) := do
  let r ← remaining b
  if limit < r then .panic else putLimitLoop fuel b limit len cap

end BytesVerif.Adv
