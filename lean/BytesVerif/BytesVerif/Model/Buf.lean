/-
M2 (read side): the `Buf` implementations of the crate as adapter trees, transliterated function
by function from src/buf/{buf_impl,chain,take,vec_deque,iter,reader}.rs and the `Buf` impls of
`Bytes` / `BytesMut`.  Core-only (no Mathlib): the `judge` executable links this file.

Numbers are `Nat`; `usize` range conditions are explicit (`W = 2^64`).  A call that panics in
Rust returns `Res.panic`.
-/
namespace BytesVerif.Buf

abbrev Bs := List Nat

/-- `usize::MAX + 1`. Kept irreducible-by-convention: proofs use `W_pos` / `W_eq`. -/
def W : Nat := 18446744073709551616

theorem W_eq : W = 18446744073709551616 := rfl
theorem W_pos : 0 < W := by decide

inductive Res (α : Type) where
  | ok (a : α)
  | panic
  deriving Repr, DecidableEq, Inhabited

def Res.map {α β : Type} (f : α → β) : Res α → Res β
  | .ok a => .ok (f a)
  | .panic => .panic

def Res.bind {α β : Type} (r : Res α) (f : α → Res β) : Res β :=
  match r with
  | .ok a => f a
  | .panic => .panic

/-- Contiguous leaves. `slice` = `&[u8]`, `bytes` = `Bytes`, `bytesMut` = `BytesMut`; they differ
only in which default methods they override. -/
inductive Flat | slice | bytes | bytesMut
  deriving Repr, DecidableEq, Inhabited

inductive BufT where
  /-- any law-abiding multi-chunk leaf with the *default* `chunks_vectored` / `copy_to_*`;
  empty chunks allowed (skipped by `chunk`) -/
  | seg (chunks : List Bs)
  | flat (k : Flat) (bs : Bs)
  /-- `std::io::Cursor<T: AsRef<[u8]>>` -/
  | cursor (data : Bs) (pos : Nat)
  /-- `VecDeque<u8>` seen through `as_slices()` -/
  | deque (s1 s2 : Bs)
  | chain (a b : BufT)
  | take (inner : BufT) (limit : Nat)
  | refMut (inner : BufT)
  | box (inner : BufT)
  deriving Repr, Inhabited, DecidableEq

/-- The byte sequence a buffer denotes. -/
def den : BufT → Bs
  | .seg cs => cs.flatten
  | .flat _ bs => bs
  | .cursor d p => d.drop p
  | .deque s1 s2 => s1 ++ s2
  | .chain a b => den a ++ den b
  | .take i n => (den i).take n
  | .refMut i => den i
  | .box i => den i

/-- What the environment guarantees (sizes fit `usize`; `VecDeque::as_slices` puts the front part
first). -/
def wf : BufT → Prop
  | .seg cs => cs.flatten.length < W
  | .flat _ bs => bs.length < W
  | .cursor d p => d.length < W ∧ p < W
  | .deque s1 s2 => s1.length + s2.length < W ∧ (s1 = [] → s2 = [])
  | .chain a b => wf a ∧ wf b ∧ (den a).length + (den b).length < W
  | .take i n => wf i ∧ n < W
  | .refMut i => wf i
  | .box i => wf i

def satAdd (a b : Nat) : Nat := if a + b < W then a + b else W - 1

/-- `Buf::remaining` -/
def remaining : BufT → Nat
  | .seg cs => cs.flatten.length
  | .flat _ bs => bs.length
  | .cursor d p => d.length - p                      -- saturating_sub_usize_u64
  | .deque s1 s2 => s1.length + s2.length
  | .chain a b => satAdd (remaining a) (remaining b)  -- saturating_add
  | .take i n => min (remaining i) n
  | .refMut i => remaining i
  | .box i => remaining i

def segChunk : List Bs → Bs
  | [] => []
  | c :: r => if c = [] then segChunk r else c

/-- `Buf::chunk` -/
def chunk : BufT → Bs
  | .seg cs => segChunk cs
  | .flat _ bs => bs
  | .cursor d p => d.drop (min p d.length)            -- min_u64_usize
  | .deque s1 s2 => if s1 = [] then s2 else s1
  | .chain a b => if remaining a > 0 then chunk a else chunk b
  | .take i n => (chunk i).take (min (chunk i).length n)
  | .refMut i => chunk i
  | .box i => chunk i

def segAdvance : List Bs → Nat → List Bs
  | [], _ => []
  | c :: r, n => if n < c.length then c.drop n :: r else segAdvance r (n - c.length)

/-- `Buf::advance` -/
def advance : BufT → Nat → Res BufT
  | .seg cs, n => if cs.flatten.length < n then .panic else .ok (.seg (segAdvance cs n))
  | .flat k bs, n => if bs.length < n then .panic else .ok (.flat k (bs.drop n))
  | .cursor d p, n => if n > d.length - p then .panic else .ok (.cursor d (p + n))
  | .deque s1 s2, n =>
    if s1.length + s2.length < n then .panic           -- `drain(..cnt)` range check
    else if n < s1.length then .ok (.deque (s1.drop n) s2)
    else .ok (.deque (s2.drop (n - s1.length)) [])
  | .chain a b, n =>
    let aRem := remaining a
    if aRem ≠ 0 then
      if aRem ≥ n then (advance a n).map (fun a' => .chain a' b)
      else (advance a aRem).bind fun a' => (advance b (n - aRem)).map fun b' => .chain a' b'
    else (advance b n).map (fun b' => .chain a b')
  | .take i lim, n =>
    if n ≤ lim then (advance i n).map (fun i' => .take i' (lim - n)) else .panic
  | .refMut i, n => (advance i n).map .refMut
  | .box i, n => (advance i n).map .box

def totalLen (sl : List Bs) : Nat := sl.flatten.length

/-- Loop of `Take::chunks_vectored` over the slices reported by the inner buffer. -/
def takeLoop : List Bs → Nat → List Bs
  | [], _ => []
  | s :: r, lim => if lim ≤ s.length then [s.take lim] else s :: takeLoop r (lim - s.length)

/-- `Buf::chunks_vectored(dst)` with `dst.len() = k`: the slices written, in order (the return
value is the length of this list; `dst` beyond it is untouched by construction). -/
def chunksVectored : BufT → Nat → List Bs
  | .seg cs, k => if k = 0 then [] else if cs.flatten.length > 0 then [segChunk cs] else []
  | .flat _ bs, k => if k = 0 then [] else if bs.length > 0 then [bs] else []
  | .cursor d p, k => if k = 0 then [] else if d.length - p > 0 then [d.drop (min p d.length)] else []
  | .deque s1 s2, k =>
    if s1.length + s2.length = 0 ∨ k = 0 then []
    else if s2 = [] ∨ k = 1 then [s1] else [s1, s2]
  | .chain a b, k =>
    let sa := chunksVectored a k
    -- continue into `b` only when `a`'s slices cover all of `a`
    if totalLen sa = remaining a then sa ++ chunksVectored b (k - sa.length) else sa
  | .take i lim, k =>
    if lim = 0 then [] else takeLoop (chunksVectored i (min k 16)) lim
  | .refMut i, k => chunksVectored i k
  | .box i, k => chunksVectored i k

/-- Loop of the default `try_copy_to_slice`: `need` bytes still to copy. -/
def copyLoop : Nat → BufT → Nat → Bs → Res (Bs × BufT)
  | 0, b, need, acc => if need = 0 then .ok (acc, b) else .panic   -- out of fuel: not reachable for wf buffers
  | fuel + 1, b, need, acc =>
    if need = 0 then .ok (acc, b)
    else
      let src := chunk b
      let cnt := min src.length need
      (advance b cnt).bind fun b' => copyLoop fuel b' (need - cnt) (acc ++ src.take cnt)

/-- `Buf::try_copy_to_slice(dst)` with `dst.len() = n`: `Err` is `none`. The crate never overrides
it, and `&mut T` / `Box<T>` forward it, which is the same function of the primitives. -/
def tryCopyToSlice (b : BufT) (n : Nat) : Res (Option Bs × BufT) :=
  if remaining b < n then .ok (none, b)
  else (copyLoop (n + 1) b n []).map fun (bs, b') => (some bs, b')

/-- `Buf::copy_to_slice`: default = `try_copy_to_slice` + panic; `&[u8]` overrides it. -/
def copyToSlice : BufT → Nat → Res (Bs × BufT)
  | .flat .slice bs, n => if bs.length < n then .panic else .ok (bs.take n, .flat .slice (bs.drop n))
  | .refMut i, n => (copyToSlice i n).map fun (r, i') => (r, .refMut i')
  | .box i, n => (copyToSlice i n).map fun (r, i') => (r, .box i')
  | b, n =>
    match tryCopyToSlice b n with
    | .ok (some bs, b') => .ok (bs, b')
    | .ok (none, _) => .panic
    | .panic => .panic

/-- `BytesMut::put(src)` / `extend_from_slice` loop used by the default `copy_to_bytes`:
drain `src` chunk by chunk. -/
def drainLoop : Nat → BufT → Bs → Res (Bs × BufT)
  | 0, b, acc => if remaining b = 0 then .ok (acc, b) else .panic
  | fuel + 1, b, acc =>
    if remaining b = 0 then .ok (acc, b)
    else
      let s := chunk b
      (advance b s.length).bind fun b' => drainLoop fuel b' (acc ++ s)

def drain (b : BufT) : Res (Bs × BufT) := drainLoop (remaining b + 1) b []

/-- Default `Buf::copy_to_bytes(len)`: `ret.put(self.take(len))`. -/
def copyToBytesDefault (b : BufT) (len : Nat) : Res (Bs × BufT) :=
  if remaining b < len then .panic
  else
    match drain (.take b len) with
    | .ok (bs, .take b' _) => .ok (bs, b')
    | _ => .panic

/-- `Buf::copy_to_bytes(len)` with the overrides of `Bytes`, `BytesMut`, `Chain`, `Take` and the
forwarders. -/
def copyToBytes : BufT → Nat → Res (Bs × BufT)
  | .flat .bytes bs, n => if n > bs.length then .panic else .ok (bs.take n, .flat .bytes (bs.drop n))
  | .flat .bytesMut bs, n => if n > bs.length then .panic else .ok (bs.take n, .flat .bytesMut (bs.drop n))
  | .chain a b, n =>
    let aRem := remaining a
    if aRem ≥ n then (copyToBytes a n).map fun (r, a') => (r, .chain a' b)
    else if aRem = 0 then (copyToBytes b n).map fun (r, b') => (r, .chain a b')
    else if n - aRem ≤ remaining b then
      -- ret.put(&mut self.a); ret.put((&mut self.b).take(len - a_rem));
      (drain (.refMut a)).bind fun (ra, a1) =>
        (drain (.take (.refMut b) (n - aRem))).bind fun (rb, b1) =>
          match a1, b1 with
          | .refMut a', .take (.refMut b') _ => .ok (ra ++ rb, .chain a' b')
          | _, _ => .panic
    else .panic
  | .take i lim, n =>
    if n ≤ min (remaining i) lim then (copyToBytes i n).map fun (r, i') => (r, .take i' (lim - n))
    else .panic
  | .refMut i, n => (copyToBytes i n).map fun (r, i') => (r, .refMut i')
  | .box i, n => (copyToBytes i n).map fun (r, i') => (r, .box i')
  | b, n => copyToBytesDefault b n

/-- `IntoIter::next` -/
def iterNext (b : BufT) : Res (Option Nat × BufT) :=
  if remaining b = 0 then .ok (none, b)
  else
    match chunk b with
    | [] => .panic                                   -- `chunk()[0]` out of bounds
    | x :: _ => (advance b 1).map fun b' => (some x, b')

/-- `Reader::read(dst)` with `dst.len() = n` -/
def readerRead (b : BufT) (n : Nat) : Res (Bs × BufT) :=
  copyToSlice b (min (remaining b) n)

/-- `Reader::fill_buf` / `consume` are `chunk` / `advance`. -/
def readerFillBuf (b : BufT) : Bs := chunk b
def readerConsume (b : BufT) (n : Nat) : Res BufT := advance b n

end BytesVerif.Buf
