/-
M1-R — the recycling-buffer view of `BytesMut` (C18): one main handle on one allocation, a number of
split-off parts still alive on it, and the allocation decisions of `reserve_inner`
(src/bytes_mut.rs), transliterated at the level of (allocation size, front offset, len, cap).
Tied to the implementation by the T2 `recycle` stream (lock-step comparison of len, capacity,
allocation size and allocation count after every operation of every round).
-/
namespace BytesVerif.Recycle

/-- bytes_mut.rs `original_capacity_to_repr` / `_from_repr` -/
def bitWidth (n : Nat) : Nat := if n = 0 then 0 else Nat.log2 n + 1
def origRepr (cap : Nat) : Nat := min (bitWidth (cap / 1024)) 7
def origCap (repr : Nat) : Nat := if repr = 0 then 0 else 2 ^ (repr + 9)

/-- `Vec::reserve` growth for `u8` -/
def growCap (cap needed : Nat) : Nat := max (max (cap * 2) needed) 8

structure Rec where
  A : Nat            -- size of the allocation the main handle lives in (0: none)
  off : Nat          -- front offset of the main handle inside it
  len : Nat
  cap : Nat
  arc : Bool         -- KIND_ARC (has a control block) vs KIND_VEC
  orig : Nat         -- original_capacity_repr recorded for this buffer
  parts : Nat        -- split-off parts (or frozen clones) still alive on this allocation
  pinned : List Nat  -- sizes of older allocations kept alive only by parts (newest first)
  allocs : Nat       -- byte-buffer allocations performed so far
  deriving Repr, DecidableEq, Inhabited

/-- `BytesMut::with_capacity(c)` -/
def init (c : Nat) : Rec :=
  { A := c, off := 0, len := 0, cap := c, arc := false, orig := origRepr c, parts := 0, pinned := [], allocs := if c = 0 then 0 else 1 }

inductive Op
  | reserve (k : Nat)
  | append (m : Nat)          -- extend_from_slice of m bytes (reserves first)
  | splitTo (n : Nat)         -- split_to(n): the part stays alive
  | split                     -- split(): all of the contents
  | advance (n : Nat)
  | truncate (n : Nat)
  | dropPart                  -- drop one outstanding part of the current allocation
  | dropPinned                -- drop the last part of the oldest pinned allocation
  | dropOld                   -- drop a part of a pinned allocation that still has other parts
  | splitOffTail              -- split_off(len): the spare capacity becomes a part
  | unsplitLast (n cap : Nat) -- unsplit(part): a part (len n, capacity cap) of this allocation that starts at the end of the contents
  | roundTrip                 -- freeze() the main handle and convert back (try_into_mut / Into<BytesMut>)
  deriving Repr, DecidableEq, Inhabited

/-- promote a KIND_VEC handle (first split) -/
def promote (r : Rec) : Rec := if r.arc then r else { r with arc := true }

/-- `reserve(k)` → `reserve_inner(k, true)` -/
def reserve (r : Rec) (k : Nat) : Rec :=
  if k ≤ r.cap - r.len then r
  else if !r.arc then
    -- KIND_VEC
    if r.cap - r.len + r.off ≥ k ∧ r.off ≥ r.len then { r with off := 0, cap := r.cap + r.off }
    else
      let vcap := growCap (r.off + r.cap) (r.off + r.len + k)
      { r with A := vcap, cap := vcap - r.off, allocs := r.allocs + 1 }
  else if r.parts = 0 then
    -- unique shared buffer
    let newCap := r.len + k
    if r.A ≥ newCap + r.off then { r with cap := newCap }
    else if r.A ≥ newCap ∧ r.off ≥ r.len then { r with off := 0, cap := r.A }
    else
      let want := newCap + r.off
      let target := max (r.A * 2) want
      let vcap := growCap r.A target
      { r with A := vcap, cap := vcap - r.off, allocs := r.allocs + 1 }
  else
    -- shared with live parts: fresh vector, the old allocation stays pinned by the parts
    let target := max (r.len + k) (origCap r.orig)
    { r with A := target, off := 0, cap := target, arc := false, parts := 0,
             pinned := r.A :: r.pinned, allocs := if target = 0 then r.allocs else r.allocs + 1 }

def step (r : Rec) : Op → Rec
  | .reserve k => reserve r k
  | .append m => let r' := reserve r m; { r' with len := r'.len + m }
  | .splitTo n =>
    if n > r.len then r
    else
      let r' := promote r
      { r' with off := r'.off + n, len := r'.len - n, cap := r'.cap - n, parts := r'.parts + 1 }
  | .split =>
    let r' := promote r
    { r' with off := r'.off + r'.len, len := 0, cap := r'.cap - r'.len, parts := r'.parts + 1 }
  | .advance n => if n > r.len then r else { r with off := r.off + n, len := r.len - n, cap := r.cap - n }
  | .truncate n => if n ≤ r.len then { r with len := n } else r
  | .dropPart => { r with parts := r.parts - 1 }
  | .dropPinned => { r with pinned := r.pinned.dropLast }
  | .dropOld => r
  | .splitOffTail =>
    let r' := promote r
    { r' with cap := r'.len, parts := r'.parts + 1 }
  | .unsplitLast n c =>
    -- `BytesMut::unsplit(other)` for a part `other` (len `n`, capacity `c`) of this allocation that
    -- starts where the contents of the main handle end (at `off + len`)
    if r.len = 0 then
      -- `if self.is_empty() { *self = other }`: the main handle takes over the part's view (which
      -- starts at `off + len = off`); its own reference is released
      { r with len := n, cap := c, parts := r.parts - 1 }
    else if c = 0 then
      -- `try_unsplit`: `other.capacity() == 0` ⇒ `Ok(())`, the part is dropped
      { r with parts := r.parts - 1 }
    else if r.len = r.cap then
      -- contiguous halves of the same shared buffer (`ptr + len == other.ptr`): merged
      { r with len := r.len + n, cap := r.cap + c, parts := r.parts - 1 }
    else
      -- not mergeable: `extend_from_slice(other.as_ref())`, then the part is dropped
      let r' := reserve r n
      { r' with len := r'.len + n, parts := r'.parts - 1 }
  | .roundTrip =>
    if r.parts ≠ 0 then
      -- not unique: `BytesMut::from(Bytes)` copies the view into a fresh exact-size vector and releases its reference
      { r with A := r.len, off := 0, cap := r.len, arc := false, orig := origRepr r.len, parts := 0,
               pinned := r.A :: r.pinned, allocs := if r.len = 0 then r.allocs else r.allocs + 1 }
    else if !r.arc then
      -- freeze of KIND_VEC: promotable when len = cap, else Shared{cap}.  Converting back rebuilds the
      -- vector over the whole allocation in both cases (`promotable_to_mut` / `shared_to_mut_impl`:
      -- `BytesMut::from_vec(Vec::from_raw_parts(buf, …, cap))` + `advance_unchecked(off)`), which
      -- restores the KIND_VEC handle and re-records `original_capacity_repr` from the full capacity
      { r with orig := origRepr r.A }
    else
      -- unique frozen BytesMut: `shared_v_to_mut` hands back everything behind the offset
      { r with cap := r.A - r.off }

/-- live heap bytes: the current allocation plus the pinned ones -/
def live (r : Rec) : Nat := r.A + r.pinned.sum

def run (r : Rec) (ops : List Op) : Rec := ops.foldl step r

end BytesVerif.Recycle
