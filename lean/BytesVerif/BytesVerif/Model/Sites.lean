/-
Reviewed inventories (hand-maintained) that the T1 certificates Cert/C16.lean and Cert/C17.lean compare with the freshly
extracted `Generated.cfgSiteKeys` / `Generated.unsafeSiteKeys`.  A key is the FNV-1a hash of `file|context|kind|text`
(the readable row is in the comment string).  A new, removed or edited site changes the extracted list and breaks the
certificate: the site has to be reviewed (and the model extended) before the property is claimed again.
-/
namespace BytesVerif.Sites

/-- why a configuration-dependent site cannot change an observable result -/
inductive CfgClass
  | apiGate            -- feature gate on a whole item (import, module, method, impl): the item exists or not; no other item's behaviour changes
  | abortImpl          -- the two bodies of `abort()` (reference-count overflow only: unreachable below 2^63 handles)
  | docOnly            -- cfg_attr(docsrs, ..)
  | testOnly           -- cfg(test) / loom / miri: not part of a user's build
  | platform           -- target_endian / target_pointer_width: outside the property (which fixes the platform)
  | backend            -- extra-platforms: portable-atomic instead of core atomics, same API and memory-ordering contract (trusted; T2 runs both)
  | profileBranch      -- `cfg!(debug_assertions)` choosing between a checked and an unchecked form of the same value
  | dassertModelled    -- a debug_assert the model evaluates (`dassert`); `cfg_irrelevant` proves it never fires from a WFx state
  | dassertStructural  -- a debug_assert about a representation tag / internal length that is true by construction of the model's typed handles
  | unreviewed
  deriving DecidableEq, Repr

def expectedCfg : List (Nat × CfgClass × String) := [
  (1483143502747141335, .apiGate, "buf/buf_impl.rs | use crate::buf:: | cfg | feature=\"std\""),
  (18059544352949932274, .apiGate, "buf/buf_impl.rs | use crate:: | cfg | feature=\"std\""),
  (313146383772112190, .apiGate, "buf/buf_impl.rs | use std::io::IoSlice | cfg | feature=\"std\""),
  (11803339194135950862, .docOnly, "buf/buf_impl.rs | fn chunk | cfg_attr | docsrs,doc(alias=\"bytes\")"),
  (14911967524167245937, .apiGate, "buf/buf_impl.rs | fn chunks_vectored<'a> | cfg | feature=\"std\""),
  (15616390303391770377, .docOnly, "buf/buf_impl.rs | fn chunks_vectored<'a> | cfg_attr | docsrs,doc(cfg(feature=\"std\"))"),
  (2621560049620900649, .apiGate, "buf/buf_impl.rs | fn reader | cfg | feature=\"std\""),
  (10831031087334397825, .docOnly, "buf/buf_impl.rs | fn reader | cfg_attr | docsrs,doc(cfg(feature=\"std\"))"),
  (18002300151885487122, .apiGate, "buf/buf_impl.rs | fn chunks_vectored<'b> | cfg | feature=\"std\""),
  (15777558786072627299, .apiGate, "buf/buf_impl.rs | impl<T:AsRef<[u8]>>Buf for std::io::Cursor<T> | cfg | feature=\"std\""),
  (7035702468898884538, .platform, "buf/buf_impl.rs | get_uint_ne | cfg! | target_endian=\"big\""),
  (5283622838671668277, .platform, "buf/buf_impl.rs | get_int_ne | cfg! | target_endian=\"big\""),
  (5701916758377736912, .platform, "buf/buf_impl.rs | try_get_uint_ne | cfg! | target_endian=\"big\""),
  (15630446038095449007, .platform, "buf/buf_impl.rs | try_get_int_ne | cfg! | target_endian=\"big\""),
  (14468238168928881937, .apiGate, "buf/buf_mut.rs | use crate::buf:: | cfg | feature=\"std\""),
  (7938476226097541062, .docOnly, "buf/buf_mut.rs | fn chunk_mut | cfg_attr | docsrs,doc(alias=\"bytes_mut\")"),
  (14741039297137531563, .apiGate, "buf/buf_mut.rs | fn writer | cfg | feature=\"std\""),
  (17925218213438599723, .docOnly, "buf/buf_mut.rs | fn writer | cfg_attr | docsrs,doc(cfg(feature=\"std\"))"),
  (696355938819879679, .platform, "buf/buf_mut.rs | put_uint_ne | cfg! | target_endian=\"big\""),
  (1490849539121287770, .platform, "buf/buf_mut.rs | put_int_ne | cfg! | target_endian=\"big\""),
  (17963018724550868613, .apiGate, "buf/chain.rs | use std::io::IoSlice | cfg | feature=\"std\""),
  (310929547486111910, .apiGate, "buf/chain.rs | fn chunks_vectored<'a> | cfg | feature=\"std\""),
  (16111701539346699111, .apiGate, "buf/mod.rs | mod reader | cfg | feature=\"std\""),
  (7104918769309851319, .apiGate, "buf/mod.rs | mod writer | cfg | feature=\"std\""),
  (8723285680435061286, .apiGate, "buf/mod.rs | pub use self:: | cfg | feature=\"std\""),
  (17097224124698271453, .apiGate, "buf/take.rs | use std::io::IoSlice | cfg | feature=\"std\""),
  (6340730525065269886, .apiGate, "buf/take.rs | fn chunks_vectored<'a> | cfg | feature=\"std\""),
  (5423413966032584825, .apiGate, "buf/vec_deque.rs | use std::io | cfg | feature=\"std\""),
  (3313501786685224530, .apiGate, "buf/vec_deque.rs | fn chunks_vectored<'a> | cfg | feature=\"std\""),
  (11133978126977872324, .testOnly, "bytes.rs | pub const fn new | cfg | not(all(loom,test))"),
  (16720512263268840297, .testOnly, "bytes.rs | pub fn new | cfg | all(loom,test)"),
  (6140329137416191577, .testOnly, "bytes.rs | pub const fn from_static | cfg | not(all(loom,test))"),
  (5948614870829495386, .testOnly, "bytes.rs | pub fn from_static | cfg | all(loom,test)"),
  (2667908916539257449, .testOnly, "bytes.rs | fn ptr_map<F> | cfg | miri"),
  (17077281507512679445, .testOnly, "bytes.rs | fn ptr_map<F> | cfg | not(miri)"),
  (13733134530632260657, .testOnly, "bytes.rs | mod fuzz | cfg | all(test,loom)"),
  (13506766943334329527, .dassertStructural, "bytes.rs | new_empty_with_ptr | debug_assert | !ptr.is_null()"),
  (3115201464709204839, .dassertStructural, "bytes.rs | inc_start | debug_assert | self.len>=by"),
  (3175557137413262272, .dassertStructural, "bytes.rs | from | debug_assert | 0==(shared as usize&KIND_MASK)"),
  (18210098977012358181, .dassertStructural, "bytes.rs | owned_drop_impl | debug_assert | old_cnt>0&&old_cnt<=usize::MAX>>1"),
  (16907252255443734165, .dassertStructural, "bytes.rs | promotable_even_clone | debug_assert_eq | kind,KIND_VEC"),
  (17071384056265692135, .dassertStructural, "bytes.rs | promotable_to_vec | debug_assert_eq | kind,KIND_VEC"),
  (11590237598982347099, .dassertStructural, "bytes.rs | promotable_to_mut | debug_assert_eq | kind,KIND_VEC"),
  (8641443602021833949, .dassertStructural, "bytes.rs | promotable_even_drop | debug_assert_eq | kind,KIND_VEC"),
  (3737181703018070882, .dassertStructural, "bytes.rs | promotable_odd_clone | debug_assert_eq | kind,KIND_VEC"),
  (18309576320115365884, .dassertStructural, "bytes.rs | promotable_odd_drop | debug_assert_eq | kind,KIND_VEC"),
  (11762712453160739249, .dassertStructural, "bytes.rs | shallow_clone_vec | debug_assert | 0==(shared as usize&KIND_MASK)"),
  (13041241484609424562, .dassertStructural, "bytes.rs | shallow_clone_vec | debug_assert | actual as usize==ptr as usize"),
  (15829524885225474727, .platform, "bytes_mut.rs | const PTR_WIDTH:usize | cfg | target_pointer_width=\"64\""),
  (17665675218990683486, .platform, "bytes_mut.rs | const PTR_WIDTH:usize | cfg | target_pointer_width=\"32\""),
  (936477448825233191, .testOnly, "bytes_mut.rs | mod tests | cfg | test"),
  (14833551695012919730, .testOnly, "bytes_mut.rs | mod fuzz | cfg | all(test,loom)"),
  (13973266054712093188, .profileBranch, "bytes_mut.rs | vptr | cfg! | debug_assertions"),
  (11160384965541863879, .dassertStructural, "bytes_mut.rs | freeze | debug_assert_eq | bytes.kind(),KIND_ARC"),
  (13348586824198807952, .dassertStructural, "bytes_mut.rs | set_len | debug_assert | len<=self.cap"),
  (12104659576923490215, .dassertStructural, "bytes_mut.rs | reserve_inner | debug_assert_eq | self.len,v.len()-off"),
  (6904403518784809795, .dassertStructural, "bytes_mut.rs | reserve_inner | debug_assert_eq | kind,KIND_ARC"),
  (168674786519893332, .dassertModelled, "bytes_mut.rs | reserve_inner | debug_assert | off+len<=v.capacity()"),
  (1424793916164217251, .dassertStructural, "bytes_mut.rs | reserve_inner | debug_assert_eq | self.len,v.len()"),
  (2461881611991798167, .dassertModelled, "bytes_mut.rs | extend_from_slice | debug_assert | dst.len()>=cnt"),
  (16264764487688787747, .dassertModelled, "bytes_mut.rs | advance_unchecked | debug_assert | count<=self.cap"),
  (3465700974101630869, .dassertStructural, "bytes_mut.rs | promote_to_shared | debug_assert_eq | self.kind(),KIND_VEC"),
  (10197789498635829781, .dassertStructural, "bytes_mut.rs | promote_to_shared | debug_assert | ref_cnt==1||ref_cnt==2"),
  (2276896511613068664, .dassertStructural, "bytes_mut.rs | promote_to_shared | debug_assert_eq | shared as usize&KIND_MASK,KIND_ARC"),
  (13742292251708356189, .dassertStructural, "bytes_mut.rs | get_vec_pos | debug_assert_eq | self.kind(),KIND_VEC"),
  (13203428116321726337, .dassertStructural, "bytes_mut.rs | set_vec_pos | debug_assert_eq | self.kind(),KIND_VEC"),
  (2791038280912459281, .dassertStructural, "bytes_mut.rs | set_vec_pos | debug_assert | pos<=MAX_VEC_POS"),
  (313216995976229686, .dassertStructural, "bytes_mut.rs | put_bytes | debug_assert | dst.len()>=cnt"),
  (13271283017274355226, .dassertStructural, "bytes_mut.rs | invalid_ptr | debug_assert_eq | ptr as usize,addr"),
  (13224816279178535749, .docOnly, "lib.rs |  | cfg_attr | docsrs,feature(doc_cfg)"),
  (12706361277474512393, .apiGate, "lib.rs | extern crate std | cfg | feature=\"std\""),
  (6843616276735887078, .apiGate, "lib.rs | mod serde | cfg | feature=\"serde\""),
  (4383262954662066277, .abortImpl, "lib.rs | abort: | cfg | feature=\"std\""),
  (12986374873342791123, .abortImpl, "lib.rs | abort: | cfg | not(feature=\"std\")"),
  (3267349795106905335, .apiGate, "lib.rs | fn saturating_sub_usize_u64 | cfg | feature=\"std\""),
  (2801058641762162874, .apiGate, "lib.rs | fn min_u64_usize | cfg | feature=\"std\""),
  (15802382437228191566, .apiGate, "lib.rs | impl std::error::Error for TryGetError | cfg | feature=\"std\""),
  (11346616465161225260, .apiGate, "lib.rs | impl From<TryGetError>for std::io::Error | cfg | feature=\"std\""),
  (7712061156593429597, .testOnly, "lib.rs | mod verif_loom | cfg | all(test,loom,tokio_rs_bytes_verif)"),
  (5154851605098719237, .testOnly, "loom.rs | pub | cfg | not(all(test,loom))"),
  (792285837712187210, .backend, "loom.rs | pub | cfg | not(feature=\"extra-platforms\")"),
  (312291317972819034, .backend, "loom.rs | pub | cfg | feature=\"extra-platforms\""),
  (2337982820788874233, .testOnly, "loom.rs | pub | cfg | all(test,loom)")
]

/-- how an `unsafe` site of the trait-consumer code is covered by the adversary model M6 -/
inductive UnsafeClass
  | declaration        -- `unsafe trait` / `unsafe fn` / `unsafe impl`: a contract, no operation
  | unsafeFnBody       -- body of an `unsafe fn` (advance_mut of the crate's own destinations: re-checks `cnt` against its own room
                       -- and panics, or forwards; UninitSlice constructors): reviewed text, fingerprinted
  | modelledRead       -- Adv.unsafeRead (array read through the slice returned by chunk())
  | modelledWrite      -- Adv.unsafeWrite (copy / fill into spare capacity obtained from the destination itself)
  | modelledAdvance    -- advance_mut(cnt) with cnt bounded by the destination's own chunk_mut().len() or re-checked by the callee
  | lifetimeOnly       -- transmute of a slice lifetime; pointer and length unchanged
  | reprCast           -- cast between [u8] / [MaybeUninit<u8>] / UninitSlice of the same length
  | boundedBySafeSlice -- raw write whose length was established by a safe (panicking) slice index just before
  | ownerOnce          -- from_owner: as_ref() called exactly once, pointer and length taken from that one slice
  | unreviewed
  deriving DecidableEq, Repr

def expectedUnsafe : List (Nat × UnsafeClass × String) := [
  (4059320789997143747, .modelledRead, "buf/buf_impl.rs | macro:buf_try_get_impl | block | $typ::$conv(*(src as*const _ as*const[_;SIZE]))"),
  (8862283547570209158, .declaration, "buf/buf_mut.rs | - | trait | trait BufMut"),
  (8100462043746416170, .declaration, "buf/buf_mut.rs | - | fn | fn advance_mut(&mut self,cnt:usize)"),
  (2333645861527003773, .modelledAdvance, "buf/buf_mut.rs | put | block | self.advance_mut(cnt)"),
  (9371078034357959088, .modelledAdvance, "buf/buf_mut.rs | put_slice | block | self.advance_mut(cnt)"),
  (10457169571277122007, .modelledWrite, "buf/buf_mut.rs | put_bytes | block | core::ptr::write_bytes(dst.as_mut_ptr(),val,dst_len)"),
  (13489040683736396717, .modelledAdvance, "buf/buf_mut.rs | put_bytes | block | self.advance_mut(dst_len)"),
  (9806418083639116053, .unsafeFnBody, "buf/buf_mut.rs | macro:deref_forward_bufmut | fn | fn advance_mut(&mut self,cnt:usize){(**self).advance_mut(cnt)}"),
  (6538411396644420931, .declaration, "buf/buf_mut.rs | - | impl | impl<T:BufMut+?Sized>BufMut for&mut T"),
  (18030168625429382672, .declaration, "buf/buf_mut.rs | - | impl | impl<T:BufMut+?Sized>BufMut for Box<T>"),
  (7783625989975597738, .declaration, "buf/buf_mut.rs | - | impl | impl BufMut for&mut[u8]"),
  (5360407742580317964, .unsafeFnBody, "buf/buf_mut.rs | - | fn | fn advance_mut(&mut self,cnt:usize){if self.len()<cnt{panic_advance(&TryGetError{requested:cnt,available:self.len(),});}let(_,b)=core::mem::replace(self,&mut[]).split_at_mut("),
  (14001319650180575693, .modelledAdvance, "buf/buf_mut.rs | put_slice | block | self.advance_mut(src.len())"),
  (8888088860826705300, .modelledWrite, "buf/buf_mut.rs | put_bytes | block | ptr::write_bytes(self.as_mut_ptr(),val,cnt);self.advance_mut(cnt);"),
  (1384842177319665393, .declaration, "buf/buf_mut.rs | - | impl | impl BufMut for&mut[core::mem::MaybeUninit<u8>]"),
  (5360407742580317964, .unsafeFnBody, "buf/buf_mut.rs | - | fn | fn advance_mut(&mut self,cnt:usize){if self.len()<cnt{panic_advance(&TryGetError{requested:cnt,available:self.len(),});}let(_,b)=core::mem::replace(self,&mut[]).split_at_mut("),
  (10540859443936077149, .modelledWrite, "buf/buf_mut.rs | put_slice | block | ptr::copy_nonoverlapping(src.as_ptr(),self.as_mut_ptr().cast(),src.len());self.advance_mut(src.len());"),
  (9645736424352607161, .modelledWrite, "buf/buf_mut.rs | put_bytes | block | ptr::write_bytes(self.as_mut_ptr()as*mut u8,val,cnt);self.advance_mut(cnt);"),
  (3471195045059742294, .declaration, "buf/buf_mut.rs | - | impl | impl BufMut for Vec<u8>"),
  (15170045191125380458, .unsafeFnBody, "buf/buf_mut.rs | - | fn | fn advance_mut(&mut self,cnt:usize){let len=self.len();let remaining=self.capacity()-len;if remaining<cnt{panic_advance(&TryGetError{requested:cnt,available:remaining,});}sel"),
  (2136159280477339483, .modelledWrite, "buf/buf_mut.rs | chunk_mut | block | UninitSlice::from_raw_parts_mut(ptr.add(len),cap-len)"),
  (15626512525229817185, .declaration, "buf/chain.rs | - | impl | impl<T,U>BufMut for Chain<T,U>where T:BufMut,U:BufMut,"),
  (17292713073921620969, .unsafeFnBody, "buf/chain.rs | - | fn | fn advance_mut(&mut self,mut cnt:usize){let a_rem=self.a.remaining_mut();if a_rem!=0{if a_rem>=cnt{self.a.advance_mut(cnt);return;}self.a.advance_mut(a_rem);cnt-=a_rem;}self.b."),
  (17855997744570668622, .lifetimeOnly, "buf/take.rs | chunks_vectored | block | std::mem::transmute::<&[u8],&'a[u8]>(buf)"),
  (8892576994125933291, .lifetimeOnly, "buf/take.rs | chunks_vectored | block | std::mem::transmute::<&[u8],&'a[u8]>(slice)"),
  (11573509506391080236, .declaration, "buf/limit.rs | - | impl | impl<T:BufMut>BufMut for Limit<T>"),
  (9182382967741412850, .unsafeFnBody, "buf/limit.rs | - | fn | fn advance_mut(&mut self,cnt:usize){assert!(cnt<=self.limit);self.inner.advance_mut(cnt);self.limit-=cnt;}"),
  (16410508810757685616, .reprCast, "buf/uninit_slice.rs | new | block | &mut*(slice as*mut[u8]as*mut[MaybeUninit<u8>]as*mut UninitSlice)"),
  (10176047974239817590, .reprCast, "buf/uninit_slice.rs | uninit | block | &mut*(slice as*mut[MaybeUninit<u8>]as*mut UninitSlice)"),
  (3549270310692124816, .reprCast, "buf/uninit_slice.rs | uninit_ref | block | &*(slice as*const[MaybeUninit<u8>]as*const UninitSlice)"),
  (1784465731755095981, .unsafeFnBody, "buf/uninit_slice.rs | - | fn | fn from_raw_parts_mut<'a>(ptr:*mut u8,len:usize)->&'a mut UninitSlice{let maybe_init:&mut[MaybeUninit<u8>]=core::slice::from_raw_parts_mut(ptr as*mut _,len);Self::uninit"),
  (6410073714184675916, .boundedBySafeSlice, "buf/uninit_slice.rs | write_byte | block | self[index..].as_mut_ptr().write(byte)"),
  (4645052890702580591, .boundedBySafeSlice, "buf/uninit_slice.rs | copy_from_slice | block | ptr::copy_nonoverlapping(src.as_ptr(),self.as_mut_ptr(),self.len());"),
  (16440920549463315947, .unsafeFnBody, "buf/uninit_slice.rs | - | fn | fn as_uninit_slice_mut(&mut self)->&mut[MaybeUninit<u8>]{&mut self.0}"),
  (771053255378824999, .ownerOnce, "bytes.rs | from_owner | block | &*owned"),
  (7004777111530182268, .modelledWrite, "bytes_mut.rs | extend_from_slice | block | let dst=self.spare_capacity_mut();debug_assert!(dst.len()>=cnt);ptr::copy_nonoverlapping(extend.as_ptr(),dst.as_mut_ptr().cast(),cnt);"),
  (13190217994376674965, .modelledAdvance, "bytes_mut.rs | extend_from_slice | block | self.advance_mut(cnt);"),
  (1433877574306390308, .declaration, "bytes_mut.rs | - | impl | impl BufMut for BytesMut"),
  (4815663353860999717, .unsafeFnBody, "bytes_mut.rs | - | fn | fn advance_mut(&mut self,cnt:usize){let remaining=self.cap-self.len();if cnt>remaining{super::panic_advance(&TryGetError{requested:cnt,available:remaining,});}self.len=self.len"),
  (330423879506665111, .modelledWrite, "bytes_mut.rs | put_bytes | block | let dst=self.spare_capacity_mut();debug_assert!(dst.len()>=cnt);ptr::write_bytes(dst.as_mut_ptr(),val,cnt);self.advance_mut(cnt);"),
  (17778396692100917344, .ownerOnce, "bytes.rs | from_owner | body | let owned=Box::into_raw(Box::new(Owned{lifetime:OwnedLifetime{ref_cnt:AtomicUsize::new(1),drop:owned_box_and_drop::<T>,},owner,}));let mut ret=Bytes{ptr:NonNull::danglin")
]

/-- vtable slots, the vtable each constructor / conversion installs, and the representation constants that Model/Core.lean,
Model/Buf.lean and Model/BufMut.lean were written from (reviewed; compared with the extraction by Cert/C01) -/
def expectedWiring : List (Nat × String) := [
  (16463810848311584297, "bytes.rs | vtable | STATIC_VTABLE.clone | static_clone"),
  (18346411487343524818, "bytes.rs | vtable | STATIC_VTABLE.into_vec | static_to_vec"),
  (8895228960958382090, "bytes.rs | vtable | STATIC_VTABLE.into_mut | static_to_mut"),
  (1457280334671004951, "bytes.rs | vtable | STATIC_VTABLE.is_unique | static_is_unique"),
  (13281203959660772441, "bytes.rs | vtable | STATIC_VTABLE.drop | static_drop"),
  (14253687876684160967, "bytes.rs | vtable | OWNED_VTABLE.clone | owned_clone"),
  (1722649728050489602, "bytes.rs | vtable | OWNED_VTABLE.into_vec | owned_to_vec"),
  (17686200247125150634, "bytes.rs | vtable | OWNED_VTABLE.into_mut | owned_to_mut"),
  (2442727709008823351, "bytes.rs | vtable | OWNED_VTABLE.is_unique | owned_is_unique"),
  (12770611827574577309, "bytes.rs | vtable | OWNED_VTABLE.drop | owned_drop"),
  (3573868468986136065, "bytes.rs | vtable | PROMOTABLE_EVEN_VTABLE.clone | promotable_even_clone"),
  (1611784616560995806, "bytes.rs | vtable | PROMOTABLE_EVEN_VTABLE.into_vec | promotable_even_to_vec"),
  (790935532108536742, "bytes.rs | vtable | PROMOTABLE_EVEN_VTABLE.into_mut | promotable_even_to_mut"),
  (10805333906980620510, "bytes.rs | vtable | PROMOTABLE_EVEN_VTABLE.is_unique | promotable_is_unique"),
  (11542030736428040841, "bytes.rs | vtable | PROMOTABLE_EVEN_VTABLE.drop | promotable_even_drop"),
  (5561144728322732705, "bytes.rs | vtable | PROMOTABLE_ODD_VTABLE.clone | promotable_odd_clone"),
  (2084905218047458172, "bytes.rs | vtable | PROMOTABLE_ODD_VTABLE.into_vec | promotable_odd_to_vec"),
  (2577007736077078140, "bytes.rs | vtable | PROMOTABLE_ODD_VTABLE.into_mut | promotable_odd_to_mut"),
  (16775063659263678545, "bytes.rs | vtable | PROMOTABLE_ODD_VTABLE.is_unique | promotable_is_unique"),
  (650416681569598503, "bytes.rs | vtable | PROMOTABLE_ODD_VTABLE.drop | promotable_odd_drop"),
  (9579267399163553949, "bytes.rs | vtable | SHARED_VTABLE.clone | shared_clone"),
  (12206612869830403340, "bytes.rs | vtable | SHARED_VTABLE.into_vec | shared_to_vec"),
  (1620385971847842876, "bytes.rs | vtable | SHARED_VTABLE.into_mut | shared_to_mut"),
  (10858675430549381095, "bytes.rs | vtable | SHARED_VTABLE.is_unique | shared_is_unique"),
  (17864137936539534299, "bytes.rs | vtable | SHARED_VTABLE.drop | shared_drop"),
  (7492058314917823982, "bytes.rs | mentions | from_static | STATIC_VTABLE"),
  (7492058314917823982, "bytes.rs | mentions | from_static | STATIC_VTABLE"),
  (11838930114056416605, "bytes.rs | mentions | new_empty_with_ptr | STATIC_VTABLE"),
  (17850433225888343972, "bytes.rs | mentions | from_owner | OWNED_VTABLE"),
  (9819807143754233647, "bytes.rs | mentions | truncate | PROMOTABLE_EVEN_VTABLE"),
  (1083695633967479452, "bytes.rs | mentions | truncate | PROMOTABLE_ODD_VTABLE"),
  (7105950485434642332, "bytes.rs | mentions | from | SHARED_VTABLE"),
  (1160115500391432617, "bytes.rs | mentions | from | PROMOTABLE_EVEN_VTABLE"),
  (17936581701712640646, "bytes.rs | mentions | from | PROMOTABLE_ODD_VTABLE"),
  (13052308915238288201, "bytes.rs | mentions | owned_clone | OWNED_VTABLE"),
  (14825243011352899593, "bytes.rs | mentions | shallow_clone_arc | SHARED_VTABLE"),
  (15090094597375069079, "bytes.rs | mentions | shallow_clone_vec | SHARED_VTABLE"),
  (7968006968402122509, "bytes.rs | const | KIND_ARC | 0b0"),
  (1558485129992651248, "bytes.rs | const | KIND_VEC | 0b1"),
  (5725280099572477308, "bytes.rs | const | KIND_MASK | 0b1"),
  (6792022779472899875, "bytes_mut.rs | vtable | SHARED_VTABLE.clone | shared_v_clone"),
  (8763189366275969844, "bytes_mut.rs | vtable | SHARED_VTABLE.into_vec | shared_v_to_vec"),
  (12706928638406202732, "bytes_mut.rs | vtable | SHARED_VTABLE.into_mut | shared_v_to_mut"),
  (3899029881053025457, "bytes_mut.rs | vtable | SHARED_VTABLE.is_unique | shared_v_is_unique"),
  (9966601562205008867, "bytes_mut.rs | vtable | SHARED_VTABLE.drop | shared_v_drop"),
  (6977342542669578640, "bytes_mut.rs | mentions | freeze | SHARED_VTABLE"),
  (17586150313195353949, "bytes_mut.rs | mentions | shared_v_clone | SHARED_VTABLE"),
  (2642181356597962024, "bytes_mut.rs | const | KIND_ARC | 0b0"),
  (2323160633597753801, "bytes_mut.rs | const | KIND_VEC | 0b1"),
  (15982117591115951879, "bytes_mut.rs | const | KIND_MASK | 0b1"),
  (15291711449716087469, "bytes_mut.rs | const | MAX_ORIGINAL_CAPACITY_WIDTH | 17"),
  (2238507681581983742, "bytes_mut.rs | const | MIN_ORIGINAL_CAPACITY_WIDTH | 10"),
  (15328172950041089937, "bytes_mut.rs | const | ORIGINAL_CAPACITY_MASK | 0b11100"),
  (1691315646632786011, "bytes_mut.rs | const | ORIGINAL_CAPACITY_OFFSET | 2"),
  (6798312876248133471, "bytes_mut.rs | const | VEC_POS_OFFSET | 5"),
  (375875770973369238, "bytes_mut.rs | const | MAX_VEC_POS | usize::MAX>>VEC_POS_OFFSET"),
  (1635030654282153696, "bytes_mut.rs | const | NOT_VEC_POS_MASK | 0b11111"),
  (11654189204049741149, "bytes_mut.rs | const | PTR_WIDTH@target_pointer_width=\"64\" | 64"),
  (6617011753291261089, "bytes_mut.rs | const | PTR_WIDTH@target_pointer_width=\"32\" | 32"),
  (15879946339755803064, "buf/take.rs | const | LEN | 16"),
  (16414144775267642627, "buf/buf_mut.rs | const | chunk_mut.reserve | 64"),
  (1464157798462611967, "bytes_mut.rs | const | chunk_mut.reserve | 64")
]

end BytesVerif.Sites

