/-
M1 — the core of the crate: heap regions, control blocks, `Bytes` / `BytesMut` / `Vec<u8>`
handles and every safe operation on them, transliterated function by function from
src/bytes.rs and src/bytes_mut.rs.  Core-only.

Addresses are (region, offset) pairs: a region is one allocation (or one piece of static / owner
memory); the tag bits the crate stores in pointers are modelled by the `repr` of the handle
(promotable even/odd is the region's parity, supplied by the environment).  Every raw-memory
primitive checks that its range lies in one live region of the right size and reports `ub`
otherwise; unchecked `usize` arithmetic goes through `uadd` (wraps or panics by `Cfg`).
-/
namespace BytesVerif.Core

abbrev Byte := Nat

def W : Nat := 18446744073709551616
def isizeMax : Nat := 9223372036854775807
theorem W_eq : W = 18446744073709551616 := rfl
theorem isizeMax_eq : isizeMax = 9223372036854775807 := rfl

structure Cfg where
  overflowChecks : Bool     -- debug profile: unchecked `+` panics on overflow; release: wraps
  debugAssertions : Bool
  deriving Repr, DecidableEq, Inhabited

inductive RKind
  | heap (odd : Bool)       -- align-1 allocation made by the crate / Vec; parity chosen by the allocator
  | static
  | ownerMem (o : Nat)      -- memory behind the owner `o` of `from_owner`
  deriving Repr, DecidableEq, Inhabited

structure Region where
  size : Nat
  data : List (Option Byte)           -- `none` = uninitialised
  live : Bool
  kind : RKind
  deriving Repr, DecidableEq, Inhabited

inductive Ctrl
  | sharedB (reg : Nat) (cap : Nat)                               -- bytes.rs `Shared { buf, cap, ref_cnt }`
  | sharedV (reg : Option Nat) (vlen vcap : Nat) (orig : Nat)     -- bytes_mut.rs `Shared { vec, original_capacity_repr, ref_count }`
  | owned (o : Nat)                                               -- `Owned<T>` of from_owner
  deriving Repr, DecidableEq, Inhabited

structure CtrlE where
  c : Ctrl
  rc : Nat
  live : Bool
  deriving Repr, DecidableEq, Inhabited

inductive BRepr
  | static                    -- STATIC_VTABLE (also `new_empty_with_ptr`)
  | owned (c : Nat)           -- OWNED_VTABLE
  | prom (vtOdd : Bool) (c : Option Nat)   -- PROMOTABLE_EVEN (vtOdd = false) / _ODD vtable; none: KIND_VEC (owns its region), some c: promoted
  | shared (c : Nat)          -- bytes.rs SHARED_VTABLE
  | sharedV (c : Nat)         -- bytes_mut.rs SHARED_VTABLE (frozen BytesMut)
  deriving Repr, DecidableEq, Inhabited

inductive Handle
  | bytes (repr : BRepr) (reg : Option Nat) (off len : Nat)
  /-- `arc = none`: KIND_VEC, `off` is the vec position; `arc = some c`: KIND_ARC -/
  | mut (arc : Option Nat) (reg : Option Nat) (off len cap : Nat) (orig : Nat)
  | vec (reg : Option Nat) (len cap : Nat)
  deriving Repr, DecidableEq, Inhabited

inductive Ev
  | alloc (r size : Nat)
  | dealloc (r size : Nat)
  | allocCtrl (c : Nat)
  | deallocCtrl (c : Nat)
  | ownerAsRef (o : Nat)
  | ownerDrop (o : Nat)
  deriving Repr, DecidableEq, Inhabited

structure St where
  regions : List Region := []
  ctrls : List CtrlE := []
  hs : List (Option Handle) := []
  owners : Nat := 0                 -- number of owner objects created so far
  events : List Ev := []            -- newest first
  deriving Repr, Inhabited

/-- What the allocator decides: the address parity of the k-th region. -/
structure Env where
  odd : Nat → Bool

inductive R (α : Type) where
  | ok (a : α) (s : St)
  | panic (s : St)
  | ub (why : String) (s : St)
  deriving Repr, Inhabited

abbrev M (α : Type) := St → R α

@[inline] def M.pure {α : Type} (a : α) : M α := fun s => .ok a s
@[inline] def M.bind {α β : Type} (m : M α) (f : α → M β) : M β := fun s =>
  match m s with
  | .ok a s' => f a s'
  | .panic s' => .panic s'
  | .ub w s' => .ub w s'

instance : Monad M where
  pure := M.pure
  bind := M.bind

def panic {α : Type} : M α := fun s => .panic s
def ub {α : Type} (why : String) : M α := fun s => .ub why s
def get : M St := fun s => .ok s s
def modify (f : St → St) : M Unit := fun s => .ok () (f s)
def emit (e : Ev) : M Unit := modify fun s => { s with events := e :: s.events }

/-- unchecked `a + b` on `usize` -/
def uadd (c : Cfg) (a b : Nat) : M Nat :=
  if a + b < W then pure (a + b) else if c.overflowChecks then panic else pure ((a + b) % W)

/-- unchecked `a - b` on `usize` -/
def usub (c : Cfg) (a b : Nat) : M Nat :=
  if b ≤ a then pure (a - b) else if c.overflowChecks then panic else pure ((a + W - b) % W)

/-- `debug_assert!(cond)`: only present in builds with debug assertions -/
def dassert (c : Cfg) (cond : Bool) : M Unit :=
  if c.debugAssertions && !cond then panic else pure ()

/-! ### memory primitives -/

def getRegion (r : Nat) : M Region := fun s =>
  match s.regions[r]? with
  | some reg => .ok reg s
  | none => .ub "dangling region" s

def setRegion (r : Nat) (reg : Region) : M Unit :=
  modify fun s => { s with regions := s.regions.set r reg }

/-- allocate a byte buffer of `size > 0` bytes with the given contents -/
def allocRegion (e : Env) (size : Nat) (data : List (Option Byte)) : M Nat := fun s =>
  let r := s.regions.length
  .ok r { s with regions := s.regions ++ [⟨size, data, true, .heap (e.odd r)⟩], events := .alloc r size :: s.events }

/-- `dealloc(base of r, Layout(size, 1))` -/
def freeRegion (r : Nat) (size : Nat) : M Unit := do
  let reg ← getRegion r
  if !reg.live then ub "double free"
  else if reg.size ≠ size then ub "dealloc with a size different from the allocation"
  else match reg.kind with
    | .heap _ => do
      setRegion r { reg with live := false }
      emit (.dealloc r size)
    | _ => ub "dealloc of memory the crate does not own"

/-- read `[off, off+len)` of region `r` (a `&[u8]` is formed: must be live, in bounds, initialised) -/
def readRange (r : Option Nat) (off len : Nat) : M (List Byte) :=
  if len = 0 then pure [] else
  match r with
  | none => ub "read through a dangling pointer"
  | some r => do
    let reg ← getRegion r
    if !reg.live then ub "use after free"
    else if off + len > reg.size then ub "read out of bounds"
    else
      let sl := (reg.data.drop off).take len
      match sl.mapM id with
      | some bs => pure bs
      | none => ub "read of uninitialised memory"

/-- write `bs` at `[off, off+bs.length)` of region `r` -/
def writeRange (r : Option Nat) (off : Nat) (bs : List Byte) : M Unit :=
  if bs = [] then pure () else
  match r with
  | none => ub "write through a dangling pointer"
  | some r => do
    let reg ← getRegion r
    if !reg.live then ub "use after free"
    else if off + bs.length > reg.size then ub "write out of bounds"
    else match reg.kind with
      | .heap _ =>
        setRegion r { reg with data := reg.data.take off ++ bs.map some ++ reg.data.drop (off + bs.length) }
      | _ => ub "write to memory the crate does not own"

/-- `ptr::copy(src, dst, len)` inside one region (may overlap) -/
def copyWithin (r : Option Nat) (src dst len : Nat) : M Unit := do
  if len = 0 then pure () else
  let bs ← readRange r src len
  writeRange r dst bs

def getCtrl (c : Nat) : M CtrlE := fun s =>
  match s.ctrls[c]? with
  | some e => if e.live then .ok e s else .ub "use of a freed control block" s
  | none => .ub "dangling control block" s

def setCtrl (c : Nat) (e : CtrlE) : M Unit :=
  modify fun s => { s with ctrls := s.ctrls.set c e }

def newCtrl (c : Ctrl) (rc : Nat) : M Nat := fun s =>
  let k := s.ctrls.length
  .ok k { s with ctrls := s.ctrls ++ [⟨c, rc, true⟩], events := .allocCtrl k :: s.events }

def freeCtrl (c : Nat) : M Unit := do
  let e ← getCtrl c
  setCtrl c { e with live := false }
  emit (.deallocCtrl c)

def newHandle (h : Handle) : M Nat := fun s =>
  .ok s.hs.length { s with hs := s.hs ++ [some h] }

def getHandle (i : Nat) : M Handle := fun s =>
  match s.hs[i]? with
  | some (some h) => .ok h s
  | _ => .panic s          -- not a live handle: the harness never issues such ops; treated as a rejected op

def setHandle (i : Nat) (h : Handle) : M Unit :=
  modify fun s => { s with hs := s.hs.set i (some h) }

def killHandle (i : Nat) : M Unit :=
  modify fun s => { s with hs := s.hs.set i none }

/-! ### Vec<u8> (std), as used by the crate -/

/-- `Vec::with_capacity(cap)` filled with `bs` (`bs.length ≤ cap`); zero capacity allocates nothing -/
def vecNew (e : Env) (bs : List Byte) (cap : Nat) : M (Option Nat) :=
  if cap = 0 then pure none
  else if cap > isizeMax then panic     -- capacity overflow
  else do
    let r ← allocRegion e cap (bs.map some ++ List.replicate (cap - bs.length) none)
    pure (some r)

/-- drop of a `Vec` rebuilt by `Vec::from_raw_parts(base, len, cap)` -/
def vecFree (reg : Option Nat) (cap : Nat) : M Unit :=
  match reg with
  | none => if cap = 0 then pure () else ub "from_raw_parts with a dangling pointer and non-zero capacity"
  | some r => if cap = 0 then ub "from_raw_parts with zero capacity on an allocation" else freeRegion r cap

/-- amortised growth of `Vec::reserve` (RawVec::grow_amortized for `u8`) -/
def vecGrowCap (cap needed : Nat) : Nat := max (max (cap * 2) needed) 8

/-- `Vec::reserve(additional)` on a vec `(reg, len, cap)`: returns the new (reg, cap); contents
`[0, len)` preserved; a moving realloc is a fresh region + free of the old one -/
def vecReserve (e : Env) (reg : Option Nat) (len cap additional : Nat) : M (Option Nat × Nat) :=
  if cap - len ≥ additional then pure (reg, cap)
  else if len + additional > isizeMax then panic     -- capacity overflow
  else do
    let newCap := vecGrowCap cap (len + additional)
    if newCap > isizeMax then panic else     -- Layout::array fails in finish_grow: capacity overflow
    let old ← (match reg with
      | none => pure []
      | some r => do
        let rg ← getRegion r
        if !rg.live then ub "use after free" else pure (rg.data.take len))
    let r' ← allocRegion e newCap (old ++ List.replicate (newCap - old.length) none)
    vecFree reg cap
    pure (some r', newCap)

/-! ### reference counting -/

/-- bytes.rs `release_shared` / `Drop for Shared`; bytes_mut.rs `release_shared`; `owned_drop_impl` -/
def releaseCtrl (c : Nat) : M Unit := do
  let e ← getCtrl c
  if e.rc = 0 then ub "reference count underflow"
  else if e.rc ≠ 1 then setCtrl c { e with rc := e.rc - 1 }
  else do
    setCtrl c { e with rc := 0 }
    match e.c with
    | .sharedB reg cap => do freeRegion reg cap; freeCtrl c
    | .sharedV reg _ vcap _ => do vecFree reg vcap; freeCtrl c
    | .owned o => do
      emit (.ownerDrop o)
      -- the owner's memory goes away with it
      modify fun s => { s with regions := s.regions.map fun rg => if rg.kind = .ownerMem o then { rg with live := false } else rg }
      freeCtrl c

def incCtrl (c : Nat) : M Unit := do
  let e ← getCtrl c
  setCtrl c { e with rc := e.rc + 1 }

def ctrlIsUnique (c : Nat) : M Bool := do
  let e ← getCtrl c
  pure (e.rc == 1)

/-! ### original capacity encoding (bytes_mut.rs) -/

def bitWidth (n : Nat) : Nat := if n = 0 then 0 else Nat.log2 n + 1

def originalCapacityToRepr (cap : Nat) : Nat := min (bitWidth (cap / 1024)) 7
def originalCapacityFromRepr (repr : Nat) : Nat := if repr = 0 then 0 else 2 ^ (repr + 9)

/-! ### Bytes -/

def regionOdd (r : Option Nat) : M Bool :=
  match r with
  | none => pure false
  | some r => do
    let rg ← getRegion r
    match rg.kind with
    | .heap o => pure o
    | _ => pure false

/-- Recover the buffer address from the tagged `data` word of a KIND_VEC promotable handle: the EVEN
vtable clears the tag bit (`addr & !KIND_MASK`), the ODD vtable uses the word as it is.  Using the
wrong one yields an address one byte off the allocation. -/
def promDecode (vtOdd : Bool) (reg : Option Nat) : M Unit := do
  let odd ← regionOdd reg
  if odd = vtOdd then pure () else ub "promotable vtable does not match the buffer address parity"

/-- `Bytes::from(Vec<u8>)` on a vec `(reg, len, cap)` -/
def bytesFromVec (reg : Option Nat) (len cap : Nat) : M Handle :=
  if len = cap then
    -- into_boxed_slice (no realloc when len == cap) → From<Box<[u8]>>
    if len = 0 then pure (.bytes .static none 0 0)
    else do
      -- From<Box<[u8]>>: `if ptr as usize & 0x1 == 0 { EVEN } else { ODD }`
      let odd ← regionOdd reg
      pure (.bytes (.prom odd none) reg 0 len)
  else
    match reg with
    | none => ub "non-empty capacity without an allocation"
    | some r => do
      let c ← newCtrl (.sharedB r cap) 1
      pure (.bytes (.shared c) reg 0 len)

/-- the vtable's `clone` -/
def bytesClone (i : Nat) : M Handle := do
  let h ← getHandle i
  match h with
  | .bytes .static reg off len => pure (.bytes .static reg off len)
  | .bytes (.owned c) reg off len => do incCtrl c; pure (.bytes (.owned c) reg off len)
  | .bytes (.shared c) reg off len => do incCtrl c; pure (.bytes (.shared c) reg off len)
  | .bytes (.sharedV c) reg off len => do incCtrl c; pure (.bytes (.sharedV c) reg off len)
  | .bytes (.prom _ (some c)) reg off len => do incCtrl c; pure (.bytes (.shared c) reg off len)   -- shallow_clone_arc
  | .bytes (.prom vt none) reg off len =>
    -- shallow_clone_vec: buf = decode(data); cap = offset_from(ptr, buf) + len
    match reg with
    | none => ub "promotable handle without a buffer"
    | some r => do
      promDecode vt reg
      let c ← newCtrl (.sharedB r (off + len)) 2
      setHandle i (.bytes (.prom vt (some c)) reg off len)
      pure (.bytes (.shared c) reg off len)
  | _ => panic

/-- the vtable's `drop` -/
def bytesDrop (h : Handle) : M Unit :=
  match h with
  | .bytes .static _ _ _ => pure ()
  | .bytes (.owned c) _ _ _ => releaseCtrl c
  | .bytes (.shared c) _ _ _ => releaseCtrl c
  | .bytes (.sharedV c) _ _ _ => releaseCtrl c
  | .bytes (.prom _ (some c)) _ _ _ => releaseCtrl c
  | .bytes (.prom vt none) reg off len =>
    -- free_boxed_slice(buf, ptr, len): cap = offset_from(ptr, buf) + len
    match reg with
    | none => ub "promotable handle without a buffer"
    | some r => do promDecode vt reg; freeRegion r (off + len)
  | _ => panic

def bytesIsUnique (h : Handle) : M Bool :=
  match h with
  | .bytes .static _ _ _ => pure false
  | .bytes (.owned _) _ _ _ => pure false
  | .bytes (.shared c) _ _ _ => ctrlIsUnique c
  | .bytes (.sharedV c) _ _ _ => ctrlIsUnique c
  | .bytes (.prom _ (some c)) _ _ _ => ctrlIsUnique c
  | .bytes (.prom _ none) _ _ _ => pure true
  | _ => panic

/-- `BytesMut::from_vec` -/
def mutFromVec (reg : Option Nat) (len cap : Nat) : Handle :=
  .mut none reg 0 len cap (originalCapacityToRepr cap)

/-- `advance_unchecked(count)` (64-bit: `pos ≤ MAX_VEC_POS` always holds for real allocations; the
promote branch is modelled for completeness) -/
def mutAdvanceUnchecked (cfg : Cfg) (h : Handle) (count : Nat) : M Handle :=
  match h with
  | .mut arc reg off len cap orig =>
    if count = 0 then pure h
    else do
      dassert cfg (count ≤ cap)                       -- "internal: set_start out of bounds"
      let cap' ← usub cfg cap count                   -- `self.cap -= count`
      match arc with
      | none =>
        if off + count ≤ W / 32 - 1 then pure (.mut none reg (off + count) (len - count) cap' orig)
        else do
          -- promote_to_shared(1)
          let c ← newCtrl (.sharedV reg (off + len) (off + cap) orig) 1
          pure (.mut (some c) reg (off + count) (len - count) cap' orig)
      | some c => pure (.mut (some c) reg (off + count) (len - count) cap' orig)
  | _ => panic

/-- bytes.rs `shared_to_vec_impl` / `shared_to_mut_impl`, unique branch: take the buffer out of the
control block (`*Box::from_raw(shared)` + `ManuallyDrop`) -/
def takeSharedB (c : Nat) : M (Nat × Nat) := do
  let e ← getCtrl c
  match e.c with
  | .sharedB reg cap => do
    setCtrl c { e with rc := 0 }
    freeCtrl c
    pure (reg, cap)
  | _ => ub "control block of the wrong type"

/-- copy of a view into a fresh exact-size vec: `slice.to_vec()` -/
def toVecCopy (e : Env) (reg : Option Nat) (off len : Nat) : M Handle := do
  let bs ← readRange reg off len
  let r ← vecNew e bs len
  pure (.vec r len len)

/-- the vtable's `into_vec` -/
def bytesIntoVec (e : Env) (h : Handle) : M Handle :=
  match h with
  | .bytes .static reg off len => toVecCopy e reg off len
  | .bytes (.owned c) reg off len => do
    let v ← toVecCopy e reg off len
    releaseCtrl c
    pure v
  | .bytes (.prom vt none) reg off len => do
    -- promotable_to_vec: cap = off + len; ptr::copy(ptr, buf, len); Vec::from_raw_parts(buf, len, cap)
    promDecode vt reg
    copyWithin reg off 0 len
    pure (.vec reg len (off + len))
  | .bytes (.prom _ (some c)) reg off len | .bytes (.shared c) reg off len => do
    -- shared_to_vec_impl
    let u ← ctrlIsUnique c
    if u then do
      let (r, cap) ← takeSharedB c
      copyWithin (some r) off 0 len
      pure (.vec (some r) len cap)
    else do
      let v ← toVecCopy e reg off len
      releaseCtrl c
      pure v
  | .bytes (.sharedV c) reg off len => do
    -- shared_v_to_vec
    let u ← ctrlIsUnique c
    if u then do
      let ce ← getCtrl c
      match ce.c with
      | .sharedV vreg _ vcap orig => do
        setCtrl c { ce with c := .sharedV none 0 0 orig }    -- mem::replace(&mut shared.vec, Vec::new())
        releaseCtrl c
        copyWithin vreg off 0 len
        pure (.vec vreg len vcap)
      | _ => ub "control block of the wrong type"
    else do
      let v ← toVecCopy e reg off len
      releaseCtrl c
      pure v
  | _ => panic

/-- the vtable's `into_mut` (`From<Bytes> for BytesMut`) -/
def bytesIntoMut (cfg : Cfg) (e : Env) (h : Handle) : M Handle :=
  match h with
  | .bytes .static reg off len => do
    let v ← toVecCopy e reg off len
    match v with
    | .vec r l c => pure (mutFromVec r l c)
    | _ => panic
  | .bytes (.owned c) reg off len => do
    let v ← toVecCopy e reg off len
    releaseCtrl c
    match v with
    | .vec r l cp => pure (mutFromVec r l cp)
    | _ => panic
  | .bytes (.prom vt none) reg off len => do
    -- promotable_to_mut: Vec::from_raw_parts(buf, cap, cap); from_vec; advance_unchecked(off)
    promDecode vt reg
    mutAdvanceUnchecked cfg (mutFromVec reg (off + len) (off + len)) off
  | .bytes (.prom _ (some c)) reg off len | .bytes (.shared c) reg off len => do
    -- shared_to_mut_impl
    let u ← ctrlIsUnique c
    if u then do
      let (r, cap) ← takeSharedB c
      mutAdvanceUnchecked cfg (mutFromVec (some r) (len + off) cap) off
    else do
      let v ← toVecCopy e reg off len
      releaseCtrl c
      match v with
      | .vec r l cp => pure (mutFromVec r l cp)
      | _ => panic
  | .bytes (.sharedV c) reg off len => do
    -- shared_v_to_mut
    let u ← ctrlIsUnique c
    if u then do
      let ce ← getCtrl c
      match ce.c with
      | .sharedV _ _ vcap orig => pure (.mut (some c) reg off len (vcap - off) orig)
      | _ => ub "control block of the wrong type"
    else do
      let v ← toVecCopy e reg off len
      releaseCtrl c
      match v with
      | .vec r l cp => pure (mutFromVec r l cp)
      | _ => panic
  | _ => panic

/-! ### BytesMut -/

/-- `promote_to_shared(ref_cnt)` -/
def mutPromote (h : Handle) (rc : Nat) : M Handle :=
  match h with
  | .mut none reg off len cap orig => do
    let c ← newCtrl (.sharedV reg (off + len) (off + cap) orig) rc
    pure (.mut (some c) reg off len cap orig)
  | _ => panic

/-- `shallow_clone(&mut self)`: returns (self', clone) -/
def mutShallowClone (h : Handle) : M (Handle × Handle) :=
  match h with
  | .mut (some c) _ _ _ _ _ => do incCtrl c; pure (h, h)
  | .mut none _ _ _ _ _ => do
    let h' ← mutPromote h 2
    pure (h', h')
  | _ => panic

def mutDrop (h : Handle) : M Unit :=
  match h with
  | .mut none reg off _ cap _ => vecFree reg (off + cap)        -- rebuild_vec(ptr, len, cap, off) dropped
  | .mut (some c) _ _ _ _ _ => releaseCtrl c
  | _ => panic

/-- `reserve_inner(additional, allocate)`; returns (handle', success) -/
def mutReserveInner (cfg : Cfg) (e : Env) (h : Handle) (additional : Nat) (allocate : Bool) : M (Handle × Bool) :=
  match h with
  | .mut none reg off len cap orig =>
    -- KIND_VEC
    if cap - len + off ≥ additional ∧ off ≥ len then do
      copyWithin reg off 0 len          -- copy_nonoverlapping (ranges are disjoint since off ≥ len)
      let cap' ← uadd cfg cap off       -- `self.cap += off`
      pure (.mut none reg 0 len cap' orig, true)
    else if !allocate then pure (h, false)
    else do
      -- rebuild_vec(ptr, len, cap, off).reserve(additional)
      let (reg', vcap') ← vecReserve e reg (off + len) (off + cap) additional
      pure (.mut none reg' off len (vcap' - off) orig, true)
  | .mut (some c) reg off len cap orig =>
    if len + additional ≥ W then (if allocate then panic else pure (h, false))   -- checked_add
    else do
      let newCap := len + additional
      let ce ← getCtrl c
      match ce.c with
      | .sharedV vreg _ vcap vorig =>
        if ce.rc = 1 then do
          -- unique: `offset` = self.ptr - v.as_ptr()
          let sum := min (newCap + off) (W - 1)                     -- `new_cap.saturating_add(offset)`
          if vcap ≥ sum then pure (.mut (some c) reg off len newCap orig, true)
          else if vcap ≥ newCap ∧ off ≥ len then do
            copyWithin reg off 0 len
            pure (.mut (some c) reg 0 len vcap orig, true)
          else if !allocate then pure (h, false)
          else do
            if newCap + off ≥ W then panic                          -- checked_add(off).expect("overflow")
            else do
              let want := newCap + off
              let double := if vcap * 2 < W then vcap * 2 else want  -- checked_shl(1).unwrap_or(new_cap)
              let target := max double want
              dassert cfg (off + len ≤ vcap)
              -- v.set_len(off + len); v.reserve(target - v.len())
              let (vreg', vcap') ← vecReserve e vreg (off + len) vcap (target - (off + len))
              setCtrl c { ce with c := .sharedV vreg' (off + len) vcap' vorig }
              pure (.mut (some c) vreg' off len (vcap' - off) orig, true)
        else if !allocate then pure (h, false)
        else do
          let target := max newCap (originalCapacityFromRepr vorig)
          let bs ← readRange reg off len
          let r' ← vecNew e bs target
          releaseCtrl c
          pure (.mut none r' 0 len target vorig, true)
      | _ => ub "control block of the wrong type"
  | _ => panic

def mutReserve (cfg : Cfg) (e : Env) (h : Handle) (additional : Nat) : M Handle :=
  match h with
  | .mut _ _ _ len cap _ =>
    if additional ≤ cap - len then pure h
    else do
      let (h', _) ← mutReserveInner cfg e h additional true
      pure h'
  | _ => panic

/-- `extend_from_slice` -/
def mutExtend (cfg : Cfg) (e : Env) (h : Handle) (bs : List Byte) : M Handle := do
  let h' ← mutReserve cfg e h bs.length
  match h' with
  | .mut arc reg off len cap orig =>
    if cap - len < bs.length then panic      -- advance_mut's check (not reachable after a successful reserve)
    else do
      dassert cfg (cap - len ≥ bs.length)
      writeRange reg (off + len) bs
      pure (.mut arc reg off (len + bs.length) cap orig)
  | _ => panic

/-! ### the operations of the API -/

inductive Op
  | fromStatic (bs : List Byte)
  | newVec (bs : List Byte) (cap : Nat)          -- a `Vec<u8>` with the given contents and capacity
  | fromVec (v : Nat)                            -- `Bytes::from(Vec<u8>)`
  | copyFromSlice (bs : List Byte)
  | fromOwner (bs : List Byte) (asRefPanics : Bool)
  | mutWithCapacity (cap : Nat)
  | mutFromSlice (bs : List Byte)
  | mutZeroed (n : Nat)
  | clone (i : Nat)
  | slice (i lo hi : Nat)                        -- `slice(lo..hi)` (other bound kinds are normalised by the caller)
  | splitOff (i k : Nat)
  | splitTo (i k : Nat)
  | split (i : Nat)
  | truncate (i n : Nat)
  | clear (i : Nat)
  | advance (i n : Nat)
  | isUnique (i : Nat)
  | tryIntoMut (i : Nat)
  | intoMut (i : Nat)
  | intoVec (i : Nat)
  | freeze (i : Nat)
  | reserve (i n : Nat)
  | tryReclaim (i n : Nat)
  | extend (i : Nat) (bs : List Byte)
  | resize (i n : Nat) (b : Byte)
  | unsplit (i j : Nat)
  | setByte (i k : Nat) (b : Byte)               -- `m[k] = b` through DerefMut
  | fillSpare (i : Nat) (b : Byte)               -- write into all of `spare_capacity_mut()`
  | drop (i : Nat)
  deriving Repr, DecidableEq, Inhabited

inductive Val
  | unit
  | handle (i : Nat)
  | bool (b : Bool)
  | err (i : Nat)                                -- `Err(self)` of try_into_mut: the handle comes back
  deriving Repr, DecidableEq, Inhabited

def emptyWithPtr (reg : Option Nat) (off : Nat) : Handle := .bytes .static reg off 0

/-- `Bytes::split_off(k)`: updates `self` (handle `i`), returns the tail (not yet registered) -/
def bytesSplitOffCore (i k : Nat) : M Handle := do
  let h ← getHandle i
  match h with
  | .bytes repr reg off len =>
    if k = len then pure (emptyWithPtr reg (off + k))
    else if k = 0 then do
      setHandle i (emptyWithPtr reg off)
      pure (.bytes repr reg off len)
    else if k > len then panic
    else do
      let c ← bytesClone i
      let h' ← getHandle i               -- `self` may have been promoted by the clone
      match h', c with
      | .bytes repr' reg' off' _, .bytes crepr creg coff clen => do
        setHandle i (.bytes repr' reg' off' k)
        pure (.bytes crepr creg (coff + k) (clen - k))
      | _, _ => panic
  | _ => panic

def opSplitOff (cfg : Cfg) (i k : Nat) : M Val := do
  let h ← getHandle i
  match h with
  | .bytes .. => do
    let o ← bytesSplitOffCore i k
    let j ← newHandle o
    pure (.handle j)
  | .mut _ _ _ _ cap _ =>
    if k > cap then panic
    else do
      let (self', other) ← mutShallowClone h
      let other' ← mutAdvanceUnchecked cfg other k
      match self' with
      | .mut arc reg off len _ orig => do
        setHandle i (.mut arc reg off (min len k) k orig)
        let j ← newHandle other'
        pure (.handle j)
      | _ => panic
  | _ => panic

def opSplitTo (cfg : Cfg) (i k : Nat) : M Val := do
  let h ← getHandle i
  match h with
  | .bytes repr reg off len =>
    if k = len then do
      setHandle i (emptyWithPtr reg (off + k))
      let j ← newHandle (.bytes repr reg off len)
      pure (.handle j)
    else if k = 0 then do
      let j ← newHandle (emptyWithPtr reg off)
      pure (.handle j)
    else if k > len then panic
    else do
      let c ← bytesClone i
      let h' ← getHandle i
      match h', c with
      | .bytes repr' reg' off' len', .bytes crepr creg coff _ => do
        setHandle i (.bytes repr' reg' (off' + k) (len' - k))
        let j ← newHandle (.bytes crepr creg coff k)
        pure (.handle j)
      | _, _ => panic
  | .mut _ _ _ len _ _ =>
    if k > len then panic
    else do
      let (self', other) ← mutShallowClone h
      let self'' ← mutAdvanceUnchecked cfg self' k
      setHandle i self''
      match other with
      | .mut arc reg off _ _ orig => do
        let j ← newHandle (.mut arc reg off k k orig)
        pure (.handle j)
      | _ => panic
  | _ => panic

def opDrop (i : Nat) : M Val := do
  let h ← getHandle i
  killHandle i
  match h with
  | .bytes .. => do bytesDrop h; pure .unit
  | .mut .. => do mutDrop h; pure .unit
  | .vec reg _ cap => do vecFree reg cap; pure .unit

def opTruncate (i n : Nat) : M Val := do
  let h ← getHandle i
  match h with
  | .bytes repr reg off len =>
    if n < len then
      match repr with
      | .prom _ _ => do
        -- drop(self.split_off(n))
        let o ← bytesSplitOffCore i n
        bytesDrop o
        pure .unit
      | _ => do setHandle i (.bytes repr reg off n); pure .unit
    else pure .unit
  | .mut arc reg off len cap orig =>
    if n ≤ len then do setHandle i (.mut arc reg off n cap orig); pure .unit else pure .unit
  | .vec reg len cap =>
    if n ≤ len then do setHandle i (.vec reg n cap); pure .unit else pure .unit

def step (cfg : Cfg) (e : Env) (op : Op) : M Val :=
  match op with
  | .fromStatic bs => fun s =>
    let r := s.regions.length
    let s' := if bs = [] then s else { s with regions := s.regions ++ [⟨bs.length, bs.map some, true, .static⟩] }
    (do let i ← newHandle (.bytes .static (if bs = [] then none else some r) 0 bs.length); pure (Val.handle i) : M Val) s'
  | .newVec bs cap =>
    if cap < bs.length then panic
    else do
      let r ← vecNew e bs cap
      let i ← newHandle (.vec r bs.length cap)
      pure (.handle i)
  | .fromVec v => do
    let h ← getHandle v
    match h with
    | .vec reg len cap => do
      let b ← bytesFromVec reg len cap
      setHandle v b
      pure (.handle v)
    | _ => panic
  | .copyFromSlice bs => do
    let r ← vecNew e bs bs.length
    let b ← bytesFromVec r bs.length bs.length
    let i ← newHandle b
    pure (.handle i)
  | .fromOwner bs asRefPanics => do
    let s ← get
    let o := s.owners
    modify fun s => { s with owners := s.owners + 1 }
    let c ← newCtrl (.owned o) 1
    emit (.ownerAsRef o)
    if asRefPanics then do
      -- unwinding drops `ret` (OWNED_VTABLE, len 0)
      releaseCtrl c
      panic
    else do
      let s ← get
      let r := s.regions.length
      if bs = [] then do
        let i ← newHandle (.bytes (.owned c) none 0 0)
        pure (.handle i)
      else do
        modify fun s => { s with regions := s.regions ++ [⟨bs.length, bs.map some, true, .ownerMem o⟩] }
        let i ← newHandle (.bytes (.owned c) (some r) 0 bs.length)
        pure (.handle i)
  | .mutWithCapacity cap => do
    let r ← vecNew e [] cap
    let i ← newHandle (mutFromVec r 0 cap)
    pure (.handle i)
  | .mutFromSlice bs => do
    let r ← vecNew e bs bs.length
    let i ← newHandle (mutFromVec r bs.length bs.length)
    pure (.handle i)
  | .mutZeroed n => do
    let r ← vecNew e (List.replicate n 0) n
    let i ← newHandle (mutFromVec r n n)
    pure (.handle i)
  | .clone i => do
    let h ← getHandle i
    match h with
    | .bytes .. => do
      let c ← bytesClone i
      let j ← newHandle c
      pure (.handle j)
    | .mut _ reg off len _ _ => do
      -- `BytesMut::clone` = `BytesMut::from(&self[..])`
      let bs ← readRange reg off len
      let r ← vecNew e bs len
      let j ← newHandle (mutFromVec r len len)
      pure (.handle j)
    | .vec reg len _ => do
      let bs ← readRange reg 0 len
      let r ← vecNew e bs len
      let j ← newHandle (.vec r len len)
      pure (.handle j)
  | .slice i lo hi => do
    let h ← getHandle i
    match h with
    | .bytes _ _ _ len =>
      if lo > hi then panic
      else if hi > len then panic
      else if hi = lo then do
        let j ← newHandle (.bytes .static none 0 0)
        pure (.handle j)
      else do
        let c ← bytesClone i
        match c with
        | .bytes repr reg off _ => do
          let j ← newHandle (.bytes repr reg (off + lo) (hi - lo))
          pure (.handle j)
        | _ => panic
    | _ => panic
  | .splitOff i k => opSplitOff cfg i k
  | .splitTo i k => opSplitTo cfg i k
  | .split i => do
    let h ← getHandle i
    match h with
    | .mut _ _ _ len _ _ => opSplitTo cfg i len
    | _ => panic
  | .truncate i n => opTruncate i n
  | .clear i => opTruncate i 0
  | .advance i n => do
    let h ← getHandle i
    match h with
    | .bytes repr reg off len =>
      if n > len then panic else do setHandle i (.bytes repr reg (off + n) (len - n)); pure .unit
    | .mut _ _ _ len _ _ =>
      if n > len then panic
      else do
        let h' ← mutAdvanceUnchecked cfg h n
        setHandle i h'
        pure .unit
    | _ => panic
  | .isUnique i => do
    let h ← getHandle i
    let b ← bytesIsUnique h
    pure (.bool b)
  | .tryIntoMut i => do
    let h ← getHandle i
    let u ← bytesIsUnique h
    if u then do
      let m ← bytesIntoMut cfg e h
      setHandle i m
      pure (.handle i)
    else pure (.err i)
  | .intoMut i => do
    let h ← getHandle i
    match h with
    | .bytes .. => do
      let m ← bytesIntoMut cfg e h
      setHandle i m
      pure (.handle i)
    | _ => panic
  | .intoVec i => do
    let h ← getHandle i
    match h with
    | .bytes .. => do
      let v ← bytesIntoVec e h
      setHandle i v
      pure (.handle i)
    | .mut none reg off len cap _ => do
      -- From<BytesMut> for Vec<u8>, KIND_VEC: rebuild_vec then ptr::copy to the front
      copyWithin reg off 0 len
      setHandle i (.vec reg len (off + cap))
      pure (.handle i)
    | .mut (some c) reg off len _ _ => do
      let ce ← getCtrl c
      if ce.rc = 1 then
        match ce.c with
        | .sharedV vreg _ vcap orig => do
          setCtrl c { ce with c := .sharedV none 0 0 orig }
          releaseCtrl c
          copyWithin vreg off 0 len
          setHandle i (.vec vreg len vcap)
          pure (.handle i)
        | _ => ub "control block of the wrong type"
      else do
        -- ManuallyDrop::into_inner(bytes).deref().to_vec(): copy, then the BytesMut is dropped
        let v ← toVecCopy e reg off len
        releaseCtrl c
        setHandle i v
        pure (.handle i)
    | _ => panic
  | .freeze i => do
    let h ← getHandle i
    match h with
    | .mut none reg off len cap _ => do
      -- rebuild_vec(ptr, len, cap, off).into(): Bytes; b.advance(off)
      let b ← bytesFromVec reg (off + len) (off + cap)
      match b with
      | .bytes repr reg' off' len' =>
        if off > len' then panic
        else do setHandle i (.bytes repr reg' (off' + off) (len' - off)); pure (.handle i)
      | _ => panic
    | .mut (some c) reg off len _ _ => do
      setHandle i (.bytes (.sharedV c) reg off len)
      pure (.handle i)
    | _ => panic
  | .reserve i n => do
    let h ← getHandle i
    let h' ← mutReserve cfg e h n
    setHandle i h'
    pure .unit
  | .tryReclaim i n => do
    let h ← getHandle i
    match h with
    | .mut _ _ _ len cap _ =>
      if n ≤ cap - len then pure (.bool true)
      else do
        let (h', ok) ← mutReserveInner cfg e h n false
        setHandle i h'
        pure (.bool ok)
    | _ => panic
  | .extend i bs => do
    let h ← getHandle i
    let h' ← mutExtend cfg e h bs
    setHandle i h'
    pure .unit
  | .resize i n b => do
    let h ← getHandle i
    match h with
    | .mut arc reg off len cap orig =>
      if n ≤ len then do setHandle i (.mut arc reg off n cap orig); pure .unit
      else do
        let additional := n - len
        let h' ← mutReserve cfg e h additional
        match h' with
        | .mut arc' reg' off' len' cap' orig' => do
          writeRange reg' (off' + len') (List.replicate additional b)
          setHandle i (.mut arc' reg' off' n cap' orig')
          pure .unit
        | _ => panic
    | _ => panic
  | .unsplit i j => do
    if i = j then panic else
    let h ← getHandle i
    let o ← getHandle j
    match h, o with
    | .mut arc reg off len cap orig, .mut oarc oreg ooff olen ocap _ =>
      if len = 0 then do
        -- `*self = other` (drops the old self)
        killHandle j
        mutDrop h
        setHandle i o
        pure .unit
      else if ocap = 0 then do
        -- try_unsplit: Ok(()), `other` dropped
        killHandle j
        mutDrop o
        pure .unit
      else if oreg = reg ∧ ooff = off + len ∧ arc.isSome ∧ arc = oarc then do
        -- contiguous halves of the same shared buffer
        killHandle j
        mutDrop o                           -- `other` consumed: its reference is released
        setHandle i (.mut arc reg off (len + olen) (cap + ocap) orig)
        pure .unit
      else do
        -- extend_from_slice(other.as_ref()), then `other` is dropped (also when extend panics)
        let bs ← readRange oreg ooff olen
        killHandle j
        fun s =>
          match mutExtend cfg e h bs s with
          | .ok h' s' => (do setHandle i h'; mutDrop o; pure Val.unit) s'
          | .panic s' => (do mutDrop o; (panic : M Val)) s'
          | .ub w s' => .ub w s'
    | _, _ => panic
  | .setByte i k b => do
    let h ← getHandle i
    match h with
    | .mut _ reg off len _ _ =>
      if k ≥ len then panic else do writeRange reg (off + k) [b]; pure .unit
    | _ => panic
  | .fillSpare i b => do
    let h ← getHandle i
    match h with
    | .mut _ reg off len cap _ => do writeRange reg (off + len) (List.replicate (cap - len) b); pure .unit
    | _ => panic
  | .drop i => opDrop i

end BytesVerif.Core
