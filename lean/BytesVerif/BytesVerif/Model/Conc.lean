/-
M5 — the concurrency protocol of one shared buffer (C05, C06): reference counting through an atomic
counter, exclusive conversion of a sole owner, and deallocation, under a release/acquire view
semantics (the RC11 RA + relaxed fragment without load buffering, restricted to what the crate
uses: one atomic counter per control block, RMWs, loads, no fences).

The orderings are a *parameter* (`Ords`), filled from the source by T1 (Generated/Atomics.lean), so
the theorems say for which orderings the protocol is race-free.  Setting every ordering to SeqCst-like
strength and ignoring views gives the SC reading used for C05.

Threads are numbered; each holds some handles to the buffer.  Every atomic action is its own step:
`drop` = `fetch_sub` ; (`load` ; free) as in `release_shared`.
-/
namespace BytesVerif.Conc

inductive Ord | relaxed | acquire | release | acqRel
  deriving Repr, DecidableEq, Inhabited

def Ord.isAcq : Ord → Bool | .acquire | .acqRel => true | _ => false
def Ord.isRel : Ord → Bool | .release | .acqRel => true | _ => false

/-- orderings of the atomic sites of the refcount protocol -/
structure Ords where
  cloneAdd : Ord        -- fetch_add in shallow_clone_arc / increment_shared / owned_clone
  dropSub : Ord         -- fetch_sub in release_shared (×2) / owned_drop_impl
  dropLoad : Ord        -- load after the decrement hit zero
  toVecCasOk : Ord      -- compare_exchange(1, 0) success in shared_to_vec_impl
  toVecCasFail : Ord    -- … failure
  uniqueLoad : Ord      -- load in shared_to_mut_impl / Shared::is_unique (reclaiming reserve, into Vec/BytesMut of a frozen BytesMut)
  deriving Repr, DecidableEq, Inhabited

/-- vector clock: thread ↦ epoch -/
abbrev VC := Nat → Nat
def VC.join (a b : VC) : VC := fun t => max (a t) (b t)
def VC.le (a b : VC) : Prop := ∀ t, a t ≤ b t
def VC.zero : VC := fun _ => 0

/-- a message in the modification order of the counter -/
structure Msg where
  val : Nat
  view : VC          -- what an acquire read of this message synchronises with

/-- what a thread is in the middle of -/
inductive Pc
  | idle
  | dropped          -- fetch_sub returned 1: about to load and free
  | loadedFree       -- the load is done: about to free
  | failedToVec      -- CAS failed: will copy (a read) and then drop its handle
  deriving Repr, DecidableEq, Inhabited

structure Thread where
  vc : VC            -- happens-before knowledge
  seen : Nat         -- index of the newest counter message observed (coherence)
  handles : Nat      -- handles to the buffer held by this thread
  pc : Pc
  exclusive : Bool   -- has obtained exclusive ownership of the buffer memory (zero-copy Vec / BytesMut)

structure St where
  mo : List Msg                 -- modification order of the counter, oldest first (never empty after init)
  th : Nat → Thread
  lastWrite : Option (Nat × Nat)   -- (thread, epoch) of the last write to buffer memory
  readEpoch : VC                -- per thread: epoch of its last read of buffer memory
  freed : Bool                  -- buffer memory deallocated
  ctrlFreed : Bool              -- control block deallocated
  race : Bool                   -- a data race on buffer memory or on the (non-atomic) deallocation was observed
  uaf : Bool                    -- an access after the deallocation was observed
  doubleFree : Bool
  exclusiveCount : Nat          -- how many parties obtained zero-copy exclusive ownership

def tick (t : Nat) (v : VC) : VC := fun u => if u = t then v u + 1 else v u

def latest (s : St) : Msg := s.mo.getLast?.getD ⟨0, VC.zero⟩

/-- non-atomic read of buffer memory by thread `t` -/
def doRead (s : St) (t : Nat) : St :=
  let T := s.th t
  let racy := match s.lastWrite with
    | some (w, e) => decide (w ≠ t ∧ ¬ e ≤ T.vc w)
    | none => false
  let vc' := tick t T.vc
  { s with race := s.race || racy, uaf := s.uaf || s.freed,
           readEpoch := fun u => if u = t then vc' t else s.readEpoch u,
           th := fun u => if u = t then { T with vc := vc' } else s.th u }

/-- is every earlier access to the buffer ordered before thread `t` now? (evaluated over the first `n` threads) -/
def allBefore (s : St) (t : Nat) (n : Nat) : Bool :=
  let T := s.th t
  (List.range n).all (fun u => u == t || decide (s.readEpoch u ≤ T.vc u)) &&
  (match s.lastWrite with
   | some (w, e) => w == t || decide (e ≤ T.vc w)
   | none => true)

/-- non-atomic write (mutation by a sole owner, or the deallocation itself) by thread `t`; `n` bounds the thread ids in use -/
def doWrite (s : St) (t : Nat) (n : Nat) (isFree : Bool) : St :=
  let T := s.th t
  let vc' := tick t T.vc
  { s with race := s.race || !allBefore s t n, uaf := s.uaf || (s.freed && !isFree),
           doubleFree := s.doubleFree || (s.freed && isFree),
           freed := s.freed || isFree,
           lastWrite := some (t, vc' t),
           th := fun u => if u = t then { T with vc := vc' } else s.th u }

/-- an RMW by `t` reading the latest message, writing `f val`: continues the release sequence
(the new message carries the old message's view, plus the thread's view if it is a release) -/
def rmw (s : St) (t : Nat) (o : Ord) (f : Nat → Nat) : St × Nat :=
  let T := s.th t
  let m := latest s
  let vcAcq := if o.isAcq then T.vc.join m.view else T.vc
  let vc' := tick t vcAcq
  let newView := if o.isRel then m.view.join vc' else m.view
  ({ s with mo := s.mo ++ [⟨f m.val, newView⟩],
            th := fun u => if u = t then { T with vc := vc', seen := s.mo.length } else s.th u }, m.val)

/-- a load by `t` of message number `k` (any message not older than what the thread has seen) -/
def load (s : St) (t : Nat) (o : Ord) (k : Nat) : Option (St × Nat) :=
  let T := s.th t
  if k < T.seen then none else
  match s.mo[k]? with
  | none => none
  | some m =>
    let vc' := if o.isAcq then T.vc.join m.view else T.vc
    some ({ s with th := fun u => if u = t then { T with vc := vc', seen := k } else s.th u }, m.val)

def setTh (s : St) (t : Nat) (f : Thread → Thread) : St :=
  { s with th := fun u => if u = t then f (s.th t) else s.th u }

/-- the labelled steps of the protocol; `n` = number of threads -/
inductive Step (o : Ords) (n : Nat) : St → St → Prop
  /-- read through a handle (Deref, chunk(), copying) -/
  | read (s t) (ht : t < n) (hh : 0 < (s.th t).handles) (hp : (s.th t).pc = .idle) :
      Step o n s (doRead s t)
  /-- clone: fetch_add(1) -/
  | clone (s t) (ht : t < n) (hh : 0 < (s.th t).handles) (hp : (s.th t).pc = .idle) :
      Step o n s (setTh (rmw s t o.cloneAdd (· + 1)).1 t fun T => { T with handles := T.handles + 1 })
  /-- hand a handle to another thread through a synchronising channel (spawn, join, mpsc, Arc<…>) -/
  | send (s t u) (ht : t < n) (hu : u < n) (hne : t ≠ u) (hh : 0 < (s.th t).handles) (hp : (s.th t).pc = .idle) :
      Step o n s (setTh (setTh s t fun T => { T with handles := T.handles - 1, vc := tick t T.vc }) u
                    fun U => { U with handles := U.handles + 1, vc := U.vc.join (tick t (s.th t).vc), seen := max U.seen (s.th t).seen })
  /-- drop, first half: fetch_sub(1); the thread that sees 1 goes on to free -/
  | dropSub (s t) (ht : t < n) (hh : 0 < (s.th t).handles) (hp : (s.th t).pc = .idle) :
      Step o n s (let r := rmw s t o.dropSub (· - 1)
                  setTh r.1 t fun T => { T with handles := T.handles - 1, pc := if r.2 = 1 then .dropped else .idle })
  /-- drop, second half: the load after the decrement -/
  | dropLoad (s t k s' v) (ht : t < n) (hp : (s.th t).pc = .dropped) (hl : load s t o.dropLoad k = some (s', v)) :
      Step o n s (setTh s' t fun T => { T with pc := .loadedFree })
  /-- drop, last part: deallocate buffer and control block -/
  | dropFree (s t) (ht : t < n) (hp : (s.th t).pc = .loadedFree) :
      Step o n s (setTh { (doWrite s t n true) with ctrlFreed := true } t fun T => { T with pc := .idle })
  /-- Into<Vec<u8>>: CAS(1 → 0) succeeds: exclusive, zero-copy; the control block is freed, the buffer lives on in the Vec -/
  | toVecOk (s t) (ht : t < n) (hh : 0 < (s.th t).handles) (hp : (s.th t).pc = .idle) (h1 : (latest s).val = 1) :
      Step o n s (let r := rmw s t o.toVecCasOk (fun _ => 0)
                  let s1 := setTh r.1 t fun T => { T with handles := T.handles - 1, exclusive := true }
                  { (doWrite s1 t n false) with ctrlFreed := true, exclusiveCount := s.exclusiveCount + 1 })
  /-- Into<Vec<u8>>: CAS fails (some message with value ≠ 1 is read): copy, then release the handle -/
  | toVecFail (s t k s' v) (ht : t < n) (hh : 0 < (s.th t).handles) (hp : (s.th t).pc = .idle)
      (hl : load s t o.toVecCasFail k = some (s', v)) (hv : v ≠ 1) :
      Step o n s (setTh (doRead s' t) t fun T => { T with pc := .failedToVec })
  | toVecFailDrop (s t) (ht : t < n) (hp : (s.th t).pc = .failedToVec) :
      Step o n s (let r := rmw s t o.dropSub (· - 1)
                  setTh r.1 t fun T => { T with handles := T.handles - 1, pc := if r.2 = 1 then .dropped else .idle })
  /-- try_into_mut / Into<BytesMut> / reclaiming reserve / is_unique-guarded reuse: load == 1 → mutate in place -/
  | uniqueOk (s t k s' v) (ht : t < n) (hh : 0 < (s.th t).handles) (hp : (s.th t).pc = .idle)
      (hl : load s t o.uniqueLoad k = some (s', v)) (hv : v = 1) :
      Step o n s ({ (doWrite s' t n false) with exclusiveCount := s.exclusiveCount + (if (s.th t).exclusive then 0 else 1) } |>
                  fun s2 => setTh s2 t fun T => { T with exclusive := true })

/-- initial state: thread 0 created the buffer (a write), holds the only handle, counter = 1 -/
def init : St :=
  { mo := [⟨1, tick 0 VC.zero⟩],
    th := fun t => { vc := if t = 0 then tick 0 VC.zero else VC.zero, seen := 0, handles := if t = 0 then 1 else 0, pc := .idle, exclusive := false },
    lastWrite := some (0, 1), readEpoch := VC.zero, freed := false, ctrlFreed := false,
    race := false, uaf := false, doubleFree := false, exclusiveCount := 0 }

inductive Reach (o : Ords) (n : Nat) : St → Prop
  | init : Reach o n init
  | step {s s'} : Reach o n s → Step o n s s' → Reach o n s'

/-- The lower bounds on the orderings that the proof needs (monotone: stronger is always fine). -/
def Sufficient (o : Ords) : Bool :=
  o.dropSub.isRel && o.dropLoad.isAcq && o.toVecCasOk.isAcq && o.uniqueLoad.isAcq

end BytesVerif.Conc
