/-
The representation invariant of M1, as a decidable predicate (the judge evaluates it on every model
state reached in the T2 runs; the theorems prove it inductive).

W1 regions: sizes fit, data length = size.
W2 per-handle representation invariants (the promotable KIND_VEC handle ends exactly at the end of
   its allocation; a KIND_VEC BytesMut spans `[pos, pos+cap)` up to the end of its allocation; shared
   handles lie inside the buffer named by their control block; `len ≤ cap`; zero-capacity vectors own
   no allocation; the promotable vtable matches the address parity).
W3 counting: the reference count of every live control block is the number of live handles naming
   it (≥ 1); every live heap region has exactly one owner (a KIND_VEC handle, a `Vec`, or a live
   control block); dead regions / control blocks are not referenced.
W4 exclusivity: the capacity range of a BytesMut / Vec is disjoint from the range of every other
   handle on the same region.
W5 every byte in a view is initialised.
-/
import BytesVerif.Model.Core
import BytesVerif.Model.CoreSpec
namespace BytesVerif.Core

def ctrlOf : Handle → Option Nat
  | .bytes (.owned c) .. | .bytes (.shared c) .. | .bytes (.sharedV c) .. | .bytes (.prom _ (some c)) .. => some c
  | .mut (some c) .. => some c
  | _ => none

/-- handles that own their region directly (no control block) -/
def directRegion : Handle → Option Nat
  | .bytes (.prom _ none) reg _ _ => reg
  | .mut none reg .. => reg
  | .vec reg .. => reg
  | _ => none

def ctrlRegion : Ctrl → Option Nat
  | .sharedB r _ => some r
  | .sharedV r _ _ _ => r
  | .owned _ => none

def liveHandles (s : St) : List Handle := s.hs.filterMap id

/-- number of live handles naming control block `c` -/
def refCount (s : St) (c : Nat) : Nat := (liveHandles s).countP fun h => ctrlOf h == some c

/-- number of owners of region `r` -/
def ownerCount (s : St) (r : Nat) : Nat :=
  (liveHandles s).countP (fun h => directRegion h == some r) +
  s.ctrls.countP (fun e => e.live && ctrlRegion e.c == some r)

def regionOKB (rg : Region) : Bool :=
  rg.data.length == rg.size && rg.size ≤ isizeMax &&
  (match rg.kind with | .heap _ => rg.size > 0 | _ => true)

def isHeapLive (s : St) (r : Nat) : Bool :=
  match s.regions[r]? with
  | some rg => rg.live && (match rg.kind with | .heap _ => true | _ => false)
  | none => false

def regionSize (s : St) (r : Nat) : Nat :=
  match s.regions[r]? with
  | some rg => rg.size
  | none => 0

/-- `[off, off+len)` of region `r` is live, in bounds and initialised -/
def initRange (s : St) (reg : Option Nat) (off len : Nat) : Bool :=
  len == 0 ||
  match reg with
  | none => false
  | some r =>
    match s.regions[r]? with
    | some rg => rg.live && off + len ≤ rg.size && ((rg.data.drop off).take len).all (·.isSome)
    | none => false

def liveCtrl (s : St) (c : Nat) : Option Ctrl :=
  match s.ctrls[c]? with
  | some e => if e.live then some e.c else none
  | none => none

def regionOddB (s : St) (r : Nat) : Bool :=
  match s.regions[r]? with
  | some rg => (match rg.kind with | .heap o => o | _ => false)
  | none => false

/-- W2 + W5 for one handle -/
def handleOKB (s : St) : Handle → Bool
  | .bytes .static reg off len => initRange s reg off len
  | .bytes (.owned c) reg off len =>
    (match liveCtrl s c with
     | some (.owned o) => len == 0 || (match reg with
        | some r => (match s.regions[r]? with | some rg => rg.kind == .ownerMem o | none => false)
        | none => false)
     | _ => false) && initRange s reg off len
  | .bytes (.prom vt none) reg off len =>
    (match reg with
     | some r => isHeapLive s r && off + len == regionSize s r && vt == regionOddB s r
     | none => false) && initRange s reg off len
  | .bytes (.prom _ (some c)) reg off len | .bytes (.shared c) reg off len =>
    (match liveCtrl s c, reg with
     | some (.sharedB r cap), some r' => r == r' && off + len ≤ cap
     | _, _ => false) && initRange s reg off len
  | .bytes (.sharedV c) reg off len =>
    (match liveCtrl s c with
     | some (.sharedV vreg _ vcap _) => reg == vreg && off + len ≤ vcap
     | _ => false) && initRange s reg off len
  | .mut none reg off len cap _ =>
    len ≤ cap && off ≤ W / 32 - 1 &&
    (match reg with
     | none => off + cap == 0
     | some r => isHeapLive s r && off + cap == regionSize s r) && initRange s reg off len
  | .mut (some c) reg off len cap _ =>
    len ≤ cap &&
    (match liveCtrl s c with
     | some (.sharedV vreg _ vcap _) => reg == vreg && off + cap ≤ vcap
     | _ => false) && initRange s reg off len
  | .vec reg len cap =>
    len ≤ cap &&
    (match reg with
     | none => cap == 0
     | some r => isHeapLive s r && cap == regionSize s r) && initRange s reg 0 len

/-- a live control block: count and the buffer it names -/
def ctrlOKB (s : St) (c : Nat) (e : CtrlE) : Bool :=
  !e.live ||
  (e.rc == refCount s c && e.rc ≥ 1 &&
   match e.c with
   | .sharedB r cap => isHeapLive s r && regionSize s r == cap
   | .sharedV (some r) _ vcap _ => isHeapLive s r && regionSize s r == vcap
   | .sharedV none _ vcap _ => vcap == 0
   | .owned o => o < s.owners)

/-- range a handle may touch: (region, start, length) -/
def span : Handle → Option (Nat × Nat × Nat)
  | .bytes _ (some r) off len => some (r, off, len)
  | .mut _ (some r) off _ cap _ => some (r, off, cap)
  | .vec (some r) _ cap => some (r, 0, cap)
  | _ => none

def isMutable : Handle → Bool
  | .bytes .. => false
  | _ => true

def disjointB (a b : Handle) : Bool :=
  match span a, span b with
  | some (r, o, l), some (r', o', l') => r != r' || l == 0 || l' == 0 || o + l ≤ o' || o' + l' ≤ o
  | _, _ => true

/-- W4 -/
def exclusiveB (s : St) : Bool :=
  (s.hs.zipIdx).all fun (oa, i) =>
    match oa with
    | some a => !isMutable a || (s.hs.zipIdx).all fun (ob, j) =>
        match ob with
        | some b => i == j || disjointB a b
        | none => true
    | none => true

def wfB (s : St) : Bool :=
  s.regions.all regionOKB &&
  (liveHandles s).all (handleOKB s) &&
  (s.ctrls.zipIdx).all (fun (e, c) => ctrlOKB s c e) &&
  -- dead control blocks are not named by any handle
  (liveHandles s).all (fun h => match ctrlOf h with | some c => (liveCtrl s c).isSome | none => true) &&
  -- every live heap region has exactly one owner, dead regions none
  ((List.range s.regions.length).all fun r =>
    if isHeapLive s r then ownerCount s r == 1 else ownerCount s r == 0) &&
  exclusiveB s

/-- The representation invariant. -/
def WF (s : St) : Prop := wfB s = true

end BytesVerif.Core
