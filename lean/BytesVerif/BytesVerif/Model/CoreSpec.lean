/-
The reference model of C01: every handle is an independent `Vec<u8>` value.  `Spec.step` gives the
contents of every handle after an operation, given only whether the call returned or panicked
(and, for `try_into_mut`, which variant came back).  `abs` reads the same information out of an M1
state.
-/
import BytesVerif.Model.Core
namespace BytesVerif.Core

inductive Kind | bytes | mut | vec
  deriving Repr, DecidableEq, Inhabited

structure SH where
  kind : Kind
  val : List Byte
  deriving Repr, DecidableEq, Inhabited

namespace Spec

abbrev St := List (Option SH)

def get (s : St) (i : Nat) : Option SH := (s[i]?).join

def setAt (s : St) (i : Nat) (h : Option SH) : St := s.set i h

/-- The op returned normally with value `v`. -/
def stepOk (op : Op) (v : Val) (s : St) : St :=
  let upd (i : Nat) (f : SH → SH) : St :=
    match get s i with
    | some h => setAt s i (some (f h))
    | none => s
  match op with
  | .fromStatic bs | .copyFromSlice bs | .fromOwner bs _ => s ++ [some ⟨.bytes, bs⟩]
  | .newVec bs _ => s ++ [some ⟨.vec, bs⟩]
  | .mutWithCapacity _ => s ++ [some ⟨.mut, []⟩]
  | .mutFromSlice bs => s ++ [some ⟨.mut, bs⟩]
  | .mutZeroed n => s ++ [some ⟨.mut, List.replicate n 0⟩]
  | .fromVec i => upd i fun h => ⟨.bytes, h.val⟩
  | .clone i =>
    match get s i with
    | some h => s ++ [some h]
    | none => s
  | .slice i lo hi =>
    match get s i with
    | some h => s ++ [some ⟨.bytes, (h.val.drop lo).take (hi - lo)⟩]
    | none => s
  | .splitOff i k =>
    match get s i with
    | some h => (setAt s i (some ⟨h.kind, h.val.take k⟩)) ++ [some ⟨h.kind, h.val.drop k⟩]
    | none => s
  | .splitTo i k =>
    match get s i with
    | some h => (setAt s i (some ⟨h.kind, h.val.drop k⟩)) ++ [some ⟨h.kind, h.val.take k⟩]
    | none => s
  | .split i =>
    match get s i with
    | some h => (setAt s i (some ⟨h.kind, []⟩)) ++ [some h]
    | none => s
  | .truncate i n => upd i fun h => ⟨h.kind, h.val.take n⟩
  | .clear i => upd i fun h => ⟨h.kind, []⟩
  | .advance i n => upd i fun h => ⟨h.kind, h.val.drop n⟩
  | .isUnique _ | .reserve _ _ | .tryReclaim _ _ | .fillSpare _ _ => s
  | .tryIntoMut i =>
    match v with
    | .handle _ => upd i fun h => ⟨.mut, h.val⟩
    | _ => s
  | .intoMut i => upd i fun h => ⟨.mut, h.val⟩
  | .intoVec i => upd i fun h => ⟨.vec, h.val⟩
  | .freeze i => upd i fun h => ⟨.bytes, h.val⟩
  | .extend i bs => upd i fun h => ⟨h.kind, h.val ++ bs⟩
  | .resize i n b => upd i fun h => ⟨h.kind, if n ≤ h.val.length then h.val.take n else h.val ++ List.replicate (n - h.val.length) b⟩
  | .unsplit i j =>
    match get s i, get s j with
    | some a, some b => setAt (setAt s i (some ⟨a.kind, a.val ++ b.val⟩)) j none
    | _, _ => s
  | .setByte i k b => upd i fun h => ⟨h.kind, h.val.set k b⟩
  | .drop i => setAt s i none

/-- The call panicked: every handle keeps its value; a handle that was moved into the call
(`unsplit`'s argument, once both operands are live BytesMut handles) is gone. -/
def stepPanic (op : Op) (s : St) : St :=
  match op with
  | .unsplit i j =>
    match get s i, get s j with
    | some a, some b => if i ≠ j ∧ a.kind = .mut ∧ b.kind = .mut then setAt s j none else s
    | _, _ => s
  | _ => s

end Spec

/-- Contents of a handle in an M1 state (`none` if its memory cannot be read). -/
def viewOf (s : St) (h : Handle) : Option (List Byte) :=
  let rd (reg : Option Nat) (off len : Nat) : Option (List Byte) :=
    match readRange reg off len s with
    | .ok bs _ => some bs
    | _ => none
  match h with
  | .bytes _ reg off len => rd reg off len
  | .mut _ reg off len _ _ => rd reg off len
  | .vec reg len _ => rd reg 0 len

def kindOf : Handle → Kind
  | .bytes .. => .bytes
  | .mut .. => .mut
  | .vec .. => .vec

/-- Abstraction map from M1 states to the reference model. -/
def abs (s : St) : Spec.St :=
  s.hs.map fun oh => oh.bind fun h => (viewOf s h).map fun v => ⟨kindOf h, v⟩

end BytesVerif.Core
