/- Shared helpers for the `judge` executable (core-only). -/
namespace BytesVerif.Judge

def hexVal (c : Char) : Option Nat :=
  if '0' ≤ c ∧ c ≤ '9' then some (c.toNat - '0'.toNat)
  else if 'a' ≤ c ∧ c ≤ 'f' then some (c.toNat - 'a'.toNat + 10)
  else if 'A' ≤ c ∧ c ≤ 'F' then some (c.toNat - 'A'.toNat + 10)
  else none

/-- "-" is the empty string; otherwise pairs of hex digits. -/
def parseHex (s : String) : Option (List Nat) :=
  if s == "-" then some [] else
  let rec go : List Char → List Nat → Option (List Nat)
    | [], acc => some acc.reverse
    | [_], _ => none
    | a :: b :: t, acc =>
      match hexVal a, hexVal b with
      | some x, some y => go t ((x * 16 + y) :: acc)
      | _, _ => none
  go s.toList []

def hexDigit (n : Nat) : Char :=
  if n < 10 then Char.ofNat (n + '0'.toNat) else Char.ofNat (n - 10 + 'a'.toNat)

def toHex (bs : List Nat) : String :=
  if bs.isEmpty then "-" else
  String.ofList (bs.flatMap fun b => [hexDigit (b / 16), hexDigit (b % 16)])

def words (line : String) : List String :=
  (line.trimAscii.toString.splitOn " ").filter (· ≠ "")

/-- Fold over the lines of stdin. -/
partial def foldLines {σ : Type} (h : IO.FS.Stream) (s : σ) (f : σ → String → IO σ) : IO σ := do
  let line ← h.getLine
  if line.isEmpty then return s
  let s' ← f s line
  foldLines h s' f

end BytesVerif.Judge
