/- judge for the seq stream (M1: C01–C04, C07, C08, C13, C16): runs Core.step and Spec.step in
lock-step with the implementation's trace.  Oracle failures = the implementation's own observations
violate a property predicate; model diffs = implementation and M1 disagree. -/
import BytesVerif.Model.Core
import BytesVerif.Model.CoreSpec
import BytesVerif.Model.CoreWF
import BytesVerif.Judge.Util
namespace BytesVerif.Judge.SeqJ
open BytesVerif.Core BytesVerif.Judge

/-- one observed handle of the implementation -/
structure Obs where
  id : Nat
  kind : Kind
  blk : Option (Nat × Nat × Nat)     -- (block serial, offset, block size); none = no address (dangling / static empty)
  wild : Bool                         -- address outside every live block
  len : Nat
  cap : Option Nat
  uniq : Option Bool
  contents : String
  deriving Repr, Inhabited

def parseObs (ws : List String) : Option Obs :=
  match ws with
  | [id, k, blk, len, cap, uq, c] =>
    let kind := if k == "B" then some Kind.bytes else if k == "M" then some Kind.mut else if k == "V" then some Kind.vec else none
    let (b, wild) :=
      if blk == "none" then (none, false)
      else if blk.startsWith "wild" then (none, true)
      else match (blk.splitOn ":").map (·.toNat?) with
        | [some s, some o, some z, _] => (some (s, o, z), false)
        | _ => (none, true)
    match id.toNat?, kind, len.toNat? with
    | some i, some kd, some l =>
      some { id := i, kind := kd, blk := b, wild := wild, len := l, cap := cap.toNat?,
             uniq := if uq == "1" then some true else if uq == "0" then some false else none, contents := c }
    | _, _, _ => none
  | _ => none

def fnv (bs : List Nat) : Nat :=
  bs.foldl (fun h x => ((h ^^^ x) * 0x100000001b3) % 18446744073709551616) 0xcbf29ce484222325

def hex16 (n : Nat) : String :=
  let rec go (k : Nat) (n : Nat) (acc : List Char) : List Char :=
    match k with
    | 0 => acc
    | k + 1 => go k (n / 16) (hexDigit (n % 16) :: acc)
  String.ofList (go 16 n [])

def contentsStr (bs : List Nat) : String :=
  if bs.length ≤ 48 then toHex bs else s!"fnv:{hex16 (fnv bs)}:{bs.length}"

/-- UTF-8 encoding of a code point (what `fmt::Write::write_char` must append) -/
def utf8 (c : Nat) : List Nat :=
  if c < 0x80 then [c]
  else if c < 0x800 then [0xC0 + c / 64, 0x80 + c % 64]
  else if c < 0x10000 then [0xE0 + c / 4096, 0x80 + (c / 64) % 64, 0x80 + c % 64]
  else [0xF0 + c / 262144, 0x80 + (c / 4096) % 64, 0x80 + (c / 64) % 64, 0x80 + c % 64]

/-- parse the op text of the trace into a model op (`none`: unknown) -/
def parseOp (ws : List String) : Option Op :=
  let n (s : String) := s.toNat?
  match ws with
  | ["fromstatic", h] => (parseHex h).map .fromStatic
  | ["newvec", h, c] => do let bs ← parseHex h; let c ← n c; pure (.newVec bs c)
  | ["fromvec", i] => (n i).map .fromVec
  | ["copy", h] => (parseHex h).map .copyFromSlice
  | ["collect", h] => (parseHex h).map .copyFromSlice          -- FromIterator for Bytes: exact-size Vec, then From<Vec>
  | ["owner", h] => (parseHex h).map fun bs => .fromOwner bs false
  | ["owner", h, "panic"] => (parseHex h).map fun bs => .fromOwner bs true
  | ["ownerz"] => some (.fromOwner [122, 115, 116, 45, 111, 119, 110, 33] false)    -- a zero-sized owner answering b"zst-own!"
  | ["mcap", c] => (n c).map .mutWithCapacity
  | ["mfrom", h] => (parseHex h).map .mutFromSlice
  | ["mcollect", h] => (parseHex h).map .mutFromSlice          -- FromIterator for BytesMut
  | ["mzero", c] => (n c).map .mutZeroed
  | ["clone", i] => (n i).map .clone
  | ["slice", i, lo, hi] => do pure (.slice (← n i) (← n lo) (← n hi))
  | ["sliceinc", i, lo, hi] => do
      let hi ← n hi
      -- `lo..=hi`: end = hi.checked_add(1).expect(..): overflow panics, expressed as an inverted range
      if hi + 1 ≥ W then pure (.slice (← n i) 1 0) else pure (.slice (← n i) (← n lo) (hi + 1))
  | ["slicex", i, lo, hi] => do
      let lo ← n lo
      -- `(Excluded(lo), Excluded(hi))`: begin = lo.checked_add(1).expect("out of range")
      if lo + 1 ≥ W then pure (.slice (← n i) 1 0) else pure (.slice (← n i) (lo + 1) (← n hi))
  | ["sliceref", i, off, len] => do let o ← n off; let l ← n len; pure (.slice (← n i) o (o + l))
  | ["sliceforeign", i] => (n i).map fun i => .slice i 1 0     -- always rejected: both asserts of slice_ref guard it
  | ["splitoff", i, k] => do pure (.splitOff (← n i) (← n k))
  | ["splitto", i, k] => do pure (.splitTo (← n i) (← n k))
  -- Buf::copy_to_bytes: Bytes = split_to(n); BytesMut = split_to(n).freeze() (the freeze is added in judgeBlock)
  | ["ctb", i, k] => do pure (.splitTo (← n i) (← n k))
  | ["split", i] => (n i).map .split
  | ["trunc", i, k] => do pure (.truncate (← n i) (← n k))
  | ["clear", i] => (n i).map .clear
  | ["adv", i, k] => do pure (.advance (← n i) (← n k))
  | ["uniq", i] => (n i).map .isUnique
  | ["trymut", i] => (n i).map .tryIntoMut
  | ["tomut", i] => (n i).map .intoMut
  | ["tovec", i] => (n i).map .intoVec
  | ["freeze", i] => (n i).map .freeze
  | ["reserve", i, k] => do pure (.reserve (← n i) (← n k))
  | ["reclaim", i, k] => do pure (.tryReclaim (← n i) (← n k))
  | ["extend", i, h] => do pure (.extend (← n i) (← parseHex h))
  | ["extendit", i, h] => do pure (.extend (← n i) (← parseHex h))     -- Extend<u8>: reserve(lower bound) + put_u8 each
  | ["extendref", i, h] => do pure (.extend (← n i) (← parseHex h))    -- Extend<&u8>
  | ["putslice", i, h] => do pure (.extend (← n i) (← parseHex h))     -- BufMut::put_slice
  | ["wstr", i, h] => do pure (.extend (← n i) (← parseHex h))         -- fmt::Write::write_str (the bytes are valid UTF-8)
  | ["wchar", i, c] => do pure (.extend (← n i) (utf8 (← n c)))         -- fmt::Write::write_char / `write!(b, "{}", ch)`
  | ["resize", i, k, b] => do pure (.resize (← n i) (← n k) (← n b))
  | ["putbytes", i, _, k] => do pure (.reserve (← n i) (← n k))       -- refined in judgeBlock (needs the current length)
  | ["unsplit", i, j] => do pure (.unsplit (← n i) (← n j))
  | ["setbyte", i, k, b] => do pure (.setByte (← n i) (← n k) (← n b))
  | ["fillspare", i, b] => do pure (.fillSpare (← n i) (← n b))
  | ["drop", i] => (n i).map .drop
  | _ => none

inductive Outc | ok (v : Val) | panic
  deriving Repr, DecidableEq, Inhabited

def parseOutcome (ws : List String) : Option Outc :=
  match ws with
  | ["panic"] => some .panic
  | ["ok", "unit"] => some (.ok .unit)
  | ["ok", "h", i] => i.toNat?.map fun i => .ok (.handle i)
  | ["ok", "bool", b] => some (.ok (.bool (b == "1")))
  | ["ok", "err", i] => i.toNat?.map fun i => .ok (.err i)
  | _ => none

structure Evt where
  alloc : Bool
  serial : Nat
  size : Nat
  align : Nat
  noise : Bool
  bad : Nat
  deriving Repr, Inhabited

def parseEvt (ws : List String) : Option Evt :=
  match ws with
  | a :: s :: z :: al :: rest =>
    match s.toNat?, z.toNat?, al.toNat? with
    | some s, some z, some al =>
      let bad := (rest.find? (·.startsWith "bad=")).bind fun b => (b.drop 4).toString.toNat?
      some { alloc := a == "a", serial := s, size := z, align := al, noise := rest.contains "noise", bad := bad.getD 0 }
    | _, _, _ => none
  | _ => none

/-- model-side observation of a handle, with region canonicalised later -/
structure MObs where
  id : Nat
  kind : Kind
  reg : Option Nat
  off : Nat
  len : Nat
  cap : Option Nat
  uniq : Option Bool
  contents : String
  deriving Repr, Inhabited

def regionLive (s : St) (r : Nat) : Bool :=
  match s.regions[r]? with
  | some rg => rg.live
  | none => false

def modelObs (s : St) : List MObs :=
  (s.hs.zipIdx).filterMap fun (oh, i) =>
    oh.map fun h =>
      let view := (viewOf s h).getD []
      match h with
      | .bytes repr reg off len =>
        let uq := match bytesIsUnique h s with | .ok b _ => some b | _ => none
        -- an empty handle's address is only an address while its block is alive
        let reg' := match reg with
          | some r => if len == 0 && !regionLive s r then none else some r
          | none => none
        let _ := repr
        { id := i, kind := .bytes, reg := reg', off := if reg'.isSome then off else 0, len := len, cap := none, uniq := uq, contents := contentsStr view }
      | .mut _ reg off len cap _ =>
        { id := i, kind := .mut, reg := reg, off := if reg.isSome then (match h with | .mut none _ _ _ _ _ => off | _ => off) else 0, len := len, cap := some cap, uniq := none, contents := contentsStr view }
      | .vec reg len cap =>
        { id := i, kind := .vec, reg := reg, off := 0, len := len, cap := some cap, uniq := none, contents := contentsStr view }

/-- canonical class numbers by first appearance -/
def canon (keys : List (Option Nat)) : List (Option Nat) :=
  let rec go (ks : List (Option Nat)) (seen : List Nat) (acc : List (Option Nat)) : List (Option Nat) :=
    match ks with
    | [] => acc.reverse
    | none :: r => go r seen (none :: acc)
    | some k :: r =>
      match seen.idxOf? k with
      | some i => go r seen (some i :: acc)
      | none => go r (seen ++ [k]) (some seen.length :: acc)
  go keys [] []

structure Blk where
  opText : String := ""
  outcome : Option Outc := none
  evs : List Evt := []
  obs : List Obs := []
  owners : List (Nat × Nat × Nat) := []     -- owner, asref, dropped
  deriving Inhabited

structure JS where
  model : Option St := none          -- none: out of sync / no script
  spec : Spec.St := []
  prev : List Obs := []              -- implementation's handles before the current op
  prevOwners : List (Nat × Nat × Nat) := []
  cfg : Cfg := ⟨true, true⟩
  script : List String := []         -- ops so far (for replays)
  cur : Blk := {}
  inBlk : Bool := false
  knownSerials : List Nat := []      -- blocks allocated during tracked ops of this script
  digest : Nat := 0xcbf29ce484222325
  nscripts : Nat := 0
  nops : Nat := 0
  npanics : Nat := 0
  fails : Nat := 0
  diffs : Nat := 0
  printed : List (String × Nat) := []
  reprs : List String := []
  opsSeen : List String := []
  lastTry : String := ""
  pack : Bool := false                        -- this script runs under the packing allocator
  lastOwners : List (Nat × Nat × Nat) := []   -- owner counters of the latest block, kept whether or not the model is in sync

def mix (h : Nat) (s : String) : Nat :=
  s.toUTF8.toList.foldl (fun h x => ((h ^^^ x.toNat) * 0x100000001b3) % 18446744073709551616) h

def replayOf (s : JS) : String :=
  String.intercalate "|" (s.script.reverse.map fun o => "op " ++ o)

def emit (s : JS) (oracle : Bool) (msg : String) : IO JS := do
  let cat := String.intercalate " " ((words msg).take 4)
  let n := (s.printed.lookup cat).getD 0
  if n < 3 then IO.println (msg ++ " replay=" ++ (replayOf s).replace " " "~")
  return { s with printed := (cat, n + 1) :: s.printed.filter (·.1 != cat),
                  fails := if oracle then s.fails + 1 else s.fails,
                  diffs := if oracle then s.diffs else s.diffs + 1,
                  model := none }

def reprName : Handle → String
  | .bytes .static .. => "static" | .bytes (.owned _) .. => "owned" | .bytes (.prom _ none) .. => "prom-vec"
  | .bytes (.prom _ (some _)) .. => "prom-arc" | .bytes (.shared _) .. => "shared" | .bytes (.sharedV _) .. => "sharedV"
  | .mut none _ 0 .. => "mut-vec" | .mut none .. => "mut-vec-off" | .mut (some _) .. => "mut-arc" | .vec .. => "vec"

/-! ### property predicates on the implementation's observations -/

def rangesDisjoint (a la b lb : Nat) : Bool := la == 0 || lb == 0 || a + la ≤ b || b + lb ≤ a

/-- C02 / C04: bounds and exclusivity of what the implementation reports -/
def boundsOracle (obs : List Obs) : Option (String × String) :=
  let bad := obs.find? fun o =>
    o.wild || match o.blk with
      | some (_, off, bsize) => off + (o.cap.getD o.len) > bsize
      | none => (o.cap.getD o.len) != 0
  match bad with
  | some o => some (if o.kind == .mut then "C02+C04" else "C02", s!"handle {o.id}: [ptr, ptr+{o.cap.getD o.len}) is not inside one live allocation")
  | none =>
    let muts := obs.filter fun o => o.kind != .bytes
    let clash := muts.findSome? fun m =>
      obs.findSome? fun o =>
        if o.id == m.id then none else
        match m.blk, o.blk with
        | some (sm, om, _), some (so, oo, _) =>
          let olen := if o.kind == .bytes then o.len else o.cap.getD 0
          if sm == so && !rangesDisjoint om (m.cap.getD 0) oo olen then some (m.id, o.id) else none
        | _, _ => none
    match clash with
    | some (a, b) => some ("C04", s!"region of mutable handle {a} overlaps handle {b}")
    | none => none

/-- C02 / C04: a handle's length never exceeds its capacity (`[ptr, ptr+len)` lies inside `[ptr, ptr+cap)`) -/
def lenCapOracle (obs : List Obs) : Option (String × String) :=
  match obs.find? fun o => match o.cap with | some c => o.len > c | none => false with
  | some o => some ("C02+C04", s!"handle {o.id}: length {o.len} exceeds capacity {o.cap.getD 0}")
  | none => none

/-- C08: is_unique against the set of live handles that refer to the same storage.  "Refers" is
taken from the handle structure (which control block a handle names; an empty zero-capacity
BytesMut still holds its reference), "shares" for non-empty handles from the reported addresses. -/
def uniqOracle (m : St) (obs : List Obs) : Option (String × String) :=
  obs.findSome? fun o =>
    match o.uniq, m.hs[o.id]? with
    | some u, some (some (.bytes repr reg off len)) =>
      match repr with
      | .static | .owned _ => if u then some ("C08", s!"handle {o.id}: is_unique true for static / owner-backed data") else none
      | _ =>
        let me := ctrlOf (.bytes repr reg off len)
        let referrers := (m.hs.zipIdx).filter fun (oh, j) => j != o.id && (match oh with | some h => me.isSome && ctrlOf h == me | none => false)
        let sharers := obs.filter fun p => p.id != o.id && (p.len > 0 || (p.cap.getD 0) > 0) &&
          (match p.blk, o.blk with | some (a, _, _), some (b, _, _) => a == b | _, _ => false)
        if referrers.isEmpty && sharers.isEmpty && !u then some ("C08", s!"handle {o.id}: is_unique false although no other handle refers to the storage")
        else if u && !sharers.isEmpty then some ("C08", s!"handle {o.id}: is_unique true although another non-empty handle shares the storage")
        else none
    | _, _ => none

def findObs (obs : List Obs) (i : Nat) : Option Obs := obs.find? (·.id == i)

/-- C08 (round 8): "a BytesMut that is empty and is the only handle on its allocation can always take the whole allocation back:
try_reclaim(n) returns true for every n up to the allocation size".  Fires only where the implementation answered `false`, the
(proved: reclaim_whole) model answers `true`, the handle was empty before the call, no other live handle has an address inside the
same allocation, and n is at most the allocation's size as the allocator reports it. -/
def reclaimSoleOracle (pre : List Obs) (op : Op) (out mout : Outc) : Option (String × String) :=
  match op, out, mout with
  | .tryReclaim i n, .ok (.bool false), .ok (.bool true) =>
    match findObs pre i with
    | some o =>
      (match o.blk with
       | some (ser, _, size) =>
         let others := pre.filter fun p => p.id != i && (p.wild || (match p.blk with | some (s2, _, _) => s2 == ser | none => false))
         if o.kind == .mut && o.len == 0 && others.isEmpty && n ≤ size then
           some ("C08", s!"try_reclaim({n}) = false on an empty BytesMut that is the only handle on its {size}-byte allocation")
         else none
       | none => none)
    | none => none
  | _, _, _ => none

/-- C08: `try_into_mut` succeeds exactly when `is_unique`, as the implementation itself answered it
on the same handle just before the call, is true -/
def tryMutOracle (op : Op) (out : Outc) (pre : List Obs) : Option (String × String) :=
  match op, out with
  | .tryIntoMut i, .ok (.handle _) =>
    match (findObs pre i).bind (·.uniq) with
    | some false => some ("C08", "try_into_mut succeeded although is_unique was false on that handle")
    | _ => none
  | .tryIntoMut i, .ok (.err _) =>
    match (findObs pre i).bind (·.uniq) with
    | some true => some ("C08", "try_into_mut failed although is_unique was true on that handle")
    | _ => none
  | _, _ => none

def addrOf (o : Obs) : Option (Nat × Nat) := o.blk.map fun (s, off, _) => (s, off)

/-- C07 (zero-copy), C04 (reserve / try_reclaim promises), C13 (panic leaves everything intact):
per-op predicates relating the handles before and after. -/
def opOracle (op : Op) (out : Outc) (pre post : List Obs) (evs : List Evt) (pack : Bool := false) : Option (String × String) :=
  let a1alloc := evs.any fun e => e.alloc && e.align == 1 && !e.noise
  let same (i : Nat) : Bool :=
    match findObs pre i, findObs post i with
    | some a, some b => a.len == b.len && a.cap == b.cap && a.contents == b.contents && (a.blk == b.blk || (a.cap.getD a.len) == 0)
    | none, none => true
    | _, _ => false
  match out with
  | .panic =>
    let moved := match op with | .unsplit _ j => [j] | _ => []
    match pre.find? fun o => !moved.contains o.id && !same o.id with
    | some o => some ("C13", s!"handle {o.id} changed although the call panicked")
    | none => if post.length + moved.length != pre.length && !(match op with | .fromOwner .. => true | _ => false) then some ("C13", "set of live handles changed across a panic") else none
  | .ok v =>
    let zeroCopy (src : Nat) (res : Nat) (delta : Nat) (checkEmpty : Bool) : Option (String × String) :=
      match findObs pre src, findObs post res with
      | some a, some b =>
        if a1alloc then some ("C07", "a byte buffer was allocated by a sharing operation")
        -- an empty source only has a meaningful address when it owns storage (capacity, or reported unique):
        -- empty non-owning handles carry stale pointers that may coincide with unrelated live blocks
        -- (with the packing allocator an address on a block boundary belongs to two blocks: empty results are not located there)
        else if (b.len > 0 || (checkEmpty && !pack && (a.len > 0 || (a.cap.getD 0) > 0 || a.uniq == some true))) && a.blk.isSome then
          (match addrOf a, addrOf b with
           | some (s, o), some (s', o') => if s == s' && o' == o + delta then none else some ("C07", s!"result handle {res} does not start at the source address + {delta}")
           | _, _ => some ("C07", s!"result handle {res} has no address"))
        else none
      | _, _ => none
    match op, v with
    | .clone i, .handle j => if (findObs pre i).map (·.kind) == some .bytes then zeroCopy i j 0 false else none
    | .slice i lo _, .handle j => zeroCopy i j lo false
    -- split_off / split_to keep the address guarantee for empty results as well (Bytes and BytesMut)
    | .splitOff i k, .handle j => (zeroCopy i j k true).orElse fun _ => zeroCopy i i 0 true
    | .splitTo i k, .handle j => (zeroCopy i j 0 true).orElse fun _ => zeroCopy i i k true
    | .split i, .handle j => zeroCopy i j 0 false
    | .truncate i _, _ | .clear i, _ => if (findObs pre i).map (·.kind) != some .vec then zeroCopy i i 0 false else none
    | .advance i n, _ => zeroCopy i i n false
    | .freeze i, _ => zeroCopy i i 0 false
    | .fromVec i, _ => zeroCopy i i 0 false
    -- Ok means the handle was unique, i.e. it owned its storage: the result is that same memory, also when the view is empty
    | .tryIntoMut i, .handle _ => (zeroCopy i i 0 true).map fun (_, m) => ("C07+C08", m)
    -- BytesMut::from(bytes) of a uniquely held buffer (is_unique was observed true just before) is the same conversion
    | .intoMut i, .handle _ =>
      if ((findObs pre i).bind (·.uniq)) == some true then (zeroCopy i i 0 true).map fun (_, m) => ("C07+C08", m) else none
    | .unsplit i j, _ =>
      -- adjacent halves: no copy
      match findObs pre i, findObs pre j with
      | some a, some b =>
        match addrOf a, addrOf b with
        | some (s, o), some (s', o') =>
          if s == s' && o' == o + a.len && a.len > 0 && a.cap == some a.len && (b.cap.getD 0) > 0 then zeroCopy i i 0 false else none
        | _, _ => none
      | _, _ => none
    | .reserve i n, _ =>
      match findObs pre i, findObs post i with
      | some a, some b =>
        if (b.cap.getD 0) - b.len < n then some ("C04", s!"reserve({n}) returned with capacity - len = {(b.cap.getD 0) - b.len}")
        else if a.len != b.len || a.contents != b.contents then some ("C04", "reserve changed length or contents")
        else if a.len + n ≥ W then some ("C04", "reserve of an unrepresentable size returned instead of panicking")
        else none
      | _, _ => none
    | .tryReclaim i n, .bool r =>
      match findObs pre i, findObs post i with
      | some a, some b =>
        if r then
          (if (b.cap.getD 0) - b.len < n then some ("C04", s!"try_reclaim({n}) = true but capacity - len = {(b.cap.getD 0) - b.len}")
           else if a.len != b.len || a.contents != b.contents then some ("C04", "try_reclaim changed length or contents")
           else if a1alloc then some ("C04", "try_reclaim allocated") else none)
        else if !same i then some ("C04", "try_reclaim = false but address, length or capacity changed") else none
      | _, _ => none
    | _, _ => none

/-- C13 "never a silent wrong result": the documented panics, decided from the implementation's own
observation of the handle before the call (`none`: the documentation leaves it open / not covered). -/
def mustPanic (op : Op) (pre : List Obs) : Option Bool :=
  let g (i : Nat) := findObs pre i
  match op with
  | .slice i lo hi => (g i).map fun o => decide (lo > hi ∨ hi > o.len)
  | .splitOff i k => (g i).map fun o => if o.kind == .bytes then decide (k > o.len) else decide (k > o.cap.getD 0)
  | .splitTo i k => (g i).map fun o => decide (k > o.len)
  | .advance i n => (g i).map fun o => decide (n > o.len)
  | .setByte i k _ => (g i).map fun o => decide (k ≥ o.len)
  | .truncate _ _ | .clear _ | .clone _ | .isUnique _ | .freeze _ | .intoVec _ | .intoMut _ | .tryIntoMut _ | .split _ | .drop _ => some false
  | .reserve i n => (g i).bind fun o => if o.len + n ≥ W then some true else if n ≤ (o.cap.getD 0) - o.len then some false else none
  | .tryReclaim _ _ => some false
  | _ => none

/-- frame: handles not involved in the op keep their contents (C01 'never changes what any other handle reads') -/
def frameOracle (op : Op) (pre post : List Obs) : Option (String × String) :=
  let involved : List Nat := match op with
    | .clone _ | .slice .. | .isUnique _ | .fromStatic _ | .copyFromSlice _ | .newVec .. | .fromOwner .. | .mutWithCapacity _ | .mutFromSlice _ | .mutZeroed _ => []
    | .unsplit i j => [i, j]
    | .fromVec i | .splitOff i _ | .splitTo i _ | .split i | .truncate i _ | .clear i | .advance i _ | .tryIntoMut i | .intoMut i
    | .intoVec i | .freeze i | .reserve i _ | .tryReclaim i _ | .extend i _ | .resize i _ _ | .setByte i _ _ | .fillSpare i _ | .drop i => [i]
  match pre.find? fun o => !involved.contains o.id && (match findObs post o.id with | some p => p.contents != o.contents || p.len != o.len | none => true) with
  | some o => some ("C01", s!"handle {o.id} changed although the operation was on another handle")
  | none => none

def judgeBlock (s : JS) : IO JS := do
  let b := s.cur
  let s := { s with cur := {}, inBlk := false }
  match s.model with
  | none => return s
  | some m =>
  let opw := words b.opText
  let s := { s with script := b.opText :: s.script, nops := s.nops + 1,
                    opsSeen := if s.opsSeen.contains (opw.headD "") then s.opsSeen else (opw.headD "") :: s.opsSeen }
  match parseOp opw, b.outcome with
  | none, _ | _, none => emit s false s!"bad-trace SEQ unparsable op {b.opText.replace " " "_"}"
  | some op0, some out =>
  -- BufMut::put_bytes(val, cnt) on a BytesMut = resize(len + cnt, val); an unrepresentable length is reserve's overflow panic
  let op : Op := match opw with
    | ["putbytes", i, b, k] =>
      (match i.toNat?, b.toNat?, k.toNat? with
       | some i, some b, some k =>
         let len := ((s.prev.find? (·.id == i)).map (·.len)).getD 0
         if len + k ≥ W then .reserve i k else .resize i (len + k) b
       | _, _, _ => op0)
    | _ => op0
  -- second half of a composite call: copy_to_bytes on a BytesMut freezes the part it split off
  let op2 : Option Op := match opw, out with
    | ["ctb", i, _], .ok (.handle j) =>
      if ((i.toNat?.bind fun i => s.prev.find? (·.id == i)).map (·.kind)) == some .mut then some (.freeze j) else none
    | _, _ => none
  let s := { s with npanics := if out == .panic then s.npanics + 1 else s.npanics }
  -- allocator-level facts (C02)
  match b.evs.find? (·.bad != 0) with
  | some e => emit s true s!"oracle-fail C02 op={opw.headD "?"} what=allocator_violation_kind_{e.bad}_(1_unknown_block,2_wrong_layout,3_red_zone,4_write_after_free)"
  | none =>
  match (boundsOracle b.obs).orElse fun _ => lenCapOracle b.obs with
  | some (p, msg) =>
    -- after a panicking call this is also "a panic leaves every handle intact and usable"
    emit s true s!"oracle-fail {if out == Outc.panic then p ++ "+C13" else p} op={opw.headD "?"} what={msg.replace " " "_"}"
  | none =>
  -- C01: contents against the independent-Vec reference model
  let spec1 := match out with | .ok v => Spec.stepOk op v s.spec | .panic => Spec.stepPanic op s.spec
  let spec' := match op2 with | some o2 => Spec.stepOk o2 .unit spec1 | none => spec1
  let specObs : List (Nat × Kind × String × Nat) :=
    (spec'.zipIdx).filterMap fun (oh, i) => oh.map fun h => (i, h.kind, contentsStr h.val, h.val.length)
  let implObs := b.obs.map fun o => (o.id, o.kind, o.contents, o.len)
  if specObs != implObs then
    -- after a panicking call this is also "after the panic every handle still has its previous contents and length" (C13);
    -- for the Vec / BytesMut an owner-backed view was just converted into it is also "the owner is not dropped before the last
    -- view is gone, also when a view is converted into Vec<u8> or BytesMut" (C03): the instrumented owners scrub their memory on drop
    let ownerConv := match op, s.model with
      | .intoVec i, some m | .intoMut i, some m | .tryIntoMut i, some m =>
        (match m.hs[i]? with | some (some (.bytes (.owned _) _ _ _)) => true | _ => false)
      | _, _ => false
    let tag := "C01" ++ (if out == Outc.panic then "+C13" else "") ++ (if ownerConv then "+C03" else "")
    emit s true s!"oracle-fail {tag} op={opw.headD "?"} what=handles_differ_from_the_independent-Vec_reference_model"
  else
  match (match mustPanic op s.prev with
         | some true => if out != Outc.panic then some ("C13", "out-of-contract arguments did not panic (silent result)") else none
         | some false => if out == Outc.panic then some ("C13", "in-contract call panicked") else none
         | none => none) with
  | some (p, msg) => emit s true s!"oracle-fail {p} op={opw.headD "?"} what={msg.replace " " "_"}"
  | none =>
  match frameOracle op s.prev b.obs with
  | some (p, msg) => emit s true s!"oracle-fail {p} op={opw.headD "?"} what={msg.replace " " "_"}"
  | none =>
  match opOracle op out s.prev b.obs b.evs s.pack with
  | some (p, msg) => emit s true s!"oracle-fail {p} op={opw.headD "?"} what={msg.replace " " "_"}"
  | none =>
  match tryMutOracle op out s.prev with
  | some (p, msg) => emit s true s!"oracle-fail {p} op={opw.headD "?"} what={msg.replace " " "_"}"
  | none =>
  -- C03: owners
  match b.owners.find? fun (_, asref, dropped) => asref > 1 || dropped > 1 with
  | some (o, _, _) => emit s true s!"oracle-fail C03 op={opw.headD "?"} what=owner_{o}_as_ref_or_drop_ran_more_than_once"
  | none =>
  -- run the model
  let env : Env := ⟨fun _ => false⟩
  let r1 := step s.cfg env op m
  let r12 : R Val := match op2, r1 with
    | some o2, .ok v m1 =>
      (match step s.cfg env o2 m1 with
       | .ok _ m2 => .ok v m2
       | .panic m2 => .panic m2
       | .ub w m2 => .ub w m2)
    | _, r => r
  match r12 with
  | .ub why m' =>
    let _ := m'
    emit s false s!"model-diff SEQ op={opw.headD "?"} model-reports-ub={why.replace " " "_"}"
  | r =>
    let (mout, m') : Outc × St := match r with
      | .ok v m' => (.ok v, m')
      | .panic m' => (.panic, m')
      | .ub _ m' => (.panic, m')
    if !wfB m' then
      emit s false s!"model-diff SEQ op={opw.headD "?"} invariant WF-does-not-hold-on-the-model-state"
    else if mout != out then
      match reclaimSoleOracle s.prev op out mout with
      | some (p, msg) => emit s true s!"oracle-fail {p} op={opw.headD "?"} what={msg.replace " " "_"}"
      | none =>
      emit s false s!"model-diff SEQ op={opw.headD "?"} impl={(reprStr out).replace " " "_"} model={(reprStr mout).replace " " "_"}"
    else
      let mo := modelObs m'
      -- an address is only compared while it denotes memory: not for empty views / zero capacity
      let mcanon := canon (mo.map fun (o : MObs) => if (o.cap.getD o.len) == 0 then none else o.reg)
      let icanon := canon (b.obs.map fun (o : Obs) => if (o.cap.getD o.len) == 0 then none else o.blk.map (·.1))
      let mrows := (mo.zip mcanon).map fun (o, c) => (o.id, o.kind, c, if c.isSome then o.off else 0, o.len, o.cap, o.uniq, o.contents)
      let irows := (b.obs.zip icanon).map fun (o, c) => (o.id, o.kind, c, if c.isSome then (o.blk.map (·.2.1)).getD 0 else 0, o.len, o.cap, o.uniq, o.contents)
      match uniqOracle m' b.obs with
      | some (p, msg) => emit s true s!"oracle-fail {p} op={opw.headD "?"} what={msg.replace " " "_"}"
      | none =>
      if mrows != irows then
        let d := (mrows.zip irows).find? fun (a, b) => a != b
        let what := match d with
          | some (a, b) => s!"handle_{a.1}_model={(reprStr a).replace " " ""}_impl={(reprStr b).replace " " ""}"
          | none => s!"handle-count_model={mrows.length}_impl={irows.length}"
        emit s false s!"model-diff SEQ op={opw.headD "?"} state {what}"
      else
        -- ledger delta: byte buffers by size, control blocks by count
        let newEvs := m'.events.take (m'.events.length - m.events.length)
        let mA := (newEvs.filterMap fun e => match e with | .alloc _ z => some z | _ => none).mergeSort
        let mD := (newEvs.filterMap fun e => match e with | .dealloc _ z => some z | _ => none).mergeSort
        let mCA := (newEvs.filter fun e => match e with | .allocCtrl _ => true | _ => false).length
        let mCD := (newEvs.filter fun e => match e with | .deallocCtrl _ => true | _ => false).length
        let real := b.evs.filter fun e => !e.noise
        let known := s.knownSerials ++ (real.filter (·.alloc)).map (·.serial)
        let iA := ((real.filter fun e => e.alloc && e.align == 1).map (·.size)).mergeSort
        let iD := ((real.filter fun e => !e.alloc && e.align == 1 && known.contains e.serial).map (·.size)).mergeSort
        let iCA := (real.filter fun e => e.alloc && e.align != 1).length
        let iCD := (real.filter fun e => !e.alloc && e.align != 1 && known.contains e.serial).length
        if mA != iA || mD != iD || mCA != iCA || mCD != iCD then
          emit s false (s!"model-diff SEQ op={opw.headD "?"} ledger " ++ (s!"impl=a{iA}d{iD}c+{iCA}c-{iCD} model=a{mA}d{mD}c+{mCA}c-{mCD}").replace " " "")
        else
          let dg := mix s.digest (b.opText ++ (reprStr out) ++ String.join (b.obs.map fun o => s!"{o.id}:{o.len}:{o.contents};"))
          let rs := (m'.hs.filterMap id).map reprName
          return { s with model := some m', spec := spec', prev := b.obs, prevOwners := b.owners, digest := dg,
                          knownSerials := known, reprs := (rs.filter fun r => !s.reprs.contains r).eraseDups ++ s.reprs }

partial def step (s : JS) (line : String) : IO JS := do
  match words line with
  | "script" :: ws =>
    let rel := ws.contains "profile=release"
    return { s with model := some {}, spec := [], prev := [], prevOwners := [], lastOwners := [], pack := ws.contains "parity=pack", script := [], cur := {}, inBlk := false,
                    knownSerials := [], cfg := ⟨!rel, !rel⟩, nscripts := s.nscripts + 1 }
  | "try" :: ws => return { s with lastTry := String.intercalate " " ws }
  | "op" :: rest =>
    let opw := rest.takeWhile (· != "->")
    let res := (rest.dropWhile (· != "->")).drop 1
    return { s with cur := { opText := String.intercalate " " opw, outcome := parseOutcome res }, inBlk := true, lastTry := "" }
  | "ev" :: ws =>
    match parseEvt ws with
    | some e => return { s with cur := { s.cur with evs := s.cur.evs ++ [e] } }
    | none => emit s false s!"bad-trace SEQ {line.trimAscii}"
  | "h" :: ws =>
    match parseObs ws with
    | some o => return { s with cur := { s.cur with obs := s.cur.obs ++ [o] } }
    | none => emit s false s!"bad-trace SEQ {line.trimAscii}"
  | ["o", o, a, d] =>
    match o.toNat?, (a.drop 6).toString.toNat?, (d.drop 8).toString.toNat? with
    | some o, some a, some d => return { s with cur := { s.cur with owners := s.cur.owners ++ [(o, a, d)] } }
    | _, _, _ => return s
  | ["end"] => judgeBlock { s with lastOwners := s.cur.owners }
  | ["balance", delta, ctl, viol] =>
    let s ← if ctl != "ctl_live_delta=0" then emit s true s!"oracle-fail C03 op=end what=control_blocks_still_allocated_after_every_handle_was_dropped_({ctl})" else pure s
    step s (String.intercalate " " ["balance", delta, viol])
  | ["balance", delta, viol] =>
    -- allocator-level end-of-script facts are judged whether or not the model is still in sync
    let inSync := s.model.isSome
    let s ← if delta != "align1_live_delta=0" then emit s true s!"oracle-fail C03 op=end what=byte_buffers_still_allocated_after_every_handle_was_dropped_({delta})" else pure s
    let s ← if viol != "violations=0" then emit s true s!"oracle-fail C02 op=end what=allocator_violations_({viol})" else pure s
    let _ := inSync
    let s ← match s.lastOwners.find? fun (_, a, d) => a != 1 || d != 1 with
      | some (o, a, d) => emit s true s!"oracle-fail C03 op=end what=owner_{o}_asref={a}_dropped={d}_at_the_end_(every_handle_is_gone)"
      | none => pure s
    match s.model with
    | none => return { s with digest := 0xcbf29ce484222325 }
    | some m =>
      let liveRegs := (m.regions.filter fun r => r.live && (match r.kind with | .heap _ => true | _ => false)).length
      let liveCtrls := (m.ctrls.filter (·.live)).length
      let s ← if liveRegs != 0 || liveCtrls != 0 then emit s false s!"model-diff SEQ op=end model-leaks regions={liveRegs} ctrls={liveCtrls}" else pure s
      IO.println s!"digest {s.nscripts} {hex16 s.digest}"
      return { s with model := none, digest := 0xcbf29ce484222325 }
  | "hseq" :: _ => return s
  | [] => return s
  | _ => emit s false s!"bad-trace SEQ {line.trimAscii}"

def run : IO UInt32 := do
  let stdin ← IO.getStdin
  let s ← foldLines stdin ({} : JS) step
  -- a process that died inside an op leaves a `try` without its `op` line
  let s ← if s.lastTry != "" then emit { s with script := s.lastTry :: s.script } true s!"oracle-fail C02 op={(words s.lastTry).headD "?"} what=process_died_inside_the_call_(abort,_signal_or_unsafe-precondition_check)" else pure s
  for (cat, n) in s.printed do
    IO.println s!"category {n} {cat.replace " " "_"}"
  IO.println s!"summary SEQ scripts={s.nscripts} ops={s.nops} panics={s.npanics} reprs={s.reprs.length} opkinds={s.opsSeen.length} fails={s.fails} diffs={s.diffs} reprlist={String.intercalate "," s.reprs}"
  return 0

end BytesVerif.Judge.SeqJ
