/- judge for the recycle stream (C18): Recycle model in lock-step + the bound oracles. -/
import BytesVerif.Model.Recycle
import BytesVerif.Judge.Util
namespace BytesVerif.Judge.RecJ
open BytesVerif.Recycle BytesVerif.Judge

structure JS where
  model : Option Rec := none
  c0 : Nat := 0
  M : Nat := 0
  window : Nat := 0
  hdr : String := ""
  pendingOp : Option (List String) := none
  ops : List String := []
  base : Nat := 0          -- allocation count before the pattern started
  baseLive : Nat := 0
  baseCtl : Nat := 0       -- control blocks alive before the pattern started
  ctlFlagged : Bool := false
  patterns : Nat := 0
  steps : Nat := 0
  fails : Nat := 0
  diffs : Nat := 0
  printed : List (String × Nat) := []
  maxA : Nat := 0
  maxLive : Nat := 0
  countFlagged : Bool := false
  allocsAtBig : Option Nat := none     -- allocation count when the buffer first reached 2M (window 0 only)

def field (ws : List String) (k : String) : Option Nat :=
  (ws.find? (·.startsWith (k ++ "="))).bind fun w => (w.drop (k.length + 1)).toString.toNat?

def emit (s : JS) (oracle : Bool) (msg : String) : IO JS := do
  let cat := String.intercalate " " ((words msg).take 3)
  let n := (s.printed.lookup cat).getD 0
  if n < 3 then IO.println (msg ++ s!" pattern={s.hdr.replace " " "_"} ops={(String.intercalate "|" s.ops.reverse).replace " " "~"}")
  return { s with printed := (cat, n + 1) :: s.printed.filter (·.1 != cat),
                  fails := if oracle then s.fails + 1 else s.fails, diffs := if oracle then s.diffs else s.diffs + 1, model := none }

def parseOp (ws : List String) : Option Op :=
  match ws with
  | ["reserve", k] => k.toNat?.map .reserve
  | ["append", k] => k.toNat?.map .append
  | ["splitto", k] => k.toNat?.map .splitTo
  | ["split"] => some .split
  | ["advance", k] => k.toNat?.map .advance
  | ["truncate", k] => k.toNat?.map .truncate
  | ["droppart"] => some .dropPart
  | ["droppinned"] => some .dropPinned
  | ["dropold"] => some .dropOld
  | ["splitofftail"] => some .splitOffTail
  | ["unsplitlast", n, c] => do pure (.unsplitLast (← n.toNat?) (← c.toNat?))
  | ["roundtrip"] => some .roundTrip
  | _ => none

def bound (c0 M : Nat) : Nat := max c0 (max (4 * M) 8)

def step (s : JS) (line : String) : IO JS := do
  match words line with
  | "recycle" :: ws =>
    return { s with model := none, c0 := (field ws "c0").getD 0, M := (field ws "M").getD 0, window := (field ws "window").getD 0,
                    hdr := String.intercalate " " ws, pendingOp := none, ops := [], patterns := s.patterns + 1, allocsAtBig := none, countFlagged := false }
  | "r" :: "init" :: [c] => return { s with pendingOp := some ["init", c] }
  | "r" :: ws => return { s with pendingOp := some ws, ops := (String.intercalate " " ws :: s.ops).take 12 }
  | "rs" :: ws =>
    match s.pendingOp with
    | some ["init", c] =>
      let r := init (c.toNat?.getD 0)
      let allocs := (field ws "allocs").getD 0
      let live := (field ws "live").getD 0
      return { s with model := some r, pendingOp := none, base := allocs - r.allocs, baseLive := live - r.A,
                      baseCtl := (field ws "ctl").getD 0, ctlFlagged := false }
    | some opw =>
      let s := { s with steps := s.steps + 1, pendingOp := none }
      let g (k : String) := (field ws k).getD 0
      let (A, off, len, cap, allocs, live) := (g "A", g "off", g "len", g "cap", g "allocs" - s.base, g "live" - s.baseLive)
      -- oracles on the implementation's own numbers (evaluated whether or not the model is still in sync)
      let B := bound s.c0 s.M
      let s ← if A > B then emit s true s!"oracle-fail C18 what=allocation_of_{A}_bytes_exceeds_max(A0,4M,8)={B}" else pure s
      let s ← if live > (s.window + 2) * B then emit s true s!"oracle-fail C18 what=live_byte-buffer_memory_{live}_exceeds_(window+2)*{B}" else pure s
      -- window 0: the allocation count is bounded by a function of M alone (theorem allocs_bounded)
      let s ← if s.window == 0 && allocs > Nat.log2 (4 * s.M + 8) + 3 && !s.countFlagged then do
          let s' ← emit s true s!"oracle-fail C18 what=number_of_byte-buffer_allocations_{allocs}_exceeds_log2(4M+8)+3_although_every_part_is_dropped_before_the_refill"
          pure { s' with countFlagged := true }
        else pure s
      -- control blocks (Shared headers) are live heap memory too: at most one per live allocation
      let ctl := g "ctl" - s.baseCtl
      let s ← if ctl > s.window + 3 && !s.ctlFlagged then do
          let s' ← emit s true s!"oracle-fail C18 what=number_of_live_control_blocks_{ctl}_exceeds_the_number_of_live_allocations_(window+3):_headers_are_leaking"
          pure { s' with ctlFlagged := true }
        else pure s
      let s := { s with maxA := max s.maxA A, maxLive := max s.maxLive live }
      let s := if s.window == 0 && s.allocsAtBig.isNone && A ≥ 2 * s.M && A > 0 then { s with allocsAtBig := some allocs } else s
      let s ← match (if s.window == 0 then s.allocsAtBig else none) with
        | some a0 =>
          if allocs > a0 then do
            let s' ← emit s true s!"oracle-fail C18 what=a_byte_buffer_was_allocated_although_the_buffer_had_reached_2M_(allocs_{a0}->{allocs})"
            pure { s' with allocsAtBig := some allocs }
          else pure s
        | none => pure s
      match s.model, parseOp opw with
      | none, _ => return s
      | _, none => emit s false s!"bad-trace REC unknown op {opw}"
      | some r, some op =>
        let r' := BytesVerif.Recycle.step r op
        if (r'.A, r'.off, r'.len, r'.cap, r'.allocs) != (A, off, len, cap, allocs) then
          emit s false s!"model-diff REC op={opw} impl=(A{A},off{off},len{len},cap{cap},allocs{allocs}) model=(A{r'.A},off{r'.off},len{r'.len},cap{r'.cap},allocs{r'.allocs})"
        else if live != live' r' then
          emit s false s!"model-diff REC op={opw} live impl={live} model={live' r'}"
        else return { s with model := some r' }
    | none => return s
  | "rend" :: ws =>
    if (field ws "live").getD 0 != s.baseLive then emit s true s!"oracle-fail C18 what=byte_buffers_still_live_at_the_end" else return s
  | _ => return s
where
  live' (r : Rec) : Nat := BytesVerif.Recycle.live r

def run : IO UInt32 := do
  let stdin ← IO.getStdin
  let s ← foldLines stdin ({} : JS) step
  for (cat, n) in s.printed do
    IO.println s!"category {n} {cat.replace " " "_"}"
  IO.println s!"summary REC patterns={s.patterns} steps={s.steps} fails={s.fails} diffs={s.diffs} maxA={s.maxA} maxLive={s.maxLive}"
  return 0

end BytesVerif.Judge.RecJ
