/- judge for the adversary stream (C17): allocator-oracle verdicts on the implementation's own run, and
lock-step comparison of the outcome with the M6 model for the consumers it covers. -/
import BytesVerif.Model.Adv
import BytesVerif.Model.AdvGen
import BytesVerif.Judge.Util
namespace BytesVerif.Judge.AdvJ
open BytesVerif.Adv BytesVerif.Judge

structure JS where
  pending : Option String := none
  cases : Nat := 0
  modelled : Nat := 0
  fails : Nat := 0
  diffs : Nat := 0
  okN : Nat := 0
  panicN : Nat := 0
  ended : Bool := false
  printed : List (String × Nat) := []

def emit (s : JS) (oracle : Bool) (msg : String) : IO JS := do
  let cat := String.intercalate " " ((words msg).take 3)
  let n := (s.printed.lookup cat).getD 0
  if n < 3 then IO.println msg
  return { s with printed := (cat, n + 1) :: s.printed.filter (·.1 != cat),
                  fails := if oracle then s.fails + 1 else s.fails, diffs := if oracle then s.diffs else s.diffs + 1 }

def parseScript (t : String) : Option (List Lie) :=
  (t.splitOn ",").mapM fun x =>
    match (x.splitOn ":").map (·.toNat?) with
    | [some r, some c, some p] => some ⟨r, c, p⟩
    | _ => none

def backing : Bs := (List.range 512).map (· % 251)

def beVal (bs : Bs) : Nat := bs.foldl (fun a b => a * 256 + b) 0
def leVal (bs : Bs) : Nat := beVal bs.reverse

def fuel : Nat := 4100

def iterCount : Nat → AdvBuf → Nat → Res Nat
  | 0, _, _ => .hang
  | f + 1, b, n =>
    match iterNext b with
    | .ok (none, _) => .ok n
    | .ok (some _, b') => if n + 1 > 10000 then .ok (n + 1) else iterCount f b' (n + 1)
    | .panic => .panic
    | .ub w => .ub w
    | .hang => .hang

/-- the model's prediction, rendered the way the harness prints the implementation's result;
`none`: consumer not covered by M6 -/
def predict (name : String) (sc : List Lie) (arg : Nat) : Option (Res String) :=
  let b : AdvBuf := { script := sc, backing := backing }
  let r {α : Type} (x : Res α) (f : α → String) : Option (Res String) := some (x.bind fun a => .ok (f a))
  match name with
  | "copy_to_slice" => r (copyToSlice fuel b arg) fun (bs, _) => "ok_" ++ toHex (bs.take 8)
  | "try_copy_to_slice" => r (tryCopyToSlice fuel b arg) fun (o, _) => if o.isSome then "true" else "false"
  | "get_u32" => some ((tryGetFixed fuel b 4).bind fun (o, _) => match o with | some bs => .ok s!"v_{beVal bs}" | none => .panic)
  | "get_u64_le" => some ((tryGetFixed fuel b 8).bind fun (o, _) => match o with | some bs => .ok s!"v_{leVal bs}" | none => .panic)
  | "get_uint" => some ((tryGetVar fuel b (arg % 9)).bind fun (o, _) => match o with | some bs => .ok s!"v_{beVal bs}" | none => .panic)
  | "try_get_i128" => r (tryGetFixed fuel b 16) fun (o, _) => if o.isSome then "Some" else "None"
  | "get_u8" => r (getU8 b) fun (x, _) => s!"v_{x}"
  | "bytesmut_put" => r (putGrowLoop fuel b 0 arg) fun (len, _) => s!"len_{len}"
  | "vec_put" => r (putGrowLoop fuel b 0 arg) fun (len, _) => s!"len_{len}"
  | "slice_put" => r (putFixed fuel b arg) fun (_, room) => s!"rem_{room}"
  | "into_iter" => r (iterCount fuel b 0) fun n => s!"n_{n}"
  | "reader_read" => some ((remaining b).bind fun rm => (copyToSlice fuel b (min rm arg)).bind fun _ => .ok s!"Some({min rm arg})")
  | "take_chunks_vectored" => r (takeChunksVectored b arg 4) fun l => s!"n_{l.length}"
  -- round 8: Take / Chain / Limit around the adversary
  | "copy_to_bytes" => r (defaultCopyToBytes fuel b arg) fun n => s!"len_{n}"
  | "take_copy_to_bytes" => r (takeCopyToBytes fuel b (arg + 3) arg) fun n => s!"len_{n}"
  | "chain_copy_to_bytes" => r (chainCopyToBytes fuel b 3 arg) fun n => s!"len_{n}"
  | "chain_chunks_vectored" => r (chainChunksVectored b 3) fun n => s!"n_{n}"
  | "split_bytesmut_put" => r (putGrowLoop fuel b 0 64) fun (len, _) => s!"len_{len}"
  | "limit_put" => r (putLimit fuel b arg 0 8) fun (len, _, _) => s!"len_{len}"
  | "chain_get_u64" => r (chainGetFixed fuel [97, 98] b 8) fun bs => s!"v_{beVal bs}"
  | _ => none

def iterCountG : Nat → AdvGen.GAdv → Nat → Res Nat
  | 0, _, _ => .hang
  | f + 1, b, n =>
    match AdvGen.iterNext b with
    | .ok (none, _) => .ok n
    | .ok (some _, b') => if n + 1 > 10000 then .ok (n + 1) else iterCountG f b' (n + 1)
    | .panic => .panic
    | .ub w => .ub w
    | .hang => .hang

/-- the prediction of the general model (Model/AdvGen.lean: answers may change on every call) instantiated with the harness's
scripted adversary (`ofScript`: answers change on `advance` only); same rendering as `predict` -/
def predictGen (name : String) (sc : List Lie) (arg : Nat) : Option (Res String) :=
  let b : AdvGen.GAdv := AdvGen.ofScript sc backing
  let r {α : Type} (x : Res α) (f : α → String) : Option (Res String) := some (x.bind fun a => .ok (f a))
  match name with
  | "copy_to_slice" => r (AdvGen.copyToSlice fuel b arg) fun q => "ok_" ++ toHex (q.1.take 8)
  | "try_copy_to_slice" => r (AdvGen.tryCopyToSlice fuel b arg) fun q => if q.1.isSome then "true" else "false"
  | "get_u32" => some ((AdvGen.tryGetFixed fuel b 4).bind fun q => match q.1 with | some bs => .ok s!"v_{beVal bs}" | none => .panic)
  | "get_u64_le" => some ((AdvGen.tryGetFixed fuel b 8).bind fun q => match q.1 with | some bs => .ok s!"v_{leVal bs}" | none => .panic)
  | "get_uint" => some ((AdvGen.tryGetVar fuel b (arg % 9)).bind fun q => match q.1 with | some bs => .ok s!"v_{beVal bs}" | none => .panic)
  | "try_get_i128" => r (AdvGen.tryGetFixed fuel b 16) fun q => if q.1.isSome then "Some" else "None"
  | "get_u8" => r (AdvGen.getU8 b) fun q => s!"v_{q.1}"
  | "bytesmut_put" => r (AdvGen.putGrowLoop fuel b 0 arg) fun q => s!"len_{q.1}"
  | "vec_put" => r (AdvGen.vecPut fuel b 0 arg) fun q => s!"len_{q.1}"
  | "slice_put" => r (AdvGen.putFixed fuel b arg) fun q => s!"rem_{q.2}"
  | "into_iter" => r (iterCountG fuel b 0) fun n => s!"n_{n}"
  | "reader_read" => some ((AdvGen.remaining b).bind fun rm => (AdvGen.copyToSlice fuel rm.2 (min rm.1 arg)).bind fun _ => .ok s!"Some({min rm.1 arg})")
  | "take_chunks_vectored" => r (AdvGen.takeChunksVectored b arg 4) fun l => s!"n_{l.length}"
  | "copy_to_bytes" => r (AdvGen.defaultCopyToBytes fuel b arg) fun n => s!"len_{n}"
  | "take_copy_to_bytes" => r (AdvGen.takeCopyToBytes fuel b (arg + 3) arg) fun n => s!"len_{n}"
  | "chain_copy_to_bytes" => r (AdvGen.chainCopyToBytes fuel b 3 arg) fun n => s!"len_{n}"
  | "chain_chunks_vectored" => r (AdvGen.chainChunksVectored b 3) fun n => s!"n_{n}"
  | "split_bytesmut_put" => r (AdvGen.putGrowLoop fuel b 0 64) fun q => s!"len_{q.1}"
  | "limit_put" => r (AdvGen.putLimit fuel b arg 0 8) fun q => s!"len_{q.1}"
  | "chain_get_u64" => r (AdvGen.chainGetFixed fuel [97, 98] b 8) fun bs => s!"v_{beVal bs}"
  | _ => none

def kvOf (ws : List String) (k : String) : Option String :=
  (ws.find? (·.startsWith (k ++ "="))).map fun w => (w.drop (k.length + 1)).toString

/-- C01 (under the adversary of C17): `Extend<u8>` / `FromIterator<u8>` append exactly the items the
iterator yields, whatever its `size_hint` claims (the harness compares the four destinations with
the items it counted itself and prints the four lengths) -/
def extendOracle (caseName outcome : String) : Option String :=
  if caseName.startsWith "extend_n=" && outcome != "panic" then
    let n := String.ofList (((caseName.drop 9).toString.toList).takeWhile Char.isDigit)
    if outcome == s!"len_{n}_{n}_{n}_{n}_same=1" then none
    else some s!"Extend/FromIterator_with_a_wrong_size_hint_did_not_append_exactly_the_{n}_items_the_iterator_yielded_({outcome})"
  else none

def step (s : JS) (line : String) : IO JS := do
  match words line with
  | "adv-try" :: ws =>
    let s ← match s.pending with
      | some c => emit s true s!"oracle-fail {if c.startsWith "extend" || c.startsWith "iterpanic" then "C17+C04+C02" else "C17"} what=process_died_or_no_verdict_for_case case={c.replace " " "~"}"
      | none => pure s
    return { s with pending := some (String.intercalate " " ws) }
  | ["adv-neighbour-overwritten"] =>
    emit s true s!"oracle-fail C17 what=bytes_of_a_neighbouring_handle_in_the_same_allocation_were_overwritten case={(s.pending.getD "?").replace " " "~"}"
  | "adv" :: ws =>
    let case := ws.takeWhile (· != "->")
    let rest := (ws.dropWhile (· != "->")).drop 1
    let outcome := rest.headD "?"
    let caseS := String.intercalate "~" case
    let s := { s with cases := s.cases + 1, pending := none,
                      okN := if outcome == "panic" then s.okN else s.okN + 1, panicN := if outcome == "panic" then s.panicN + 1 else s.panicN }
    -- misbehaving iterators into Extend / FromIterator for BytesMut: an allocator violation there is also "a BytesMut's region
    -- stays inside its allocation" (C04) and "never frees twice, also in calls that panic" (C02)
    let tag := if (case.headD "").startsWith "extend" || (case.headD "").startsWith "iterpanic" then "C17+C04+C02" else "C17"
    let s ← if kvOf rest "ledger" != some "ok" then
        emit s true s!"oracle-fail {tag} what=allocator_oracle_violation_({(kvOf rest "ledger").getD "?"}) case={caseS}" else pure s
    let s ← match extendOracle (case.headD "") outcome with
      | some msg => emit s true s!"oracle-fail C01+C17 what={msg} case={caseS}"
      | none => pure s
    let s ← if outcome.startsWith "OOB-READ" then
        emit s true s!"oracle-fail C17 what=bytes_from_outside_the_slices_the_owner_answered_with_reached_the_caller_(out-of-bounds_read) case={caseS}" else pure s
    let s ← if kvOf rest "leak" != some "0" then
        emit s true s!"oracle-fail C17 what=storage_allocated_by_the_crate_not_released_after_the_call_(leak={(kvOf rest "leak").getD "?"}) case={caseS}" else pure s
    match case with
    | [name, sc, arg] =>
      match parseScript sc, arg.toNat? with
      | some script, some a =>
        match predict name script a with
        | none => return s
        | some pr =>
          let s := { s with modelled := s.modelled + 1 }
          let shown := match pr with
            | .ok v => v
            | .panic => "panic"
            | .hang => "panic"          -- the harness cuts endless loops off with a panic
            | .ub w => "UB:" ++ w.replace " " "_"
          -- `Some(..)` of try_get_i128: only the constructor is compared
          let implShown := if name == "try_get_i128" then (if outcome.startsWith "Some" then "Some" else outcome) else outcome
          if shown != implShown then emit s false s!"model-diff ADV consumer={name} impl={implShown} model={shown} case={caseS}"
          else
            -- the general model (answers may change on every call), instantiated with this script, must agree as well
            let shownG := match predictGen name script a with
              | some (.ok v) => v
              | some .panic => "panic"
              | some .hang => "panic"
              | some (.ub w) => "UB:" ++ w.replace " " "_"
              | none => "unmodelled"
            if shownG != implShown then emit s false s!"model-diff ADVGEN consumer={name} impl={implShown} model={shownG} case={caseS}"
            else return s
      | _, _ => emit s false s!"bad-trace ADV {line.trimAscii}"
    | _ => return s
  | "advowner" :: ws =>
    let rest := (ws.dropWhile (· != "->")).drop 1
    let outcome := rest.headD "?"
    let caseS := String.intercalate "~" (ws.takeWhile (· != "->"))
    let s := { s with cases := s.cases + 1 }
    let s ← if outcome.startsWith "consistent=0" then
        emit s true s!"oracle-fail C17 what=view_built_from_two_different_answers_of_the_owner's_as_ref_(pointer_and_length_do_not_belong_together) case=owner~{caseS}" else pure s
    -- (how often as_ref is called is not judged: only that pointer and length of the view belong to one answer)
    let s ← if kvOf rest "dropped" != some "1" then
        emit s true s!"oracle-fail C17 what=owner_dropped_{(kvOf rest "dropped").getD "?"}_times case=owner~{caseS}" else pure s
    if kvOf rest "ledger" != some "ok" then emit s true s!"oracle-fail C17 what=allocator_oracle_violation case=owner~{caseS}" else return s
  | ["advend", v] =>
    let s := { s with ended := true }
    if v != "violations=0" then emit s true s!"oracle-fail C17 what=allocator_violations_at_end_({v}) case=-" else return s
  | _ => return s

def run : IO UInt32 := do
  let stdin ← IO.getStdin
  let s ← foldLines stdin ({} : JS) step
  let s ← match s.pending with
    | some c => emit s true s!"oracle-fail {if c.startsWith "extend" || c.startsWith "iterpanic" then "C17+C04+C02" else "C17"} what=process_died_or_no_verdict_for_case case={c.replace " " "~"}"
    | none => pure s
  let s ← if !s.ended then emit s false "bad-trace ADV stream-ended-without-advend" else pure s
  for (cat, n) in s.printed do
    IO.println s!"category {n} {cat.replace " " "_"}"
  IO.println s!"summary ADV cases={s.cases} modelled={s.modelled} ok={s.okN} panic={s.panicN} fails={s.fails} diffs={s.diffs}"
  return 0

end BytesVerif.Judge.AdvJ
