/-
Soundness of the seq judge's property oracles (Judge/Seq.lean) with respect to M1: if the
implementation behaved exactly like the model, no oracle would fire.  Hence every oracle failure on
a real trace is a deviation of the implementation from M1's guarantees, never an artefact of an
oracle that demands more than the model promises.

The observation of a model state (definitions in Lemmas/Core/OracleSound.lean):

  obsOfModel s   one `Obs` per live handle, in slot order: `id` = slot, `kind`, `len`, `cap` (none for
                 `Bytes`), `uniq` = what `bytesIsUnique` answers (`Bytes` only), `contents` =
                 `contentsStr` of the view, and the address exactly as `World::print_handles` prints it:
                 `locate s reg off` = `(r, off, size r)` if the handle's pointer `(r, off)` lies in (or one
                 past the end of) the *live* region `r`, i.e. `ledger::find_block` succeeds; otherwise
                 `blk = none`, and `wild = true` iff the handle can touch memory (`Bytes`: `len ≠ 0`,
                 `BytesMut` / `Vec`: `cap ≠ 0`).  A `Vec` with capacity 0 never has an address.
                 Idealisations: distinct regions never share or reuse addresses (so a stale pointer is
                 never attributed to an unrelated block) and the packing allocator's shared block
                 boundaries do not occur.
  evsOfModel s s' the allocator events appended by the step, oldest first, as non-noise `Evt`s:
                 byte buffers `align = 1` with their size, control blocks `align = 8` (size not
                 modelled); owner bookkeeping events are dropped.
  Typed op s     the operand slots hold live handles of a type that has the method (`unsplit`: two
                 different `BytesMut`s) — what the harness / Rust's type system guarantee.  M1 turns all
                 other calls into a rejected call (`panic`), which the oracles do not expect
                 (`Witness.oneVec`, …): `Typed` is the weakest side condition excluding these.

Results (all for every `cfg`, `e`, every `op` with `OpOK op`, every `s` with `WFx s`; complete proofs):

  mustPanic_sound      Typed → `mustPanic op (obsOfModel s) = some b → (b = true ↔ the step panics)`, never `ub`
  opOracle_sound       Typed → the step's outcome (`ok v` / `panic`) passes `opOracle … (pack := false)`
                       (`opOracle_ok_sound`, `opOracle_panic_sound`); `opOracle_pack_weaker`: `pack := true`
                       only weakens the oracle
  frameOracle_sound    (no typing needed) `frameOracle op (obsOfModel s) (obsOfModel s') = none`
  boundsOracle_sound   `WFx s → boundsOracle (obsOfModel s) = none`   (state predicate; `stateOracles_step_sound`)
  uniqOracle_sound     `WFx s → uniqOracle s (obsOfModel s) = none`   (state predicate; `stateOracles_step_sound`)
  tryMutOracle_sound   the model's `try_into_mut` agrees with the model's `is_unique` on the pre-state (no hypothesis)
  lenCapOracle_sound   `WFx s → lenCapOracle (obsOfModel s) = none`   (state predicate; `lenCapOracle_step_sound`,
                       `boundsLenCap_sound` for the combined check of `judgeBlock`)

All 29 operations are covered.  No oracle was found to demand more than the model guarantees.
-/
import BytesVerif.Judge.Seq
import BytesVerif.Lemmas.Core.Sound
import BytesVerif.Lemmas.Core.OracleSound
set_option linter.unusedVariables false
set_option linter.unusedSimpArgs false
namespace BytesVerif.Judge.SeqJ
open BytesVerif.Core BytesVerif.Judge

/-! ## `mustPanic` -/

theorem PanicIff.decide_iff {cfg : Cfg} {e : Env} {op : Op} {s : St} {C : Prop} [Decidable C]
    (h : PanicIff cfg e op s C) {b : Bool} (hb : b = decide C) :
    b = true ↔ ∃ s', Core.step cfg e op s = .panic s' := by
  subst hb
  simp only [decide_eq_true_eq]
  exact ⟨fun hc => ⟨s, h.1 hc⟩, fun ⟨s', hp⟩ => (h.2 s' hp).2⟩

theorem findObs_live {s : St} {i : Nat} {x : Handle} (hi : s.hs[i]? = some (some x)) :
    findObs (obsOfModel s) i = some (obsOfHandle s i x) := by
  rw [findObs_obsOfModel, hi]; rfl

/-- **`mustPanic` is sound**: whenever the oracle claims to know whether a well-typed call must
panic, the model agrees (and the model never reaches `ub`). -/
theorem mustPanic_sound (cfg : Cfg) (e : Env) (op : Op) (s : St) (hw : WFx s) (ho : OpOK op)
    (ht : Typed op s) (b : Bool) (h : mustPanic op (obsOfModel s) = some b) :
    (b = true ↔ ∃ s', Core.step cfg e op s = .panic s') ∧ ∀ w s', Core.step cfg e op s ≠ .ub w s' := by
  refine ⟨?_, fun w s' hst => by
    have hs := step_sound cfg e op s hw ho
    unfold StepOKx at hs; rw [hst] at hs; exact hs⟩
  have hI := hw.inv
  unfold Typed typedB at ht
  have never : ∀ {C : Prop}, PanicIff cfg0 e op s False → some false = some b →
      (b = true ↔ ∃ s', Core.step cfg e op s = .panic s') := by
    intro _ hp hb
    cases hb
    exact (hp.cfg hI).decide_iff (by simp)
  cases op with
  | fromStatic bs => simp [mustPanic] at h
  | newVec bs cap => simp [mustPanic] at h
  | fromVec i => simp [mustPanic] at h
  | copyFromSlice bs => simp [mustPanic] at h
  | fromOwner bs p => simp [mustPanic] at h
  | mutWithCapacity cap => simp [mustPanic] at h
  | mutFromSlice bs => simp [mustPanic] at h
  | mutZeroed n => simp [mustPanic] at h
  | extend i bs => simp [mustPanic] at h
  | resize i n b' => simp [mustPanic] at h
  | unsplit i j => simp [mustPanic] at h
  | fillSpare i b' => simp [mustPanic] at h
  | clone i =>
    obtain ⟨x, hi⟩ := kindAt_isSome ht
    exact never (C := True) (panic_clone e hI hi) h
  | slice i lo hi' =>
    simp only [beq_iff_eq] at ht
    obtain ⟨x, hi, hk⟩ := kindAt_some ht
    obtain ⟨repr, reg, off, len, rfl⟩ := kindOf_bytes hk
    simp only [mustPanic, findObs_live hi, Option.map_some, Option.some.injEq, obs_len, hlen] at h
    exact ((panic_slice e hI hi lo hi').cfg hI).decide_iff h.symm
  | splitOff i k =>
    simp only [Bool.or_eq_true, beq_iff_eq] at ht
    rcases ht with ht | ht
    · obtain ⟨x, hi, hk⟩ := kindAt_some ht
      obtain ⟨repr, reg, off, len, rfl⟩ := kindOf_bytes hk
      simp only [mustPanic, findObs_live hi, Option.map_some, Option.some.injEq, obs_len, obs_kind,
        kindOf, hlen, beq_self_eq_true, if_true] at h
      exact ((panic_splitOff_bytes e hI hi k).cfg hI).decide_iff h.symm
    · obtain ⟨x, hi, hk⟩ := kindAt_some ht
      obtain ⟨arc, reg, off, len, cap, orig, rfl⟩ := kindOf_mut hk
      have hkk : (Kind.mut == Kind.bytes) = false := by decide
      simp only [mustPanic, findObs_live hi, Option.map_some, Option.some.injEq, obs_cap, obs_kind,
        kindOf, hcapO, hkk, Bool.false_eq_true, if_false, Option.getD_some] at h
      exact ((panic_splitOff_mut e hI hi k).cfg hI).decide_iff h.symm
  | splitTo i k =>
    simp only [Bool.or_eq_true, beq_iff_eq] at ht
    rcases ht with ht | ht
    · obtain ⟨x, hi, hk⟩ := kindAt_some ht
      obtain ⟨repr, reg, off, len, rfl⟩ := kindOf_bytes hk
      simp only [mustPanic, findObs_live hi, Option.map_some, Option.some.injEq, obs_len, hlen] at h
      exact ((panic_splitTo_bytes e hI hi k).cfg hI).decide_iff h.symm
    · obtain ⟨x, hi, hk⟩ := kindAt_some ht
      obtain ⟨arc, reg, off, len, cap, orig, rfl⟩ := kindOf_mut hk
      simp only [mustPanic, findObs_live hi, Option.map_some, Option.some.injEq, obs_len, hlen] at h
      exact ((panic_splitTo_mut e hI hi k).cfg hI).decide_iff h.symm
  | split i =>
    simp only [beq_iff_eq] at ht
    obtain ⟨x, hi, hk⟩ := kindAt_some ht
    obtain ⟨arc, reg, off, len, cap, orig, rfl⟩ := kindOf_mut hk
    exact never (C := True) (panic_split e hI hi) h
  | truncate i n =>
    obtain ⟨x, hi⟩ := kindAt_isSome ht
    exact never (C := True) (panic_truncate e hI hi n) h
  | clear i =>
    obtain ⟨x, hi⟩ := kindAt_isSome ht
    exact never (C := True) (panic_clear e hI hi) h
  | advance i n =>
    simp only [Bool.or_eq_true, beq_iff_eq] at ht
    rcases ht with ht | ht
    · obtain ⟨x, hi, hk⟩ := kindAt_some ht
      obtain ⟨repr, reg, off, len, rfl⟩ := kindOf_bytes hk
      simp only [mustPanic, findObs_live hi, Option.map_some, Option.some.injEq, obs_len, hlen] at h
      exact ((panic_advance_bytes e hi n).cfg hI).decide_iff h.symm
    · obtain ⟨x, hi, hk⟩ := kindAt_some ht
      obtain ⟨arc, reg, off, len, cap, orig, rfl⟩ := kindOf_mut hk
      simp only [mustPanic, findObs_live hi, Option.map_some, Option.some.injEq, obs_len, hlen] at h
      exact ((panic_advance_mut e hi n).cfg hI).decide_iff h.symm
  | isUnique i =>
    simp only [beq_iff_eq] at ht
    obtain ⟨x, hi, hk⟩ := kindAt_some ht
    obtain ⟨repr, reg, off, len, rfl⟩ := kindOf_bytes hk
    exact never (C := True) (panic_isUnique e hI hi) h
  | tryIntoMut i =>
    simp only [beq_iff_eq] at ht
    obtain ⟨x, hi, hk⟩ := kindAt_some ht
    obtain ⟨repr, reg, off, len, rfl⟩ := kindOf_bytes hk
    exact never (C := True) (panic_tryIntoMut e hI hi) h
  | intoMut i =>
    simp only [beq_iff_eq] at ht
    obtain ⟨x, hi, hk⟩ := kindAt_some ht
    obtain ⟨repr, reg, off, len, rfl⟩ := kindOf_bytes hk
    exact never (C := True) (panic_intoMut e hI hi) h
  | intoVec i =>
    simp only [Bool.or_eq_true, beq_iff_eq] at ht
    rcases ht with ht | ht
    · obtain ⟨x, hi, hk⟩ := kindAt_some ht
      exact never (C := True) (panic_intoVec e hI hi (by rw [hk]; decide)) h
    · obtain ⟨x, hi, hk⟩ := kindAt_some ht
      exact never (C := True) (panic_intoVec e hI hi (by rw [hk]; decide)) h
  | freeze i =>
    simp only [beq_iff_eq] at ht
    obtain ⟨x, hi, hk⟩ := kindAt_some ht
    obtain ⟨arc, reg, off, len, cap, orig, rfl⟩ := kindOf_mut hk
    exact never (C := True) (panic_freeze e hi) h
  | reserve i n =>
    simp only [beq_iff_eq] at ht
    obtain ⟨x, hi, hk⟩ := kindAt_some ht
    obtain ⟨arc, reg, off, len, cap, orig, rfl⟩ := kindOf_mut hk
    simp only [mustPanic, findObs_live hi, Option.bind_some, obs_len, obs_cap, hlen, hcapO,
      Option.getD_some] at h
    split at h
    · next hbig =>
      cases h
      have : isizeMax < len + n := by rw [W_eq] at hbig; rw [isizeMax_eq]; omega
      exact ⟨fun _ => ⟨s, reserve_huge cfg e hI hi this⟩, fun _ => rfl⟩
    · split at h
      · next hfit =>
        cases h
        rw [reserve_fits cfg e hi hfit]
        exact ⟨fun hh => (by cases hh), fun ⟨s', hp⟩ => (by cases hp)⟩
      · cases h
  | tryReclaim i n =>
    simp only [beq_iff_eq] at ht
    obtain ⟨x, hi, hk⟩ := kindAt_some ht
    obtain ⟨arc, reg, off, len, cap, orig, rfl⟩ := kindOf_mut hk
    exact never (C := True) (panic_tryReclaim e hI hi n) h
  | setByte i k b' =>
    simp only [beq_iff_eq] at ht
    obtain ⟨x, hi, hk⟩ := kindAt_some ht
    obtain ⟨arc, reg, off, len, cap, orig, rfl⟩ := kindOf_mut hk
    simp only [mustPanic, findObs_live hi, Option.map_some, Option.some.injEq, obs_len, hlen] at h
    exact ((panic_setByte e hi k b').cfg hI).decide_iff h.symm
  | drop i =>
    obtain ⟨x, hi⟩ := kindAt_isSome ht
    exact never (C := True) (panic_drop e hi) h

set_option linter.unusedSectionVars false

/-! ## `opOracle`, normal returns, family by family -/

section Families
variable (cfg : Cfg) (e : Env) {s s' : St} (hw : WFx s) (hw' : WFx s') {i : Nat} {v : Val}

abbrev OO (op : Op) (v : Val) (s s' : St) : Option (String × String) :=
  opOracle op (.ok v) (obsOfModel s) (obsOfModel s') (evsOfModel s s') false

include hw hw' in
theorem oo_clone {x : Handle} (hi : s.hs[i]? = some (some x))
    (hs : Core.step cfg e (.clone i) s = .ok v s') : OO (.clone i) v s s' = none := by
  cases v with
  | handle j =>
    show opOracle _ _ _ _ _ _ = none
    rw [opOracle_clone]
    split
    · next hk =>
      have hb : kindOf x = .bytes := by simpa [findObs_live' hi, obs_kind] using hk
      obtain ⟨hnc, y, x', hy, hx', ha, _⟩ := PropC07.zero_copy_clone cfg e i s s' hw j x hi hb hs
      exact zc_none_false hw'.inv hi hy hnc.1 fun hl => addr_same (ha (by rw [PropC07_lenOf]; exact hl))
    · rfl
  | _ => rfl

include hw hw' in
theorem oo_slice {x : Handle} {lo hi' : Nat} (hi : s.hs[i]? = some (some x))
    (hs : Core.step cfg e (.slice i lo hi') s = .ok v s') : OO (.slice i lo hi') v s s' = none := by
  cases v with
  | handle j =>
    show opOracle _ _ _ _ _ _ = none
    rw [opOracle_slice]
    obtain ⟨hnc, y, hy, ha⟩ := PropC07.zero_copy_slice cfg e i lo hi' s s' hw j x hi hs
    exact zc_none_false hw'.inv hi hy hnc.1 fun hl => addr_shift (ha (by rw [PropC07_lenOf]; exact hl))
  | _ => rfl

include hw hw' in
theorem oo_splitOff {x : Handle} {k : Nat} (hi : s.hs[i]? = some (some x))
    (hs : Core.step cfg e (.splitOff i k) s = .ok v s') : OO (.splitOff i k) v s s' = none := by
  have hI := hw.inv
  have hI' := hw'.inv
  cases x with
  | vec reg len cap => simp [Core.step, opSplitOff, getHandle_eq hi] at hs
  | bytes repr reg off len =>
    obtain ⟨hk, rfl, hR, repr', orepr, hhs⟩ := splitOff_bytes_ok cfg e hI hi hs
    obtain ⟨hnc, _⟩ := PropC07.zero_copy_splitOff cfg e i k s s' hw _ _ hi hs
    have hy : s'.hs[s.hs.length]? = some (some (.bytes orepr reg (off + k) (len - k))) := by
      rw [hhs]; exact lookup_new
    have hx' : s'.hs[i]? = some (some (.bytes repr' reg off k)) := by
      rw [hhs]; exact lookup_old hi
    show opOracle _ _ _ _ _ _ = none
    rw [opOracle_splitOff]
    have h1 := zc_none (ce := true) (delta := k) hi hy hnc.1 fun _ =>
      haddr_same_regions hR (by simp [kindOf]) (by simp [kindOf]) rfl rfl
        (fun r o z h => by have := bytes_bound hI hi h; simp only [hreg, hoff] at h; omega)
    have h2 := zc_none (ce := true) (delta := 0) hi hx' hnc.1 fun _ =>
      haddr_same_regions hR (by simp [kindOf]) (by simp [kindOf]) rfl rfl
        (fun r o z h => by have := bytes_bound hI hi h; omega)
    rw [h1]; exact h2
  | «mut» arc reg off len cap orig =>
    obtain ⟨hk, rfl, hno, c, arc', cap', hhs⟩ := splitOff_mut_ok cfg e hi hs
    have hy : s'.hs[s.hs.length]? = some (some (.mut arc' reg (off + k) (len - k) cap' orig)) := by
      rw [hhs]; exact lookup_new
    have hx' : s'.hs[i]? = some (some (.mut (some c) reg off (min len k) k orig)) := by
      rw [hhs]; exact lookup_old hi
    show opOracle _ _ _ _ _ _ = none
    rw [opOracle_splitOff]
    have h1 := zc_none (ce := true) (delta := k) hi hy hno fun _ => haddr_mut hI' hy rfl rfl
    have h2 := zc_none (ce := true) (delta := 0) hi hx' hno fun _ => haddr_mut hI' hx' rfl rfl
    rw [h1]; exact h2

include hw hw' in
theorem oo_splitTo {x : Handle} {k : Nat} (hi : s.hs[i]? = some (some x))
    (hs : Core.step cfg e (.splitTo i k) s = .ok v s') : OO (.splitTo i k) v s s' = none := by
  have hI := hw.inv
  have hI' := hw'.inv
  cases x with
  | vec reg len cap => simp [Core.step, opSplitTo, getHandle_eq hi] at hs
  | bytes repr reg off len =>
    obtain ⟨hk, rfl, hR, repr', crepr, hhs⟩ := splitTo_bytes_ok cfg e hI hi hs
    obtain ⟨hnc, _⟩ := PropC07.zero_copy_splitTo cfg e i k s s' hw _ _ hi hs
    have hy : s'.hs[s.hs.length]? = some (some (.bytes crepr reg off k)) := by
      rw [hhs]; exact lookup_new
    have hx' : s'.hs[i]? = some (some (.bytes repr' reg (off + k) (len - k))) := by
      rw [hhs]; exact lookup_old hi
    show opOracle _ _ _ _ _ _ = none
    rw [opOracle_splitTo]
    have h1 := zc_none (ce := true) (delta := 0) hi hy hnc.1 fun _ =>
      haddr_same_regions hR (by simp [kindOf]) (by simp [kindOf]) rfl rfl
        (fun r o z h => by have := bytes_bound hI hi h; omega)
    have h2 := zc_none (ce := true) (delta := k) hi hx' hnc.1 fun _ =>
      haddr_same_regions hR (by simp [kindOf]) (by simp [kindOf]) rfl rfl
        (fun r o z h => by have := bytes_bound hI hi h; simp only [hreg, hoff] at h; omega)
    rw [h1]; exact h2
  | «mut» arc reg off len cap orig =>
    obtain ⟨hk, rfl, hno, c, arc', cap', hhs⟩ := splitTo_mut_ok cfg e hi hs
    have hy : s'.hs[s.hs.length]? = some (some (.mut (some c) reg off k k orig)) := by
      rw [hhs]; exact lookup_new
    have hx' : s'.hs[i]? = some (some (.mut arc' reg (off + k) (len - k) cap' orig)) := by
      rw [hhs]; exact lookup_old hi
    show opOracle _ _ _ _ _ _ = none
    rw [opOracle_splitTo]
    have h1 := zc_none (ce := true) (delta := 0) hi hy hno fun _ => haddr_mut hI' hy rfl rfl
    have h2 := zc_none (ce := true) (delta := k) hi hx' hno fun _ => haddr_mut hI' hx' rfl rfl
    rw [h1]; exact h2

include hw hw' in
theorem oo_split {arc reg : Option Nat} {off len cap orig : Nat}
    (hi : s.hs[i]? = some (some (.mut arc reg off len cap orig)))
    (hs : Core.step cfg e (.split i) s = .ok v s') : OO (.split i) v s s' = none := by
  have hs' : Core.step cfg e (.splitTo i len) s = .ok v s' := by
    simp only [Core.step, bind_apply, getHandle_eq hi] at hs ⊢
    exact hs
  obtain ⟨hk, rfl, hno, c, arc', cap', hhs⟩ := splitTo_mut_ok cfg e hi hs'
  have hy : s'.hs[s.hs.length]? = some (some (.mut (some c) reg off len len orig)) := by
    rw [hhs]; exact lookup_new
  show opOracle _ _ _ _ _ _ = none
  rw [opOracle_split]
  exact zc_none (delta := 0) hi hy hno fun _ => haddr_mut hw'.inv hy rfl rfl

end Families



section Families2
variable (cfg : Cfg) (e : Env) {s s' : St} (hw : WFx s) (hw' : WFx s') {i : Nat} {v : Val}

include hw' in
theorem oo_truncate {x : Handle} {n : Nat} (hi : s.hs[i]? = some (some x))
    (hs : Core.step cfg e (.truncate i n) s = .ok v s') : OO (.truncate i n) v s s' = none := by
  show opOracle _ _ _ _ _ _ = none
  rw [opOracle_truncate]
  split
  · obtain ⟨hnc, x', hx', ha⟩ := PropC07.opTruncate_ok hi (by simpa [Core.step] using hs)
    exact zc_none_false hw'.inv hi hx' (noAlloc_of_NC hnc) fun _ => addr_same ha
  · rfl

include hw' in
theorem oo_clear {x : Handle} (hi : s.hs[i]? = some (some x))
    (hs : Core.step cfg e (.clear i) s = .ok v s') : OO (.clear i) v s s' = none := by
  show opOracle _ _ _ _ _ _ = none
  rw [opOracle_clear]
  split
  · obtain ⟨hnc, x', hx', ha⟩ := PropC07.opTruncate_ok hi (by simpa [Core.step] using hs)
    exact zc_none_false hw'.inv hi hx' (noAlloc_of_NC hnc) fun _ => addr_same ha
  · rfl

include hw hw' in
theorem oo_advance {x : Handle} {n : Nat} (hi : s.hs[i]? = some (some x))
    (hs : Core.step cfg e (.advance i n) s = .ok v s') : OO (.advance i n) v s s' = none := by
  show opOracle _ _ _ _ _ _ = none
  rw [opOracle_advance]
  obtain ⟨hnc, x', hx', ha⟩ := PropC07.zero_copy_advance cfg e i n s s' hw v x hi hs
  exact zc_none_false hw'.inv hi hx' hnc.1 fun hl => addr_shift (ha (by rw [PropC07_lenOf]; exact hl))

include hw hw' in
theorem oo_freeze {x : Handle} (hi : s.hs[i]? = some (some x))
    (hs : Core.step cfg e (.freeze i) s = .ok v s') : OO (.freeze i) v s s' = none := by
  show opOracle _ _ _ _ _ _ = none
  rw [opOracle_freeze]
  obtain ⟨hnc, x', hx', ha⟩ := PropC07.zero_copy_inplace cfg e (.freeze i) i s s' hw v x
    (.inr (.inr (.inr (.inl rfl)))) hi hs
  exact zc_none_false hw'.inv hi hx' hnc.1 fun hl => addr_same (ha (by rw [PropC07_lenOf]; exact hl))

include hw hw' in
theorem oo_fromVec {x : Handle} (hi : s.hs[i]? = some (some x))
    (hs : Core.step cfg e (.fromVec i) s = .ok v s') : OO (.fromVec i) v s s' = none := by
  show opOracle _ _ _ _ _ _ = none
  rw [opOracle_fromVec]
  obtain ⟨hnc, x', hx', ha⟩ := PropC07.zero_copy_inplace cfg e (.fromVec i) i s s' hw v x
    (.inr (.inr (.inr (.inr rfl)))) hi hs
  exact zc_none_false hw'.inv hi hx' hnc.1 fun hl => addr_same (ha (by rw [PropC07_lenOf]; exact hl))

/-- the unique branch of `into_mut`, as a step -/
theorem intoMut_unique_ok {repr : BRepr} {reg : Option Nat} {off len : Nat} (hI : Inv s)
    (hi : s.hs[i]? = some (some (.bytes repr reg off len))) (hu : PropC08.uniqueB s repr = true)
    (hs : Core.step cfg e (.intoMut i) s = .ok v s') :
    NoAllocStep s s' ∧ ∃ arc cap orig, s'.hs[i]? = some (some (.mut arc reg off len cap orig)) := by
  obtain ⟨m, s1, evs, heq, ⟨arc, cap, orig, rfl⟩, hhs, hev, hno⟩ := PropC08.bytesIntoMut_unique hI cfg e hi hu
  simp only [Core.step, bind_apply, getHandle_eq hi, heq, setHandle_apply, pure_apply, R.ok.injEq] at hs
  obtain ⟨_, rfl⟩ := hs
  exact ⟨NoAllocStep.of_events hev hno, arc, cap, orig, lookup_set_eq _ (by rw [hhs]; exact hi)⟩

theorem tryIntoMut_ok {repr : BRepr} {reg : Option Nat} {off len : Nat} (hI : Inv s) {j : Nat}
    (hi : s.hs[i]? = some (some (.bytes repr reg off len)))
    (hs : Core.step cfg e (.tryIntoMut i) s = .ok (.handle j) s') :
    NoAllocStep s s' ∧ ∃ arc cap orig, s'.hs[i]? = some (some (.mut arc reg off len cap orig)) := by
  by_cases hu : PropC08.uniqueB s repr = true
  · obtain ⟨m, s1, evs, heq, ⟨arc, cap, orig, rfl⟩, hhs, hev, hno⟩ := PropC08.bytesIntoMut_unique hI cfg e hi hu
    simp only [Core.step, bind_apply, getHandle_eq hi, PropC08.bytesIsUnique_eq hI hi, hu, if_true, heq,
      setHandle_apply, pure_apply, R.ok.injEq] at hs
    obtain ⟨_, rfl⟩ := hs
    exact ⟨NoAllocStep.of_events hev hno, arc, cap, orig, lookup_set_eq _ (by rw [hhs]; exact hi)⟩
  · simp [Core.step, getHandle_eq hi, PropC08.bytesIsUnique_eq hI hi, hu] at hs

include hw hw' in
theorem oo_tryIntoMut {repr : BRepr} {reg : Option Nat} {off len : Nat}
    (hi : s.hs[i]? = some (some (.bytes repr reg off len)))
    (hs : Core.step cfg e (.tryIntoMut i) s = .ok v s') : OO (.tryIntoMut i) v s s' = none := by
  cases v with
  | handle j =>
    obtain ⟨hno, arc, cap, orig, hx'⟩ := tryIntoMut_ok cfg e hw.inv hi hs
    show opOracle _ _ _ _ _ _ = none
    rw [opOracle_tryIntoMut, zc_none (delta := 0) hi hx' hno fun _ => haddr_mut hw'.inv hx' rfl rfl]
    rfl
  | _ => rfl

include hw hw' in
theorem oo_intoMut {repr : BRepr} {reg : Option Nat} {off len : Nat}
    (hi : s.hs[i]? = some (some (.bytes repr reg off len)))
    (hs : Core.step cfg e (.intoMut i) s = .ok v s') : OO (.intoMut i) v s s' = none := by
  cases v with
  | handle j =>
    show opOracle _ _ _ _ _ _ = none
    rw [opOracle_intoMut]
    split
    · next hq =>
      have hu : PropC08.uniqueB s repr = true := by
        simp only [findObs_live' hi, Option.bind_some, obsOfHandle, PropC08.bytesIsUnique_eq hw.inv hi,
          beq_iff_eq, Option.some.injEq] at hq
        exact hq
      obtain ⟨hno, arc, cap, orig, hx'⟩ := intoMut_unique_ok cfg e hw.inv hi hu hs
      rw [zc_none (delta := 0) hi hx' hno fun _ => haddr_mut hw'.inv hx' rfl rfl]
      rfl
    · rfl
  | _ => rfl

end Families2



/-- two `BytesMut`s with capacity in the same region are views of one shared buffer -/
theorem same_arc_of_same_region {s : St} (hI : Inv s) {i j : Nat} (hij : i ≠ j)
    {arc oarc : Option Nat} {r off len cap orig ooff olen ocap oorig : Nat}
    (hi : s.hs[i]? = some (some (.mut arc (some r) off len cap orig)))
    (hj : s.hs[j]? = some (some (.mut oarc (some r) ooff olen ocap oorig)))
    (hc : cap ≠ 0) (hoc : ocap ≠ 0) : ∃ c, arc = some c ∧ oarc = some c := by
  have ai := hI.anchor_span (r := r) (o := off) (l := cap) hi rfl hc
  have aj := hI.anchor_span (r := r) (o := ooff) (l := ocap) hj rfl hoc
  cases arc with
  | none => exact (hI.alone_direct hi rfl (Ne.symm hij) hj aj).elim
  | some c =>
    cases oarc with
    | none => exact (hI.alone_direct hj rfl hij hi ai).elim
    | some c' =>
      obtain ⟨_, ⟨vlen, vcap, vorig, h1, _⟩, _⟩ := handleOKL_mutA.mp (hI.hok i _ hi)
      obtain ⟨_, ⟨vlen', vcap', vorig', h1', _⟩, _⟩ := handleOKL_mutA.mp (hI.hok j _ hj)
      obtain ⟨e1, he1, hl1, hc1, _, _, hb1⟩ := hI.cok' h1
      obtain ⟨e2, he2, hl2, hc2, _, _, _⟩ := hI.cok' h1'
      simp only [ctrlBufOK] at hb1
      have hown := hI.own r (isHeapLiveL_lt hb1.1)
      simp only [hb1.1, if_true] at hown
      have : c' = c := ctrlCountL_unique (r := r) (by omega) he1 hl1 (by rw [hc1]; rfl) he2 hl2 (by rw [hc2]; rfl)
      subst this
      exact ⟨c', rfl, rfl⟩

theorem addrOf_mut {s : St} {i : Nat} {arc reg : Option Nat} {off len cap orig r o : Nat}
    (h : addrOf (obsOfHandle s i (.mut arc reg off len cap orig)) = some (r, o)) :
    reg = some r ∧ o = off := by
  simp only [addrOf, obsOfHandle, Option.map_eq_some_iff] at h
  obtain ⟨⟨r', o', z⟩, h1, h2⟩ := h
  simp only [Prod.mk.injEq] at h2
  obtain ⟨rfl, rfl⟩ := h2
  obtain ⟨h3, h4, _⟩ := locate_eq_some h1
  exact ⟨h3, h4⟩

theorem oo_unsplit (cfg : Cfg) (e : Env) {s s' : St} (hw : WFx s) (hw' : WFx s') {i j : Nat} {v : Val}
    (hij : i ≠ j) {arc oarc reg oreg : Option Nat} {off len cap orig ooff olen ocap oorig : Nat}
    (hi : s.hs[i]? = some (some (.mut arc reg off len cap orig)))
    (hj : s.hs[j]? = some (some (.mut oarc oreg ooff olen ocap oorig)))
    (hs : Core.step cfg e (.unsplit i j) s = .ok v s') : OO (.unsplit i j) v s s' = none := by
  show opOracle _ _ _ _ _ _ = none
  rw [opOracle_unsplit, findObs_live' hi, findObs_live' hj]
  simp only
  split
  · next r o r' o' ha hb =>
    split
    · next hc =>
      simp only [Bool.and_eq_true, beq_iff_eq, decide_eq_true_eq, obs_len, obs_cap, hlen, hcapO,
        Option.getD_some, Option.some.injEq] at hc
      obtain ⟨⟨⟨⟨rfl, ho⟩, hlen0⟩, hcap⟩, hocap⟩ := hc
      obtain ⟨rfl, rfl⟩ := addrOf_mut ha
      obtain ⟨rfl, rfl⟩ := addrOf_mut hb
      obtain ⟨c, rfl, rfl⟩ := same_arc_of_same_region hw.inv hij hi hj (by omega) (by omega)
      obtain ⟨hnc, cap', hx'⟩ := PropC07.zero_copy_unsplit cfg e i j s s' hw v c r o len cap orig _ olen
        ocap oorig hi hj hij (by omega) (by omega) ho hs
      exact zc_none_false hw'.inv hi hx' hnc.1 fun _ => ⟨rfl, rfl⟩
    · rfl
  · rfl

theorem contents_eq_of_view {s s' : St} {i j : Nat} {x y : Handle}
    (h : viewOfL s'.regions y = viewOfL s.regions x) :
    (obsOfHandle s' j y).contents = (obsOfHandle s i x).contents := by
  rw [obs_contents, obs_contents, h]

/-- what `abs` says about one slot -/
theorem view_of_abs {s s' : St} {i : Nat} {x y : Handle} (hx : s.hs[i]? = some (some x))
    (hy : s'.hs[i]? = some (some y)) (h : (abs s')[i]? = (abs s)[i]?) (hI : Inv s) (hI' : Inv s') :
    viewOfL s'.regions y = viewOfL s.regions x ∧ kindOf y = kindOf x := by
  rw [abs_eq, abs_eq] at h
  obtain ⟨v, hv, _⟩ := hI.view hx
  obtain ⟨v', hv', _⟩ := hI'.view hy
  rw [absL_lookup hx hv, absL_lookup hy hv'] at h
  simp only [Option.some.injEq, SH.mk.injEq] at h
  rw [hv, hv', h.2]
  exact ⟨rfl, h.1⟩

theorem oo_reserve (cfg : Cfg) (e : Env) {s s' : St} (hw : WFx s) (hw' : WFx s') {i n : Nat} {v : Val}
    {arc reg : Option Nat} {off len cap orig : Nat}
    (hi : s.hs[i]? = some (some (.mut arc reg off len cap orig)))
    (hs : Core.step cfg e (.reserve i n) s = .ok v s') : OO (.reserve i n) v s s' = none := by
  have hI := hw.inv
  have hsound := step_sound cfg e (.reserve i n) s hw trivial
  unfold StepOKx at hsound
  rw [hs] at hsound
  have habs : abs s' = abs s := hsound.2
  -- the shape of the new handle
  have hshape : ∃ arc' reg' off' cap' orig', s'.hs[i]? = some (some (.mut arc' reg' off' len cap' orig')) ∧ n ≤ cap' - len := by
    have hs2 := hs
    simp only [Core.step, bind_apply, getHandle_eq hi] at hs2
    rcases OpsD.mutReserve_spec hI cfg e hi n with hp | ⟨h', R1, C1, heq, hG⟩
    · have h1 : mutReserve cfg e (.mut arc reg off len cap orig) n s = .panic s := hp s.hs s.events
      simp [h1] at hs2
    · obtain ⟨ev1, h1⟩ := heq s.hs s.events
      have h1' : mutReserve cfg e (.mut arc reg off len cap orig) n s =
          .ok h' ⟨R1, C1, s.hs, s.owners, ev1⟩ := h1
      simp only [h1', setHandle_apply, pure_apply, R.ok.injEq] at hs2
      obtain ⟨_, rfl⟩ := hs2
      obtain ⟨arc', reg', off', cap', orig', rfl, hle⟩ := hG.shape
      exact ⟨arc', reg', off', cap', orig', lookup_set_eq _ hi, hle⟩
  obtain ⟨arc', reg', off', cap', orig', hx', hle⟩ := hshape
  have hbig : ¬ isizeMax < len + n := by
    intro hb
    rw [reserve_huge cfg e hI hi hb] at hs; cases hs
  obtain ⟨hview, _⟩ := view_of_abs hi hx' (by rw [habs]) hI hw'.inv
  refine opOracle_reserve_none (findObs_live' hi) (findObs_live' hx') ?_ ?_ (contents_eq_of_view hview).symm ?_
  · simpa [obs_cap, obs_len, hcapO, hlen] using hle
  · simp [obs_len, hlen]
  · simp only [obs_len, hlen]; rw [W_eq]; rw [isizeMax_eq] at hbig; omega


theorem getHandle_bind_eq {α : Type} {s : St} {i : Nat} {x : Handle} (hi : s.hs[i]? = some (some x))
    (f : Handle → M α) : (getHandle i >>= f) s = f x s := by
  simp only [bind_apply, getHandle_eq hi]

/-- the only way a well-typed `unsplit` panics: the copy of `other` into `self` overflows; `other` has
been consumed and is dropped during unwinding -/
theorem unsplit_panic_shape (cfg : Cfg) (e : Env) {s s' : St} (hI : Inv s) {i j : Nat} (hij : i ≠ j)
    {arc oarc reg oreg : Option Nat} {off len cap orig ooff olen ocap oorig : Nat}
    (hi : s.hs[i]? = some (some (.mut arc reg off len cap orig)))
    (hj : s.hs[j]? = some (some (.mut oarc oreg ooff olen ocap oorig)))
    (hp : Core.step cfg e (.unsplit i j) s = .panic s') :
    ∃ R' C' ev, s' = ⟨R', C', s.hs.set j none, s.owners, ev⟩ ∧ Inv s' ∧
      (∀ (k : Nat) (b : Handle), k ≠ j → s.hs[k]? = some (some b) → viewOfL R' b = viewOfL s.regions b) ∧
      (∀ (r : Nat) (rg : Region), s.regions[r]? = some rg → ∃ rg' : Region, R'[r]? = some rg' ∧ rg'.size = rg.size) := by
  simp only [Core.step, if_neg hij] at hp
  rw [getHandle_bind_eq hi, getHandle_bind_eq hj] at hp
  simp only at hp
  have hdrop := OpsD.mutDrop_spec hI hj
  by_cases h1 : len = 0
  · simp only [if_pos h1] at hp
    exact (((NoP_killHandle j).bind fun _ => (NoP_mutDrop _ _ _ _ _ _).bind fun _ =>
      (NoP_setHandle _ _).bind fun _ => NoP.pure _) s s' hp).elim
  simp only [if_neg h1] at hp
  by_cases h2 : ocap = 0
  · simp only [if_pos h2] at hp
    exact (((NoP_killHandle j).bind fun _ => (NoP_mutDrop _ _ _ _ _ _).bind fun _ => NoP.pure _) s s' hp).elim
  simp only [if_neg h2] at hp
  split at hp
  · exact (((NoP_killHandle j).bind fun _ => (NoP_mutDrop _ _ _ _ _ _).bind fun _ =>
      (NoP_setHandle _ _).bind fun _ => NoP.pure _) s s' hp).elim
  · obtain ⟨vo, hvo, _⟩ := hI.view hj
    obtain ⟨vh, hvh, _⟩ := hI.view hi
    simp only [viewOfL, hreg, hoff, hlen] at hvo hvh
    simp only [bind_apply, readRange_of_rdL hvo, killHandle_apply] at hp
    rcases OpsD.mutExtend_spec hI cfg e hi vo hvh with hx | ⟨h'', R2, C2, heq, _⟩
    · have h1 : mutExtend cfg e (.mut arc reg off len cap orig) vo
          ⟨s.regions, s.ctrls, s.hs.set j none, s.owners, s.events⟩ =
          .panic ⟨s.regions, s.ctrls, s.hs.set j none, s.owners, s.events⟩ :=
        hx (s.hs.set j none) s.events
      simp only [h1, bind_apply] at hp
      obtain ⟨R', C', hd, hInv, hview⟩ := hdrop
      obtain ⟨ev, h3⟩ := hd (s.hs.set j none) s.events
      have h3' : mutDrop (.mut oarc oreg ooff olen ocap oorig)
          ⟨s.regions, s.ctrls, s.hs.set j none, s.owners, s.events⟩ =
          .ok () ⟨R', C', s.hs.set j none, s.owners, ev⟩ := h3
      have hfr := (FrM_mutDrop _ _ _ _ h3').1.2
      simp only [h3', panic_apply, R.panic.injEq] at hp
      subst hp
      refine ⟨R', C', ev, rfl, hInv ev, hview, fun r rg hr => ?_⟩
      obtain ⟨rg', h4, _, h5⟩ := hfr r rg hr
      exact ⟨rg', h4, h5⟩
    · obtain ⟨ev1, h1⟩ := heq (s.hs.set j none) s.events
      have h1' : mutExtend cfg e (.mut arc reg off len cap orig) vo
          ⟨s.regions, s.ctrls, s.hs.set j none, s.owners, s.events⟩ =
          .ok h'' ⟨R2, C2, s.hs.set j none, s.owners, ev1⟩ := h1
      simp only [h1'] at hp
      exact (((NoP_setHandle _ _).bind fun _ => (NoP_mutDrop _ _ _ _ _ _).bind fun _ => NoP.pure _) _ s' hp).elim



/-- a handle that is literally unchanged, reads the same bytes and whose region kept its size is
`same` for the panic / `try_reclaim = false` checks (liveness of its region follows from the
invariant whenever the handle can touch memory) -/
theorem sameObs_of_frame {s s' : St} (hI : Inv s) (hI' : Inv s') {k : Nat} {b : Handle}
    (hk : s.hs[k]? = some (some b)) (hk' : s'.hs[k]? = some (some b))
    (hview : viewOfL s'.regions b = viewOfL s.regions b)
    (hsize : ∀ (r : Nat) (rg : Region), s.regions[r]? = some rg →
      ∃ rg' : Region, s'.regions[r]? = some rg' ∧ rg'.size = rg.size) :
    sameObs (obsOfModel s) (obsOfModel s') k = true := by
  unfold sameObs
  rw [findObs_live' hk, findObs_live' hk']
  simp only [obs_len, obs_cap, obs_contents, hview, beq_self_eq_true, Bool.true_and, Bool.or_eq_true,
    beq_iff_eq]
  by_cases he : extent b = 0
  · right; exact he
  · left
    obtain ⟨r, z, h1, h2, _⟩ := located_of_inv hI hk he
    obtain ⟨r', z', h1', h2', _⟩ := located_of_inv hI' hk' he
    rw [h1] at h1'; cases h1'
    rw [obs_blk, obs_blk, if_neg (fun h => he h.2), if_neg (fun h => he h.2), h2, h2']
    obtain ⟨_, _, rg, h3, _, _, h4⟩ := locate_eq_some h2
    obtain ⟨_, _, rg', h3', _, _, h4'⟩ := locate_eq_some h2'
    obtain ⟨rg'', h5, h6⟩ := hsize r rg h3
    rw [h3'] at h5; cases h5
    rw [h4, h4', h6]

theorem length_liveHs_kill {hs : List (Option Handle)} {j : Nat} {x : Handle} (hj : hs[j]? = some (some x)) :
    (liveHs (hs.set j none)).length + 1 = (liveHs hs).length := by
  have := countP_filterMap_set (fun _ : Handle => true) hs j (some x) none hj
  simp only [List.countP_true, optCount_some, optCount_none, if_true] at this
  simpa [liveHs] using this

theorem length_obsOfModel (s : St) : (obsOfModel s).length = (liveHs s.hs).length := by
  rw [obsOfModel_eq, length_obsList]

theorem movedOf_nil {op : Op} (hu : ∀ i j, op ≠ .unsplit i j) : movedOf op = [] := by
  cases op <;> first | rfl | exact (hu _ _ rfl).elim

theorem bind_panic_inv {α β : Type} {m : M α} {f : α → M β} {s s' : St}
    (h : (m >>= f) s = .panic s') : m s = .panic s' ∨ ∃ a s1, m s = .ok a s1 ∧ f a s1 = .panic s' := by
  simp only [bind_apply] at h
  cases hm : m s with
  | ok a s1 => rw [hm] at h; exact .inr ⟨a, s1, rfl, h⟩
  | panic s1 => rw [hm] at h; cases h; exact .inl rfl
  | ub w s1 => rw [hm] at h; cases h

/-- `from_owner` whose `as_ref` panics: the fresh owner is created and dropped again -/
theorem fromOwner_panic_shape (cfg : Cfg) (e : Env) {s s' : St} (bs : List Byte)
    (hp : Core.step cfg e (.fromOwner bs true) s = .panic s') :
    s'.hs = s.hs ∧ ∀ (r : Nat) (rg : Region), s.regions[r]? = some rg →
      ∃ rg' : Region, s'.regions[r]? = some rg' ∧ rg'.size = rg.size := by
  simp only [Core.step, if_true] at hp
  rcases bind_panic_inv hp with h | ⟨s0, s1, h1, hp⟩
  · cases h
  cases h1
  rcases bind_panic_inv hp with h | ⟨u, s2, h2, hp⟩
  · cases h
  have f2 : Fr s s2 := by cases h2; exact ⟨NC.of_same rfl rfl, rfl⟩
  rcases bind_panic_inv hp with h | ⟨c, s3, h3, hp⟩
  · cases h
  have f3 := FrM_newCtrl _ _ _ _ _ h3
  rcases bind_panic_inv hp with h | ⟨u', s4, h4, hp⟩
  · cases h
  have f4 := FrM_emit (ev := .ownerAsRef s.owners) (by intro r z h; cases h) _ _ _ h4
  rcases bind_panic_inv hp with h | ⟨u'', s5, h5, hp⟩
  · exact (NoP_releaseCtrl c _ _ h).elim
  have f5 := FrM_releaseCtrl c _ _ _ h5
  cases hp
  have f := ((f2.trans f3).trans f4).trans f5
  refine ⟨f.2, fun r rg hr => ?_⟩
  obtain ⟨rg', h6, _, h7⟩ := f.1.2 r rg hr
  exact ⟨rg', h6, h7⟩



theorem sizes_refl (s : St) : ∀ (r : Nat) (rg : Region), s.regions[r]? = some rg →
    ∃ rg' : Region, s.regions[r]? = some rg' ∧ rg'.size = rg.size := fun r rg h => ⟨rg, h, rfl⟩

theorem oo_tryReclaim (cfg : Cfg) (e : Env) {s s' : St} (hw : WFx s) (hw' : WFx s') {i n : Nat} {v : Val}
    {arc reg : Option Nat} {off len cap orig : Nat}
    (hi : s.hs[i]? = some (some (.mut arc reg off len cap orig)))
    (hs : Core.step cfg e (.tryReclaim i n) s = .ok v s') : OO (.tryReclaim i n) v s s' = none := by
  have hI := hw.inv
  have hsound := step_sound cfg e (.tryReclaim i n) s hw trivial
  unfold StepOKx at hsound
  rw [hs] at hsound
  have habs : abs s' = abs s := hsound.2
  have hs2 := hs
  simp only [Core.step, bind_apply, getHandle_eq hi] at hs2
  by_cases hadd : n ≤ cap - len
  · simp only [if_pos hadd, ite_apply', pure_apply, R.ok.injEq] at hs2
    obtain ⟨rfl, rfl⟩ := hs2
    exact opOracle_tryReclaim_true (findObs_live' hi) (findObs_live' hi)
      (by simpa [obs_cap, obs_len, hcapO, hlen] using hadd) rfl rfl (a1alloc_false (NoAllocStep.same rfl))
  · simp only [if_neg hadd, ite_apply', bind_apply] at hs2
    rcases PropC08.mri_false hI cfg e hi n with h1 | ⟨R1, off', cap', h1, hle⟩
    · simp only [h1, setHandle_apply, pure_apply, R.ok.injEq] at hs2
      obtain ⟨rfl, rfl⟩ := hs2
      apply opOracle_tryReclaim_false
      apply sameObs_of_eq
      simp only [set_self hi]
    · simp only [h1, setHandle_apply, pure_apply, R.ok.injEq] at hs2
      obtain ⟨rfl, rfl⟩ := hs2
      have hx' : (s.hs.set i (some (.mut arc reg off' len cap' orig)))[i]? =
          some (some (.mut arc reg off' len cap' orig)) := lookup_set_eq _ hi
      obtain ⟨hview, _⟩ := view_of_abs hi (s' := ⟨R1, s.ctrls, s.hs.set i (some (.mut arc reg off' len cap' orig)), s.owners, s.events⟩)
        hx' (by rw [habs]) hI hw'.inv
      exact opOracle_tryReclaim_true (findObs_live' hi) (findObs_live' hx')
        (by simpa [obs_cap, obs_len, hcapO, hlen] using hle) (by simp [obs_len, hlen])
        (contents_eq_of_view hview).symm (a1alloc_false (NoAllocStep.same rfl))

/-- **`opOracle` is sound, panic branch** (C13): what the model does when a well-typed call panics
satisfies the oracle's "everything intact" check. -/
theorem opOracle_panic_sound (cfg : Cfg) (e : Env) (op : Op) (s s' : St) (hw : WFx s) (ho : OpOK op)
    (ht : Typed op s) (hp : Core.step cfg e op s = .panic s') :
    opOracle op .panic (obsOfModel s) (obsOfModel s') (evsOfModel s s') false = none := by
  have hI := hw.inv
  have hsound := step_sound cfg e op s hw ho
  unfold StepOKx at hsound
  rw [hp] at hsound
  obtain ⟨hw', habs⟩ := hsound
  have hI' := hw'.inv
  by_cases hu : ∃ i j, op = .unsplit i j
  · obtain ⟨i, j, rfl⟩ := hu
    simp only [Typed, typedB, Bool.and_eq_true, bne_iff_ne, ne_eq, beq_iff_eq] at ht
    obtain ⟨⟨hij, hki⟩, hkj⟩ := ht
    obtain ⟨x, hi, hkx⟩ := kindAt_some hki
    obtain ⟨y, hj, hky⟩ := kindAt_some hkj
    obtain ⟨arc, reg, off, len, cap, orig, rfl⟩ := kindOf_mut hkx
    obtain ⟨oarc, oreg, ooff, olen, ocap, oorig, rfl⟩ := kindOf_mut hky
    obtain ⟨R', C', ev, rfl, _, hview, hsize⟩ := unsplit_panic_shape cfg e hI hij hi hj hp
    apply opOracle_panic_none
    · intro o ho
      obtain ⟨k, b, hk, rfl⟩ := mem_obsOfModel.mp ho
      rw [obsOfHandle_id]
      by_cases hkj : k = j
      · left; simp [movedOf, hkj]
      · right
        exact sameObs_of_frame hI hI' hk (by simp only; rw [lookup_set_ne _ (Ne.symm hkj)]; exact hk)
          (hview k b hkj hk) hsize
    · left
      simp only [movedOf, List.length_singleton, length_obsOfModel]
      exact length_liveHs_kill hj
  · have hu' : ∀ i j, op ≠ .unsplit i j := fun i j h => hu ⟨i, j, h⟩
    by_cases hf : ∃ bs, op = .fromOwner bs true
    · obtain ⟨bs, rfl⟩ := hf
      obtain ⟨hhs, hsize⟩ := fromOwner_panic_shape cfg e bs hp
      apply opOracle_panic_none
      · intro o ho
        obtain ⟨k, b, hk, rfl⟩ := mem_obsOfModel.mp ho
        rw [obsOfHandle_id]
        right
        have hk' : s'.hs[k]? = some (some b) := by rw [hhs]; exact hk
        have habs' : abs s' = abs s := habs
        obtain ⟨hview, _⟩ := view_of_abs hk hk' (by rw [habs']) hI hI'
        exact sameObs_of_frame hI hI' hk hk' hview hsize
      · right; rfl
    · have hf' : ∀ bs, op ≠ .fromOwner bs true := fun bs h => hf ⟨bs, h⟩
      have : s' = s := panic_state cfg e hI ht hu' hf' s' hp
      subst this
      apply opOracle_panic_none
      · intro o ho; right; exact sameObs_of_eq rfl
      · left; rw [movedOf_nil hu']; rfl



/-- **`opOracle` is sound, normal returns** (C07 zero-copy, C04 reserve / try_reclaim promises): what
the model does on a well-typed call that returns satisfies every per-operation predicate. -/
theorem opOracle_ok_sound (cfg : Cfg) (e : Env) (op : Op) (s s' : St) (v : Val) (hw : WFx s) (ho : OpOK op)
    (ht : Typed op s) (hs : Core.step cfg e op s = .ok v s') :
    opOracle op (.ok v) (obsOfModel s) (obsOfModel s') (evsOfModel s s') false = none := by
  have hsound := step_sound cfg e op s hw ho
  unfold StepOKx at hsound
  rw [hs] at hsound
  have hw' : WFx s' := hsound.1
  unfold Typed typedB at ht
  cases op with
  | fromStatic bs => cases v <;> rfl
  | newVec bs cap => cases v <;> rfl
  | copyFromSlice bs => cases v <;> rfl
  | fromOwner bs p => cases v <;> rfl
  | mutWithCapacity cap => cases v <;> rfl
  | mutFromSlice bs => cases v <;> rfl
  | mutZeroed n => cases v <;> rfl
  | isUnique i => cases v <;> rfl
  | intoVec i => cases v <;> rfl
  | extend i bs => cases v <;> rfl
  | resize i n b => cases v <;> rfl
  | setByte i k b => cases v <;> rfl
  | fillSpare i b => cases v <;> rfl
  | drop i => cases v <;> rfl
  | fromVec i =>
    simp only [beq_iff_eq] at ht
    obtain ⟨x, hi, hk⟩ := kindAt_some ht
    exact oo_fromVec cfg e hw hw' hi hs
  | clone i =>
    obtain ⟨x, hi⟩ := kindAt_isSome ht
    exact oo_clone cfg e hw hw' hi hs
  | slice i lo hi' =>
    simp only [beq_iff_eq] at ht
    obtain ⟨x, hi, hk⟩ := kindAt_some ht
    exact oo_slice cfg e hw hw' hi hs
  | splitOff i k =>
    simp only [Bool.or_eq_true, beq_iff_eq] at ht
    rcases ht with ht | ht <;>
    · obtain ⟨x, hi, hk⟩ := kindAt_some ht
      exact oo_splitOff cfg e hw hw' hi hs
  | splitTo i k =>
    simp only [Bool.or_eq_true, beq_iff_eq] at ht
    rcases ht with ht | ht <;>
    · obtain ⟨x, hi, hk⟩ := kindAt_some ht
      exact oo_splitTo cfg e hw hw' hi hs
  | split i =>
    simp only [beq_iff_eq] at ht
    obtain ⟨x, hi, hk⟩ := kindAt_some ht
    obtain ⟨arc, reg, off, len, cap, orig, rfl⟩ := kindOf_mut hk
    exact oo_split cfg e hw hw' hi hs
  | truncate i n =>
    obtain ⟨x, hi⟩ := kindAt_isSome ht
    exact oo_truncate cfg e hw' hi hs
  | clear i =>
    obtain ⟨x, hi⟩ := kindAt_isSome ht
    exact oo_clear cfg e hw' hi hs
  | advance i n =>
    simp only [Bool.or_eq_true, beq_iff_eq] at ht
    rcases ht with ht | ht <;>
    · obtain ⟨x, hi, hk⟩ := kindAt_some ht
      exact oo_advance cfg e hw hw' hi hs
  | tryIntoMut i =>
    simp only [beq_iff_eq] at ht
    obtain ⟨x, hi, hk⟩ := kindAt_some ht
    obtain ⟨repr, reg, off, len, rfl⟩ := kindOf_bytes hk
    exact oo_tryIntoMut cfg e hw hw' hi hs
  | intoMut i =>
    simp only [beq_iff_eq] at ht
    obtain ⟨x, hi, hk⟩ := kindAt_some ht
    obtain ⟨repr, reg, off, len, rfl⟩ := kindOf_bytes hk
    exact oo_intoMut cfg e hw hw' hi hs
  | freeze i =>
    simp only [beq_iff_eq] at ht
    obtain ⟨x, hi, hk⟩ := kindAt_some ht
    exact oo_freeze cfg e hw hw' hi hs
  | reserve i n =>
    simp only [beq_iff_eq] at ht
    obtain ⟨x, hi, hk⟩ := kindAt_some ht
    obtain ⟨arc, reg, off, len, cap, orig, rfl⟩ := kindOf_mut hk
    exact oo_reserve cfg e hw hw' hi hs
  | tryReclaim i n =>
    simp only [beq_iff_eq] at ht
    obtain ⟨x, hi, hk⟩ := kindAt_some ht
    obtain ⟨arc, reg, off, len, cap, orig, rfl⟩ := kindOf_mut hk
    exact oo_tryReclaim cfg e hw hw' hi hs
  | unsplit i j =>
    simp only [Bool.and_eq_true, bne_iff_ne, ne_eq, beq_iff_eq] at ht
    obtain ⟨⟨hij, hki⟩, hkj⟩ := ht
    obtain ⟨x, hi, hkx⟩ := kindAt_some hki
    obtain ⟨y, hj, hky⟩ := kindAt_some hkj
    obtain ⟨arc, reg, off, len, cap, orig, rfl⟩ := kindOf_mut hkx
    obtain ⟨oarc, oreg, ooff, olen, ocap, oorig, rfl⟩ := kindOf_mut hky
    exact oo_unsplit cfg e hw hw' hij hi hj hs

/-- **`opOracle` is sound** (pack = false): whatever the model does on a well-typed call, the
per-operation oracle is silent. -/
theorem opOracle_sound (cfg : Cfg) (e : Env) (op : Op) (s : St) (hw : WFx s) (ho : OpOK op) (ht : Typed op s) :
    match Core.step cfg e op s with
    | .ok v s' => opOracle op (.ok v) (obsOfModel s) (obsOfModel s') (evsOfModel s s') false = none
    | .panic s' => opOracle op .panic (obsOfModel s) (obsOfModel s') (evsOfModel s s') false = none
    | .ub _ _ => False := by
  cases hst : Core.step cfg e op s with
  | ok v s' => exact opOracle_ok_sound cfg e op s s' v hw ho ht hst
  | panic s' => exact opOracle_panic_sound cfg e op s s' hw ho ht hst
  | ub w s' =>
    have hs := step_sound cfg e op s hw ho
    unfold StepOKx at hs; rw [hst] at hs; exact hs



/-! ## `uniqOracle` -/

/-- somebody else names control block `c` when its count is not 1 -/
theorem other_referrer {s : St} (hI : Inv s) {i : Nat} {h : Handle} {c : Nat}
    (hi : s.hs[i]? = some (some h)) (hc : ctrlOf h = some c) (hne : refCountL s.hs c ≠ 1) :
    ∃ j b, j ≠ i ∧ s.hs[j]? = some (some b) ∧ ctrlOf b = some c := by
  have h1 := refCountL_pos_of hi hc
  have h2 := refCountL_kill c hi
  simp only [hc, if_true] at h2
  have h3 : refCountL (s.hs.set i none) c ≠ 0 := by omega
  rw [Ne, refCountL_eq_zero] at h3
  apply Classical.byContradiction
  intro hcon
  apply h3
  intro j b hj hcb
  by_cases hji : j = i
  · subst hji
    rw [lookup_set_eq _ hi] at hj; cases hj
  · rw [lookup_set_ne _ (Ne.symm hji)] at hj
    exact hcon ⟨j, b, hji, hj, hcb⟩

/-- a handle that can touch memory is anchored in the block the harness reports for it -/
theorem anchor_of_blk {s : St} (hI : Inv s) {j : Nat} {b : Handle} (hj : s.hs[j]? = some (some b))
    (hne : (obsOfHandle s j b).len > 0 ∨ ((obsOfHandle s j b).cap.getD 0) > 0) {r o z : Nat}
    (hb : (obsOfHandle s j b).blk = some (r, o, z)) : Anchor s.regions s.ctrls b r := by
  rw [obs_len, obs_cap] at hne
  rw [obs_blk] at hb
  split at hb
  · cases hb
  obtain ⟨h1, _, _⟩ := locate_eq_some hb
  have hok := hI.hok j b hj
  cases b with
  | bytes repr reg off len =>
    simp only [hlen, hcapO, Option.getD_none, Nat.lt_irrefl, or_false] at hne
    simp only [hreg] at h1; subst h1
    exact hI.anchor_span (r := r) (o := off) (l := len) hj rfl (by omega)
  | «mut» arc reg off len cap orig =>
    simp only [hlen, hcapO, Option.getD_some] at hne
    simp only [hreg] at h1; subst h1
    have hlc : len ≤ cap := by
      cases arc with
      | none => exact (handleOKL_mutV.mp hok).1
      | some c => exact (handleOKL_mutA.mp hok).1
    exact hI.anchor_span (r := r) (o := off) (l := cap) hj rfl (by omega)
  | vec reg len cap =>
    simp only [hlen, hcapO, Option.getD_some] at hne
    simp only [hreg] at h1; subst h1
    have hlc : len ≤ cap := (handleOKL_vec.mp hok).1
    exact hI.anchor_span (r := r) (o := 0) (l := cap) hj rfl (by omega)

/-- a `Bytes` that is reported unique is alone in its block -/
theorem unique_alone {s : St} (hI : Inv s) {i j : Nat} {repr : BRepr} {reg : Option Nat} {off len : Nat}
    {b : Handle} (hi : s.hs[i]? = some (some (.bytes repr reg off len)))
    (hu : PropC08.uniqueB s repr = true) (hji : j ≠ i) (hj : s.hs[j]? = some (some b)) {r : Nat}
    (hr : reg = some r) : ¬ Anchor s.regions s.ctrls b r := by
  have hok := hI.hok i _ hi
  subst hr
  have viaCtrl : ∀ c, ctrlOf (.bytes repr (some r) off len) = some c → refCount s c = 1 →
      (∃ e, s.ctrls[c]? = some e ∧ e.live = true ∧ ctrlRegion e.c = some r) →
      ¬ Anchor s.regions s.ctrls b r := by
    intro c hc h1 ⟨e, he, hl, hcr⟩
    obtain ⟨hrc, _, _⟩ := hI.cok c e he hl
    exact hI.alone_ctrl hi hc he hl (by rw [hrc, ← refCount_eq]; exact h1) hcr hji hj
  cases repr with
  | «static» => simp [PropC08.uniqueB] at hu
  | owned c => simp [PropC08.uniqueB] at hu
  | shared c =>
    obtain ⟨⟨r', cap, h1, h2, _⟩, _⟩ := handleOKL_shared.mp hok
    cases h2
    obtain ⟨e, he, hl, hc⟩ := liveCtrlL_some_iff.mp h1
    exact viaCtrl c rfl (by simpa [PropC08.uniqueB] using hu) ⟨e, he, hl, by rw [hc]; rfl⟩
  | sharedV c =>
    obtain ⟨⟨vlen, vcap, vorig, h1, _⟩, _⟩ := handleOKL_sharedV.mp hok
    obtain ⟨e, he, hl, hc⟩ := liveCtrlL_some_iff.mp h1
    exact viaCtrl c rfl (by simpa [PropC08.uniqueB] using hu) ⟨e, he, hl, by rw [hc]; rfl⟩
  | prom vt oc =>
    cases oc with
    | none => exact hI.alone_direct hi rfl hji hj
    | some c =>
      obtain ⟨⟨r', cap, h1, h2, _⟩, _⟩ := handleOKL_promA.mp hok
      cases h2
      obtain ⟨e, he, hl, hc⟩ := liveCtrlL_some_iff.mp h1
      exact viaCtrl c rfl (by simpa [PropC08.uniqueB] using hu) ⟨e, he, hl, by rw [hc]; rfl⟩

theorem obs_uniq_bytes {s : St} (hI : Inv s) {i : Nat} {repr : BRepr} {reg : Option Nat} {off len : Nat}
    (hi : s.hs[i]? = some (some (.bytes repr reg off len))) :
    (obsOfHandle s i (.bytes repr reg off len)).uniq = some (PropC08.uniqueB s repr) := by
  simp only [obsOfHandle, PropC08.bytesIsUnique_eq hI hi]

/-- **`uniqOracle` is sound**: on every well-formed model state, `is_unique` as the model answers it
is consistent with who refers to and who shares the storage. -/
theorem uniqOracle_sound (s : St) (hw : WFx s) : uniqOracle s (obsOfModel s) = none := by
  have hI := hw.inv
  unfold uniqOracle
  rw [List.findSome?_eq_none_iff]
  intro o ho
  obtain ⟨i, h, hi, rfl⟩ := mem_obsOfModel.mp ho
  rw [obsOfHandle_id, hi]
  cases h with
  | «mut» arc reg off len cap orig => rfl
  | vec reg len cap => rfl
  | bytes repr reg off len =>
    rw [obs_uniq_bytes hI hi]
    simp only
    -- the two non-trivial checks, for the representations that have a control block or own their buffer
    have main : ∀ (me : Option Nat), me = ctrlOf (.bytes repr reg off len) →
        (PropC08.uniqueB s repr = false → ∃ c, me = some c ∧ refCountL s.hs c ≠ 1) →
        (if (((s.hs.zipIdx).filter fun (oh, j) => j != i &&
              (match oh with | some h => me.isSome && ctrlOf h == me | none => false)).isEmpty &&
            ((obsOfModel s).filter fun p => p.id != i && (p.len > 0 || (p.cap.getD 0) > 0) &&
              (match p.blk, (obsOfHandle s i (.bytes repr reg off len)).blk with
               | some (a, _, _), some (b, _, _) => a == b | _, _ => false)).isEmpty &&
            !PropC08.uniqueB s repr) = true
          then some ("C08", s!"handle {i}: is_unique false although no other handle refers to the storage")
          else if (PropC08.uniqueB s repr &&
            !((obsOfModel s).filter fun p => p.id != i && (p.len > 0 || (p.cap.getD 0) > 0) &&
              (match p.blk, (obsOfHandle s i (.bytes repr reg off len)).blk with
               | some (a, _, _), some (b, _, _) => a == b | _, _ => false)).isEmpty) = true
          then some ("C08", s!"handle {i}: is_unique true although another non-empty handle shares the storage")
          else none) = none := by
      intro me hme hfalse
      cases hu : PropC08.uniqueB s repr with
      | false =>
        obtain ⟨c, hmec, hne⟩ := hfalse hu
        obtain ⟨j, b, hji, hj, hcb⟩ := other_referrer hI hi (by rw [← hme, hmec]) hne
        have hmem : (some b, j) ∈ (s.hs.zipIdx).filter fun (oh, j) => j != i &&
            (match oh with | some h => me.isSome && ctrlOf h == me | none => false) := by
          rw [List.mem_filter]
          refine ⟨List.mem_zipIdx_iff_getElem?.mpr hj, ?_⟩
          simp [hji, hmec, hcb]
        have hne' : ((s.hs.zipIdx).filter fun (oh, j) => j != i &&
            (match oh with | some h => me.isSome && ctrlOf h == me | none => false)).isEmpty = false := by
          cases hl : (s.hs.zipIdx).filter fun (oh, j) => j != i &&
            (match oh with | some h => me.isSome && ctrlOf h == me | none => false) with
          | nil => rw [hl] at hmem; cases hmem
          | cons a l => rfl
        simp [hne']
      | true =>
        have hsh : ((obsOfModel s).filter fun p => p.id != i && (p.len > 0 || (p.cap.getD 0) > 0) &&
              (match p.blk, (obsOfHandle s i (.bytes repr reg off len)).blk with
               | some (a, _, _), some (b, _, _) => a == b | _, _ => false)) = [] := by
          rw [List.filter_eq_nil_iff]
          intro p hp hcond
          obtain ⟨j, b, hj, rfl⟩ := mem_obsOfModel.mp hp
          simp only [Bool.and_eq_true, bne_iff_ne, ne_eq, obsOfHandle_id, Bool.or_eq_true,
            decide_eq_true_eq] at hcond
          obtain ⟨⟨hji, hne⟩, hblk⟩ := hcond
          cases hpb : (obsOfHandle s j b).blk with
          | none => rw [hpb] at hblk; simp at hblk
          | some pb =>
            obtain ⟨r, o, z⟩ := pb
            cases hob : (obsOfHandle s i (.bytes repr reg off len)).blk with
            | none => rw [hpb, hob] at hblk; simp at hblk
            | some ob =>
              obtain ⟨r', o', z'⟩ := ob
              rw [hpb, hob] at hblk
              simp only [beq_iff_eq] at hblk
              subst hblk
              have hanc := anchor_of_blk hI hj hne hpb
              rw [obs_blk, if_neg (by simp [kindOf])] at hob
              obtain ⟨hr, _, _⟩ := locate_eq_some hob
              exact unique_alone hI hi hu hji hj hr hanc
        simp [hsh]
    cases repr with
    | «static» => simp [PropC08.uniqueB]
    | owned c => simp [PropC08.uniqueB]
    | shared c =>
      exact main _ rfl fun hu => ⟨c, rfl, by simpa [PropC08.uniqueB, refCount_eq] using hu⟩
    | sharedV c =>
      exact main _ rfl fun hu => ⟨c, rfl, by simpa [PropC08.uniqueB, refCount_eq] using hu⟩
    | prom vt oc =>
      cases oc with
      | none => exact main _ rfl fun hu => by simp [PropC08.uniqueB] at hu
      | some c =>
        exact main _ rfl fun hu => ⟨c, rfl, by simpa [PropC08.uniqueB, refCount_eq] using hu⟩



/-! ## `boundsOracle` -/

theorem extent_eq (s : St) (i : Nat) (h : Handle) :
    (obsOfHandle s i h).cap.getD (obsOfHandle s i h).len = extent h := by
  rw [obs_cap, obs_len]; rfl

theorem obs_wild (s : St) (i : Nat) (h : Handle) :
    (obsOfHandle s i h).wild = (extent h != 0 && (obsOfHandle s i h).blk.isNone) := by
  cases h with
  | bytes repr reg off len => rfl
  | «mut» arc reg off len cap orig => rfl
  | vec reg len cap =>
    simp only [obsOfHandle, extent, hcapO, Option.getD_some]

/-- the span of a handle, read off its observation -/
theorem span_of_blk {s : St} {i : Nat} {h : Handle} {r o z : Nat}
    (hb : (obsOfHandle s i h).blk = some (r, o, z)) :
    span h = some (r, o, if kindOf h = .bytes then hlen h else (hcapO h).getD 0) := by
  rw [obs_blk] at hb
  split at hb
  · cases hb
  obtain ⟨h1, h2, _⟩ := locate_eq_some hb
  cases h with
  | bytes repr reg off len => simp only [hreg, hoff] at h1 h2; subst h1 h2; rfl
  | «mut» arc reg off len cap orig => simp only [hreg, hoff] at h1 h2; subst h1 h2; rfl
  | vec reg len cap => simp only [hreg, hoff] at h1 h2; subst h1 h2; rfl

theorem bounds_ok_elem {s : St} (hI : Inv s) {o : Obs} (ho : o ∈ obsOfModel s) :
    (o.wild || match o.blk with
      | some (_, off, bsize) => decide (off + (o.cap.getD o.len) > bsize)
      | none => (o.cap.getD o.len) != 0) = false := by
  obtain ⟨i, h, hi, rfl⟩ := mem_obsOfModel.mp ho
  rw [obs_wild, extent_eq]
  by_cases he : extent h = 0
  · simp only [he, bne_self_eq_false, Bool.false_and, Bool.false_or]
    cases hb : (obsOfHandle s i h).blk with
    | none => simp
    | some b =>
      obtain ⟨r, o, z⟩ := b
      rw [obs_blk] at hb
      split at hb
      · cases hb
      obtain ⟨_, _, rg, _, _, h5, h6⟩ := locate_eq_some hb
      simp; omega
  · obtain ⟨r, z, h1, h2, h3⟩ := located_of_inv hI hi he
    have hb : (obsOfHandle s i h).blk = some (r, hoff h, z) := by
      rw [obs_blk, if_neg (fun hh => he hh.2), h2]
    rw [hb]
    simp; omega

theorem clash_none_elem {s : St} (hI : Inv s) {m o : Obs} (hm : m ∈ obsOfModel s)
    (hmk : (m.kind != .bytes) = true) (ho : o ∈ obsOfModel s) :
    (if o.id == m.id then none else
      match m.blk, o.blk with
      | some (sm, om, _), some (so, oo, _) =>
        if sm == so && !rangesDisjoint om (m.cap.getD 0) oo (if o.kind == .bytes then o.len else o.cap.getD 0)
          then some (m.id, o.id) else none
      | _, _ => none) = none := by
  obtain ⟨i, a, hi, rfl⟩ := mem_obsOfModel.mp hm
  obtain ⟨j, b, hj, rfl⟩ := mem_obsOfModel.mp ho
  simp only [obsOfHandle_id]
  split
  · rfl
  · next hne =>
    have hji : j ≠ i := by simpa using hne
    split
    · next sm om zm so oo zo hbm hbo =>
      have hka : ¬ kindOf a = .bytes := by
        rw [obs_kind] at hmk; simpa using hmk
      have hmut : isMutable a = true := by
        cases a with
        | bytes repr reg off len => exact (hka rfl).elim
        | «mut» arc reg off len cap orig => rfl
        | vec reg len cap => rfl
      have hd := disjointB_iff.mp (hI.excl i j a b hi hj (Ne.symm hji) hmut) _ _ _ _ _ _
        (span_of_blk hbm) (span_of_blk hbo)
      simp only [if_neg hka] at hd
      simp only [obs_kind, obs_cap, obs_len, rangesDisjoint]
      by_cases hkb : kindOf b = .bytes
      · have hkb' : (kindOf b == Kind.bytes) = true := by simp [hkb]
        simp only [if_pos hkb] at hd
        simp only [hkb', if_true]
        rw [if_neg]
        simp only [Bool.and_eq_true, beq_iff_eq, Bool.not_eq_true', Bool.or_eq_false_iff,
          decide_eq_false_iff_not, beq_eq_false_iff_ne, ne_eq]
        rintro ⟨hs, ⟨⟨h1, h2⟩, h3⟩, h4⟩
        omega
      · have hkb' : (kindOf b == Kind.bytes) = false := by simpa using hkb
        simp only [if_neg hkb] at hd
        simp only [hkb', Bool.false_eq_true, if_false]
        rw [if_neg]
        simp only [Bool.and_eq_true, beq_iff_eq, Bool.not_eq_true', Bool.or_eq_false_iff,
          decide_eq_false_iff_not, beq_eq_false_iff_ne, ne_eq]
        rintro ⟨hs, ⟨⟨h1, h2⟩, h3⟩, h4⟩
        omega
    · rfl

/-- **`boundsOracle` is sound**: on every well-formed model state each handle's range lies inside
one live block and the ranges of mutable handles are exclusive. -/
theorem boundsOracle_sound (s : St) (hw : WFx s) : boundsOracle (obsOfModel s) = none := by
  have hI := hw.inv
  unfold boundsOracle
  simp only []
  split
  · next o heq =>
    have h1 := List.find?_some heq
    have h2 := bounds_ok_elem hI (List.mem_of_find?_eq_some heq)
    exact absurd (h1.symm.trans h2) (by simp)
  · split
    · next a b heq =>
      obtain ⟨m, hm, hf⟩ := List.exists_of_findSome?_eq_some heq
      obtain ⟨o, ho, hg⟩ := List.exists_of_findSome?_eq_some hf
      rw [List.mem_filter] at hm
      have := clash_none_elem hI hm.1 hm.2 ho
      exact absurd (hg.symm.trans this) (by simp)
    · rfl

/-- the handle invariant: a `BytesMut` / `Vec` never holds more bytes than its capacity -/
theorem hlen_le_hcap {s : St} (hI : Inv s) {i : Nat} {h : Handle} (hi : s.hs[i]? = some (some h))
    {c : Nat} (hc : hcapO h = some c) : hlen h ≤ c := by
  have hok := hI.hok i _ hi
  cases h with
  | bytes repr reg off len => cases hc
  | «mut» arc reg off len cap orig =>
    cases hc
    cases arc with
    | none => exact (handleOKL_mutV.mp hok).1
    | some a => exact (handleOKL_mutA.mp hok).1
  | vec reg len cap =>
    cases hc
    exact (handleOKL_vec.mp hok).1

theorem lenCap_ok_elem {s : St} (hI : Inv s) {o : Obs} (ho : o ∈ obsOfModel s) :
    (match o.cap with | some c => decide (o.len > c) | none => false) = false := by
  obtain ⟨i, h, hi, rfl⟩ := mem_obsOfModel.mp ho
  rw [obs_cap, obs_len]
  cases hc : hcapO h with
  | none => rfl
  | some c =>
    have := hlen_le_hcap hI hi hc
    simp only [decide_eq_false_iff_not]
    omega

/-- **`lenCapOracle` is sound**: on every well-formed model state no handle reports a length above
its capacity (`Bytes` reports no capacity; for `BytesMut` / `Vec` this is the handle invariant
`len ≤ cap` that `boundsOracle_sound` also rests on). -/
theorem lenCapOracle_sound {s : St} (h : WFx s) : lenCapOracle (obsOfModel s) = none := by
  have hI := h.inv
  unfold lenCapOracle
  split
  · next o heq =>
    have h1 := List.find?_some heq
    have h2 := lenCap_ok_elem hI (List.mem_of_find?_eq_some heq)
    exact absurd (h1.symm.trans h2) (by simp)
  · rfl



/-! ## `frameOracle` -/

/-- the handles `frameOracle` exempts -/
def involvedOf : Op → List Nat
  | .clone _ | .slice .. | .isUnique _ | .fromStatic _ | .copyFromSlice _ | .newVec .. | .fromOwner ..
  | .mutWithCapacity _ | .mutFromSlice _ | .mutZeroed _ => []
  | .unsplit i j => [i, j]
  | .fromVec i | .splitOff i _ | .splitTo i _ | .split i | .truncate i _ | .clear i | .advance i _
  | .tryIntoMut i | .intoMut i | .intoVec i | .freeze i | .reserve i _ | .tryReclaim i _ | .extend i _
  | .resize i _ _ | .setByte i _ _ | .fillSpare i _ | .drop i => [i]

theorem touched_sub_involved (op : Op) (k : Nat) (h : k ∉ involvedOf op) : k ∉ PropC01.touched op := by
  cases op <;> simp_all [involvedOf, PropC01.touched]

/-- a slot whose abstract value is unchanged shows the same contents and length -/
theorem obs_frame {s s' : St} (hI : Inv s) (hI' : Inv s') {k : Nat} {b : Handle}
    (hk : s.hs[k]? = some (some b))
    (h : ∀ x, Spec.get (abs s) k = some x → Spec.get (abs s') k = some x) :
    ∃ p, findObs (obsOfModel s') k = some p ∧ p.contents = (obsOfHandle s k b).contents ∧
      p.len = (obsOfHandle s k b).len := by
  obtain ⟨v, hv, hvl⟩ := hI.view hk
  have hx : Spec.get (abs s) k = some ⟨kindOf b, v⟩ := by rw [abs_eq]; exact Spec_get_absL hk hv
  have hx' := h _ hx
  rw [abs_eq] at hx'
  obtain ⟨b', hk', _⟩ := OpsD.Spec_get_absL_inv hx'
  obtain ⟨v', hv', hvl'⟩ := hI'.view hk'
  rw [Spec_get_absL hk' hv'] at hx'
  simp only [Option.some.injEq, SH.mk.injEq] at hx'
  obtain ⟨_, rfl⟩ := hx'
  refine ⟨_, findObs_live' hk', ?_, ?_⟩
  · rw [obs_contents, obs_contents, hv, hv']
  · rw [obs_len, obs_len, ← hvl, ← hvl']

/-- **`frameOracle` is sound**: the handles an operation does not involve show the same contents
and length afterwards, whether the call returns or panics. -/
theorem frameOracle_sound (cfg : Cfg) (e : Env) (op : Op) (s : St) (hw : WFx s) (ho : OpOK op) :
    match Core.step cfg e op s with
    | .ok _ s' => frameOracle op (obsOfModel s) (obsOfModel s') = none
    | .panic s' => frameOracle op (obsOfModel s) (obsOfModel s') = none
    | .ub _ _ => False := by
  have hI := hw.inv
  have hs := step_sound cfg e op s hw ho
  unfold StepOKx at hs
  have key : ∀ s', WFx s' →
      (∀ k, k ∉ PropC01.touched op → ∀ x, Spec.get (abs s) k = some x → Spec.get (abs s') k = some x) →
      frameOracle op (obsOfModel s) (obsOfModel s') = none := by
    intro s' hw' hfr
    have hinv : ∀ o ∈ obsOfModel s, ((!(involvedOf op).contains o.id &&
        (match findObs (obsOfModel s') o.id with
          | some p => p.contents != o.contents || p.len != o.len
          | none => true)) = false) := by
      intro o hoo
      obtain ⟨k, b, hk, rfl⟩ := mem_obsOfModel.mp hoo
      rw [obsOfHandle_id]
      by_cases hin : k ∈ involvedOf op
      · simp [hin]
      · obtain ⟨p, hp, hc, hl⟩ := obs_frame hI hw'.inv hk (hfr k (touched_sub_involved op k hin))
        rw [hp]
        simp [hc, hl]
    unfold frameOracle
    simp only []
    split
    · next o heq =>
      have h1 := List.find?_some heq
      have h2 := hinv o (List.mem_of_find?_eq_some heq)
      have h3 : (!(involvedOf op).contains o.id &&
        (match findObs (obsOfModel s') o.id with
          | some p => p.contents != o.contents || p.len != o.len
          | none => true)) = true := by
        cases op <;> exact h1
      exact absurd (h3.symm.trans h2) (by simp)
    · rfl
  cases hst : Core.step cfg e op s with
  | ok v s' =>
    rw [hst] at hs
    exact key s' hs.1 fun k hk x hx => by rw [hs.2]; exact PropC01.frame_ok op v (abs s) k hk x hx
  | panic s' =>
    rw [hst] at hs
    exact key s' hs.1 fun k hk x hx => by rw [hs.2]; exact PropC01.frame_panic op (abs s) k hk x hx
  | ub w s' => rw [hst] at hs; exact hs



/-! ## the `pack` flag only weakens `opOracle` -/

theorem zc_pack {pre post : List Obs} {a1 : Bool} {src res d : Nat} {ce : Bool}
    (h : zc pre post a1 false src res d ce = none) : zc pre post a1 true src res d ce = none := by
  unfold zc at h ⊢
  cases ha : findObs pre src with
  | none => rfl
  | some a =>
    cases hb : findObs post res with
    | none => rfl
    | some b =>
      rw [ha, hb] at h
      simp only at h ⊢
      cases a1 with
      | true => simp at h
      | false =>
        simp only [Bool.false_eq_true, if_false, Bool.not_true, Bool.and_false, Bool.false_and,
          Bool.or_false] at h ⊢
        by_cases hg : (decide (b.len > 0) && a.blk.isSome) = true
        · have hg' : ((decide (b.len > 0) || (ce && !false && (decide (a.len > 0) || decide (a.cap.getD 0 > 0) ||
              a.uniq == some true))) && a.blk.isSome) = true := by
            simp only [Bool.and_eq_true, Bool.or_eq_true] at hg ⊢
            exact ⟨.inl hg.1, hg.2⟩
          rw [if_pos hg'] at h
          rw [if_pos hg]
          exact h
        · rw [if_neg hg]

theorem orElse_none {α : Type} {a b : Option α} (h : (a.orElse fun _ => b) = none) : a = none ∧ b = none := by
  cases a with
  | none => exact ⟨rfl, by simpa using h⟩
  | some x => simp at h

theorem opOracle_pack_weaker (op : Op) (out : Outc) (pre post : List Obs) (evs : List Evt)
    (h : opOracle op out pre post evs false = none) : opOracle op out pre post evs true = none := by
  cases out with
  | panic => rw [opOracle_panic] at h ⊢; exact h
  | ok v =>
    cases op with
    | clone i =>
      cases v with
      | handle j =>
        rw [opOracle_clone] at h ⊢
        split
        · next hk => rw [if_pos hk] at h; exact zc_pack h
        · rfl
      | _ => rfl
    | slice i lo hi =>
      cases v with
      | handle j => rw [opOracle_slice] at h ⊢; exact zc_pack h
      | _ => rfl
    | splitOff i k =>
      cases v with
      | handle j =>
        rw [opOracle_splitOff] at h ⊢
        obtain ⟨h1, h2⟩ := orElse_none h
        rw [zc_pack h1]; exact zc_pack h2
      | _ => rfl
    | splitTo i k =>
      cases v with
      | handle j =>
        rw [opOracle_splitTo] at h ⊢
        obtain ⟨h1, h2⟩ := orElse_none h
        rw [zc_pack h1]; exact zc_pack h2
      | _ => rfl
    | split i =>
      cases v with
      | handle j => rw [opOracle_split] at h ⊢; exact zc_pack h
      | _ => rfl
    | truncate i n =>
      rw [opOracle_truncate] at h ⊢
      split
      · next hk => rw [if_pos hk] at h; exact zc_pack h
      · rfl
    | clear i =>
      rw [opOracle_clear] at h ⊢
      split
      · next hk => rw [if_pos hk] at h; exact zc_pack h
      · rfl
    | advance i n => rw [opOracle_advance] at h ⊢; exact zc_pack h
    | freeze i => rw [opOracle_freeze] at h ⊢; exact zc_pack h
    | fromVec i => rw [opOracle_fromVec] at h ⊢; exact zc_pack h
    | tryIntoMut i =>
      cases v with
      | handle j =>
        rw [opOracle_tryIntoMut] at h ⊢
        rw [Option.map_eq_none_iff] at h ⊢
        exact zc_pack h
      | _ => rfl
    | intoMut i =>
      cases v with
      | handle j =>
        rw [opOracle_intoMut] at h ⊢
        split
        · next hk =>
          rw [if_pos hk, Option.map_eq_none_iff] at h
          rw [Option.map_eq_none_iff]
          exact zc_pack h
        · rfl
      | _ => rfl
    | unsplit i j =>
      rw [opOracle_unsplit] at h ⊢
      cases hfi : findObs pre i with
      | none => rfl
      | some a =>
        cases hfj : findObs pre j with
        | none => rfl
        | some b =>
          rw [hfi, hfj] at h
          simp only at h ⊢
          cases ha : addrOf a with
          | none => rfl
          | some pa =>
            cases hb : addrOf b with
            | none => rfl
            | some pb =>
              obtain ⟨r, o⟩ := pa
              obtain ⟨r', o'⟩ := pb
              rw [ha, hb] at h
              simp only at h ⊢
              split
              · next hc => rw [if_pos hc] at h; exact zc_pack h
              · rfl
    | reserve i n => cases v <;> exact h
    | tryReclaim i n => cases v <;> exact h
    | fromStatic bs => cases v <;> rfl
    | newVec bs cap => cases v <;> rfl
    | copyFromSlice bs => cases v <;> rfl
    | fromOwner bs p => cases v <;> rfl
    | mutWithCapacity cap => cases v <;> rfl
    | mutFromSlice bs => cases v <;> rfl
    | mutZeroed n => cases v <;> rfl
    | isUnique i => cases v <;> rfl
    | intoVec i => cases v <;> rfl
    | extend i bs => cases v <;> rfl
    | resize i n b => cases v <;> rfl
    | setByte i k b => cases v <;> rfl
    | fillSpare i b => cases v <;> rfl
    | drop i => cases v <;> rfl



/-! ## the state oracles after a step -/

/-- `boundsOracle` and `uniqOracle` are silent on the successor state of every step -/
theorem stateOracles_step_sound (cfg : Cfg) (e : Env) (op : Op) (s : St) (hw : WFx s) (ho : OpOK op) :
    match Core.step cfg e op s with
    | .ok _ s' => boundsOracle (obsOfModel s') = none ∧ uniqOracle s' (obsOfModel s') = none
    | .panic s' => boundsOracle (obsOfModel s') = none ∧ uniqOracle s' (obsOfModel s') = none
    | .ub _ _ => False := by
  have hs := step_sound cfg e op s hw ho
  unfold StepOKx at hs
  cases hst : Core.step cfg e op s with
  | ok v s' => rw [hst] at hs; exact ⟨boundsOracle_sound s' hs.1, uniqOracle_sound s' hs.1⟩
  | panic s' => rw [hst] at hs; exact ⟨boundsOracle_sound s' hs.1, uniqOracle_sound s' hs.1⟩
  | ub w s' => rw [hst] at hs; exact hs

/-- `lenCapOracle` is silent on the successor state of every step (the third state oracle the judge
evaluates together with `boundsOracle`; kept next to `stateOracles_step_sound`, whose statement is
unchanged) -/
theorem lenCapOracle_step_sound (cfg : Cfg) (e : Env) (op : Op) (s : St) (hw : WFx s) (ho : OpOK op) :
    match Core.step cfg e op s with
    | .ok _ s' => lenCapOracle (obsOfModel s') = none
    | .panic s' => lenCapOracle (obsOfModel s') = none
    | .ub _ _ => False := by
  have hs := step_sound cfg e op s hw ho
  unfold StepOKx at hs
  cases hst : Core.step cfg e op s with
  | ok v s' => rw [hst] at hs; exact lenCapOracle_sound hs.1
  | panic s' => rw [hst] at hs; exact lenCapOracle_sound hs.1
  | ub w s' => rw [hst] at hs; exact hs

/-- the state check of `judgeBlock`, `(boundsOracle obs).orElse fun _ => lenCapOracle obs`, is silent
on every well-formed model state -/
theorem boundsLenCap_sound {s : St} (h : WFx s) :
    ((boundsOracle (obsOfModel s)).orElse fun _ => lenCapOracle (obsOfModel s)) = none := by
  rw [boundsOracle_sound s h, lenCapOracle_sound h]; rfl

/-- no observed handle of a well-formed state is `wild` -/
theorem not_wild (s : St) (hw : WFx s) : ∀ o ∈ obsOfModel s, o.wild = false := by
  intro o ho
  have := bounds_ok_elem hw.inv ho
  simp only [Bool.or_eq_false_iff] at this
  exact this.1

/-! ## why `Typed` is needed (not findings about the oracles)

The model turns a call the harness can never issue (operand slot empty, or holding a handle of a type
that does not have the method) into a `panic` without effect.  The oracles, written for real traces,
do not expect such calls: -/

namespace Witness

def cfgD : Cfg := ⟨true, true⟩
def envE : Env := ⟨fun _ => false⟩

/-- the state after `Vec::new()` -/
def oneVec : St := { hs := [some (.vec none 0 0)] }

theorem oneVec_reachable : Core.step cfgD envE (.newVec [] 0) {} = .ok (.handle 0) oneVec := rfl

theorem oneVec_wfx : WFx oneVec := by
  have h := step_sound cfgD envE (.newVec [] 0) {} WFx_init trivial
  unfold StepOKx at h
  rw [oneVec_reachable] at h
  exact h.1

/-- `is_unique` "on a `Vec`": `mustPanic` says "must not panic", the model rejects the call -/
example : mustPanic (.isUnique 0) (obsOfModel oneVec) = some false := rfl
example : Core.step cfgD envE (.isUnique 0) oneVec = .panic oneVec := rfl
example : ¬ Typed (.isUnique 0) oneVec := by decide

/-- `slice(0..0)` "on a `Vec`": in range as far as `mustPanic` can see, rejected by the model -/
example : mustPanic (.slice 0 0 0) (obsOfModel oneVec) = some false := by decide
example : Core.step cfgD envE (.slice 0 0 0) oneVec = .panic oneVec := rfl

/-- `unsplit` with operands that do not exist: the panic branch of `opOracle` counts the moved
operand although nothing was moved -/
example : (opOracle (.unsplit 0 1) .panic (obsOfModel {}) (obsOfModel {}) (evsOfModel {} {}) false).isSome = true := by
  decide
example : Core.step cfgD envE (.unsplit 0 1) {} = .panic {} := rfl

end Witness


/-! ## `tryMutOracle` (C08: try_into_mut succeeds exactly when is_unique is true) -/

theorem tryMutOracle_other {op : Op} (h : ∀ i, op ≠ .tryIntoMut i) (out : Outc) (pre : List Obs) :
    tryMutOracle op out pre = none := by
  cases op <;> first | rfl | exact absurd rfl (h _)

/-- **`tryMutOracle` is sound**: in the model `try_into_mut` succeeds exactly when `is_unique`, asked
on the same handle in the state before the call, answers true. -/
theorem tryMutOracle_sound (cfg : Cfg) (e : Env) (op : Op) (s : St) :
    match Core.step cfg e op s with
    | .ok v _ => tryMutOracle op (.ok v) (obsOfModel s) = none
    | .panic _ => tryMutOracle op .panic (obsOfModel s) = none
    | .ub _ _ => True := by
  cases hst : Core.step cfg e op s with
  | ub w s' => trivial
  | panic s' => cases op <;> rfl
  | ok v s' =>
    show tryMutOracle op (.ok v) (obsOfModel s) = none
    by_cases hop : ∃ i, op = .tryIntoMut i
    · obtain ⟨i, rfl⟩ := hop
      rcases getHandle_cases s i with ⟨h, hi, hg⟩ | ⟨_, hg⟩
      · simp only [Core.step, bind_apply, hg] at hst
        have hobs : (findObs (obsOfModel s) i).bind (·.uniq) =
            (match bytesIsUnique h s with | .ok b _ => some b | _ => none) := by
          rw [findObs_live hi]
          cases h <;> rfl
        cases hu : bytesIsUnique h s with
        | ok b s1 =>
          rw [hu] at hst hobs
          cases b with
          | true =>
            simp only [if_true, bind_apply] at hst
            cases hm : bytesIntoMut cfg e h s1 with
            | ok m s2 =>
              rw [hm] at hst
              simp only [setHandle_apply, pure_apply, R.ok.injEq] at hst
              obtain ⟨rfl, _⟩ := hst
              simp only [tryMutOracle, hobs]
            | panic s2 => rw [hm] at hst; cases hst
            | ub w s2 => rw [hm] at hst; cases hst
          | false =>
            simp only [pure_apply, R.ok.injEq, Bool.false_eq_true, if_false] at hst
            obtain ⟨rfl, _⟩ := hst
            simp only [tryMutOracle, hobs]
        | panic s1 => rw [hu] at hst; cases hst
        | ub w s1 => rw [hu] at hst; cases hst
      · simp only [Core.step, bind_apply, hg] at hst; cases hst
    · exact tryMutOracle_other (fun i hi => hop ⟨i, hi⟩) _ _


/-- the oracle is not vacuous: it fires on a success after `is_unique = false` and on a refusal after
`is_unique = true` -/
example : (tryMutOracle (.tryIntoMut 0) (.ok (.handle 0))
    [{ id := 0, kind := .bytes, blk := none, wild := false, len := 0, cap := none, uniq := some false, contents := "" }]).isSome = true := by decide
example : (tryMutOracle (.tryIntoMut 0) (.ok (.err 0))
    [{ id := 0, kind := .bytes, blk := none, wild := false, len := 0, cap := none, uniq := some true, contents := "" }]).isSome = true := by decide

/-! ## why `locate` checks `off ≤ size` (a remark on `obsOfModel`, not on the oracles)

`WFx` does not constrain the stale pointer of an *empty* STATIC handle.  The state below is `WFx`
(though not reachable); its only handle is empty and points 5 bytes into a 1-byte block.  The harness
would not find a block for that address (`find_block` fails, the handle is empty: "none"), and this
is what `obsOfModel` reports.  Had `obsOfModel` copied the convention of the judge's model-side rows
(`modelObs`: "an empty handle has an address while its block is alive"), the observation would be
`blk = some (0, 5, 1)` and `boundsOracle`'s first check `off + 0 > bsize` would fire. -/

namespace Witness

def pastEnd : St :=
  { regions := [⟨1, [some 7], true, .static⟩], hs := [some (.bytes .static (some 0) 5 0)] }

example : wfB pastEnd = true := by decide
example : (obsOfModel pastEnd).map (·.blk) = [none] := by decide
example : ((modelObs pastEnd).map fun o => (o.reg, o.off)) = [(some 0, 5)] := by decide

end Witness

end BytesVerif.Judge.SeqJ
