/-
C15 — Debug, hex and serde output round-trip to the exact contents.  Property theorems only.
The chains come from Generated/FmtTables.lean; Cert/C15.lean evaluates `debugChainOK` /
`hexChainOK` on them (256 kernel evaluations each).
-/
import BytesVerif.Model.Fmt
namespace BytesVerif.Fmt

/-- `parse1` never looks beyond what it consumes: the reason why an escape followed by any other
text (e.g. `\0` followed by a digit) still decodes to the same byte. -/
theorem parse1_append (l t : List Char) (b : Nat) (r : List Char)
    (h : parse1 l = some (b, r)) : parse1 (l ++ t) = some (b, r ++ t) := by
  fun_cases parse1 l <;> simp_all [parse1] <;> omega

theorem parse1_ne_nil (l : List Char) (b : Nat) (r : List Char) (h : parse1 l = some (b, r)) :
    l ≠ [] := by
  intro hl; subst hl; simp [parse1] at h

theorem parse1_length (l : List Char) (b : Nat) (r : List Char) (h : parse1 l = some (b, r)) :
    r.length < l.length := by
  fun_cases parse1 l <;> simp_all [parse1] <;> omega

theorem parseBody_step (fuel : Nat) (c : Char) (r : List Char) (hc : c ≠ '"') :
    parseBody (fuel + 1) (c :: r) =
      match parse1 (c :: r) with
      | some (b, r') => (parseBody fuel r').map (b :: ·)
      | none => none := by
  simp [parseBody, hc]
  cases parse1 (c :: r) <;> rfl

/-- What `debugChainOK` says about one byte. -/
theorem debugChainOK_byte (ch : Chain) (h : debugChainOK ch = true) (b : Nat) (hb : b < 256) :
    ∃ cs, fmtByte ch b = some cs ∧ parse1 cs = some (b, []) ∧ cs.head? ≠ some '"' := by
  unfold debugChainOK at h
  simp only [Bool.and_eq_true, List.all_eq_true, List.mem_range] at h
  have hb' := h.2 b hb
  cases hf : fmtByte ch b with
  | none => simp [hf] at hb'
  | some cs =>
    simp only [hf, Bool.and_eq_true, beq_iff_eq, bne_iff_ne] at hb'
    exact ⟨cs, rfl, hb'.1, hb'.2⟩

theorem body_roundtrip (ch : Chain) (h : debugChainOK ch = true) (bs : List Nat)
    (hbs : ∀ b ∈ bs, b < 256) :
    ∃ body, fmtBody ch bs = some body ∧
      ∀ fuel, (body ++ ['"']).length ≤ fuel → parseBody fuel (body ++ ['"']) = some bs := by
  induction bs with
  | nil =>
    refine ⟨[], rfl, ?_⟩
    intro fuel hf
    cases fuel with
    | zero => simp at hf
    | succ f => simp [parseBody]
  | cons b bs ih =>
    obtain ⟨rest, hrest, hparse⟩ := ih (fun x hx => hbs x (List.mem_cons_of_mem _ hx))
    obtain ⟨cs, hcs, hp1, hq⟩ := debugChainOK_byte ch h b (hbs b (List.mem_cons_self ..))
    refine ⟨cs ++ rest, by simp [fmtBody, hcs, hrest], ?_⟩
    intro fuel hf
    have hne := parse1_ne_nil cs b [] hp1
    cases cs with
    | nil => exact absurd rfl hne
    | cons c cs' =>
      have hc : c ≠ '"' := by intro hc; subst hc; simp at hq
      cases fuel with
      | zero => simp at hf
      | succ f =>
        have happ := parse1_append (c :: cs') (rest ++ ['"']) b [] hp1
        simp only [List.nil_append] at happ
        have : (c :: cs') ++ rest ++ ['"'] = c :: (cs' ++ (rest ++ ['"'])) := by simp
        rw [this, parseBody_step f c _ hc]
        have h2 : c :: (cs' ++ (rest ++ ['"'])) = (c :: cs') ++ (rest ++ ['"']) := by simp
        rw [h2, happ]
        simp only
        rw [hparse f (by simp at hf ⊢; omega)]
        rfl

/-- **Debug round-trip**: for every chain accepted by the decision procedure and every byte string,
the Debug output is a byte-string literal (in the strict grammar of `parseLit`) that decodes to
exactly the contents. -/
theorem debug_roundtrip (ch : Chain) (h : debugChainOK ch = true) (bs : List Nat)
    (hbs : ∀ b ∈ bs, b < 256) :
    ∃ s, fmtAll ch bs = some s ∧ parseLit s = some bs := by
  obtain ⟨body, hbody, hparse⟩ := body_roundtrip ch h bs hbs
  have hpre : ch.pre = ['b', '"'] ∧ ch.post = ['"'] := by
    unfold debugChainOK at h
    simp only [Bool.and_eq_true, beq_iff_eq] at h
    exact ⟨h.1.1, h.1.2⟩
  refine ⟨ch.pre ++ body ++ ch.post, by simp [fmtAll, hbody], ?_⟩
  rw [hpre.1, hpre.2]
  simp only [List.cons_append, List.nil_append, parseLit]
  exact hparse _ (by simp)

theorem hexDigit_val (up : Bool) (n : Nat) (hn : n < 16) : hexValCase up (hexDigit up n) = some n := by
  have : ∀ (u : Bool) (k : Fin 16), hexValCase u (hexDigit u k.val) = some k.val := by decide
  exact this up ⟨n, hn⟩

theorem hexChainOK_byte (up : Bool) (ch : Chain) (h : hexChainOK up ch = true) (b : Nat) (hb : b < 256) :
    fmtByte ch b = some (hex2 up b) := by
  unfold hexChainOK at h
  simp only [Bool.and_eq_true, List.all_eq_true, List.mem_range, beq_iff_eq] at h
  exact h.2 b hb

/-- **Hex round-trip**: exactly two digits of the requested case per byte, in order, decoding to the
contents. -/
theorem hex_roundtrip (up : Bool) (ch : Chain) (h : hexChainOK up ch = true) (bs : List Nat)
    (hbs : ∀ b ∈ bs, b < 256) :
    ∃ s, fmtAll ch bs = some s ∧ parseHexStr up s = some bs ∧ s.length = 2 * bs.length := by
  have hpre : ch.pre = [] ∧ ch.post = [] := by
    unfold hexChainOK at h
    simp only [Bool.and_eq_true, beq_iff_eq] at h
    exact ⟨h.1.1, h.1.2⟩
  suffices hs : ∃ s, fmtBody ch bs = some s ∧ parseHexStr up s = some bs ∧ s.length = 2 * bs.length by
    obtain ⟨s, h1, h2, h3⟩ := hs
    exact ⟨s, by simp [fmtAll, h1, hpre.1, hpre.2], h2, h3⟩
  induction bs with
  | nil => exact ⟨[], rfl, rfl, rfl⟩
  | cons b bs ih =>
    obtain ⟨s, h1, h2, h3⟩ := ih (fun x hx => hbs x (List.mem_cons_of_mem _ hx))
    have hb := hbs b (List.mem_cons_self ..)
    have hf := hexChainOK_byte up ch h b hb
    refine ⟨hex2 up b ++ s, by simp [fmtBody, hf, h1], ?_, ?_⟩
    · simp only [hex2, List.cons_append, List.nil_append, parseHexStr]
      rw [hexDigit_val up (b / 16) (by omega), hexDigit_val up (b % 16) (by omega), h2]
      simp only [Option.some.injEq, List.cons.injEq, and_true]
      omega
    · simp [hex2, h3]; omega

/-- serde visitor rows: the value holds exactly the bytes handed to the visitor method. -/
theorem serde_visit_sound (r : SerdeRow) (_h : serdeRowOK r = true) (hv : r.body = .contentsOfInput)
    (inp : List Nat) : serdeVisit r inp = some inp := by
  simp [serdeVisit, hv]

-- Non-vacuity: the chain of the pinned source is accepted, and a chain that prints 0x7f raw is not.
def sampleChain : Chain :=
  { arms := [(.eq 10, [.lit ['\\', 'n']]), (.eq 13, [.lit ['\\', 'r']]), (.eq 9, [.lit ['\\', 't']]),
             (.eq2 92 34, [.lit ['\\'], .argChar]), (.eq 0, [.lit ['\\', '0']]), (.range 32 127, [.argChar])],
    dflt := [.lit ['\\', 'x'], .argHexLower], pre := ['b', '"'], post := ['"'] }
example : debugChainOK sampleChain = true := by decide +kernel
example : debugChainOK { sampleChain with arms := sampleChain.arms.dropLast ++ [(.range 32 128, [.argChar])] } = false := by
  decide +kernel
example : fmtAll sampleChain [0, 48, 34, 255] = some "b\"\\00\\\"\\xff\"".toList := by decide +kernel

end BytesVerif.Fmt
