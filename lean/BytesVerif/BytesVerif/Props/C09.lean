/-
C09 — every `Buf` in the crate is a faithful cursor over one byte sequence.
Property theorems only (helper lemmas live in Lemmas/Buf.lean).  All statements are by
structural induction over the adapter tree: any nesting depth, any fragmentation of `seg`
leaves (including empty chunks), any contents, any argument value.
-/
import BytesVerif.Lemmas.Buf
namespace BytesVerif.Buf

/-- `remaining()` is the length of the denoted sequence. -/
theorem remaining_eq (b : BufT) (h : wf b) : remaining b = (den b).length := by
  exact remaining_eq' b h

/-- `chunk()` is a prefix of the sequence … -/
theorem chunk_prefix (b : BufT) (h : wf b) : chunk b <+: den b := by
  exact chunk_prefix' b h

/-- … that is empty only when nothing remains. -/
theorem chunk_nil_iff (b : BufT) (h : wf b) : chunk b = [] ↔ remaining b = 0 := by
  exact chunk_nil_iff' b h

/-- `advance(n)` removes exactly the first `n` bytes … -/
theorem advance_ok (b : BufT) (n : Nat) (h : wf b) (hn : n ≤ remaining b) :
    ∃ b', advance b n = .ok b' ∧ den b' = (den b).drop n ∧ wf b' := by
  exact advance_ok' b n h hn

/-- … and panics if `n > remaining()`. -/
theorem advance_panic (b : BufT) (n : Nat) (h : wf b) (hn : remaining b < n) :
    advance b n = .panic := by
  exact advance_panic' b n h hn

/-- `chunks_vectored` fills at most `dst.len()` slices (slots beyond the returned count are
untouched by construction of the model: only the returned list is written) … -/
theorem chunksVectored_length (b : BufT) (k : Nat) : (chunksVectored b k).length ≤ k := by
  exact chunksVectored_length' b k

/-- … whose concatenation is a prefix of the sequence … -/
theorem chunksVectored_prefix (b : BufT) (k : Nat) (h : wf b) :
    (chunksVectored b k).flatten <+: den b := by
  exact chunksVectored_prefix' b k h

/-- … with at least one non-empty slice when bytes remain and `dst` is non-empty. -/
theorem chunksVectored_nonempty (b : BufT) (k : Nat) (h : wf b) (hr : 0 < remaining b) (hk : 0 < k) :
    ∃ s ∈ chunksVectored b k, s ≠ [] := by
  exact chunksVectored_nonempty' b k h hr hk

/-- `try_copy_to_slice` / `copy_to_slice` return exactly the next bytes and consume exactly that
many (the fuel `n + 1` of the model's loop always suffices: a termination fact). -/
theorem tryCopyToSlice_ok (b : BufT) (n : Nat) (h : wf b) (hn : n ≤ remaining b) :
    ∃ b', tryCopyToSlice b n = .ok (some ((den b).take n), b') ∧ den b' = (den b).drop n ∧ wf b' := by
  obtain ⟨b', hb', hadv⟩ := tryCopyToSlice_adv b n h hn
  exact ⟨b', hb', hadv.spec h⟩

theorem tryCopyToSlice_err (b : BufT) (n : Nat) (hn : remaining b < n) :
    tryCopyToSlice b n = .ok (none, b) := by
  exact tryCopyToSlice_err' b n hn

theorem copyToSlice_ok (b : BufT) (n : Nat) (h : wf b) (hn : n ≤ remaining b) :
    ∃ b', copyToSlice b n = .ok ((den b).take n, b') ∧ den b' = (den b).drop n ∧ wf b' := by
  exact copyToSlice_ok' b n h hn

theorem copyToSlice_panic (b : BufT) (n : Nat) (h : wf b) (hn : remaining b < n) :
    copyToSlice b n = .panic := by
  have _ := h  -- holds without `wf`
  exact copyToSlice_panic' b n hn

/-- `copy_to_bytes` (default, and the overrides of `Bytes`, `BytesMut`, `Chain`, `Take`). -/
theorem copyToBytes_ok (b : BufT) (n : Nat) (h : wf b) (hn : n ≤ remaining b) :
    ∃ b', copyToBytes b n = .ok ((den b).take n, b') ∧ den b' = (den b).drop n ∧ wf b' := by
  exact copyToBytes_ok' b n h hn

theorem copyToBytes_panic (b : BufT) (n : Nat) (h : wf b) (hn : remaining b < n) :
    copyToBytes b n = .panic := by
  exact copyToBytes_panic' b n h hn

/-- `into_iter().next()` yields the next byte and consumes exactly one. -/
theorem iterNext_some (b : BufT) (h : wf b) (x : Nat) (r : Bs) (hd : den b = x :: r) :
    ∃ b', iterNext b = .ok (some x, b') ∧ den b' = r ∧ wf b' := by
  exact iterNext_some' b h x r hd

theorem iterNext_none (b : BufT) (h : wf b) (hd : den b = []) : iterNext b = .ok (none, b) := by
  exact iterNext_none' b h hd

-- Non-vacuity: a depth-4 tree over fragmented leaves with empty chunks satisfies `wf`, and the
-- laws evaluate as stated on it.
def sampleTree : BufT :=
  .chain (.take (.box (.chain (.seg [[1], [], [2, 3]]) (.deque [4] [5]))) 4) (.refMut (.cursor [9, 6, 7] 1))
example : wf sampleTree := by simp [sampleTree, wf, den, W_eq]
example : den sampleTree = [1, 2, 3, 4, 6, 7] := by decide
example : chunksVectored sampleTree 8 = [[1]] := by decide
example : (advance sampleTree 5).map den = .ok [7] := by decide

end BytesVerif.Buf
