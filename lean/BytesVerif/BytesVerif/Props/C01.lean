/-
C01 — every handle always reads exactly the bytes its API history says it holds; C02 (model level) —
no sequence of safe calls reaches undefined behaviour; both for every script, every environment
(allocator parity), every build configuration, every argument value.  Corollaries of
`step_sound` (Lemmas/Core/Sound.lean) by induction over the script.
-/
import BytesVerif.Lemmas.Core.Sound
import BytesVerif.Lemmas.Core.PropC01
namespace BytesVerif.Core

/-- what the caller sees of one call -/
inductive Outcome
  | ok (v : Val)
  | panic
  deriving Repr, DecidableEq, Inhabited

/-- Run a script on the model; `none` = undefined behaviour was reached. -/
def run (cfg : Cfg) (e : Env) : List Op → St → Option (St × List Outcome)
  | [], s => some (s, [])
  | op :: ops, s =>
    match step cfg e op s with
    | .ok v s' => (run cfg e ops s').map fun (sf, outs) => (sf, .ok v :: outs)
    | .panic s' => (run cfg e ops s').map fun (sf, outs) => (sf, .panic :: outs)
    | .ub _ _ => none

/-- The reference model run on the same script with the same outcomes: every handle an independent
`Vec<u8>` value. -/
def Spec.run : List Op → List Outcome → Spec.St → Spec.St
  | op :: ops, .ok v :: outs, a => Spec.run ops outs (Spec.stepOk op v a)
  | op :: ops, .panic :: outs, a => Spec.run ops outs (Spec.stepPanic op a)
  | _, _, a => a

/-- C01 + C02: from any well-formed state, any script runs without undefined behaviour, ends in a
well-formed state, and every live handle reads exactly what the reference model says. -/
theorem refines (cfg : Cfg) (e : Env) (ops : List Op) (hops : ∀ op ∈ ops, OpOK op) (s : St) (h : WFx s) :
    ∃ sf outs, run cfg e ops s = some (sf, outs) ∧ outs.length = ops.length ∧ WFx sf ∧
      abs sf = Spec.run ops outs (abs s) := by
  induction ops generalizing s with
  | nil => exact ⟨s, [], rfl, rfl, h, rfl⟩
  | cons op ops ih =>
    have hs := step_sound cfg e op s h (hops op List.mem_cons_self)
    unfold StepOKx at hs
    have hops' : ∀ op' ∈ ops, OpOK op' := fun o ho => hops o (List.mem_cons_of_mem _ ho)
    rcases R.sat_cases hs with ⟨v, s', hst, hw, ha⟩ | ⟨s', hst, hw, ha⟩
    · obtain ⟨sf, outs, hr, hl, hwf, hab⟩ := ih hops' s' hw
      refine ⟨sf, .ok v :: outs, ?_, by simp [hl], hwf, ?_⟩
      · simp [run, hst, hr]
      · rw [hab, ha]; rfl
    · obtain ⟨sf, outs, hr, hl, hwf, hab⟩ := ih hops' s' hw
      refine ⟨sf, .panic :: outs, ?_, by simp [hl], hwf, ?_⟩
      · simp [run, hst, hr]
      · rw [hab, ha]; rfl

/-- … in particular from the empty initial state. -/
theorem refines_init (cfg : Cfg) (e : Env) (ops : List Op) (hops : ∀ op ∈ ops, OpOK op) :
    ∃ sf outs, run cfg e ops {} = some (sf, outs) ∧ outs.length = ops.length ∧ WF sf ∧
      abs sf = Spec.run ops outs [] := by
  obtain ⟨sf, outs, hr, hl, hwf, hab⟩ := refines cfg e ops hops {} WFx_init
  exact ⟨sf, outs, hr, hl, hwf.wf, hab⟩

/-- C02 at the model level: a safe call on a reachable state never reaches undefined behaviour
(read / write / free outside a live allocation, double free, free with a wrong size, use after
free, misdecoded tag bit). -/
theorem no_ub (cfg : Cfg) (e : Env) (op : Op) (ho : OpOK op) (s : St) (h : WFx s) :
    ∀ w s', step cfg e op s ≠ .ub w s' := by
  intro w s' hst
  have hs := step_sound cfg e op s h ho
  unfold StepOKx at hs
  rw [hst] at hs
  exact hs

/-- handles an operation may change (everything else is framed) -/
def touched : Op → List Nat
  | .fromVec i | .splitOff i _ | .splitTo i _ | .split i | .truncate i _ | .clear i | .advance i _
  | .tryIntoMut i | .intoMut i | .intoVec i | .freeze i | .extend i _ | .resize i _ _ | .setByte i _ _ | .drop i => [i]
  | .unsplit i j => [i, j]
  | _ => []

/-- C01 "an operation on one handle never changes what any other live handle reads". -/
theorem frame (cfg : Cfg) (e : Env) (op : Op) (ho : OpOK op) (s : St) (h : WFx s) (j : Nat)
    (hj : j ∉ touched op) (x : SH) (hx : Spec.get (abs s) j = some x) :
    match step cfg e op s with
    | .ok _ s' => Spec.get (abs s') j = some x
    | .panic s' => Spec.get (abs s') j = some x
    | .ub _ _ => False := by
  have hs := step_sound cfg e op s h ho
  unfold StepOKx at hs
  have ht : j ∉ PropC01.touched op := by
    have : PropC01.touched op = touched op := by cases op <;> rfl
    rw [this]; exact hj
  cases hst : step cfg e op s with
  | ok v s' =>
    rw [hst] at hs
    show Spec.get (abs s') j = some x
    rw [hs.2]
    exact PropC01.frame_ok op v (abs s) j ht x hx
  | panic s' =>
    rw [hst] at hs
    show Spec.get (abs s') j = some x
    rw [hs.2]
    exact PropC01.frame_panic op (abs s) j ht x hx
  | ub w s' =>
    rw [hst] at hs
    exact hs

/-- C01 "the contents of a Bytes never change after it is created": whatever happens to other
handles, and under every operation on the handle itself that keeps it a `Bytes`, what it reads is a
sub-range of what it read before. -/
theorem bytes_immutable (cfg : Cfg) (e : Env) (op : Op) (ho : OpOK op) (s : St) (h : WFx s) (j : Nat)
    (x : SH) (hx : Spec.get (abs s) j = some x) (hk : x.kind = .bytes) :
    match step cfg e op s with
    | .ok _ s' => ∀ y, Spec.get (abs s') j = some y → ∃ a b, y.val = (x.val.drop a).take b
    | .panic s' => Spec.get (abs s') j = some x
    | .ub _ _ => False := by
  by_cases hw : PropC01.writesTo j op
  · obtain ⟨repr, reg, off, len, hh⟩ := PropC01.bytes_of_abs hx hk
    rw [PropC01.writes_panic cfg e op s j hh hw]
    exact hx
  · have hs := step_sound cfg e op s h ho
    unfold StepOKx at hs
    cases hst : step cfg e op s with
    | ok v s' =>
      rw [hst] at hs
      show ∀ y, Spec.get (abs s') j = some y → ∃ a b, y.val = (x.val.drop a).take b
      rw [hs.2]
      exact PropC01.immut_ok op v (abs s) j hw x hx
    | panic s' =>
      rw [hst] at hs
      show Spec.get (abs s') j = some x
      rw [hs.2]
      exact PropC01.immut_panic op (abs s) j x hx hk
    | ub w s' =>
      rw [hst] at hs
      exact hs

/-- C13: a call that panics leaves every handle with its previous contents, length and kind (the one
handle moved into `unsplit` is consumed), the state stays well-formed (so every handle stays fully
usable and all storage is still released exactly once, by C03), and no undefined behaviour occurs. -/
theorem panic_atomic (cfg : Cfg) (e : Env) (op : Op) (ho : OpOK op) (s : St) (h : WFx s) (s' : St)
    (hp : step cfg e op s = .panic s') :
    WFx s' ∧ abs s' = Spec.stepPanic op (abs s) := by
  have hs := step_sound cfg e op s h ho
  unfold StepOKx at hs
  rw [hp] at hs
  exact hs

-- Non-vacuity: a script through several representations.
def sampleScript : List Op :=
  [.copyFromSlice [1, 2, 3, 4], .clone 0, .splitOff 0 2, .intoMut 1, .extend 1 [9], .freeze 1, .drop 0, .slice 1 1 3, .drop 2, .drop 1, .drop 3]
example : (run ⟨true, true⟩ ⟨fun _ => false⟩ sampleScript {}).isSome = true := by decide

end BytesVerif.Core
