/-
C17 — a safe-but-lying `Buf` source cannot drive the crate's consumers into undefined behaviour.
Stated over M6 (Model/Adv.lean): for every script of lies, every argument, every fuel, no consumer
evaluates to `.ub`; what they return was read inside the slice the adversary really handed out, and
growing destinations keep `len ≤ cap`.  The last section shows the `ub` outcome is not vacuous: the
same loop with the reservation taken from `remaining()` instead of the chunk's real length does reach it.
-/
import BytesVerif.Model.Adv
import BytesVerif.Lemmas.Adv
namespace BytesVerif.Adv

def NoUB {α : Type} (r : Res α) : Prop := ∀ w, r ≠ .ub w

theorem tryCopyLoop_no_ub (fuel : Nat) (b : AdvBuf) (need : Nat) (acc : Bs) : NoUB (tryCopyLoop fuel b need acc) := by
  exact tryCopyLoop_safe fuel b need acc

theorem tryCopyToSlice_no_ub (fuel : Nat) (b : AdvBuf) (n : Nat) : NoUB (tryCopyToSlice fuel b n) := by
  exact tryCopyToSlice_safe fuel b n

theorem copyToSlice_no_ub (fuel : Nat) (b : AdvBuf) (n : Nat) : NoUB (copyToSlice fuel b n) := by
  exact copyToSlice_safe fuel b n

/-- the typed getters' fast path: the unsafe array read never leaves the slice `chunk()` returned,
whatever `remaining()` claimed -/
theorem tryGetFixed_no_ub (fuel : Nat) (b : AdvBuf) (size : Nat) : NoUB (tryGetFixed fuel b size) := by
  exact tryGetFixed_safe fuel b size

theorem tryGetVar_no_ub (fuel : Nat) (b : AdvBuf) (nbytes : Nat) : NoUB (tryGetVar fuel b nbytes) := by
  exact tryGetVar_safe fuel b nbytes

theorem getU8_no_ub (b : AdvBuf) : NoUB (getU8 b) := by
  exact getU8_safe b

theorem putFixed_no_ub (fuel : Nat) (b : AdvBuf) (room : Nat) : NoUB (putFixed fuel b room) := by
  exact putFixed_safe fuel b room

/-- growing destinations (`BytesMut::put`, `Vec::put`): every unsafe copy fits the capacity reserved for
the chunk's real length -/
theorem putGrowLoop_no_ub (fuel : Nat) (b : AdvBuf) (len cap : Nat) (h : len ≤ cap) :
    NoUB (putGrowLoop fuel b len cap) := by
  -- `h` is not needed for this direction: `reserve` restores `len + chunk ≤ cap` by itself
  exact (fun _ => putGrowLoop_safe fuel b len cap) h

theorem putGrowLoop_len_le_cap (fuel : Nat) (b : AdvBuf) (len cap len' cap' : Nat) (h : len ≤ cap)
    (hr : putGrowLoop fuel b len cap = .ok (len', cap')) : len' ≤ cap' := by
  exact putGrowLoop_inv fuel b len cap len' cap' h hr

theorem iterNext_no_ub (b : AdvBuf) : NoUB (iterNext b) := by
  exact iterNext_safe b

theorem readerRead_no_ub (fuel : Nat) (b : AdvBuf) (n : Nat) : NoUB (readerRead fuel b n) := by
  exact readerRead_safe fuel b n

theorem takeChunksVectored_no_ub (b : AdvBuf) (limit dstLen : Nat) : NoUB (takeChunksVectored b limit dstLen) := by
  exact takeChunksVectored_safe b limit dstLen

/-! ### what comes back is exactly as long as the destination, and was read inside the adversary's memory -/

theorem tryCopyLoop_length (fuel : Nat) (b b' : AdvBuf) (need : Nat) (acc bs : Bs)
    (hr : tryCopyLoop fuel b need acc = .ok (bs, b')) : bs.length = acc.length + need := by
  exact tryCopyLoop_len fuel b b' need acc bs hr

theorem tryCopyToSlice_length (fuel : Nat) (b b' : AdvBuf) (n : Nat) (bs : Bs)
    (hr : tryCopyToSlice fuel b n = .ok (some bs, b')) : bs.length = n := by
  exact tryCopyToSlice_len fuel b b' n bs hr

theorem tryGetFixed_length (fuel : Nat) (b b' : AdvBuf) (size : Nat) (bs : Bs)
    (hr : tryGetFixed fuel b size = .ok (some bs, b')) : bs.length = size := by
  exact tryGetFixed_len fuel b b' size bs hr

/-- a fixed destination is never written past its end: the bytes written plus the room left is the room it had -/
theorem putFixedLoop_room (fuel : Nat) (b : AdvBuf) (room room' : Nat) (acc out : Bs)
    (hr : putFixedLoop fuel b room acc = .ok (out, room')) : out.length + room' = acc.length + room := by
  exact putFixedLoop_len fuel b room room' acc out hr

/-! ### `ub` is reachable in this model: the reservation-from-`remaining()` variant -/

/-- the same loop with one `reserve(src.remaining())` up front and an unchecked copy of each chunk -/
def putGrowBadLoop : Nat → AdvBuf → Nat → Nat → Res (Nat × Nat)
  | 0, _, _, _ => .hang
  | fuel + 1, b, len, cap => do
    let r ← remaining b
    if r = 0 then pure (len, cap)
    else do
      let s ← chunk b
      unsafeWrite (cap - len) s
      let b' ← advance b s.length
      putGrowBadLoop fuel b' (len + s.length) cap

def putGrowBad (fuel : Nat) (b : AdvBuf) (len cap : Nat) : Res (Nat × Nat) := do
  let r ← remaining b
  let cap' := if cap - len ≥ r then cap else max (2 * cap) (len + r)
  putGrowBadLoop fuel b len cap'

def liar : AdvBuf := { script := [⟨1, 80, 0⟩], backing := List.replicate 512 0 }

theorem putGrowBad_reaches_ub : ∃ w, putGrowBad 10 liar 0 8 = .ub w := by
  -- `remaining()` claims 1 byte, so 8 bytes of capacity look enough; `chunk()` then hands out 80
  have hrem : remaining liar = .ok 1 := rfl
  obtain ⟨s, hs, hl⟩ : ∃ s, chunk liar = .ok s ∧ s.length = 80 :=
    ⟨_, rfl, by simp [liar, AdvBuf.cur, -List.reduceReplicate]⟩
  have key : ∀ fuel, putGrowBad (fuel + 1) liar 0 8 = .ub "write past the end of the destination" := by
    intro fuel
    simp only [putGrowBad, hrem, bind_ok, putGrowBadLoop, hs, unsafeWrite, hl]
    simp
  exact ⟨_, key 9⟩

theorem putGrow_same_input_fine : ∃ r, putGrowLoop 10 liar 0 8 = .ok r := by
  have hrem : remaining liar = .ok 1 := rfl
  obtain ⟨s, hs, hl⟩ : ∃ s, chunk liar = .ok s ∧ s.length = 80 :=
    ⟨_, rfl, by simp [liar, AdvBuf.cur, -List.reduceReplicate]⟩
  have key : ∀ fuel, putGrowLoop (fuel + 2) liar 0 8 = .ok (80, 80) := by
    intro fuel
    simp only [putGrowLoop, hrem, bind_ok, hs, unsafeWrite, hl]
    simp [advance, remaining, liar, AdvBuf.cur, -List.reduceReplicate]
  exact ⟨_, key 8⟩

end BytesVerif.Adv
