/-
C17 — a safe-but-lying `Buf` source cannot drive the crate's consumers into undefined behaviour.
Stated over M6 (Model/Adv.lean): for every script of lies, every argument, every fuel, no consumer
evaluates to `.ub`; what they return was read inside the slice the adversary really handed out, and
growing destinations keep `len ≤ cap`.  The last section shows the `ub` outcome is not vacuous: the
same loop with the reservation taken from `remaining()` instead of the chunk's real length does reach it.
-/
import BytesVerif.Model.Adv
import BytesVerif.Lemmas.Adv
import BytesVerif.Lemmas.AdvMore
namespace BytesVerif.Adv

def NoUB {α : Type} (r : Res α) : Prop := ∀ w, r ≠ .ub w

theorem tryCopyLoop_no_ub (fuel : Nat) (b : AdvBuf) (need : Nat) (acc : Bs) : NoUB (tryCopyLoop fuel b need acc) := by
  exact tryCopyLoop_safe fuel b need acc

theorem tryCopyToSlice_no_ub (fuel : Nat) (b : AdvBuf) (n : Nat) : NoUB (tryCopyToSlice fuel b n) := by
  exact tryCopyToSlice_safe fuel b n

theorem copyToSlice_no_ub (fuel : Nat) (b : AdvBuf) (n : Nat) : NoUB (copyToSlice fuel b n) := by
  exact copyToSlice_safe fuel b n

/-- the typed getters' fast path: the unsafe array read never leaves the slice `chunk()` returned,
whatever `remaining()` claimed -/
theorem tryGetFixed_no_ub (fuel : Nat) (b : AdvBuf) (size : Nat) : NoUB (tryGetFixed fuel b size) := by
  exact tryGetFixed_safe fuel b size

theorem tryGetVar_no_ub (fuel : Nat) (b : AdvBuf) (nbytes : Nat) : NoUB (tryGetVar fuel b nbytes) := by
  exact tryGetVar_safe fuel b nbytes

theorem getU8_no_ub (b : AdvBuf) : NoUB (getU8 b) := by
  exact getU8_safe b

theorem putFixed_no_ub (fuel : Nat) (b : AdvBuf) (room : Nat) : NoUB (putFixed fuel b room) := by
  exact putFixed_safe fuel b room

/-- growing destinations (`BytesMut::put`, `Vec::put`): every unsafe copy fits the capacity reserved for
the chunk's real length -/
theorem putGrowLoop_no_ub (fuel : Nat) (b : AdvBuf) (len cap : Nat) (h : len ≤ cap) :
    NoUB (putGrowLoop fuel b len cap) := by
  -- `h` is not needed for this direction: `reserve` restores `len + chunk ≤ cap` by itself
  exact (fun _ => putGrowLoop_safe fuel b len cap) h

theorem putGrowLoop_len_le_cap (fuel : Nat) (b : AdvBuf) (len cap len' cap' : Nat) (h : len ≤ cap)
    (hr : putGrowLoop fuel b len cap = .ok (len', cap')) : len' ≤ cap' := by
  exact putGrowLoop_inv fuel b len cap len' cap' h hr

theorem iterNext_no_ub (b : AdvBuf) : NoUB (iterNext b) := by
  exact iterNext_safe b

theorem readerRead_no_ub (fuel : Nat) (b : AdvBuf) (n : Nat) : NoUB (readerRead fuel b n) := by
  exact readerRead_safe fuel b n

theorem takeChunksVectored_no_ub (b : AdvBuf) (limit dstLen : Nat) : NoUB (takeChunksVectored b limit dstLen) := by
  exact takeChunksVectored_safe b limit dstLen

/-! ### what comes back is exactly as long as the destination, and was read inside the adversary's memory -/

theorem tryCopyLoop_length (fuel : Nat) (b b' : AdvBuf) (need : Nat) (acc bs : Bs)
    (hr : tryCopyLoop fuel b need acc = .ok (bs, b')) : bs.length = acc.length + need := by
  exact tryCopyLoop_len fuel b b' need acc bs hr

theorem tryCopyToSlice_length (fuel : Nat) (b b' : AdvBuf) (n : Nat) (bs : Bs)
    (hr : tryCopyToSlice fuel b n = .ok (some bs, b')) : bs.length = n := by
  exact tryCopyToSlice_len fuel b b' n bs hr

theorem tryGetFixed_length (fuel : Nat) (b b' : AdvBuf) (size : Nat) (bs : Bs)
    (hr : tryGetFixed fuel b size = .ok (some bs, b')) : bs.length = size := by
  exact tryGetFixed_len fuel b b' size bs hr

/-- a fixed destination is never written past its end: the bytes written plus the room left is the room it had -/
theorem putFixedLoop_room (fuel : Nat) (b : AdvBuf) (room room' : Nat) (acc out : Bs)
    (hr : putFixedLoop fuel b room acc = .ok (out, room')) : out.length + room' = acc.length + room := by
  exact putFixedLoop_len fuel b room room' acc out hr

/-! ### `ub` is reachable in this model: the reservation-from-`remaining()` variant -/

/-- the same loop with one `reserve(src.remaining())` up front and an unchecked copy of each chunk -/
def putGrowBadLoop : Nat → AdvBuf → Nat → Nat → Res (Nat × Nat)
  | 0, _, _, _ => .hang
  | fuel + 1, b, len, cap => do
    let r ← remaining b
    if r = 0 then pure (len, cap)
    else do
      let s ← chunk b
      unsafeWrite (cap - len) s
      let b' ← advance b s.length
      putGrowBadLoop fuel b' (len + s.length) cap

def putGrowBad (fuel : Nat) (b : AdvBuf) (len cap : Nat) : Res (Nat × Nat) := do
  let r ← remaining b
  let cap' := if cap - len ≥ r then cap else max (2 * cap) (len + r)
  putGrowBadLoop fuel b len cap'

def liar : AdvBuf := { script := [⟨1, 80, 0⟩], backing := List.replicate 512 0 }

theorem putGrowBad_reaches_ub : ∃ w, putGrowBad 10 liar 0 8 = .ub w := by
  -- `remaining()` claims 1 byte, so 8 bytes of capacity look enough; `chunk()` then hands out 80
  have hrem : remaining liar = .ok 1 := rfl
  obtain ⟨s, hs, hl⟩ : ∃ s, chunk liar = .ok s ∧ s.length = 80 :=
    ⟨_, rfl, by simp [liar, AdvBuf.cur, -List.reduceReplicate]⟩
  have key : ∀ fuel, putGrowBad (fuel + 1) liar 0 8 = .ub "write past the end of the destination" := by
    intro fuel
    simp only [putGrowBad, hrem, bind_ok, putGrowBadLoop, hs, unsafeWrite, hl]
    simp
  exact ⟨_, key 9⟩

theorem putGrow_same_input_fine : ∃ r, putGrowLoop 10 liar 0 8 = .ok r := by
  have hrem : remaining liar = .ok 1 := rfl
  obtain ⟨s, hs, hl⟩ : ∃ s, chunk liar = .ok s ∧ s.length = 80 :=
    ⟨_, rfl, by simp [liar, AdvBuf.cur, -List.reduceReplicate]⟩
  have key : ∀ fuel, putGrowLoop (fuel + 2) liar 0 8 = .ok (80, 80) := by
    intro fuel
    simp only [putGrowLoop, hrem, bind_ok, hs, unsafeWrite, hl]
    simp [advance, remaining, liar, AdvBuf.cur, -List.reduceReplicate]
  exact ⟨_, key 8⟩

/-! ### round 8: `Take` / `Chain` / `Limit` wrapped around the adversary (the remaining LyingBuf consumers of the stream) -/

/-- `BytesMut::put(adv.take(limit))`: the unsafe copy of `extend_from_slice` always fits what `reserve` made room for -/
theorem putGrowTakeLoop_no_ub (fuel : Nat) (b : AdvBuf) (limit len cap : Nat) :
    NoUB (putGrowTakeLoop fuel b limit len cap) := by
  exact putGrowTakeLoop_safe fuel b limit len cap

/-- … and `Take` bounds it: at most `limit` bytes are appended whatever `remaining()` / `chunk()` claim; `len ≤ cap` is kept -/
theorem putGrowTakeLoop_bound (fuel : Nat) (b : AdvBuf) (limit len cap len' cap' : Nat) (h : len ≤ cap)
    (hr : putGrowTakeLoop fuel b limit len cap = .ok (len', cap')) : len' ≤ len + limit ∧ len ≤ len' ∧ len' ≤ cap' := by
  exact putGrowTakeLoop_inv fuel b limit len cap len' cap' h hr

/-- default `Buf::copy_to_bytes` on the adversary -/
theorem defaultCopyToBytes_no_ub (fuel : Nat) (b : AdvBuf) (len : Nat) : NoUB (defaultCopyToBytes fuel b len) := by
  exact defaultCopyToBytes_safe fuel b len

/-- the `Bytes` it returns is never longer than requested (it may be shorter: wrong data is allowed, UB is not) -/
theorem defaultCopyToBytes_len_le (fuel : Nat) (b : AdvBuf) (len n : Nat)
    (hr : defaultCopyToBytes fuel b len = .ok n) : n ≤ len := by
  exact defaultCopyToBytes_le fuel b len n hr

theorem takeCopyToBytes_no_ub (fuel : Nat) (b : AdvBuf) (lim len : Nat) : NoUB (takeCopyToBytes fuel b lim len) := by
  exact takeCopyToBytes_safe fuel b lim len

theorem chainCopyToBytes_no_ub (fuel : Nat) (b : AdvBuf) (bLen len : Nat) : NoUB (chainCopyToBytes fuel b bLen len) := by
  exact chainCopyToBytes_safe fuel b bLen len

theorem chainChunksVectored_no_ub (b : AdvBuf) (bLen : Nat) : NoUB (chainChunksVectored b bLen) := by
  exact chainChunksVectored_safe b bLen

theorem chainChunksVectored_count (b : AdvBuf) (bLen n : Nat) (hr : chainChunksVectored b bLen = .ok n) : n ≤ 2 := by
  exact chainChunksVectored_le b bLen n hr

/-- `Chain<&[u8], Adv>::get_u64()` and friends: short first half, the rest through `copy_to_slice` -/
theorem chainGetFixed_no_ub (fuel : Nat) (pre : Bs) (b : AdvBuf) (size : Nat) : NoUB (chainGetFixed fuel pre b size) := by
  exact chainGetFixed_safe fuel pre b size

theorem chainGetFixed_length (fuel : Nat) (pre : Bs) (b : AdvBuf) (size : Nat) (bs : Bs) (hp : pre.length ≤ size)
    (hr : chainGetFixed fuel pre b size = .ok bs) : bs.length = size := by
  exact chainGetFixed_len fuel pre b size bs hp hr

/-- default `BufMut::put` into `Limit<&mut BytesMut>` -/
theorem putLimit_no_ub (fuel : Nat) (b : AdvBuf) (limit len cap : Nat) : NoUB (putLimit fuel b limit len cap) := by
  exact putLimit_safe fuel b limit len cap

/-- `Limit` holds against a lying source: bytes written + limit left = limit before, and `len ≤ cap` is kept -/
theorem putLimitLoop_bound (fuel : Nat) (b : AdvBuf) (limit len cap len' cap' limit' : Nat) (h : len ≤ cap)
    (hr : putLimitLoop fuel b limit len cap = .ok (len', cap', limit')) :
    len' + limit' = len + limit ∧ len' ≤ cap' := by
  exact putLimitLoop_inv fuel b limit len cap len' cap' limit' h hr

/-- non-vacuity: on the liar of the tightness section the Take-bounded copy really runs and is cut at the limit -/
theorem defaultCopyToBytes_liar : ∃ n, defaultCopyToBytes 10 { liar with script := [⟨5, 80, 0⟩] } 4 = .ok n ∧ n = 4 := by
  refine ⟨4, ?_, rfl⟩
  simp [defaultCopyToBytes, putGrowTakeLoop, takeRemaining, takeChunk, takeAdvance, remaining, chunk, advance, sliceTo, unsafeWrite,
    reserveCap, liar, AdvBuf.cur, -List.reduceReplicate]

end BytesVerif.Adv
