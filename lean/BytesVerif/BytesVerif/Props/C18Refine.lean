/-
C18 (refinement) — the recycling model `Recycle.Rec` / `Recycle.reserve` (Model/Recycle.lean) is tied
to the M1 model (Model/Core.lean) by proof: `RecView s h r` relates a `BytesMut` handle `h` of an M1
state `s` to a record `r`; `reserve_refines` shows that `mutReserve` (= `BytesMut::reserve`, i.e.
`reserve_inner(additional, true)`) and `Recycle.reserve` take the same allocation decision, branch by
branch, under the invariant `Inv` of M1; `step_reserve_refines` is the same for the API operation
`Op.reserve` under `WFx`.
-/
import BytesVerif.Lemmas.Core.Sound
import BytesVerif.Lemmas.Core.OpsD
import BytesVerif.Model.Recycle
import BytesVerif.Props.C18
set_option linter.unusedVariables false
set_option linter.unusedSimpArgs false
namespace BytesVerif.Core
namespace C18Refine
open OpsD
open BytesVerif.Recycle (Rec)

/-! ## the abstraction relation -/

/-- size of the allocation behind a buffer pointer (`none`: no allocation, size 0) -/
def bufSizeL (R : List Region) : Option Nat → Nat
  | none => 0
  | some r => regionSizeL R r

/-- list-level form of `RecView` (it looks at the regions and the control blocks only) -/
def RecViewL (R : List Region) (C : List CtrlE) (h : Handle) (r : Rec) : Prop :=
  match h with
  | .mut none reg off len cap orig =>
    -- KIND_VEC: the handle owns its allocation, nobody else lives on it
    r.arc = false ∧ r.off = off ∧ r.len = len ∧ r.cap = cap ∧ r.orig = orig ∧
      r.A = bufSizeL R reg ∧ r.parts = 0
  | .mut (some c) _ off len cap _ =>
    -- KIND_ARC: the allocation is the vector of the control block `c`
    ∃ vreg vlen vcap vorig rc, C[c]? = some ⟨.sharedV vreg vlen vcap vorig, rc, true⟩ ∧
      r.arc = true ∧ r.off = off ∧ r.len = len ∧ r.cap = cap ∧ r.orig = vorig ∧
      r.A = vcap ∧ r.parts = rc - 1
  | _ => False

/-- **The abstraction relation** between a `BytesMut` handle `h` of the M1 state `s` and a record of
the recycling model.  `r.pinned` and `r.allocs` are not constrained.  A handle without a buffer
(`reg = none`, zero capacity) is covered with `A = 0`. -/
def RecView (s : St) (h : Handle) (r : Rec) : Prop := RecViewL s.regions s.ctrls h r

theorem RecView_vec {s : St} {reg : Option Nat} {off len cap orig : Nat} {r : Rec} :
    RecView s (.mut none reg off len cap orig) r ↔
      r.arc = false ∧ r.off = off ∧ r.len = len ∧ r.cap = cap ∧ r.orig = orig ∧
        r.A = bufSizeL s.regions reg ∧ r.parts = 0 := Iff.rfl

theorem RecView_arc {s : St} {c : Nat} {reg : Option Nat} {off len cap orig : Nat} {r : Rec} :
    RecView s (.mut (some c) reg off len cap orig) r ↔
      ∃ vreg vlen vcap vorig rc, s.ctrls[c]? = some ⟨.sharedV vreg vlen vcap vorig, rc, true⟩ ∧
        r.arc = true ∧ r.off = off ∧ r.len = len ∧ r.cap = cap ∧ r.orig = vorig ∧
        r.A = vcap ∧ r.parts = rc - 1 := Iff.rfl

/-- the relation does not look at the handle table, the owner counter or the event list -/
theorem RecView_congr {s t : St} (hR : t.regions = s.regions) (hC : t.ctrls = s.ctrls) (h : Handle) (r : Rec) :
    RecView t h r ↔ RecView s h r := by
  unfold RecView; rw [hR, hC]

/-! ## counting byte-buffer allocations -/

def isAlloc : Ev → Bool
  | .alloc _ _ => true
  | _ => false

/-- number of byte-buffer allocations (`Ev.alloc`) recorded in an event list -/
def allocCount (evs : List Ev) : Nat := evs.countP isAlloc

@[simp] theorem allocCount_alloc (r z : Nat) (evs : List Ev) :
    allocCount (.alloc r z :: evs) = allocCount evs + 1 := by
  simp [allocCount, List.countP_cons, isAlloc]
@[simp] theorem allocCount_dealloc (r z : Nat) (evs : List Ev) :
    allocCount (.dealloc r z :: evs) = allocCount evs := by
  simp [allocCount, List.countP_cons, isAlloc]

/-! ## the two models' constants coincide -/

theorem growCap_eq_vecGrowCap (c n : Nat) : Recycle.growCap c n = vecGrowCap c n := rfl
theorem origCap_eq (x : Nat) : Recycle.origCap x = originalCapacityFromRepr x := rfl
theorem origRepr_eq (x : Nat) : Recycle.origRepr x = originalCapacityToRepr x := rfl

/-! ## `Recycle.reserve`, branch by branch (hypotheses on the fields of `r`) -/

theorem rsv_noop (r : Rec) (k : Nat) (h0 : k ≤ r.cap - r.len) : Recycle.reserve r k = r := by
  simp [Recycle.reserve, h0]

theorem rsv_vec_front (r : Rec) (k : Nat) (h0 : ¬ k ≤ r.cap - r.len) (ha : r.arc = false)
    (h1 : r.cap - r.len + r.off ≥ k ∧ r.off ≥ r.len) :
    Recycle.reserve r k = { r with off := 0, cap := r.cap + r.off } := by
  simp [Recycle.reserve, h0, ha, h1]

theorem rsv_vec_grow (r : Rec) (k : Nat) (h0 : ¬ k ≤ r.cap - r.len) (ha : r.arc = false)
    (h1 : ¬ (r.cap - r.len + r.off ≥ k ∧ r.off ≥ r.len)) :
    Recycle.reserve r k =
      { r with A := Recycle.growCap (r.off + r.cap) (r.off + r.len + k),
               cap := Recycle.growCap (r.off + r.cap) (r.off + r.len + k) - r.off,
               allocs := r.allocs + 1 } := by
  simp only [Recycle.reserve, h0, ha, h1]; simp

theorem rsv_arc_inplace (r : Rec) (k : Nat) (h0 : ¬ k ≤ r.cap - r.len) (ha : r.arc = true)
    (hp : r.parts = 0) (h2 : r.A ≥ r.len + k + r.off) :
    Recycle.reserve r k = { r with cap := r.len + k } := by
  simp [Recycle.reserve, h0, ha, hp, h2]

theorem rsv_arc_front (r : Rec) (k : Nat) (h0 : ¬ k ≤ r.cap - r.len) (ha : r.arc = true)
    (hp : r.parts = 0) (h2 : ¬ r.A ≥ r.len + k + r.off) (h3 : r.A ≥ r.len + k ∧ r.off ≥ r.len) :
    Recycle.reserve r k = { r with off := 0, cap := r.A } := by
  simp only [Recycle.reserve, h0, ha, hp, h2, h3]; simp

theorem rsv_arc_grow (r : Rec) (k : Nat) (h0 : ¬ k ≤ r.cap - r.len) (ha : r.arc = true)
    (hp : r.parts = 0) (h2 : ¬ r.A ≥ r.len + k + r.off) (h3 : ¬ (r.A ≥ r.len + k ∧ r.off ≥ r.len)) :
    Recycle.reserve r k =
      { r with A := Recycle.growCap r.A (max (r.A * 2) (r.len + k + r.off)),
               cap := Recycle.growCap r.A (max (r.A * 2) (r.len + k + r.off)) - r.off,
               allocs := r.allocs + 1 } := by
  simp only [Recycle.reserve, h0, ha, hp, h2, h3]; simp

theorem rsv_arc_shared (r : Rec) (k : Nat) (h0 : ¬ k ≤ r.cap - r.len) (ha : r.arc = true)
    (hp : r.parts ≠ 0) :
    Recycle.reserve r k =
      { r with A := max (r.len + k) (Recycle.origCap r.orig), off := 0,
               cap := max (r.len + k) (Recycle.origCap r.orig), arc := false, parts := 0,
               pinned := r.A :: r.pinned,
               allocs := if max (r.len + k) (Recycle.origCap r.orig) = 0 then r.allocs
                         else r.allocs + 1 } := by
  simp only [Recycle.reserve, h0, ha, hp]; simp

/-! ## `mutReserve` from `mutReserveInner` -/

theorem mutReserve_of_inner {cfg : Cfg} {e : Env} {arc reg : Option Nat} {off len cap orig k : Nat}
    {s S : St} {H : Handle} {b : Bool} (hadd : ¬ k ≤ cap - len)
    (h1 : mutReserveInner cfg e (.mut arc reg off len cap orig) k true s = .ok (H, b) S) :
    mutReserve cfg e (.mut arc reg off len cap orig) k s = .ok H S := by
  simp only [mutReserve, if_neg hadd, bind_apply, h1, pure_apply]

theorem mutReserve_of_inner_panic {cfg : Cfg} {e : Env} {arc reg : Option Nat} {off len cap orig k : Nat}
    {s S : St} (hadd : ¬ k ≤ cap - len)
    (h1 : mutReserveInner cfg e (.mut arc reg off len cap orig) k true s = .panic S) :
    mutReserve cfg e (.mut arc reg off len cap orig) k s = .panic S := by
  simp only [mutReserve, if_neg hadd, bind_apply, h1]

/-- what the refinement theorem concludes about the outcome `h'`, `s'` of `mutReserve … k s` -/
def Concl (s : St) (r : Rec) (k : Nat) (h' : Handle) (s' : St) : Prop :=
  s'.hs = s.hs ∧ RecViewL s'.regions s'.ctrls h' (Recycle.reserve r k) ∧
  allocCount s'.events + r.allocs = allocCount s.events + (Recycle.reserve r k).allocs

/-! ## the part of the invariant the allocation decisions depend on -/

/-- What `mutReserve` needs to know about the state to take its decision for the handle `h`: W1, the
representation invariant of `h` itself, and — for every live control block — a positive count and the
buffer it names.  The handle table is not mentioned, so `WInv` also holds in the intermediate states of
an operation in which the table and the reference counts are temporarily out of step (`unsplit`). -/
structure WInv (s : St) (h : Handle) : Prop where
  regs : ∀ (r : Nat) (rg : Region), s.regions[r]? = some rg → regionOKB rg = true
  hok : handleOKL s.regions s.ctrls h = true
  cok : ∀ (c : Nat) (e : CtrlE), s.ctrls[c]? = some e → e.live = true →
    1 ≤ e.rc ∧ ctrlBufOK s.regions s.owners e.c

theorem winv_of_inv {s : St} (hI : Inv s) {i : Nat} {h : Handle} (hi : s.hs[i]? = some (some h)) : WInv s h :=
  ⟨hI.regs, hI.hok i h hi, fun c e he hl => (hI.cok c e he hl).2⟩

/-- `WInv` does not look at the handle table or the event list -/
theorem WInv.congr {s t : St} {h : Handle} (hW : WInv s h) (hR : t.regions = s.regions)
    (hC : t.ctrls = s.ctrls) (hO : t.owners = s.owners) : WInv t h :=
  ⟨by rw [hR]; exact hW.regs, by rw [hR, hC]; exact hW.hok, by rw [hR, hC, hO]; exact hW.cok⟩

theorem WInv.cok' {s : St} {h : Handle} (hW : WInv s h) {c : Nat} {ct : Ctrl}
    (hc : liveCtrlL s.ctrls c = some ct) :
    ∃ e, s.ctrls[c]? = some e ∧ e.live = true ∧ e.c = ct ∧ 1 ≤ e.rc ∧ ctrlBufOK s.regions s.owners ct := by
  obtain ⟨e, he, hl, rfl⟩ := liveCtrlL_some_iff.mp hc
  exact ⟨e, he, hl, rfl, hW.cok c e he hl⟩

/-! ## KIND_VEC -/

theorem rr_vec {s : St} {reg : Option Nat} {off len cap orig : Nat}
    (hI : WInv s (.mut none reg off len cap orig)) (cfg : Cfg) (e : Env)
    (k : Nat) (hadd : ¬ k ≤ cap - len) (r : Rec)
    (hv : RecView s (.mut none reg off len cap orig) r) {h' : Handle} {s' : St}
    (hok : mutReserve cfg e (.mut none reg off len cap orig) k s = .ok h' s') :
    Concl s r k h' s' := by
  have hok0 := hI.hok
  obtain ⟨hlc, hoffb, hregc, hrd⟩ := handleOKL_mutV.mp hok0
  obtain ⟨v, hv0⟩ := Option.isSome_iff_exists.mp hrd
  have hvl := rdL_length hI.regs hv0
  obtain ⟨ra, ro, rl, rc, rorig, rA, rp⟩ := RecView_vec.mp hv
  have hadd' : ¬ k ≤ r.cap - r.len := by rw [rc, rl]; exact hadd
  by_cases hfront : cap - len + off ≥ k ∧ off ≥ len
  · -- move the contents to the front of the allocation
    have e1 := rsv_vec_front r k hadd' ra (by rw [rc, rl, ro]; exact hfront)
    cases reg with
    | none => simp only at hregc; omega
    | some r0 =>
      simp only at hregc
      obtain ⟨rg, kk, hr, hlive, hkind⟩ := isHeapLiveL_iff.mp hregc.1
      have hsz : off + cap = rg.size := by simpa [regionSizeL_def, hr] using hregc.2
      obtain ⟨hszle, hdl⟩ := region_size_le hI.regs hr
      have hW : cap + off < W := by rw [W_eq]; rw [isizeMax_eq] at hszle; omega
      have hA : r.A = rg.size := by simpa [bufSizeL, regionSizeL_def, hr] using rA
      by_cases hl0 : len = 0
      · subst hl0
        have h1 : mutReserveInner cfg e (.mut none (some r0) off 0 cap orig) k true s =
            .ok (.mut none (some r0) 0 0 (cap + off) orig, true) s := by
          simp only [mutReserveInner, bind_apply, ite_apply', if_pos hfront, copyWithin_zero,
            uadd_eq cfg hW, pure_apply]
        have h2 := mutReserve_of_inner hadd h1
        rw [h2] at hok
        obtain ⟨rfl, rfl⟩ := R.ok.inj hok
        refine ⟨rfl, ?_, by rw [e1]⟩
        rw [e1]
        exact ⟨ra, rfl, rl, by show r.cap + r.off = cap + off; rw [rc, ro], rorig, rA, rp⟩
      · have h1 : mutReserveInner cfg e (.mut none (some r0) off len cap orig) k true s =
            .ok (.mut none (some r0) 0 len (cap + off) orig, true)
              { s with regions := s.regions.set r0 (rg.write 0 v) } := by
          have hcw := copyWithin_eq (s := s) hl0 hv0 hvl hr hlive
            (by omega : 0 + len ≤ rg.size) hkind
          simp only [mutReserveInner, bind_apply, ite_apply', if_pos hfront, hcw, uadd_eq cfg hW,
            pure_apply]
        have h2 := mutReserve_of_inner hadd h1
        rw [h2] at hok
        obtain ⟨rfl, rfl⟩ := R.ok.inj hok
        refine ⟨rfl, ?_, by rw [e1]⟩
        rw [e1]
        refine ⟨ra, rfl, rl, by show r.cap + r.off = cap + off; rw [rc, ro], rorig, ?_, rp⟩
        show r.A = bufSizeL (s.regions.set r0 (rg.write 0 v)) (some r0)
        simp [bufSizeL, regionSizeL_def, lookup_set_eq _ hr, hA]
  · have e1 := rsv_vec_grow r k hadd' ra (by rw [rc, rl, ro]; exact hfront)
    rw [ro, rc, rl, growCap_eq_vecGrowCap] at e1
    have hna : ¬ k ≤ (off + cap) - (off + len) := by omega
    by_cases hg : vecGrowCap (off + cap) (off + len + k) > isizeMax
    · exfalso
      have h1 : mutReserveInner cfg e (.mut none reg off len cap orig) k true s = .panic s := by
        simp only [mutReserveInner, bind_apply, ite_apply', if_neg hfront, Bool.not_true,
          Bool.false_eq_true, if_false, vecReserve_panic_grow e hna hg]
      rw [mutReserve_of_inner_panic hadd h1] at hok
      cases hok
    · have hg' : vecGrowCap (off + cap) (off + len + k) ≤ isizeMax := by omega
      cases reg with
      | none =>
        simp only at hregc
        have h1' : off = 0 := by omega
        have h2' : cap = 0 := by omega
        have h3' : len = 0 := by omega
        subst h1' h2' h3'
        simp only [Nat.add_zero] at hg' hna e1
        have h1 : mutReserveInner cfg e (.mut none none 0 0 0 orig) k true s =
            .ok (.mut none (some s.regions.length) 0 0 (vecGrowCap 0 (0 + k) - 0) orig, true)
              ⟨s.regions ++ [⟨vecGrowCap 0 (0 + k), List.replicate (vecGrowCap 0 (0 + k)) none, true,
                  .heap (e.odd s.regions.length)⟩],
                s.ctrls, s.hs, s.owners, .alloc s.regions.length (vecGrowCap 0 (0 + k)) :: s.events⟩ := by
          simp only [mutReserveInner, bind_apply, ite_apply', if_neg hfront, Bool.not_true,
            Bool.false_eq_true, if_false, Nat.add_zero, vecReserve_grow_none e hna hg', pure_apply]
        have h2 := mutReserve_of_inner hadd h1
        rw [h2] at hok
        obtain ⟨rfl, rfl⟩ := R.ok.inj hok
        refine ⟨rfl, ?_, ?_⟩
        · rw [e1]
          refine ⟨ra, rfl, rfl, rfl, rorig, ?_, rp⟩
          show vecGrowCap 0 (0 + k) = bufSizeL _ (some s.regions.length)
          simp [bufSizeL, regionSizeL_new]
        · rw [e1]; simp only [allocCount_alloc]; omega
      | some r0 =>
        simp only at hregc
        obtain ⟨rg, kk, hr, hlive, hkind⟩ := isHeapLiveL_iff.mp hregc.1
        have hsz : off + cap = rg.size := by simpa [regionSizeL_def, hr] using hregc.2
        have h0 : off + cap ≠ 0 := by rw [hregc.2]; exact heap_size_pos hI.regs hregc.1
        have hrlt : r0 < s.regions.length := lookup_lt hr
        have hvr := vecReserve_grow_some e (s := s) hna hg' hr hlive hsz.symm hkind h0
        have h1 : mutReserveInner cfg e (.mut none (some r0) off len cap orig) k true s =
            .ok (.mut none (some s.regions.length) off len (vecGrowCap (off + cap) (off + len + k) - off) orig, true)
              ⟨(s.regions ++ [(⟨vecGrowCap (off + cap) (off + len + k),
                  rg.data.take (off + len) ++ List.replicate
                    (vecGrowCap (off + cap) (off + len + k) - (rg.data.take (off + len)).length) none,
                  true, .heap (e.odd s.regions.length)⟩ : Region)]).set r0 rg.kill,
                s.ctrls, s.hs, s.owners,
                .dealloc r0 (off + cap) :: .alloc s.regions.length (vecGrowCap (off + cap) (off + len + k)) ::
                  s.events⟩ := by
          simp only [mutReserveInner, bind_apply, ite_apply', if_neg hfront, Bool.not_true,
            Bool.false_eq_true, if_false, hvr, pure_apply]
        have h2 := mutReserve_of_inner hadd h1
        rw [h2] at hok
        obtain ⟨rfl, rfl⟩ := R.ok.inj hok
        refine ⟨rfl, ?_, ?_⟩
        · rw [e1]
          refine ⟨ra, rfl, rfl, rfl, rorig, ?_, rp⟩
          show vecGrowCap (off + cap) (off + len + k) = bufSizeL _ (some s.regions.length)
          simp only [bufSizeL]
          rw [List.set_append_left _ _ hrlt]
          have : (s.regions.set r0 rg.kill).length = s.regions.length := by simp
          rw [← this, regionSizeL_new]
        · rw [e1]; simp only [allocCount_alloc, allocCount_dealloc]; omega

/-! ## KIND_ARC -/

theorem rr_arc {s : St} {c : Nat} {reg : Option Nat} {off len cap orig : Nat}
    (hI : WInv s (.mut (some c) reg off len cap orig)) (cfg : Cfg) (e : Env)
    (k : Nat) (hadd : ¬ k ≤ cap - len) (r : Rec)
    (hv : RecView s (.mut (some c) reg off len cap orig) r) {h' : Handle} {s' : St}
    (hok : mutReserve cfg e (.mut (some c) reg off len cap orig) k s = .ok h' s') :
    Concl s r k h' s' := by
  have hok0 := hI.hok
  obtain ⟨hlc, ⟨vlen, vcap, vorig, hlivec, hcap⟩, hrd⟩ := handleOKL_mutA.mp hok0
  obtain ⟨v, hv0⟩ := Option.isSome_iff_exists.mp hrd
  have hvl := rdL_length hI.regs hv0
  obtain ⟨ce, he, hl, hct, hrc1, hbuf⟩ := hI.cok' hlivec
  obtain ⟨ct, rc, live⟩ := ce
  simp only at hl hct hrc1
  subst hl hct
  -- the record sees the same control block
  obtain ⟨vreg', vlen', vcap', vorig', rc', he', ra, ro, rl, rcp, rorig, rA, rp⟩ := RecView_arc.mp hv
  rw [he] at he'
  have hinj : (reg = vreg' ∧ vlen = vlen' ∧ vcap = vcap' ∧ vorig = vorig') ∧ rc = rc' := by
    simpa using he'
  obtain ⟨⟨_, _, rfl, rfl⟩, rfl⟩ := hinj
  clear he'
  have hadd' : ¬ k ≤ r.cap - r.len := by rw [rcp, rl]; exact hadd
  by_cases hW : len + k ≥ W
  · exfalso
    have h1 : mutReserveInner cfg e (.mut (some c) reg off len cap orig) k true s = .panic s := by
      simp only [mutReserveInner, bind_apply, ite_apply', if_pos hW, if_true, panic_apply]
    rw [mutReserve_of_inner_panic hadd h1] at hok
    cases hok
  have hget : getCtrl c s = .ok ⟨.sharedV reg vlen vcap vorig, rc, true⟩ s := getCtrl_eq (s := s) he rfl
  -- the shared vector is at most `isize::MAX` long
  have hvc : vcap ≤ isizeMax ∧ (reg = none → vcap = 0) := by
    cases reg with
    | none => simp only [ctrlBufOK] at hbuf; subst hbuf; exact ⟨Nat.zero_le _, fun _ => rfl⟩
    | some r0 =>
      simp only [ctrlBufOK] at hbuf
      obtain ⟨rg, kk, hr, _, _⟩ := isHeapLiveL_iff.mp hbuf.1
      have : rg.size = vcap := by simpa [regionSizeL_def, hr] using hbuf.2
      exact ⟨by rw [← this]; exact (region_size_le hI.regs hr).1, fun h => by cases h⟩
  by_cases hu : rc = 1
  · subst hu
    have rp0 : r.parts = 0 := by rw [rp]
    have hbufr : ∀ r0, reg = some r0 → ∃ rg kk, s.regions[r0]? = some rg ∧ rg.live = true ∧
        rg.kind = .heap kk ∧ rg.size = vcap ∧ rg.data.length = rg.size := by
      intro r0 hreg; subst hreg
      simp only [ctrlBufOK] at hbuf
      obtain ⟨rg, kk, hr, hlive, hkind⟩ := isHeapLiveL_iff.mp hbuf.1
      have : rg.size = vcap := by simpa [regionSizeL_def, hr] using hbuf.2
      exact ⟨rg, kk, hr, hlive, hkind, this, (region_size_le hI.regs hr).2⟩
    by_cases hin : vcap ≥ min (len + k + off) (W - 1)
    · -- enough room behind the view: in place
      have hin' : vcap ≥ len + k + off := by
        have := hvc.1; rw [W_eq] at hin; rw [isizeMax_eq] at this; omega
      have e1 := rsv_arc_inplace r k hadd' ra rp0 (by rw [rA, rl, ro]; exact hin')
      have h1 : mutReserveInner cfg e (.mut (some c) reg off len cap orig) k true s =
          .ok (.mut (some c) reg off len (len + k) orig, true) s := by
        simp only [mutReserveInner, bind_apply, ite_apply', if_neg hW, hget, if_true, if_pos hin,
          pure_apply]
      rw [mutReserve_of_inner hadd h1] at hok
      obtain ⟨rfl, rfl⟩ := R.ok.inj hok
      refine ⟨rfl, ?_, by rw [e1]⟩
      rw [e1]
      exact ⟨reg, vlen, vcap, vorig, 1, he, ra, ro, rl, by show r.len + k = len + k; rw [rl], rorig, rA, rp⟩
    · by_cases hfr : vcap ≥ len + k ∧ off ≥ len
      · -- move to the front of the shared vector
        have hin' : ¬ vcap ≥ len + k + off := by rw [W_eq] at hin; omega
        have e1 := rsv_arc_front r k hadd' ra rp0 (by rw [rA, rl, ro]; exact hin')
          (by rw [rA, rl, ro]; exact hfr)
        cases reg with
        | none => have := hvc.2 rfl; omega
        | some r0 =>
          obtain ⟨rg, kk, hr, hlive, hkind, hsz, hdl⟩ := hbufr r0 rfl
          by_cases hl0 : len = 0
          · subst hl0
            have h1 : mutReserveInner cfg e (.mut (some c) (some r0) off 0 cap orig) k true s =
                .ok (.mut (some c) (some r0) 0 0 vcap orig, true) s := by
              simp only [mutReserveInner, bind_apply, ite_apply', if_neg hW, hget, if_true, if_neg hin,
                if_pos hfr, copyWithin_zero, pure_apply]
            rw [mutReserve_of_inner hadd h1] at hok
            obtain ⟨rfl, rfl⟩ := R.ok.inj hok
            refine ⟨rfl, ?_, by rw [e1]⟩
            rw [e1]
            exact ⟨some r0, vlen, vcap, vorig, 1, he, ra, rfl, rl, rA, rorig, rA, rp⟩
          · have hcw := copyWithin_eq (s := s) hl0 hv0 hvl hr hlive (by omega : 0 + len ≤ rg.size) hkind
            have h1 : mutReserveInner cfg e (.mut (some c) (some r0) off len cap orig) k true s =
                .ok (.mut (some c) (some r0) 0 len vcap orig, true)
                  { s with regions := s.regions.set r0 (rg.write 0 v) } := by
              simp only [mutReserveInner, bind_apply, ite_apply', if_neg hW, hget, if_true, if_neg hin,
                if_pos hfr, hcw, pure_apply]
            rw [mutReserve_of_inner hadd h1] at hok
            obtain ⟨rfl, rfl⟩ := R.ok.inj hok
            refine ⟨rfl, ?_, by rw [e1]⟩
            rw [e1]
            exact ⟨some r0, vlen, vcap, vorig, 1, he, ra, rfl, rl, rA, rorig, rA, rp⟩
      · have hin' : ¬ vcap ≥ len + k + off := by rw [W_eq] at hin; omega
        have e1 := rsv_arc_grow r k hadd' ra rp0 (by rw [rA, rl, ro]; exact hin')
          (by rw [rA, rl, ro]; exact hfr)
        by_cases hov : len + k + off ≥ W
        · exfalso
          have h1 : mutReserveInner cfg e (.mut (some c) reg off len cap orig) k true s = .panic s := by
            simp only [mutReserveInner, bind_apply, ite_apply', if_neg hW, hget, if_true, if_neg hin,
              if_neg hfr, Bool.not_true, Bool.false_eq_true, if_false, if_pos hov, panic_apply]
          rw [mutReserve_of_inner_panic hadd h1] at hok
          cases hok
        · -- grow the shared vector
          have hlt : vcap < len + k + off := by omega
          have hda : ∀ s', dassert cfg (decide (off + len ≤ vcap)) s' = .ok () s' :=
            fun s' => dassert_eq cfg (by simp; omega) s'
          have h2W : vcap * 2 < W := by have := hvc.1; rw [W_eq]; rw [isizeMax_eq] at this; omega
          obtain ⟨T, hT, hTw⟩ : ∃ T, T = max (if vcap * 2 < W then vcap * 2 else len + k + off)
              (len + k + off) ∧ len + k + off ≤ T := ⟨_, rfl, Nat.le_max_right _ _⟩
          have hT' : T = max (vcap * 2) (len + k + off) := by rw [hT, if_pos h2W]
          have hna : ¬ T - (off + len) ≤ vcap - (off + len) := by omega
          have hNT : off + len + (T - (off + len)) = T := by omega
          have hexec :
              mutReserveInner cfg e (.mut (some c) reg off len cap orig) k true s =
              match vecReserve e reg (off + len) vcap (T - (off + len)) s with
              | .ok x s1 => .ok (.mut (some c) x.fst off len (x.snd - off) orig, true)
                  { s1 with ctrls := s1.ctrls.set c ⟨.sharedV x.fst (off + len) x.snd vorig, 1, true⟩ }
              | .panic s1 => .panic s1
              | .ub w s1 => .ub w s1 := by
            simp only [mutReserveInner, bind_apply, ite_apply', if_neg hW, hget, if_true, if_neg hin,
              if_neg hfr, Bool.not_true, Bool.false_eq_true, if_false, if_neg hov, hda, ← hT]
            cases vecReserve e reg (off + len) vcap (T - (off + len)) s <;>
              simp only [setCtrl_apply, pure_apply, bind_apply]
          rw [rA, rl, ro, growCap_eq_vecGrowCap, ← hT'] at e1
          by_cases hg : vecGrowCap vcap (off + len + (T - (off + len))) > isizeMax
          · exfalso
            have h1 : mutReserveInner cfg e (.mut (some c) reg off len cap orig) k true s = .panic s := by
              rw [hexec, vecReserve_panic_grow e hna hg]
            rw [mutReserve_of_inner_panic hadd h1] at hok
            cases hok
          · have hg' : vecGrowCap vcap (off + len + (T - (off + len))) ≤ isizeMax := by omega
            cases reg with
            | none =>
              have hvc0 := hvc.2 rfl
              subst hvc0
              have h1 := hexec
              rw [vecReserve_grow_none e hna hg'] at h1
              simp only [hNT] at h1
              rw [mutReserve_of_inner hadd h1] at hok
              obtain ⟨rfl, rfl⟩ := R.ok.inj hok
              refine ⟨rfl, ?_, ?_⟩
              · rw [e1]
                exact ⟨_, _, _, _, _, lookup_set_eq _ he, ra, rfl, rfl, rfl, rorig, rfl, rp⟩
              · rw [e1]; simp only [allocCount_alloc]; omega
            | some r0 =>
              obtain ⟨rg, kk, hr, hlive, hkind, hsz, hdl⟩ := hbufr r0 rfl
              have h0 : vcap ≠ 0 := by
                simp only [ctrlBufOK] at hbuf
                rw [← hbuf.2]; exact heap_size_pos hI.regs hbuf.1
              have h1 := hexec
              rw [vecReserve_grow_some e (s := s) hna hg' hr hlive hsz hkind h0] at h1
              simp only [hNT] at h1
              rw [mutReserve_of_inner hadd h1] at hok
              obtain ⟨rfl, rfl⟩ := R.ok.inj hok
              refine ⟨rfl, ?_, ?_⟩
              · rw [e1]
                exact ⟨_, _, _, _, _, lookup_set_eq _ he, ra, rfl, rfl, rfl, rorig, rfl, rp⟩
              · rw [e1]; simp only [allocCount_alloc, allocCount_dealloc]; omega
  · -- shared with other handles: copy into a fresh vector, release the old block
    have rp1 : r.parts ≠ 0 := by rw [rp]; omega
    have e1 := rsv_arc_shared r k hadd' ra rp1
    rw [rl, rorig, origCap_eq] at e1
    obtain ⟨T, hT⟩ : ∃ T, T = max (len + k) (originalCapacityFromRepr vorig) := ⟨_, rfl⟩
    rw [← hT] at e1
    have hTle : len + k ≤ T := by rw [hT]; exact Nat.le_max_left _ _
    have hT0 : T ≠ 0 := by omega
    rw [if_neg hT0] at e1
    have hrdX : readRange reg off len s = .ok v s := readRange_of_rdL (s := s) hv0
    by_cases hTmax : T > isizeMax
    · exfalso
      have h1 : mutReserveInner cfg e (.mut (some c) reg off len cap orig) k true s = .panic s := by
        simp only [mutReserveInner, bind_apply, ite_apply', if_neg hW, hget, if_neg hu, Bool.not_true,
          Bool.false_eq_true, if_false, hrdX, ← hT, vecNew_panic e v hTmax]
      rw [mutReserve_of_inner_panic hadd h1] at hok
      cases hok
    · have hTmax' : T ≤ isizeMax := by omega
      have hrel : releaseCtrl c ⟨s.regions ++ [vecRegion v T (e.odd s.regions.length)], s.ctrls, s.hs,
            s.owners, .alloc s.regions.length T :: s.events⟩ = .ok ()
          ⟨s.regions ++ [vecRegion v T (e.odd s.regions.length)],
            s.ctrls.set c ⟨.sharedV reg vlen vcap vorig, rc - 1, true⟩, s.hs, s.owners,
            .alloc s.regions.length T :: s.events⟩ :=
        releaseCtrl_dec (s := ⟨s.regions ++ [vecRegion v T (e.odd s.regions.length)], s.ctrls, s.hs,
          s.owners, .alloc s.regions.length T :: s.events⟩) he rfl (by simp only; omega) hu
      have h1 : mutReserveInner cfg e (.mut (some c) reg off len cap orig) k true s =
          .ok (.mut none (some s.regions.length) 0 len T vorig, true)
            ⟨s.regions ++ [vecRegion v T (e.odd s.regions.length)],
              s.ctrls.set c ⟨.sharedV reg vlen vcap vorig, rc - 1, true⟩, s.hs, s.owners,
              .alloc s.regions.length T :: s.events⟩ := by
        simp only [mutReserveInner, bind_apply, ite_apply', if_neg hW, hget, if_neg hu, Bool.not_true,
          Bool.false_eq_true, if_false, hrdX, ← hT, vecNew_eq' e v hT0 hTmax', hrel, pure_apply]
      rw [mutReserve_of_inner hadd h1] at hok
      obtain ⟨rfl, rfl⟩ := R.ok.inj hok
      refine ⟨rfl, ?_, ?_⟩
      · rw [e1]
        refine ⟨rfl, rfl, rfl, rfl, rfl, ?_, rfl⟩
        show T = bufSizeL _ (some s.regions.length)
        simp [bufSizeL, regionSizeL_new, vecRegion]
      · rw [e1]; simp only [allocCount_alloc]; omega

/-! ## what the invariant adds to the relation -/

/-- under the invariant, `r.A` is the size of the region the handle points into (also for KIND_ARC,
where `RecView` reads it off the control block), and the record satisfies the layout invariant `RInv`
that Props/C18.lean assumes -/
theorem RecView.layout {s : St} (hI : Inv s) {i : Nat} {arc reg : Option Nat} {off len cap orig : Nat}
    (hi : s.hs[i]? = some (some (.mut arc reg off len cap orig))) {r : Rec}
    (hv : RecView s (.mut arc reg off len cap orig) r) :
    r.A = bufSizeL s.regions reg ∧ Recycle.RInv r := by
  have hok0 := hI.hok i _ hi
  cases arc with
  | none =>
    obtain ⟨hlc, hoffb, hregc, hrd⟩ := handleOKL_mutV.mp hok0
    obtain ⟨ra, ro, rl, rc, rorig, rA, rp⟩ := RecView_vec.mp hv
    have hA : off + cap = r.A := by
      cases reg with
      | none => simp only at hregc; simp [bufSizeL] at rA; omega
      | some r0 => simp only at hregc; simp only [bufSizeL] at rA; omega
    exact ⟨rA, ⟨by omega, by omega, fun _ => by omega⟩⟩
  | some c =>
    obtain ⟨hlc, ⟨vlen, vcap, vorig, hlivec, hcap⟩, hrd⟩ := handleOKL_mutA.mp hok0
    obtain ⟨ce, he, hl, hct, hrc, hrc1, hbuf⟩ := hI.cok' hlivec
    obtain ⟨ct, rc, live⟩ := ce
    simp only at hl hct hrc hrc1
    subst hl hct
    obtain ⟨vreg', vlen', vcap', vorig', rc', he', ra, ro, rl, rcp, rorig, rA, rp⟩ := RecView_arc.mp hv
    rw [he] at he'
    have hinj : (reg = vreg' ∧ vlen = vlen' ∧ vcap = vcap' ∧ vorig = vorig') ∧ rc = rc' := by
      simpa using he'
    obtain ⟨⟨_, _, rfl, rfl⟩, rfl⟩ := hinj
    refine ⟨?_, ⟨by omega, by omega, fun h => by rw [ra] at h; cases h⟩⟩
    cases reg with
    | none => simp only [ctrlBufOK] at hbuf; simp [bufSizeL]; omega
    | some r0 => simp only [ctrlBufOK] at hbuf; simp only [bufSizeL]; omega

/-- `r.parts` of a KIND_ARC view counts the other live handles on the control block -/
theorem RecView.parts_eq {s : St} (hI : Inv s) {i c : Nat} {reg : Option Nat} {off len cap orig : Nat}
    (hi : s.hs[i]? = some (some (.mut (some c) reg off len cap orig))) {r : Rec}
    (hv : RecView s (.mut (some c) reg off len cap orig) r) :
    r.parts = refCountL s.hs c - 1 := by
  obtain ⟨vreg', vlen', vcap', vorig', rc', he', ra, ro, rl, rcp, rorig, rA, rp⟩ := RecView_arc.mp hv
  have := (hI.cok c _ he' rfl).1
  simp only at this
  rw [rp, this]

/-! ## the refinement theorem -/

/-- the state `Op.reserve i k` produces from the outcome `h'`, `s'` of `mutReserve`: the new handle is
stored in slot `i` -/
def setH (s : St) (i : Nat) (h : Handle) : St := { s with hs := s.hs.set i (some h) }

/-- **`mutReserve` refines `Recycle.reserve`** (strong form: the witness is `Recycle.reserve r k`
itself; `pinned` and `allocs` are not constrained by `RecView`, the allocation count is tied to the
event list of M1 in additive form).  No side condition beyond the invariant was needed. -/
theorem reserve_refines_w (cfg : Cfg) (e : Env) {s : St} {arc reg : Option Nat} {off len cap orig : Nat}
    (hI : WInv s (.mut arc reg off len cap orig)) (k : Nat) (r : Rec)
    (hv : RecView s (.mut arc reg off len cap orig) r) (h' : Handle) (s' : St)
    (hok : mutReserve cfg e (.mut arc reg off len cap orig) k s = .ok h' s') :
    Concl s r k h' s' := by
  unfold Concl
  by_cases hadd : k ≤ cap - len
  · -- enough spare capacity: nothing happens in either model
    have h1 : mutReserve cfg e (.mut arc reg off len cap orig) k s = .ok (.mut arc reg off len cap orig) s := by
      simp only [mutReserve, if_pos hadd, pure_apply]
    rw [h1] at hok
    obtain ⟨rfl, rfl⟩ := R.ok.inj hok
    have e1 : Recycle.reserve r k = r := by
      apply rsv_noop
      cases arc with
      | none => obtain ⟨_, _, rl, rc, _⟩ := RecView_vec.mp hv; rw [rc, rl]; exact hadd
      | some c =>
        obtain ⟨_, _, _, _, _, _, _, _, rl, rc, _⟩ := RecView_arc.mp hv; rw [rc, rl]; exact hadd
    rw [e1]
    exact ⟨rfl, hv, rfl⟩
  · cases arc with
    | none => exact rr_vec hI cfg e k hadd r hv hok
    | some c => exact rr_arc hI cfg e k hadd r hv hok

theorem reserve_refines_strong (cfg : Cfg) (e : Env) {s : St} (hI : Inv s) {i : Nat}
    {arc reg : Option Nat} {off len cap orig : Nat}
    (hi : s.hs[i]? = some (some (.mut arc reg off len cap orig))) (k : Nat) (r : Rec)
    (hv : RecView s (.mut arc reg off len cap orig) r) (h' : Handle) (s' : St)
    (hok : mutReserve cfg e (.mut arc reg off len cap orig) k s = .ok h' s') :
    s'.hs = s.hs ∧ RecView (setH s' i h') h' (Recycle.reserve r k) ∧
    allocCount s'.events + r.allocs = allocCount s.events + (Recycle.reserve r k).allocs :=
  reserve_refines_w cfg e (winv_of_inv hI hi) k r hv h' s' hok

/-- **`mutReserve` refines `Recycle.reserve`**, in the shape of the assignment: some record related to
the new handle in the new state agrees with `Recycle.reserve r k` on every field `RecView` constrains,
and the number of byte-buffer allocations performed is the increase of `allocs`. -/
theorem reserve_refines (cfg : Cfg) (e : Env) {s : St} (hI : Inv s) {i : Nat}
    {arc reg : Option Nat} {off len cap orig : Nat}
    (hi : s.hs[i]? = some (some (.mut arc reg off len cap orig))) (k : Nat) (r : Rec)
    (hv : RecView s (.mut arc reg off len cap orig) r) (h' : Handle) (s' : St)
    (hok : mutReserve cfg e (.mut arc reg off len cap orig) k s = .ok h' s') :
    ∃ r', RecView (setH s' i h') h' r' ∧
      r'.A = (Recycle.reserve r k).A ∧ r'.off = (Recycle.reserve r k).off ∧
      r'.len = (Recycle.reserve r k).len ∧ r'.cap = (Recycle.reserve r k).cap ∧
      r'.arc = (Recycle.reserve r k).arc ∧ r'.orig = (Recycle.reserve r k).orig ∧
      r'.parts = (Recycle.reserve r k).parts ∧
      allocCount s'.events - allocCount s.events = (Recycle.reserve r k).allocs - r.allocs := by
  obtain ⟨_, h2, h3⟩ := reserve_refines_strong cfg e hI hi k r hv h' s' hok
  exact ⟨_, h2, rfl, rfl, rfl, rfl, rfl, rfl, rfl, by omega⟩

/-! ## the API operation -/

/-- `Op.reserve i k` (= `BytesMut::reserve`) on a well-formed state: the handle in slot `i` afterwards
is related to `Recycle.reserve r k` -/
theorem step_reserve_refines_strong (cfg : Cfg) (e : Env) {s s' : St} (hw : WFx s) {i k : Nat} {v : Val}
    {arc reg : Option Nat} {off len cap orig : Nat}
    (hi : s.hs[i]? = some (some (.mut arc reg off len cap orig))) (r : Rec)
    (hv : RecView s (.mut arc reg off len cap orig) r)
    (hok : step cfg e (.reserve i k) s = .ok v s') :
    ∃ h', s'.hs[i]? = some (some h') ∧ RecView s' h' (Recycle.reserve r k) ∧
      allocCount s'.events + r.allocs = allocCount s.events + (Recycle.reserve r k).allocs := by
  simp only [step, bind_apply, getHandle_eq hi] at hok
  cases hm : mutReserve cfg e (.mut arc reg off len cap orig) k s with
  | ok h1 s1 =>
    rw [hm] at hok
    simp only [setHandle_apply, pure_apply] at hok
    obtain ⟨_, rfl⟩ := R.ok.inj hok
    obtain ⟨h1', h2, h3⟩ := reserve_refines_strong cfg e hw.inv hi k r hv h1 s1 hm
    refine ⟨h1, ?_, h2, h3⟩
    show (s1.hs.set i (some h1))[i]? = some (some h1)
    rw [h1']; exact lookup_set_eq _ hi
  | panic s1 => rw [hm] at hok; cases hok
  | ub w s1 => rw [hm] at hok; cases hok

theorem step_reserve_refines (cfg : Cfg) (e : Env) {s s' : St} (hw : WFx s) {i k : Nat} {v : Val}
    {arc reg : Option Nat} {off len cap orig : Nat}
    (hi : s.hs[i]? = some (some (.mut arc reg off len cap orig))) (r : Rec)
    (hv : RecView s (.mut arc reg off len cap orig) r)
    (hok : step cfg e (.reserve i k) s = .ok v s') :
    ∃ h' r', s'.hs[i]? = some (some h') ∧ RecView s' h' r' ∧
      r'.A = (Recycle.reserve r k).A ∧ r'.off = (Recycle.reserve r k).off ∧
      r'.len = (Recycle.reserve r k).len ∧ r'.cap = (Recycle.reserve r k).cap ∧
      r'.arc = (Recycle.reserve r k).arc ∧ r'.orig = (Recycle.reserve r k).orig ∧
      r'.parts = (Recycle.reserve r k).parts ∧
      allocCount s'.events - allocCount s.events = (Recycle.reserve r k).allocs - r.allocs := by
  obtain ⟨h', h1, h2, h3⟩ := step_reserve_refines_strong cfg e hw hi r hv hok
  exact ⟨h', _, h1, h2, rfl, rfl, rfl, rfl, rfl, rfl, rfl, by omega⟩

/-- the relation is re-established, so the theorem can be iterated along a history of reserves, and
the layout invariant of Props/C18.lean holds for the new record -/
theorem step_reserve_layout (cfg : Cfg) (e : Env) {s s' : St} (hw : WFx s) {i k : Nat} {v : Val}
    {arc reg : Option Nat} {off len cap orig : Nat}
    (hi : s.hs[i]? = some (some (.mut arc reg off len cap orig))) (r : Rec)
    (hv : RecView s (.mut arc reg off len cap orig) r)
    (hok : step cfg e (.reserve i k) s = .ok v s') :
    WFx s' ∧ Recycle.RInv r ∧ Recycle.RInv (Recycle.reserve r k) := by
  have hs := step_sound cfg e (.reserve i k) s hw trivial
  unfold StepOKx at hs
  rw [hok] at hs
  have hr := (RecView.layout hw.inv hi hv).2
  obtain ⟨h', h1, h2, _⟩ := step_reserve_refines_strong cfg e hw hi r hv hok
  refine ⟨hs.1, hr, ?_⟩
  have hI' := hs.1.inv
  cases h' with
  | bytes _ _ _ _ => exact h2.elim
  | vec _ _ _ => exact h2.elim
  | «mut» arc' reg' off' len' cap' orig' => exact (RecView.layout hI' h1 h2).2

/-! ## non-vacuity: a concrete reachable state -/

namespace Example

def cfg0 : Cfg := ⟨true, true⟩
def env0 : Env := ⟨fun _ => false⟩

/-- after `BytesMut::with_capacity(8)` -/
def s1 : St :=
  { regions := [⟨8, [none, none, none, none, none, none, none, none], true, .heap false⟩],
    ctrls := [], hs := [some (.mut none (some 0) 0 0 8 0)], owners := 0, events := [.alloc 0 8] }
/-- … `extend_from_slice(&[1,2,3,4])` -/
def s2 : St :=
  { regions := [⟨8, [some 1, some 2, some 3, some 4, none, none, none, none], true, .heap false⟩],
    ctrls := [], hs := [some (.mut none (some 0) 0 4 8 0)], owners := 0, events := [.alloc 0 8] }
/-- … `split_to(2)`: handle 0 is KIND_ARC at offset 2, one split-off part (handle 1) is alive -/
def s3 : St :=
  { regions := [⟨8, [some 1, some 2, some 3, some 4, none, none, none, none], true, .heap false⟩],
    ctrls := [⟨.sharedV (some 0) 4 8 0, 2, true⟩],
    hs := [some (.mut (some 0) (some 0) 2 2 6 0), some (.mut (some 0) (some 0) 0 2 2 0)],
    owners := 0, events := [.allocCtrl 0, .alloc 0 8] }
/-- … `reserve(10)`: a fresh 12-byte vector, the old allocation stays with the part -/
def s4 : St :=
  { regions := [⟨8, [some 1, some 2, some 3, some 4, none, none, none, none], true, .heap false⟩,
                ⟨12, [some 3, some 4, none, none, none, none, none, none, none, none, none, none], true, .heap false⟩],
    ctrls := [⟨.sharedV (some 0) 4 8 0, 1, true⟩],
    hs := [some (.mut (some 0) (some 0) 2 2 6 0), some (.mut (some 0) (some 0) 0 2 2 0)],
    owners := 0, events := [.alloc 1 12, .allocCtrl 0, .alloc 0 8] }

theorem step1 : step cfg0 env0 (.mutWithCapacity 8) {} = .ok (.handle 0) s1 := rfl
theorem step2 : step cfg0 env0 (.extend 0 [1, 2, 3, 4]) s1 = .ok .unit s2 := rfl
theorem step3 : step cfg0 env0 (.splitTo 0 2) s2 = .ok (.handle 1) s3 := rfl

theorem WFx_step {cfg : Cfg} {e : Env} {op : Op} {s s' : St} {v : Val} (hw : WFx s)
    (h : step cfg e op s = .ok v s') (ho : OpOK op) : WFx s' := by
  have := step_sound cfg e op s hw ho
  unfold StepOKx at this
  rw [h] at this
  exact this.1

/-- `s3` is reachable, hence well-formed -/
theorem wfx3 : WFx s3 := WFx_step (WFx_step (WFx_step WFx_init step1 trivial) step2 trivial) step3 trivial

/-- the record of the recycling model for handle 0 of `s3` -/
def r3 : Rec := { A := 8, off := 2, len := 2, cap := 6, arc := true, orig := 0, parts := 1, pinned := [], allocs := 1 }

theorem view3 : RecView s3 (.mut (some 0) (some 0) 2 2 6 0) r3 :=
  ⟨some 0, 4, 8, 0, 2, rfl, rfl, rfl, rfl, rfl, rfl, rfl, rfl⟩

theorem run4 : mutReserve cfg0 env0 (.mut (some 0) (some 0) 2 2 6 0) 10 s3 = .ok (.mut none (some 1) 0 2 12 0) s4 := rfl

/-- all hypotheses of `reserve_refines` hold on `s3`; its conclusion, spelled out -/
example :
    RecView (setH s4 0 (.mut none (some 1) 0 2 12 0)) (.mut none (some 1) 0 2 12 0) (Recycle.reserve r3 10) ∧
    allocCount s4.events + r3.allocs = allocCount s3.events + (Recycle.reserve r3 10).allocs :=
  (reserve_refines_strong cfg0 env0 wfx3.inv (i := 0) rfl 10 r3 view3 _ _ run4).2

example : Recycle.reserve r3 10 =
    { A := 12, off := 0, len := 2, cap := 12, arc := false, orig := 0, parts := 0, pinned := [8], allocs := 2 } := by
  decide

example : allocCount s4.events = 2 ∧ allocCount s3.events = 1 := by decide

/-- the same through the API operation -/
example : ∃ v s', step cfg0 env0 (.reserve 0 10) s3 = .ok v s' ∧
    ∃ h', s'.hs[0]? = some (some h') ∧ RecView s' h' (Recycle.reserve r3 10) := by
  refine ⟨.unit, setH s4 0 (.mut none (some 1) 0 2 12 0), rfl, ?_⟩
  obtain ⟨h', h1, h2, _⟩ := step_reserve_refines_strong cfg0 env0 wfx3 (i := 0) (k := 10) rfl r3 view3
    (v := .unit) (s' := setH s4 0 (.mut none (some 1) 0 2 12 0)) rfl
  exact ⟨h', h1, h2⟩

/-- a second branch (KIND_VEC, growing): `with_capacity(8)` then `reserve(9)` reallocates to 16 bytes -/
example : ∃ s', step cfg0 env0 (.reserve 0 9) s1 = .ok .unit s' ∧
    ∃ h', s'.hs[0]? = some (some h') ∧ RecView s' h' (Recycle.reserve (Recycle.init 8) 9) ∧
      (Recycle.reserve (Recycle.init 8) 9).A = 16 ∧ allocCount s'.events = 2 := by
  have hv : RecView s1 (.mut none (some 0) 0 0 8 0) (Recycle.init 8) :=
    ⟨rfl, rfl, rfl, rfl, by decide, rfl, rfl⟩
  refine ⟨_, rfl, ?_⟩
  obtain ⟨h', h1, h2, h3⟩ := step_reserve_refines_strong cfg0 env0 (WFx_step WFx_init step1 trivial)
    (i := 0) (k := 9) rfl (Recycle.init 8) hv (v := .unit) rfl
  exact ⟨h', h1, h2, by decide, by decide⟩

end Example

end C18Refine
end BytesVerif.Core
