/-
C08 — uniqueness is reported truthfully and a sole owner can reclaim its buffer; C04 — reserve keeps
its promise (the exclusivity / in-bounds part of C04 is the invariant itself: `exclusiveB` and
`handleOKB` inside `WF`, preserved by `step_sound`).
-/
import BytesVerif.Lemmas.Core.Sound
import BytesVerif.Lemmas.Core.PropC08
namespace BytesVerif.Core

/-- byte-buffer allocations recorded between two states -/
def newAllocs (s s' : St) : List Ev :=
  (s'.events.take (s'.events.length - s.events.length)).filter fun e => match e with | .alloc _ _ => true | _ => false

/-- what `is_unique` must answer: false for static / owner-backed data, otherwise "no other live
handle names the storage" -/
def uniqueSpec (s : St) : Handle → Bool
  | .bytes .static .. | .bytes (.owned _) .. => false
  | .bytes (.prom _ none) .. => true
  | .bytes (.prom _ (some c)) .. | .bytes (.shared c) .. | .bytes (.sharedV c) .. => refCount s c == 1
  | _ => false

theorem newAllocs_of_events {s s' : St} {evs : List Ev} (h : s'.events = evs ++ s.events)
    (hno : PropC08.NoAlloc evs) : newAllocs s s' = [] := by
  unfold newAllocs
  rw [h, List.length_append, Nat.add_sub_cancel, List.take_left']
  · rw [List.filter_eq_nil_iff]
    intro ev hev
    cases ev with
    | alloc r n => exact absurd rfl (hno _ hev r n)
    | _ => simp
  · rfl

theorem newAllocs_same {s s' : St} (h : s'.events = s.events) : newAllocs s s' = [] :=
  newAllocs_of_events (evs := []) (by simpa using h) PropC08.NoAlloc_nil

theorem uniqueSpec_eq (s : St) (repr : BRepr) (reg : Option Nat) (off len : Nat) :
    uniqueSpec s (.bytes repr reg off len) = PropC08.uniqueB s repr := by
  cases repr with
  | prom vt oc => cases oc <;> rfl
  | _ => rfl


theorem is_unique_iff (cfg : Cfg) (e : Env) (i : Nat) (s : St) (h : WFx s) (repr : BRepr) (reg : Option Nat)
    (off len : Nat) (hi : s.hs[i]? = some (some (.bytes repr reg off len))) :
    step cfg e (.isUnique i) s = .ok (.bool (uniqueSpec s (.bytes repr reg off len))) s := by
  simp only [step, bind_apply, getHandle_eq hi, PropC08.bytesIsUnique_eq h.inv hi, pure_apply,
    uniqueSpec_eq]

/-- `try_into_mut` succeeds exactly when `is_unique` is true, and then returns the same memory
(same region, same offset, same length) without allocating a byte buffer. -/
theorem try_into_mut_iff (cfg : Cfg) (e : Env) (i : Nat) (s : St) (h : WFx s) (repr : BRepr) (reg : Option Nat)
    (off len : Nat) (hi : s.hs[i]? = some (some (.bytes repr reg off len))) :
    (uniqueSpec s (.bytes repr reg off len) = true →
      ∃ s' arc cap orig, step cfg e (.tryIntoMut i) s = .ok (.handle i) s' ∧
        s'.hs[i]? = some (some (.mut arc reg off len cap orig)) ∧ newAllocs s s' = []) ∧
    (uniqueSpec s (.bytes repr reg off len) = false →
      step cfg e (.tryIntoMut i) s = .ok (.err i) s) := by
  have hI := h.inv
  rw [uniqueSpec_eq]
  constructor
  · intro hu
    obtain ⟨m, s1, evs, heq, ⟨arc, cap, orig, rfl⟩, hhs, hev, hno⟩ :=
      PropC08.bytesIntoMut_unique hI cfg e hi hu
    refine ⟨{ s1 with hs := s1.hs.set i (some (.mut arc reg off len cap orig)) }, arc, cap, orig, ?_, ?_,
      newAllocs_of_events (evs := evs) hev hno⟩
    · simp only [step, bind_apply, getHandle_eq hi, PropC08.bytesIsUnique_eq hI hi, hu, if_true, heq,
        setHandle_apply, pure_apply]
    · exact lookup_set_eq _ (by rw [hhs]; exact hi)
  · intro hu
    simp only [step, bind_apply, getHandle_eq hi, PropC08.bytesIsUnique_eq hI hi, hu,
      Bool.false_eq_true, if_false, pure_apply]

/-- C04: when `reserve(n)` returns, `capacity() - len() ≥ n`, and length (and, by `refines`, contents)
are unchanged. -/
theorem reserve_post (cfg : Cfg) (e : Env) (i n : Nat) (s s' : St) (h : WFx s) (v : Val)
    (arc : Option Nat) (reg : Option Nat) (off len cap orig : Nat)
    (hi : s.hs[i]? = some (some (.mut arc reg off len cap orig)))
    (hs : step cfg e (.reserve i n) s = .ok v s') :
    ∃ arc' reg' off' cap' orig', s'.hs[i]? = some (some (.mut arc' reg' off' len cap' orig')) ∧ n ≤ cap' - len := by
  have hI := h.inv
  simp only [step, bind_apply, getHandle_eq hi] at hs
  rcases OpsD.mutReserve_spec hI cfg e hi n with hp | ⟨h', R1, C1, heq, hG⟩
  · have h1 : mutReserve cfg e (.mut arc reg off len cap orig) n s = .panic s := hp s.hs s.events
    simp [h1] at hs
  · obtain ⟨ev1, h1⟩ := heq s.hs s.events
    have h1' : mutReserve cfg e (.mut arc reg off len cap orig) n s =
        .ok h' ⟨R1, C1, s.hs, s.owners, ev1⟩ := h1
    simp only [h1', setHandle_apply, pure_apply, R.ok.injEq] at hs
    obtain ⟨_, rfl⟩ := hs
    obtain ⟨arc', reg', off', cap', orig', rfl, hle⟩ := hG.shape
    exact ⟨arc', reg', off', cap', orig', lookup_set_eq _ hi, hle⟩

/-- C04: a request whose size is not representable panics, in every configuration. -/
theorem reserve_unrepresentable (cfg : Cfg) (e : Env) (i n : Nat) (s : St) (h : WFx s)
    (arc : Option Nat) (reg : Option Nat) (off len cap orig : Nat)
    (hi : s.hs[i]? = some (some (.mut arc reg off len cap orig))) (hbig : isizeMax < len + n) :
    ∃ s', step cfg e (.reserve i n) s = .panic s' := by
  have hI := h.inv
  simp only [step, bind_apply, getHandle_eq hi]
  rcases OpsD.mutReserve_spec hI cfg e hi n with hp | ⟨h', R1, C1, heq, hG⟩
  · have h1 : mutReserve cfg e (.mut arc reg off len cap orig) n s = .panic s := hp s.hs s.events
    exact ⟨s, by simp only [h1]⟩
  · exfalso
    obtain ⟨arc', reg', off', cap', orig', rfl, hle⟩ := hG.shape
    have hI' := hG.inv []
    have := PropC08.mut_cap_le hI' (i := i) (lookup_set_eq _ hi)
    omega

/-- C04: `try_reclaim(n) = true` gives the same guarantee without allocating; `false` leaves
address, length and capacity unchanged. -/
theorem try_reclaim_post (cfg : Cfg) (e : Env) (i n : Nat) (s s' : St) (h : WFx s) (b : Bool)
    (arc : Option Nat) (reg : Option Nat) (off len cap orig : Nat)
    (hi : s.hs[i]? = some (some (.mut arc reg off len cap orig)))
    (hs : step cfg e (.tryReclaim i n) s = .ok (.bool b) s') :
    (b = true → (∃ arc' off' cap' orig', s'.hs[i]? = some (some (.mut arc' reg off' len cap' orig')) ∧ n ≤ cap' - len) ∧
        newAllocs s s' = []) ∧
    (b = false → s'.hs[i]? = some (some (.mut arc reg off len cap orig))) := by
  have hI := h.inv
  simp only [step, bind_apply, getHandle_eq hi] at hs
  by_cases hadd : n ≤ cap - len
  · simp only [if_pos hadd, ite_apply', pure_apply, R.ok.injEq, Val.bool.injEq] at hs
    obtain ⟨rfl, rfl⟩ := hs
    exact ⟨fun _ => ⟨⟨arc, off, cap, orig, hi, hadd⟩, newAllocs_same rfl⟩, fun hb => by cases hb⟩
  · simp only [if_neg hadd, ite_apply', bind_apply] at hs
    rcases PropC08.mri_false hI cfg e hi n with h1 | ⟨R1, off', cap', h1, hle⟩
    · simp only [h1, setHandle_apply, pure_apply, R.ok.injEq, Val.bool.injEq] at hs
      obtain ⟨rfl, rfl⟩ := hs
      exact ⟨fun hb => (by cases hb), fun _ => lookup_set_eq _ hi⟩
    · simp only [h1, setHandle_apply, pure_apply, R.ok.injEq, Val.bool.injEq] at hs
      obtain ⟨rfl, rfl⟩ := hs
      exact ⟨fun _ => ⟨⟨arc, off', cap', orig, lookup_set_eq _ hi, hle⟩, newAllocs_same rfl⟩,
        fun hb => by cases hb⟩

/-- is handle `i` the only live handle on its allocation? -/
def soleOnAlloc (s : St) : Handle → Bool
  | .mut none _ .. => true
  | .mut (some c) _ .. => refCount s c == 1
  | _ => false

theorem soleOnAlloc_iff {s : St} {arc reg : Option Nat} {off len cap orig : Nat}
    (h : soleOnAlloc s (.mut arc reg off len cap orig) = true) : ∀ c, arc = some c → refCount s c = 1 := by
  intro c hc; subst hc
  simpa [soleOnAlloc] using h

/-- C08 / C18: an empty BytesMut that is alone on its allocation can take the whole allocation
back: `try_reclaim(n)` is true for every `n` up to the allocation size, without allocating. -/
theorem reclaim_whole (cfg : Cfg) (e : Env) (i n : Nat) (s : St) (h : WFx s)
    (arc : Option Nat) (r off cap orig : Nat)
    (hi : s.hs[i]? = some (some (.mut arc (some r) off 0 cap orig)))
    (hsole : soleOnAlloc s (.mut arc (some r) off 0 cap orig) = true) (hn : n ≤ regionSize s r) :
    ∃ s', step cfg e (.tryReclaim i n) s = .ok (.bool true) s' ∧ newAllocs s s' = [] := by
  have hI := h.inv
  simp only [step, bind_apply, getHandle_eq hi]
  by_cases hadd : n ≤ cap - 0
  · exact ⟨s, by simp only [if_pos hadd, ite_apply', pure_apply], newAllocs_same rfl⟩
  · obtain ⟨h', h1⟩ := PropC08.mri_whole hI cfg e hi (soleOnAlloc_iff hsole) hn false
    exact ⟨{ s with hs := s.hs.set i (some h') },
      by simp only [if_neg hadd, ite_apply', bind_apply, h1, setHandle_apply, pure_apply],
      newAllocs_same rfl⟩

/-- … and `reserve(n)` for such `n` does not allocate. -/
theorem reserve_whole_no_alloc (cfg : Cfg) (e : Env) (i n : Nat) (s : St) (h : WFx s)
    (arc : Option Nat) (r off cap orig : Nat)
    (hi : s.hs[i]? = some (some (.mut arc (some r) off 0 cap orig)))
    (hsole : soleOnAlloc s (.mut arc (some r) off 0 cap orig) = true) (hn : n ≤ regionSize s r) :
    ∃ v s', step cfg e (.reserve i n) s = .ok v s' ∧ newAllocs s s' = [] := by
  have hI := h.inv
  simp only [step, bind_apply, getHandle_eq hi]
  by_cases hadd : n ≤ cap - 0
  · exact ⟨.unit, { s with hs := s.hs.set i (some (.mut arc (some r) off 0 cap orig)) },
      by simp only [mutReserve, if_pos hadd, ite_apply', pure_apply, setHandle_apply],
      newAllocs_same rfl⟩
  · obtain ⟨h', h1⟩ := PropC08.mri_whole hI cfg e hi (soleOnAlloc_iff hsole) hn true
    exact ⟨.unit, { s with hs := s.hs.set i (some h') },
      by simp only [mutReserve, if_neg hadd, ite_apply', bind_apply, h1, setHandle_apply, pure_apply],
      newAllocs_same rfl⟩

end BytesVerif.Core
