/-
C16 — results do not depend on the build profile (overflow checks, debug assertions) nor on the
address parity the allocator hands out.  (The feature-set dimension is covered by T1's cfg-site
inventory and T2's differential runs; see DESIGN.md.)
-/
import BytesVerif.Lemmas.Core.Sound
import BytesVerif.Lemmas.Core.PropC16
import BytesVerif.Props.C01
namespace BytesVerif.Core

/-- Build profile: under the invariant no unchecked `+`/`-` of the model ever leaves the `usize`
range and no `debug_assert!` ever fails, so the profile cannot be observed — the two runs are
*equal*, state and outcome. -/
theorem cfg_irrelevant (cfg₁ cfg₂ : Cfg) (e : Env) (op : Op) (ho : OpOK op) (s : St) (h : WFx s) :
    step cfg₁ e op s = step cfg₂ e op s :=
  P16.step_cfg cfg₁ cfg₂ e op s h.inv

/-- forget address parity: all heap regions even, all promotable handles on the EVEN vtable -/
def eraseRegion (rg : Region) : Region :=
  match rg.kind with
  | .heap _ => { rg with kind := .heap false }
  | _ => rg

def eraseHandle : Handle → Handle
  | .bytes (.prom _ c) reg off len => .bytes (.prom false c) reg off len
  | h => h

def erase (s : St) : St :=
  { s with regions := s.regions.map eraseRegion, hs := s.hs.map (Option.map eraseHandle) }

def eraseR {α : Type} : R α → R α
  | .ok a s => .ok a (erase s)
  | .panic s => .panic (erase s)
  | .ub w s => .ub w (erase s)

def evenEnv : Env := ⟨fun _ => false⟩

/-! The proofs live in Lemmas/Core/PropC16.lean, which states them for its own copies of the
definitions above (it cannot import this file); the copies are the same functions. -/

theorem eraseRegion_eq : eraseRegion = P16.eraseRegion := by
  funext rg; obtain ⟨sz, d, l, k⟩ := rg; cases k <;> rfl

theorem eraseHandle_eq : eraseHandle = P16.eraseHandle := by
  funext h
  rcases h with ⟨repr, reg, off, len⟩ | ⟨arc, reg, off, len, cap, orig⟩ | ⟨reg, len, cap⟩ <;> rfl

theorem erase_eq : erase = P16.erase := by
  funext s; simp only [erase, P16.erase, eraseRegion_eq, eraseHandle_eq]

theorem evenEnv_eq : evenEnv = P16.evenEnv := rfl

theorem eraseR_eq (r : R Val) : eraseR r = P16.eraseR r := by
  cases r <;> simp only [eraseR, P16.eraseR, erase_eq] <;> rfl

/-- Address parity: running with any allocator and then forgetting parity is the same as forgetting
parity first and running with the all-even allocator — same outcome, same state up to parity. -/
theorem parity_irrelevant (cfg : Cfg) (e : Env) (op : Op) (ho : OpOK op) (s : St) (h : WFx s) :
    eraseR (step cfg e op s) = step cfg evenEnv op (erase s) := by
  rw [eraseR_eq, erase_eq, evenEnv_eq]
  exact P16.parity_simAt cfg e op s h

theorem erase_WFx (s : St) (h : WFx s) : WFx (erase s) := by
  rw [erase_eq]
  exact (P16.Inv_erase h.inv).wfx

/-- what a caller can observe (contents, lengths, kinds) does not see parity -/
theorem abs_erase (s : St) : abs (erase s) = abs s := by
  rw [erase_eq]
  exact P16.abs_erase' s

/-! ### whole scripts -/

/-- Any script, from any well-formed state: the run (final state and every outcome, incl. which calls
panic) is the same under both build profiles. -/
theorem cfg_irrelevant_run (cfg₁ cfg₂ : Cfg) (e : Env) (ops : List Op) (hops : ∀ op ∈ ops, OpOK op)
    (s : St) (h : WFx s) : run cfg₁ e ops s = run cfg₂ e ops s := by
  induction ops generalizing s with
  | nil => rfl
  | cons op ops ih =>
    have ho := hops op List.mem_cons_self
    have hops' : ∀ op' ∈ ops, OpOK op' := fun o h' => hops o (List.mem_cons_of_mem _ h')
    have heq := cfg_irrelevant cfg₁ cfg₂ e op ho s h
    have hs := step_sound cfg₁ e op s h ho
    unfold StepOKx at hs
    rcases R.sat_cases hs with ⟨v, s', hst, hw, _⟩ | ⟨s', hst, hw, _⟩
    · simp only [run, ← heq, hst, ih hops' s' hw]
    · simp only [run, ← heq, hst, ih hops' s' hw]

/-- Any script, from any well-formed state: running under any allocator parity and forgetting parity at
the end is the same as running the parity-erased state under the all-even allocator — same outcomes,
same final state up to parity. -/
theorem parity_irrelevant_run (cfg : Cfg) (e : Env) (ops : List Op) (hops : ∀ op ∈ ops, OpOK op)
    (s : St) (h : WFx s) :
    (run cfg e ops s).map (fun r => (erase r.1, r.2)) = run cfg evenEnv ops (erase s) := by
  induction ops generalizing s with
  | nil => rfl
  | cons op ops ih =>
    have ho := hops op List.mem_cons_self
    have hops' : ∀ op' ∈ ops, OpOK op' := fun o h' => hops o (List.mem_cons_of_mem _ h')
    have hp := parity_irrelevant cfg e op ho s h
    have hs := step_sound cfg e op s h ho
    unfold StepOKx at hs
    rcases R.sat_cases hs with ⟨v, s', hst, hw, _⟩ | ⟨s', hst, hw, _⟩
    · rw [hst] at hp
      simp only [run, hst, ← hp, eraseR, ← ih hops' s' hw, Option.map_map]
      rfl
    · rw [hst] at hp
      simp only [run, hst, ← hp, eraseR, ← ih hops' s' hw, Option.map_map]
      rfl

/-- … so the outcomes and what every handle reads at the end are the same for every allocator parity. -/
theorem parity_observations (cfg : Cfg) (e₁ e₂ : Env) (ops : List Op) (hops : ∀ op ∈ ops, OpOK op)
    (s : St) (h : WFx s) :
    (run cfg e₁ ops s).map (fun r => (abs r.1, r.2)) = (run cfg e₂ ops s).map (fun r => (abs r.1, r.2)) := by
  have h1 := parity_irrelevant_run cfg e₁ ops hops s h
  have h2 := parity_irrelevant_run cfg e₂ ops hops s h
  have := h1.trans h2.symm
  have key : ∀ (x : Option (St × List Outcome)),
      x.map (fun r => (abs r.1, r.2)) = (x.map (fun r => (erase r.1, r.2))).map (fun r => (abs r.1, r.2)) := by
    intro x; cases x <;> simp [abs_erase]
  rw [key (run cfg e₁ ops s), key (run cfg e₂ ops s), this]

end BytesVerif.Core
