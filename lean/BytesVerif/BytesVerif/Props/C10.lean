/-
C10 — typed reads decode the next bytes correctly however the data is chunked.
Property theorems only.  `rowOK` is the decision procedure evaluated by the per-run certificate on
the getter table regenerated from src/buf/buf_impl.rs; `decode` is the independent specification
chosen from the method *name*.
-/
import BytesVerif.Lemmas.Codec
namespace BytesVerif.Codec
open BytesVerif.Buf

/-- Width argument is in range for this method (fixed-width methods ignore `nbytes`). -/
def widthOK (s : Spec) (nbytes : Nat) : Prop :=
  match s.kind with
  | .varUint | .varInt => nbytes ≤ 8
  | _ => True

theorem widthOK_isVar {s : Spec} {nbytes : Nat} (hw : widthOK s nbytes) :
    IsVar s.kind → nbytes ≤ 8 := by
  intro h
  unfold widthOK at hw
  rcases h with h | h <;> simpa [h] using hw

/-- Enough bytes: the value of the next `size` bytes of the logical sequence, decoded by the
method's name; the cursor advances by exactly `size`; independent of chunking (the statement
mentions only `den b`), of the build profile `c`, for `get_X` and `try_get_X` alike. -/
theorem get_ok (c : Cfg) (form : SignExtForm) (r : Row) (hr : rowOK form r = true)
    (b : BufT) (hb : wf b) (hbytes : ∀ x ∈ den b, x < 256)
    (nbytes : Nat) (hw : widthOK r.spec nbytes)
    (hs : r.spec.size nbytes ≤ remaining b) :
    ∃ b', evalBody c form r.body nbytes b
        = .ok (.val (decode r.spec ((den b).take (r.spec.size nbytes))), b') ∧
      den b' = (den b).drop (r.spec.size nbytes) ∧ wf b' := by
  have hw' := widthOK_isVar hw
  obtain ⟨b', h1, h2, h3⟩ := get_ok_raw c form r hr b hb nbytes hw' hs
  refine ⟨b', ?_, h2, h3⟩
  rw [h1, rawVal_eq_decode r.spec nbytes _ (fun x hx => hbytes x (List.mem_of_mem_take hx)) ?_ hw']
  rw [List.length_take, ← remaining_eq b hb]
  omega

/-- Fewer bytes remaining: `get_X` panics, `try_get_X` returns `Err{requested, available}` and
leaves the cursor untouched. -/
theorem get_short (c : Cfg) (form : SignExtForm) (r : Row) (hr : rowOK form r = true)
    (b : BufT) (hb : wf b) (nbytes : Nat) (hw : widthOK r.spec nbytes)
    (hs : remaining b < r.spec.size nbytes) :
    evalBody c form r.body nbytes b =
      if r.spec.isTry then .ok (.err (r.spec.size nbytes) (remaining b), b) else .panic :=
  have _ := hb   -- not needed: the short path never looks at the contents
  get_short_raw c form r hr b nbytes (widthOK_isVar hw) hs

/-- `nbytes > 8` panics for both families. -/
theorem get_too_wide (c : Cfg) (form : SignExtForm) (r : Row) (hr : rowOK form r = true)
    (b : BufT) (nbytes : Nat) (hk : r.spec.kind = .varUint ∨ r.spec.kind = .varInt) (hn : 8 < nbytes) :
    evalBody c form r.body nbytes b = .panic :=
  get_too_wide_raw c form r hr b nbytes hk hn

/-- With enough bytes, `try_get_X` returns `Ok` of exactly what `get_X` returns. -/
theorem try_eq_get (c : Cfg) (form : SignExtForm) (r₁ r₂ : Row)
    (h₁ : rowOK form r₁ = true) (h₂ : rowOK form r₂ = true)
    (hk : r₁.spec.kind = r₂.spec.kind) (he : r₁.spec.endian = r₂.spec.endian)
    (b : BufT) (hb : wf b) (nbytes : Nat) (hw : widthOK r₁.spec nbytes)
    (hs : r₁.spec.size nbytes ≤ remaining b) :
    (evalBody c form r₁.body nbytes b).map (·.1) = (evalBody c form r₂.body nbytes b).map (·.1) := by
  have hw₁ := widthOK_isVar hw
  have hsz : r₂.spec.size nbytes = r₁.spec.size nbytes := by simp only [Spec.size, hk]
  obtain ⟨b₁, e₁, _, _⟩ := get_ok_raw c form r₁ h₁ b hb nbytes hw₁ hs
  obtain ⟨b₂, e₂, _, _⟩ := get_ok_raw c form r₂ h₂ b hb nbytes (hk ▸ hw₁) (hsz ▸ hs)
  rw [e₁, e₂, hk, he, hsz]
  rfl

/-- The specification itself: `decode` of a signed read is the two's-complement value. -/
theorem toSigned_range (bits v : Nat) (hb : 0 < bits) (hv : v < 2 ^ bits) :
    -(2 ^ (bits - 1) : Int) ≤ toSigned bits v ∧ toSigned bits v < (2 ^ (bits - 1) : Int) ∧
      (toSigned bits v - (v : Int)) % (2 ^ bits : Int) = 0 :=
  toSigned_range' bits v hb hv

-- The defects of the pinned tree, as facts about the model with the pinned bodies:
-- D1: `try_get_int` read through the i64 arm does not sign-extend.
example : evalBody ⟨true⟩ .plainShift (.var .be true true) 1 (.flat .slice [255])
    = .ok (.val 255, .flat .slice []) := by decide
example : decode ⟨true, .varInt, .be⟩ [255] = -1 := by decide
-- D2: `sign_extend` with nbytes = 0 depends on the build profile.
example : evalBody ⟨true⟩ .plainShift (.signExt (.var .be false false) false) 0 (.flat .slice [1]) = .panic := by decide
example : evalBody ⟨false⟩ .plainShift (.signExt (.var .be false false) false) 0 (.flat .slice [1])
    = .ok (.val 0, .flat .slice [1]) := by decide
-- Non-vacuity of `get_ok`: an OK row, a fragmented buffer, value straddling three chunks.
example : rowOK .checkedShift ⟨"get_i32_le", ⟨false, .int 4 true, .le⟩, .fixed 4 true .le false⟩ = true := by decide
example : (evalBody ⟨true⟩ .checkedShift (.fixed 4 true .le false) 0 (.seg [[254], [255, 255], [255, 7]])).map (·.1)
    = .ok (.val (-2)) := by decide

end BytesVerif.Codec
