/-
C06 — all uses of a buffer happen-before its deallocation or exclusive reuse; C05 — handles can be
cloned, read, converted and dropped concurrently.  Theorems over M5 (Model/Conc.lean): any number of
threads, handles and steps, every interleaving, every stale-read / missing-synchronisation outcome
the release/acquire view semantics allows, for every assignment of orderings that satisfies the
(monotone, decidable) lower bound `Sufficient`.  Helper lemmas: Lemmas/Conc.lean.
-/
import BytesVerif.Lemmas.Conc
namespace BytesVerif.Conc

/-- total number of handles held by the first `n` threads -/
def totalHandles (s : St) (n : Nat) : Nat := ((List.range n).map fun t => (s.th t).handles).sum

/-- C06: no data race on buffer memory (reads vs. exclusive writes vs. the deallocation), no access
after the deallocation, no double free — in every reachable state. -/
theorem totalHandles_eq (s : St) (n : Nat) : totalHandles s n = total s n :=
  sum_range_eq _ n

theorem ra_safe (o : Ords) (hs : Sufficient o = true) (n : Nat) (s : St) (hr : Reach o n s) :
    s.race = false ∧ s.uaf = false ∧ s.doubleFree = false := by
  rcases Nat.eq_zero_or_pos n with rfl | hn
  · rw [reach_zero hr]; exact ⟨rfl, rfl, rfl⟩
  · exact (reach_inv hs hn hr).safe

/-- C05: the buffer is only deallocated when no handle is left anywhere. -/
theorem freed_no_handles (o : Ords) (hs : Sufficient o = true) (n : Nat) (s : St) (hr : Reach o n s)
    (hf : s.freed = true) : totalHandles s n = 0 := by
  rcases Nat.eq_zero_or_pos n with rfl | hn
  · rfl
  · have h := reach_inv hs hn hr
    rw [totalHandles_eq, ← h.count]
    exact h.ctrl0 (h.freed_ctrl hf)

/-- C05 / C08 under concurrency: a thread that finds itself the unique owner (load returns 1, or
CAS 1→0 succeeds) really is: no other thread holds a handle or is in the middle of using one. -/
theorem unique_is_sole (o : Ords) (hs : Sufficient o = true) (n : Nat) (s : St) (hr : Reach o n s)
    (t k : Nat) (s' : St) (ht : t < n) (hh : 0 < (s.th t).handles) (hp : (s.th t).pc = .idle)
    (hl : load s t o.uniqueLoad k = some (s', 1)) :
    ∀ u, u < n → u ≠ t → (s.th u).handles = 0 ∧ (s.th u).pc ≠ .failedToVec := by
  have h := reach_inv hs (Nat.lt_of_le_of_lt (Nat.zero_le t) ht) hr
  obtain ⟨m, hk, hm, hvm, _⟩ := load_spec hl
  have hklen : k < s.mo.length := (List.getElem?_eq_some_iff.mp hm).1
  have hkk : k = s.mo.length - 1 := by
    by_cases hk2 : k + 1 < s.mo.length
    · have := h.noStale t ht hh k m hk hk2 hm; omega
    · omega
  rw [hkk, getElem?_last h.mo_ne] at hm
  cases hm
  have h1 : (latest s).val = 1 := by rw [latest_eq]; omega
  intro u hu hne
  have h0 := h.sole ht hh h1 u hu hne
  refine ⟨h0, fun hf => ?_⟩
  have := h.failed_h u hu hf
  omega

/-- C05: at most one party ever takes the buffer out of the control block (zero-copy `Vec`). -/
theorem toVec_exclusive (o : Ords) (hs : Sufficient o = true) (n : Nat) (s : St) (hr : Reach o n s)
    (hc : s.ctrlFreed = true) : totalHandles s n = 0 := by
  rcases Nat.eq_zero_or_pos n with rfl | hn
  · rfl
  · have h := reach_inv hs hn hr
    rw [totalHandles_eq, ← h.count]
    exact h.ctrl0 hc

/-- The bound is tight where it matters: with a relaxed decrement a racy execution exists
(two threads; the second frees while the first one's read is unordered). -/
theorem relaxed_drop_races :
    ∃ s, Reach { cloneAdd := .relaxed, dropSub := .relaxed, dropLoad := .acquire, toVecCasOk := .acqRel,
                 toVecCasFail := .relaxed, uniqueLoad := .acquire } 2 s ∧ s.race = true := by
  have r0 : Reach { cloneAdd := .relaxed, dropSub := .relaxed, dropLoad := .acquire, toVecCasOk := .acqRel,
                    toVecCasFail := .relaxed, uniqueLoad := .acquire } 2 init := Reach.init
  -- thread 0 clones and hands the clone to thread 1
  have r1 := Reach.step r0 (Step.clone init 0 (by decide) (by decide) (by decide))
  have r2 := Reach.step r1 (Step.send _ 0 1 (by decide) (by decide) (by decide) (by decide) (by decide))
  -- thread 1 reads the buffer and drops its handle (relaxed decrement 2 → 1: nothing is published)
  have r3 := Reach.step r2 (Step.read _ 1 (by decide) (by decide) (by decide))
  have r4 := Reach.step r3 (Step.dropSub _ 1 (by decide) (by decide) (by decide))
  -- thread 0 drops the last handle (1 → 0), loads, frees: thread 1's read is not in its clock
  have r5 := Reach.step r4 (Step.dropSub _ 0 (by decide) (by decide) (by decide))
  have r6 := Reach.step r5 (Step.dropLoad' _ 0 3 (by decide) (by decide) (by decide))
  have r7 := Reach.step r6 (Step.dropFree _ 0 (by decide) (by decide))
  exact ⟨_, r7, by decide⟩

/-! The other three bounds of `Sufficient` are necessary as well (same scenario: thread 1 reads and
releases its handle; thread 0 then frees / takes over without acquiring). -/

/-- `dropLoad ⊒ Acquire` is necessary -/
theorem relaxed_dropLoad_races :
    ∃ s, Reach { cloneAdd := .relaxed, dropSub := .release, dropLoad := .relaxed, toVecCasOk := .acqRel,
                 toVecCasFail := .relaxed, uniqueLoad := .acquire } 2 s ∧ s.race = true := by
  have r0 : Reach { cloneAdd := .relaxed, dropSub := .release, dropLoad := .relaxed, toVecCasOk := .acqRel,
                    toVecCasFail := .relaxed, uniqueLoad := .acquire } 2 init := Reach.init
  have r1 := Reach.step r0 (Step.clone init 0 (by decide) (by decide) (by decide))
  have r2 := Reach.step r1 (Step.send _ 0 1 (by decide) (by decide) (by decide) (by decide) (by decide))
  have r3 := Reach.step r2 (Step.read _ 1 (by decide) (by decide) (by decide))
  have r4 := Reach.step r3 (Step.dropSub _ 1 (by decide) (by decide) (by decide))
  have r5 := Reach.step r4 (Step.dropSub _ 0 (by decide) (by decide) (by decide))
  have r6 := Reach.step r5 (Step.dropLoad' _ 0 3 (by decide) (by decide) (by decide))
  have r7 := Reach.step r6 (Step.dropFree _ 0 (by decide) (by decide))
  exact ⟨_, r7, by decide⟩

/-- `toVecCasOk ⊒ Acquire` is necessary -/
theorem relaxed_toVecCas_races :
    ∃ s, Reach { cloneAdd := .relaxed, dropSub := .release, dropLoad := .acquire, toVecCasOk := .release,
                 toVecCasFail := .relaxed, uniqueLoad := .acquire } 2 s ∧ s.race = true := by
  have r0 : Reach { cloneAdd := .relaxed, dropSub := .release, dropLoad := .acquire, toVecCasOk := .release,
                    toVecCasFail := .relaxed, uniqueLoad := .acquire } 2 init := Reach.init
  have r1 := Reach.step r0 (Step.clone init 0 (by decide) (by decide) (by decide))
  have r2 := Reach.step r1 (Step.send _ 0 1 (by decide) (by decide) (by decide) (by decide) (by decide))
  have r3 := Reach.step r2 (Step.read _ 1 (by decide) (by decide) (by decide))
  have r4 := Reach.step r3 (Step.dropSub _ 1 (by decide) (by decide) (by decide))
  have r5 := Reach.step r4 (Step.toVecOk _ 0 (by decide) (by decide) (by decide) (by decide))
  exact ⟨_, r5, by decide⟩

/-- `uniqueLoad ⊒ Acquire` is necessary -/
theorem relaxed_uniqueLoad_races :
    ∃ s, Reach { cloneAdd := .relaxed, dropSub := .release, dropLoad := .acquire, toVecCasOk := .acqRel,
                 toVecCasFail := .relaxed, uniqueLoad := .relaxed } 2 s ∧ s.race = true := by
  have r0 : Reach { cloneAdd := .relaxed, dropSub := .release, dropLoad := .acquire, toVecCasOk := .acqRel,
                    toVecCasFail := .relaxed, uniqueLoad := .relaxed } 2 init := Reach.init
  have r1 := Reach.step r0 (Step.clone init 0 (by decide) (by decide) (by decide))
  have r2 := Reach.step r1 (Step.send _ 0 1 (by decide) (by decide) (by decide) (by decide) (by decide))
  have r3 := Reach.step r2 (Step.read _ 1 (by decide) (by decide) (by decide))
  have r4 := Reach.step r3 (Step.dropSub _ 1 (by decide) (by decide) (by decide))
  have r5 := Reach.step r4 (Step.uniqueOk' _ 0 2 (by decide) (by decide) (by decide) (by decide) (by decide))
  exact ⟨_, r5, by decide⟩

/-- The orderings of the pinned source satisfy the bound (the per-run certificate re-checks this
for the orderings regenerated from the current source). -/
example : Sufficient { cloneAdd := .relaxed, dropSub := .release, dropLoad := .acquire, toVecCasOk := .acqRel,
                       toVecCasFail := .relaxed, uniqueLoad := .acquire } = true := by decide

end BytesVerif.Conc
