/-
C03 — storage is released exactly once, after the last handle, in any drop order; nothing is leaked;
the owner of `from_owner` has `as_ref` called exactly once and is dropped exactly once, not before
the last non-empty view is gone and no later than the last handle.
`evOKB` is the ledger invariant over the event history (monotone log of allocator / owner events).
-/
import BytesVerif.Lemmas.Core.Sound
import BytesVerif.Lemmas.Core.PropC03
namespace BytesVerif.Core

def isDeallocOf (r : Nat) : Ev → Bool
  | .dealloc r' _ => r' == r
  | _ => false

def isAllocOf (r : Nat) : Ev → Bool
  | .alloc r' _ => r' == r
  | _ => false

def ownerLive (s : St) (o : Nat) : Bool :=
  s.ctrls.any fun e => e.live && e.c == .owned o

/-- ledger invariant: every heap region was allocated exactly once, with its size; it has been
deallocated exactly once (with that size) iff it is dead; non-heap memory is never allocated or
freed by the crate; every owner had `as_ref` called exactly once and has been dropped exactly once
iff its control block is gone. -/
def evOKB (s : St) : Bool :=
  ((List.range s.regions.length).all fun r =>
    match s.regions[r]? with
    | some rg =>
      (match rg.kind with
       | .heap _ =>
         (s.events.filter (isAllocOf r)) == [.alloc r rg.size] &&
         (s.events.filter (isDeallocOf r)) == (if rg.live then [] else [.dealloc r rg.size])
       | _ => (s.events.filter (isAllocOf r)).isEmpty && (s.events.filter (isDeallocOf r)).isEmpty)
    | none => true) &&
  (s.events.all fun ev => match ev with
    | .alloc r _ | .dealloc r _ => r < s.regions.length
    | .ownerAsRef o | .ownerDrop o => o < s.owners
    | _ => true) &&
  ((List.range s.owners).all fun o =>
    s.events.count (.ownerAsRef o) == 1 &&
    s.events.count (.ownerDrop o) == (if ownerLive s o then 0 else 1))

theorem isAllocOf_eq (r : Nat) : isAllocOf r = isAllocOf' r := by
  funext ev; cases ev <;> rfl

theorem isDeallocOf_eq (r : Nat) : isDeallocOf r = isDeallocOf' r := by
  funext ev; cases ev <;> rfl

theorem ownerLive_eq (s : St) (o : Nat) : ownerLive s o = ownerLive' s o := rfl

/-- `evOKB`, clause by clause (`EvOKP` of Lemmas/Core/PropC03.lean) -/
theorem evOKB_iff (s : St) : evOKB s = true ↔ EvOKP s := by
  unfold evOKB
  simp only [Bool.and_eq_true, List.all_eq_true, List.mem_range, isAllocOf_eq, isDeallocOf_eq,
    ownerLive_eq]
  constructor
  · rintro ⟨⟨h1, h2⟩, h3⟩
    refine ⟨?_, ?_, ?_, ?_, ?_, ?_, ?_⟩
    · intro r rg hr
      have := h1 r (lookup_lt hr)
      rw [hr] at this
      unfold regLedger
      cases hk : rg.kind with
      | heap b =>
        simp only [hk, Bool.and_eq_true, beq_iff_eq] at this ⊢
        exact this
      | static =>
        simp only [hk, Bool.and_eq_true, List.isEmpty_iff] at this ⊢
        exact this
      | ownerMem o =>
        simp only [hk, Bool.and_eq_true, List.isEmpty_iff] at this ⊢
        exact this
    · intro r sz hm; simpa using h2 _ hm
    · intro r sz hm; simpa using h2 _ hm
    · intro o hm; simpa using h2 _ hm
    · intro o hm; simpa using h2 _ hm
    · intro o ho; have := h3 o ho; simp only [beq_iff_eq] at this; exact this.1
    · intro o ho; have := h3 o ho; simp only [beq_iff_eq] at this; exact this.2
  · intro h
    refine ⟨⟨?_, ?_⟩, ?_⟩
    · intro r hr
      cases hrg : s.regions[r]? with
      | none => rfl
      | some rg =>
        have := h.reg r rg hrg
        unfold regLedger at this
        cases hk : rg.kind with
        | heap b =>
          simp only [hk, Bool.and_eq_true, beq_iff_eq] at this ⊢
          exact this
        | static =>
          simp only [hk, Bool.and_eq_true, List.isEmpty_iff] at this ⊢
          exact this
        | ownerMem o =>
          simp only [hk, Bool.and_eq_true, List.isEmpty_iff] at this ⊢
          exact this
    · intro ev hm
      cases ev with
      | alloc r sz => simpa using h.bndA r sz hm
      | dealloc r sz => simpa using h.bndD r sz hm
      | allocCtrl c => rfl
      | deallocCtrl c => rfl
      | ownerAsRef o => simpa using h.bndR o hm
      | ownerDrop o => simpa using h.bndO o hm
    · intro o ho
      simp only [beq_iff_eq]
      exact ⟨h.asref o ho, h.odrop o ho⟩

theorem evOK_init : evOKB {} = true := by
  decide

/-- the ledger invariant is preserved by every operation (also when it panics) -/
theorem evOK_step (cfg : Cfg) (e : Env) (op : Op) (ho : OpOK op) (s : St) (h : WFx s) (hev : evOKB s = true) :
    match step cfg e op s with
    | .ok _ s' => evOKB s' = true
    | .panic s' => evOKB s' = true
    | .ub _ _ => False := by
  have hs := step_sound cfg e op s h ho
  have hp := EvOKP_step cfg e op s h ((evOKB_iff s).mp hev)
  unfold StepOKx at hs
  cases hr : step cfg e op s with
  | ok v s' => rw [hr] at hp; exact (evOKB_iff s').mpr (EvL.toP hp)
  | panic s' => rw [hr] at hp; exact (evOKB_iff s').mpr (EvL.toP hp)
  | ub w s' => rw [hr] at hs; exact hs

/-- nothing is leaked: once every handle is gone, no heap region and no control block is alive -/
theorem no_leak (s : St) (h : WFx s) (hno : liveHandles s = []) :
    (∀ r, isHeapLive s r = false) ∧ (∀ c, liveCtrl s c = none) :=
  ⟨no_live_heap h hno, no_live_ctrl h hno⟩

/-- storage stays alive as long as any non-empty handle can read it -/
theorem alive_while_viewed (s : St) (h : WFx s) (i : Nat) (x : Handle) (hx : s.hs[i]? = some (some x))
    (v : List Byte) (hv : viewOf s x = some v) (hne : v ≠ []) :
    ∃ r off len rg, span x = some (r, off, len) ∧ s.regions[r]? = some rg ∧ rg.live = true :=
  view_region_live h hx hv hne

/-- the owner is not dropped while a non-empty view of its memory is alive -/
theorem owner_alive_while_viewed (s : St) (h : WFx s) (hev : evOKB s = true) (i c : Nat) (reg : Option Nat) (off len : Nat)
    (hx : s.hs[i]? = some (some (.bytes (.owned c) reg off len))) (o : Nat)
    (hc : liveCtrl s c = some (.owned o)) : s.events.count (.ownerDrop o) = 0 := by
  have hP := (evOKB_iff s).mp hev
  have hlive := ownerLive'_of_liveCtrl hc
  have holt : o < s.owners := by
    rw [liveCtrl_eq] at hc
    obtain ⟨_, _, _, _, _, _, hb⟩ := h.inv.cok' hc
    exact hb
  have := hP.odrop o holt
  rw [if_pos hlive] at this
  exact this

/-- when the last handle is gone every owner has been dropped exactly once and every heap region
freed exactly once -/
theorem all_released_once (s : St) (h : WFx s) (hev : evOKB s = true) (hno : liveHandles s = []) :
    (∀ o, o < s.owners → s.events.count (.ownerDrop o) = 1 ∧ s.events.count (.ownerAsRef o) = 1) ∧
    (∀ r rg, s.regions[r]? = some rg → (∃ odd, rg.kind = .heap odd) →
        s.events.filter (isDeallocOf r) = [.dealloc r rg.size]) := by
  have hP := (evOKB_iff s).mp hev
  constructor
  · intro o ho
    refine ⟨?_, hP.asref o ho⟩
    have hdead : ¬ ownerLive' s o = true := by
      intro hl
      unfold ownerLive' at hl
      rw [List.any_eq_true] at hl
      obtain ⟨e, he, hp⟩ := hl
      simp only [Bool.and_eq_true, beq_iff_eq] at hp
      obtain ⟨c, hc⟩ := List.mem_iff_getElem?.mp he
      have := no_live_ctrl h hno c
      rw [liveCtrl_eq, liveCtrlL_of hc hp.1] at this
      cases this
    have := hP.odrop o ho
    rw [if_neg hdead] at this
    exact this
  · rintro r rg hr ⟨odd, hk⟩
    have hl : rg.live = false := by
      have := no_live_heap h hno r
      simp only [isHeapLive, hr, hk, Bool.and_true] at this
      exact this
    have := hP.reg r rg hr
    simp only [regLedger, hk, hl, Bool.false_eq_true, if_false] at this
    rw [isDeallocOf_eq]
    exact this.2

end BytesVerif.Core
