/-
C05 / C06 for promotable handles — theorems over M5p (Model/Promo.lean): any number of threads sharing the
root handle by reference, racing promotions, any number of clones, conversions and drops, every stale read
the release/acquire view semantics allows, for every assignment of orderings satisfying `Sufficient`.
-/
import BytesVerif.Model.Promo
import BytesVerif.Lemmas.Promo
namespace BytesVerif.Promo
open BytesVerif.Conc (Ord VC Msg tick)

def totalHandles (s : St) (n : Nat) : Nat := ((List.range n).map fun t => (s.th t).handles).sum

/-- no data race on buffer memory, no unordered access to the non-atomically initialised control block, no access to
freed memory or to a freed / not yet existing control block, no double free — in every reachable state -/
theorem promo_safe (o : POrds) (hs : Sufficient o = true) (n : Nat) (s : St) (hr : Reach o n s) :
    s.race = false ∧ s.ctrlRace = false ∧ s.uaf = false ∧ s.doubleFree = false := by
  rcases Nat.eq_zero_or_pos n with rfl | hn
  · rw [reach_zero hr]; exact ⟨rfl, rfl, rfl, rfl⟩
  · exact (reach_inv hs hn hr).safe

/-- however many threads race to promote, exactly one CAS wins -/
theorem promo_once (o : POrds) (n : Nat) (s : St) (hr : Reach o n s) : s.promotions ≤ 1 := by
  rcases Nat.eq_zero_or_pos n with rfl | hn
  · rw [reach_zero hr]; exact Nat.zero_le _
  · exact (reach_basic hn hr).prom1

/-- the owner can never read a stale KIND_VEC word when it is about to consume the root: once every borrow has
ended, a promotion that happened is visible to the owner (so `dropRootVec` / `takeRootVec` fire only on a root
that really was never promoted) -/
theorem owner_sees_promotion (o : POrds) (n : Nat) (s : St) (hr : Reach o n s) (ho : s.owner < n)
    (hl : s.rootLive = true) (hnb : noBorrows s n) (hd : s.data.isSome = true) :
    (s.th s.owner).dataSeen = true := by
  have hb := reach_basic (Nat.lt_of_le_of_lt (Nat.zero_le _) ho) hr
  obtain ⟨v, hv, hc, hdv⟩ := hb.wit (by intro e; rw [e] at hd; cases hd) hl
  rcases hc with hc | hc
  · rw [hc]; exact hdv
  · rw [hnb v hv] at hc; cases hc

/-- the buffer is deallocated only when the root is gone and no handle is left anywhere -/
theorem totalHandles_eq (s : St) (n : Nat) : totalHandles s n = total s n :=
  BytesVerif.Conc.sum_range_eq _ n

theorem promo_freed_no_users (o : POrds) (hs : Sufficient o = true) (n : Nat) (s : St) (hr : Reach o n s)
    (hf : s.freed = true) : s.rootLive = false ∧ totalHandles s n = 0 := by
  rcases Nat.eq_zero_or_pos n with rfl | hn
  · rw [reach_zero hr] at hf; cases hf
  · have h := reach_inv hs hn hr
    obtain ⟨hrl, hc⟩ := h.freed_cases hf
    rcases hc with hc | hc
    · rw [totalHandles_eq]; exact h.ctrlFreed_dead hc
    · refine ⟨hrl, ?_⟩
      rw [totalHandles_eq]
      exact BytesVerif.Conc.sumTo_zero_fun n _ (h.no_handles hc)

/-- the control block is freed / dismantled only when the root is gone and no handle is left -/
theorem promo_ctrlFreed_no_users (o : POrds) (hs : Sufficient o = true) (n : Nat) (s : St) (hr : Reach o n s)
    (hf : s.ctrlFreed = true) : s.rootLive = false ∧ totalHandles s n = 0 := by
  rcases Nat.eq_zero_or_pos n with rfl | hn
  · rw [reach_zero hr] at hf; cases hf
  · rw [totalHandles_eq]; exact (reach_inv hs hn hr).ctrlFreed_dead hf

/-! ### the three promotion bounds of `Sufficient` are necessary -/

def srcOrds : POrds :=
  { cloneAdd := .relaxed, dropSub := .release, dropLoad := .acquire, toVecCasOk := .acqRel, toVecCasFail := .relaxed,
    uniqueLoad := .acquire, promLoad := .acquire, promCasOk := .acqRel, promCasFail := .acquire }

example : Sufficient srcOrds = true := by decide

/-- `promLoad ⊒ Acquire` is necessary: a borrower promotes, the owner's relaxed load sees the pointer and touches
the counter without being ordered after its initialisation -/
theorem relaxed_promLoad_races : ∃ s, Reach { srcOrds with promLoad := .relaxed } 2 s ∧ s.ctrlRace = true := by
  have r0 : Reach { srcOrds with promLoad := .relaxed } 2 init := Reach.init
  -- the owner (thread 0) lends the root to thread 1, which promotes it
  have r1 := Reach.step r0 (Step.lend init 0 1 (by decide) (by decide) (by decide) (by decide) (by decide) (by decide) (by decide))
  have r2 := Reach.step r1 (Step.cloneSeesVec _ 1 (by decide) (by decide) (by decide) (by decide))
  have r3 := Reach.step r2 (Step.casOk _ 1 (by decide) (by decide) (by decide))
  -- the owner's relaxed load sees the pointer; its fetch_add is not ordered after the initialisation of the block
  have r4 := Reach.step r3 (Step.cloneSeesArc' _ 0 (by decide) (by decide) (by decide) (by decide))
  have r5 := Reach.step r4 (Step.arcAdd _ 0 (by decide) (by decide))
  exact ⟨_, r5, by decide⟩

/-- `promCasOk ⊒ Release` is necessary -/
theorem nonrelease_promCas_races : ∃ s, Reach { srcOrds with promCasOk := .acquire } 2 s ∧ s.ctrlRace = true := by
  have r0 : Reach { srcOrds with promCasOk := .acquire } 2 init := Reach.init
  have r1 := Reach.step r0 (Step.lend init 0 1 (by decide) (by decide) (by decide) (by decide) (by decide) (by decide) (by decide))
  have r2 := Reach.step r1 (Step.cloneSeesVec _ 1 (by decide) (by decide) (by decide) (by decide))
  -- the promoting CAS publishes nothing
  have r3 := Reach.step r2 (Step.casOk _ 1 (by decide) (by decide) (by decide))
  -- the owner's acquire load has nothing to synchronise with
  have r4 := Reach.step r3 (Step.cloneSeesArc' _ 0 (by decide) (by decide) (by decide) (by decide))
  have r5 := Reach.step r4 (Step.arcAdd _ 0 (by decide) (by decide))
  exact ⟨_, r5, by decide⟩

/-- `promCasFail ⊒ Acquire` is necessary: the loser of the race goes on to `fetch_add` the winner's counter -/
theorem relaxed_promCasFail_races : ∃ s, Reach { srcOrds with promCasFail := .relaxed } 2 s ∧ s.ctrlRace = true := by
  have r0 : Reach { srcOrds with promCasFail := .relaxed } 2 init := Reach.init
  have r1 := Reach.step r0 (Step.lend init 0 1 (by decide) (by decide) (by decide) (by decide) (by decide) (by decide) (by decide))
  -- both threads load KIND_VEC and race to promote
  have r2 := Reach.step r1 (Step.cloneSeesVec _ 0 (by decide) (by decide) (by decide) (by decide))
  have r3 := Reach.step r2 (Step.cloneSeesVec _ 1 (by decide) (by decide) (by decide) (by decide))
  have r4 := Reach.step r3 (Step.casOk _ 1 (by decide) (by decide) (by decide))
  -- the owner loses; its relaxed failure ordering acquires nothing; it goes on to fetch_add the winner's counter
  have r5 := Reach.step r4 (Step.casFail' _ 0 (by decide) (by decide) (by decide))
  have r6 := Reach.step r5 (Step.arcAdd _ 0 (by decide) (by decide))
  exact ⟨_, r6, by decide⟩

end BytesVerif.Promo
