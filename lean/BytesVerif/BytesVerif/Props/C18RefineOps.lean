/-
C18 (refinement, continued) — the other operations of the recycling loop.  Props/C18Refine.lean ties
`Recycle.reserve` to M1's `mutReserve`; this file does the same for `advance`, `truncate`, `append`
(`extend_from_slice`), `split_to`, `split`, dropping a part, `split_off(len)` and `unsplit`, chains the
steps along a history, and transfers the allocation-size bound of Props/C18.lean to M1.
-/
import BytesVerif.Props.C18Refine
set_option linter.unusedVariables false
set_option linter.unusedSimpArgs false
namespace BytesVerif.Core
namespace C18Refine
open OpsD
open BytesVerif.Recycle (Rec)

/-! ## the shape of the conclusions -/

/-- what every refinement theorem below concludes: slot `i` of the new state `s'` holds a handle that
is related to the new record `r'`, and the number of byte-buffer allocations recorded in the event
list grew by exactly `r'.allocs - r.allocs` (additive form) -/
def Sim (s : St) (r : Rec) (i : Nat) (s' : St) (r' : Rec) : Prop :=
  ∃ h', s'.hs[i]? = some (some h') ∧ RecView s' h' r' ∧
    allocCount s'.events + r.allocs = allocCount s.events + r'.allocs

/-- only `BytesMut` handles are related to a record -/
theorem RecView.is_mut {s : St} {h : Handle} {r : Rec} (hv : RecView s h r) :
    ∃ arc reg off len cap orig, h = .mut arc reg off len cap orig := by
  cases h with
  | bytes _ _ _ _ => exact hv.elim
  | vec _ _ _ => exact hv.elim
  | «mut» arc reg off len cap orig => exact ⟨_, _, _, _, _, _, rfl⟩

/-- `MAX_VEC_POS` of bytes_mut.rs on a 64-bit target -/
def maxVecPos : Nat := W / 32 - 1

/-! ## `Recycle.step`, operation by operation -/

theorem rstep_advance (r : Rec) (n : Nat) (h : n ≤ r.len) :
    Recycle.step r (.advance n) = { r with off := r.off + n, len := r.len - n, cap := r.cap - n } := by
  simp [Recycle.step, Nat.not_lt.mpr h]

theorem rstep_truncate (r : Rec) (n : Nat) (h : n ≤ r.len) :
    Recycle.step r (.truncate n) = { r with len := n } := by
  simp [Recycle.step, h]

theorem rstep_truncate_noop (r : Rec) (n : Nat) (h : ¬ n ≤ r.len) :
    Recycle.step r (.truncate n) = r := by
  simp [Recycle.step, h]

/-! ## 1. advance -/

/-- `advance_unchecked(n)` on the main handle, general form: if a KIND_VEC handle is pushed beyond
`MAX_VEC_POS` M1 (like the crate) promotes it to KIND_ARC with reference count 1, which
`Recycle.step _ (.advance n)` does not model; everywhere else the two models agree. -/
theorem advance_refines_gen (cfg : Cfg) {s : St} (hI : Inv s) {i : Nat} {arc reg : Option Nat}
    {off len cap orig n : Nat} (hi : s.hs[i]? = some (some (.mut arc reg off len cap orig)))
    (hn : n ≤ len) (r : Rec) (hv : RecView s (.mut arc reg off len cap orig) r) {h' : Handle} {s' : St}
    (hok : mutAdvanceUnchecked cfg (.mut arc reg off len cap orig) n s = .ok h' s') :
    s'.hs = s.hs ∧ s'.regions = s.regions ∧ allocCount s'.events = allocCount s.events ∧
    RecViewL s'.regions s'.ctrls h'
      (if r.arc = false ∧ n ≠ 0 ∧ ¬ r.off + n ≤ maxVecPos
       then { Recycle.step r (.advance n) with arc := true } else Recycle.step r (.advance n)) := by
  have hok0 := hI.hok i _ hi
  cases arc with
  | some c =>
    obtain ⟨hlc, _, _⟩ := handleOKL_mutA.mp hok0
    obtain ⟨vreg, vlen, vcap, vorig, rc, he, ra, ro, rl, rcp, rorig, rA, rp⟩ := RecView_arc.mp hv
    rw [mutAdvanceUnchecked_arc cfg (by omega) s] at hok
    obtain ⟨rfl, rfl⟩ := R.ok.inj hok
    have hc : ¬ (r.arc = false ∧ n ≠ 0 ∧ ¬ r.off + n ≤ maxVecPos) := by rw [ra]; simp
    rw [if_neg hc, rstep_advance r n (by omega)]
    exact ⟨rfl, rfl, rfl, vreg, vlen, vcap, vorig, rc, he, ra, by simp [ro], by simp [rl], by simp [rcp],
      rorig, rA, rp⟩
  | none =>
    obtain ⟨hlc, hoffb, hregc, _⟩ := handleOKL_mutV.mp hok0
    obtain ⟨ra, ro, rl, rcp, rorig, rA, rp⟩ := RecView_vec.mp hv
    have hnc : n ≤ cap := by omega
    rw [rstep_advance r n (by omega)]
    by_cases h0 : n = 0
    · subst h0
      have h1 : mutAdvanceUnchecked cfg (.mut none reg off len cap orig) 0 s =
          .ok (.mut none reg off len cap orig) s := by simp [mutAdvanceUnchecked]
      rw [h1] at hok
      obtain ⟨rfl, rfl⟩ := R.ok.inj hok
      rw [if_neg (by simp)]
      exact ⟨rfl, rfl, rfl, ra, by simp [ro], by simp [rl], by simp [rcp], rorig, rA, rp⟩
    · by_cases hpos : off + n ≤ W / 32 - 1
      · have h1 : mutAdvanceUnchecked cfg (.mut none reg off len cap orig) n s =
            .ok (.mut none reg (off + n) (len - n) (cap - n) orig) s := by
          simp [mutAdvanceUnchecked, h0, dassert_eq cfg (cond := decide (n ≤ cap)) (by simpa using hnc),
            usub_eq cfg hnc, hpos]
        rw [h1] at hok
        obtain ⟨rfl, rfl⟩ := R.ok.inj hok
        rw [if_neg (by rw [ro]; simp [maxVecPos, hpos])]
        exact ⟨rfl, rfl, rfl, ra, by simp [ro], by simp [rl], by simp [rcp], rorig, rA, rp⟩
      · -- promote_to_shared(1)
        have h1 : mutAdvanceUnchecked cfg (.mut none reg off len cap orig) n s =
            .ok (.mut (some s.ctrls.length) reg (off + n) (len - n) (cap - n) orig)
              { s with ctrls := s.ctrls ++ [⟨.sharedV reg (off + len) (off + cap) orig, 1, true⟩],
                       events := .allocCtrl s.ctrls.length :: s.events } := by
          simp [mutAdvanceUnchecked, h0, dassert_eq cfg (cond := decide (n ≤ cap)) (by simpa using hnc),
            usub_eq cfg hnc, hpos]
        rw [h1] at hok
        obtain ⟨rfl, rfl⟩ := R.ok.inj hok
        rw [if_pos ⟨ra, h0, by rw [ro]; simpa [maxVecPos] using hpos⟩]
        have hA : r.A = off + cap := by
          cases reg with
          | none => simp only at hregc; simp [bufSizeL] at rA; omega
          | some r0 => simp only at hregc; simp only [bufSizeL] at rA; omega
        refine ⟨rfl, rfl, by simp [allocCount, List.countP_cons, isAlloc], ?_⟩
        exact ⟨reg, off + len, off + cap, orig, 1, lookup_append_new _ _, rfl, by simp [ro], by simp [rl],
          by simp [rcp], rorig, hA, by simp [rp]⟩

/-- **`Op.advance i n` refines `Recycle.Op.advance n`**, provided a KIND_VEC handle is not pushed beyond
`MAX_VEC_POS = 2^59 - 1` (where the crate promotes the handle and the recycling model does not). -/
theorem step_advance_refines (cfg : Cfg) (e : Env) {s s' : St} (hw : WFx s) {i n : Nat} {v : Val}
    {arc reg : Option Nat} {off len cap orig : Nat}
    (hi : s.hs[i]? = some (some (.mut arc reg off len cap orig))) (r : Rec)
    (hv : RecView s (.mut arc reg off len cap orig) r)
    (hpos : r.arc = false → n = 0 ∨ r.off + n ≤ maxVecPos)
    (hok : step cfg e (.advance i n) s = .ok v s') :
    n ≤ len ∧ Sim s r i s' (Recycle.step r (.advance n)) := by
  simp only [step, bind_apply, getHandle_eq hi] at hok
  by_cases hnl : n > len
  · simp only [hnl, if_true, panic_apply] at hok; cases hok
  · simp only [hnl, if_false, bind_apply] at hok
    cases hm : mutAdvanceUnchecked cfg (.mut arc reg off len cap orig) n s with
    | ok h1 s1 =>
      rw [hm] at hok
      simp only [setHandle_apply, pure_apply] at hok
      obtain ⟨_, rfl⟩ := R.ok.inj hok
      obtain ⟨e1, e2, e3, e4⟩ := advance_refines_gen cfg hw.inv hi (by omega) r hv hm
      rw [if_neg (by intro ⟨a, b, c⟩; rcases hpos a with h | h; exact b h; exact c h)] at e4
      refine ⟨by omega, h1, ?_, e4, by rw [e3, (Recycle.step_frame r (.advance n) rfl).2.1]⟩
      show (s1.hs.set i (some h1))[i]? = some (some h1)
      rw [e1]; exact lookup_set_eq _ hi
    | panic s1 => rw [hm] at hok; cases hok
    | ub w s1 => rw [hm] at hok; cases hok

/-! ## 2. truncate -/

/-- **`Op.truncate i n` refines `Recycle.Op.truncate n`** (no side condition) -/
theorem step_truncate_refines (cfg : Cfg) (e : Env) {s s' : St} (hw : WFx s) {i n : Nat} {v : Val}
    {arc reg : Option Nat} {off len cap orig : Nat}
    (hi : s.hs[i]? = some (some (.mut arc reg off len cap orig))) (r : Rec)
    (hv : RecView s (.mut arc reg off len cap orig) r)
    (hok : step cfg e (.truncate i n) s = .ok v s') :
    Sim s r i s' (Recycle.step r (.truncate n)) := by
  simp only [step, opTruncate, bind_apply, getHandle_eq hi] at hok
  have rl : r.len = len := by
    cases arc with
    | none => exact (RecView_vec.mp hv).2.2.1
    | some c => obtain ⟨_, _, _, _, _, _, _, _, rl, _⟩ := RecView_arc.mp hv; exact rl
  by_cases hnl : n ≤ len
  · simp only [hnl, if_true, bind_apply, setHandle_apply, pure_apply] at hok
    obtain ⟨_, rfl⟩ := R.ok.inj hok
    rw [rstep_truncate r n (by omega)]
    refine ⟨.mut arc reg off n cap orig, lookup_set_eq _ hi, ?_, rfl⟩
    cases arc with
    | none =>
      obtain ⟨ra, ro, _, rcp, rorig, rA, rp⟩ := RecView_vec.mp hv
      exact ⟨ra, ro, rfl, rcp, rorig, rA, rp⟩
    | some c =>
      obtain ⟨vreg, vlen, vcap, vorig, rc, he, ra, ro, _, rcp, rorig, rA, rp⟩ := RecView_arc.mp hv
      exact ⟨vreg, vlen, vcap, vorig, rc, he, ra, ro, rfl, rcp, rorig, rA, rp⟩
  · simp only [hnl, if_false, pure_apply] at hok
    obtain ⟨_, rfl⟩ := R.ok.inj hok
    rw [rstep_truncate_noop r n (by omega)]
    exact ⟨_, hi, hv, rfl⟩

/-! ## 3. append (`extend_from_slice`) -/

theorem rstep_append (r : Rec) (m : Nat) :
    Recycle.step r (.append m) = { Recycle.reserve r m with len := (Recycle.reserve r m).len + m } := rfl

/-- a successful `writeRange` only rewrites the bytes of one region: sizes, control blocks, handles
and events are untouched -/
theorem writeRange_frame {reg : Option Nat} {off : Nat} {bs : List Byte} {s s' : St}
    (h : writeRange reg off bs s = .ok () s') :
    s'.ctrls = s.ctrls ∧ s'.hs = s.hs ∧ s'.events = s.events ∧
      ∀ x, bufSizeL s'.regions x = bufSizeL s.regions x := by
  unfold writeRange at h
  by_cases hb : bs = []
  · simp only [hb, if_true, pure_apply] at h
    obtain ⟨_, rfl⟩ := R.ok.inj h
    exact ⟨rfl, rfl, rfl, fun _ => rfl⟩
  · simp only [hb, if_false] at h
    cases reg with
    | none => simp only [ub_apply] at h; cases h
    | some r0 =>
      simp only [bind_apply, getRegion] at h
      cases hr : s.regions[r0]? with
      | none => simp only [hr] at h; cases h
      | some rg =>
        simp only [hr] at h
        by_cases hl : (!rg.live) = true
        · simp only [hl, if_true, ub_apply] at h; cases h
        · simp only [hl] at h
          by_cases hsz : off + bs.length > rg.size
          · simp only [hsz, if_true, ub_apply] at h; cases h
          · simp only [hsz, if_false] at h
            cases hk : rg.kind with
            | heap o =>
              simp only [hk, setRegion_apply, Bool.false_eq_true, if_false] at h
              obtain ⟨_, rfl⟩ := R.ok.inj h
              refine ⟨rfl, rfl, rfl, fun x => ?_⟩
              cases x with
              | none => rfl
              | some x =>
                simp only [bufSizeL]
                by_cases hx : x = r0
                · subst hx
                  simp [regionSizeL_def, hr, lookup_set_eq _ hr]
                · exact regionSizeL_set_ne _ (Ne.symm hx)
            | static => simp only [hk, ub_apply, Bool.false_eq_true, if_false] at h; cases h
            | ownerMem o => simp only [hk, ub_apply, Bool.false_eq_true, if_false] at h; cases h

/-- `RecViewL` only reads the sizes of the regions -/
theorem RecViewL_congr_size {R R' : List Region} {C : List CtrlE} {h : Handle} {r : Rec}
    (hsz : ∀ x, bufSizeL R' x = bufSizeL R x) (hv : RecViewL R C h r) : RecViewL R' C h r := by
  cases h with
  | bytes _ _ _ _ => exact hv.elim
  | vec _ _ _ => exact hv.elim
  | «mut» arc reg off len cap orig =>
    cases arc with
    | none =>
      obtain ⟨ra, ro, rl, rcp, rorig, rA, rp⟩ := hv
      exact ⟨ra, ro, rl, rcp, rorig, by rw [hsz]; exact rA, rp⟩
    | some c => exact hv

/-- `RecViewL` with a longer view -/
theorem RecViewL_set_len {R : List Region} {C : List CtrlE} {arc reg : Option Nat} {off len cap orig : Nat}
    {r : Rec} (l' : Nat) (hv : RecViewL R C (.mut arc reg off len cap orig) r) :
    RecViewL R C (.mut arc reg off l' cap orig) { r with len := l' } := by
  cases arc with
  | none =>
    obtain ⟨ra, ro, rl, rcp, rorig, rA, rp⟩ := hv
    exact ⟨ra, ro, rfl, rcp, rorig, rA, rp⟩
  | some c =>
    obtain ⟨vreg, vlen, vcap, vorig, rc, he, ra, ro, rl, rcp, rorig, rA, rp⟩ := hv
    exact ⟨vreg, vlen, vcap, vorig, rc, he, ra, ro, rfl, rcp, rorig, rA, rp⟩

theorem RecViewL_len {R : List Region} {C : List CtrlE} {arc reg : Option Nat} {off len cap orig : Nat}
    {r : Rec} (hv : RecViewL R C (.mut arc reg off len cap orig) r) : r.len = len := by
  cases arc with
  | none => exact hv.2.2.1
  | some c => obtain ⟨_, _, _, _, _, _, _, _, rl, _⟩ := hv; exact rl

/-- **`mutExtend` (= `extend_from_slice`) refines `Recycle.Op.append`** -/
theorem extend_refines (cfg : Cfg) (e : Env) {s : St} (hI : Inv s) {i : Nat}
    {arc reg : Option Nat} {off len cap orig : Nat}
    (hi : s.hs[i]? = some (some (.mut arc reg off len cap orig))) (bs : List Byte) (r : Rec)
    (hv : RecView s (.mut arc reg off len cap orig) r) (h' : Handle) (s' : St)
    (hok : mutExtend cfg e (.mut arc reg off len cap orig) bs s = .ok h' s') :
    s'.hs = s.hs ∧ RecViewL s'.regions s'.ctrls h' (Recycle.step r (.append bs.length)) ∧
    allocCount s'.events + r.allocs = allocCount s.events + (Recycle.step r (.append bs.length)).allocs := by
  simp only [mutExtend, bind_apply] at hok
  cases hm : mutReserve cfg e (.mut arc reg off len cap orig) bs.length s with
  | panic s1 => rw [hm] at hok; cases hok
  | ub w s1 => rw [hm] at hok; cases hok
  | ok h1 s1 =>
    rw [hm] at hok
    obtain ⟨e1, e2, e3⟩ := reserve_refines_strong cfg e hI hi bs.length r hv h1 s1 hm
    have e2' : RecViewL s1.regions s1.ctrls h1 (Recycle.reserve r bs.length) := e2
    obtain ⟨arc1, reg1, off1, len1, cap1, orig1, rfl⟩ := RecView.is_mut e2
    have rl := RecViewL_len e2'
    simp only at hok
    by_cases hc : cap1 - len1 < bs.length
    · simp only [hc, if_true, panic_apply] at hok; cases hok
    · simp only [hc, if_false, bind_apply] at hok
      rw [dassert_eq cfg (by simp; omega)] at hok
      simp only at hok
      cases hw : writeRange reg1 (off1 + len1) bs s1 with
      | panic s2 => rw [hw] at hok; cases hok
      | ub w s2 => rw [hw] at hok; cases hok
      | ok u s2 =>
        rw [hw] at hok
        simp only [pure_apply] at hok
        obtain ⟨rfl, rfl⟩ := R.ok.inj hok
        obtain ⟨f1, f2, f3, f4⟩ := writeRange_frame hw
        rw [rstep_append, rl]
        refine ⟨by rw [f2, e1], ?_, by rw [f3]; exact e3⟩
        rw [f1]
        exact RecViewL_set_len _ (RecViewL_congr_size f4 e2')

/-- **`Op.extend i bs` refines `Recycle.Op.append bs.length`** (no side condition) -/
theorem step_extend_refines (cfg : Cfg) (e : Env) {s s' : St} (hw : WFx s) {i : Nat} {bs : List Byte}
    {v : Val} {arc reg : Option Nat} {off len cap orig : Nat}
    (hi : s.hs[i]? = some (some (.mut arc reg off len cap orig))) (r : Rec)
    (hv : RecView s (.mut arc reg off len cap orig) r)
    (hok : step cfg e (.extend i bs) s = .ok v s') :
    Sim s r i s' (Recycle.step r (.append bs.length)) := by
  simp only [step, bind_apply, getHandle_eq hi] at hok
  cases hm : mutExtend cfg e (.mut arc reg off len cap orig) bs s with
  | ok h1 s1 =>
    rw [hm] at hok
    simp only [setHandle_apply, pure_apply] at hok
    obtain ⟨_, rfl⟩ := R.ok.inj hok
    obtain ⟨e1, e2, e3⟩ := extend_refines cfg e hw.inv hi bs r hv h1 s1 hm
    refine ⟨h1, ?_, e2, e3⟩
    show (s1.hs.set i (some h1))[i]? = some (some h1)
    rw [e1]; exact lookup_set_eq _ hi
  | panic s1 => rw [hm] at hok; cases hok
  | ub w s1 => rw [hm] at hok; cases hok

/-! ## `shallow_clone`: one more reference on the (possibly fresh) control block -/

theorem RecViewL_fields {R : List Region} {C : List CtrlE} {arc reg : Option Nat} {off len cap orig : Nat}
    {r : Rec} (hv : RecViewL R C (.mut arc reg off len cap orig) r) :
    r.off = off ∧ r.len = len ∧ r.cap = cap := by
  cases arc with
  | none => exact ⟨hv.2.1, hv.2.2.1, hv.2.2.2.1⟩
  | some c => obtain ⟨_, _, _, _, _, _, _, ro, rl, rcp, _⟩ := hv; exact ⟨ro, rl, rcp⟩

theorem mut_len_le_cap {s : St} (hI : Inv s) {i : Nat} {arc reg : Option Nat} {off len cap orig : Nat}
    (hi : s.hs[i]? = some (some (.mut arc reg off len cap orig))) : len ≤ cap := by
  have hok0 := hI.hok i _ hi
  cases arc with
  | none => exact (handleOKL_mutV.mp hok0).1
  | some c => exact (handleOKL_mutA.mp hok0).1

/-- `shallow_clone` of the main handle: afterwards *any* KIND_ARC handle `(o, l, cp)` on the returned
control block is related to the promoted record with one more part.  For KIND_VEC this is
`promote_to_shared(2)`: the fresh control block records the handle's `original_capacity_repr`, which
`RecView` (KIND_VEC clause) equates with `r.orig` — so `Rec.promote` keeping `orig` is right. -/
theorem shallowClone_view {s : St} (hI : Inv s) {i : Nat} {arc reg : Option Nat} {off len cap orig : Nat}
    (hi : s.hs[i]? = some (some (.mut arc reg off len cap orig))) (r : Rec)
    (hv : RecView s (.mut arc reg off len cap orig) r) :
    ∃ (c : Nat) (C' : List CtrlE) (ev : List Ev),
      mutShallowClone (.mut arc reg off len cap orig) s =
        .ok (.mut (some c) reg off len cap orig, .mut (some c) reg off len cap orig)
          ⟨s.regions, C', s.hs, s.owners, ev⟩ ∧
      allocCount ev = allocCount s.events ∧
      ∀ o l cp, RecViewL s.regions C' (.mut (some c) reg o l cp orig)
        { Recycle.promote r with off := o, len := l, cap := cp, parts := r.parts + 1 } := by
  have hok0 := hI.hok i _ hi
  cases arc with
  | some c =>
    obtain ⟨vreg, vlen, vcap, vorig, rc, he, ra, ro, rl, rcp, rorig, rA, rp⟩ := RecView_arc.mp hv
    have hrc1 : 1 ≤ rc := (hI.cok c _ he rfl).2.1
    refine ⟨c, s.ctrls.set c ⟨.sharedV vreg vlen vcap vorig, rc + 1, true⟩, s.events,
      by simp [mutShallowClone, incCtrl_eq he rfl], rfl, ?_⟩
    intro o l cp
    have hp : Recycle.promote r = r := by simp [Recycle.promote, ra]
    rw [hp]
    exact ⟨vreg, vlen, vcap, vorig, rc + 1, lookup_set_eq _ he, ra, rfl, rfl, rfl, rorig, rA,
      by show r.parts + 1 = rc + 1 - 1; omega⟩
  | none =>
    obtain ⟨hlc, hoffb, hregc, _⟩ := handleOKL_mutV.mp hok0
    obtain ⟨ra, ro, rl, rcp, rorig, rA, rp⟩ := RecView_vec.mp hv
    have hA : r.A = off + cap := by
      cases reg with
      | none => simp only at hregc; simp [bufSizeL] at rA; omega
      | some r0 => simp only at hregc; simp only [bufSizeL] at rA; omega
    refine ⟨s.ctrls.length, s.ctrls ++ [⟨.sharedV reg (off + len) (off + cap) orig, 2, true⟩],
      .allocCtrl s.ctrls.length :: s.events, by simp [mutShallowClone, mutPromote],
      by simp [allocCount, List.countP_cons, isAlloc], ?_⟩
    intro o l cp
    have hp : Recycle.promote r = { r with arc := true } := by simp [Recycle.promote, ra]
    rw [hp]
    exact ⟨reg, off + len, off + cap, orig, 2, lookup_append_new _ _, rfl, rfl, rfl, rfl, rorig, hA,
      by show r.parts + 1 = 2 - 1; omega⟩

/-! ## 4. split_to -/

theorem rstep_splitTo (r : Rec) (n : Nat) (h : n ≤ r.len) :
    Recycle.step r (.splitTo n) =
      { Recycle.promote r with off := r.off + n, len := r.len - n, cap := r.cap - n,
                               parts := r.parts + 1 } := by
  simp [Recycle.step, Nat.not_lt.mpr h]

/-- `opSplitTo` on the main handle -/
theorem splitTo_refines (cfg : Cfg) {s s' : St} (hI : Inv s) {i n : Nat} {v : Val}
    {arc reg : Option Nat} {off len cap orig : Nat}
    (hi : s.hs[i]? = some (some (.mut arc reg off len cap orig))) (r : Rec)
    (hv : RecView s (.mut arc reg off len cap orig) r)
    (hok : opSplitTo cfg i n s = .ok v s') :
    n ≤ len ∧ Sim s r i s' (Recycle.step r (.splitTo n)) ∧
      ∃ c, s'.hs[s.hs.length]? = some (some (.mut (some c) reg off n n orig)) ∧
        s'.hs[i]? = some (some (.mut (some c) reg (off + n) (len - n) (cap - n) orig)) := by
  simp only [opSplitTo, bind_apply, getHandle_eq hi] at hok
  by_cases hnl : n > len
  · simp only [hnl, if_true, panic_apply] at hok; cases hok
  · simp only [hnl, if_false, bind_apply] at hok
    obtain ⟨c, C', ev, hsc, hev, hview⟩ := shallowClone_view hI hi r hv
    have hlc := mut_len_le_cap hI hi
    obtain ⟨ro, rl, rcp⟩ := RecViewL_fields hv
    simp only [hsc, mutAdvanceUnchecked_arc cfg (show n ≤ cap by omega), setHandle_apply,
      newHandle_apply, pure_apply] at hok
    obtain ⟨_, rfl⟩ := R.ok.inj hok
    have hlt : i < s.hs.length := lookup_lt hi
    have hi' : (s.hs.set i (some (.mut (some c) reg (off + n) (len - n) (cap - n) orig)) ++
        [some (.mut (some c) reg off n n orig)])[i]? =
        some (some (.mut (some c) reg (off + n) (len - n) (cap - n) orig)) :=
      lookup_append_of_some _ (lookup_set_eq _ hi)
    refine ⟨by omega, ⟨_, hi', ?_, ?_⟩, c, ?_, hi'⟩
    · rw [rstep_splitTo r n (by omega), ro, rl, rcp]
      exact hview _ _ _
    · show allocCount ev + r.allocs = _
      rw [hev, (Recycle.step_frame r (.splitTo n) rfl).2.1]
    · have : (s.hs.set i (some (Handle.mut (some c) reg (off + n) (len - n) (cap - n) orig))).length =
          s.hs.length := by simp
      rw [← this]; exact lookup_append_new _ _

/-- **`Op.splitTo i n` refines `Recycle.Op.splitTo n`** (no side condition; `n = 0` and `n = len`
included: both models take the shallow clone — and promote — even for an empty part) -/
theorem step_splitTo_refines (cfg : Cfg) (e : Env) {s s' : St} (hw : WFx s) {i n : Nat} {v : Val}
    {arc reg : Option Nat} {off len cap orig : Nat}
    (hi : s.hs[i]? = some (some (.mut arc reg off len cap orig))) (r : Rec)
    (hv : RecView s (.mut arc reg off len cap orig) r)
    (hok : step cfg e (.splitTo i n) s = .ok v s') :
    n ≤ len ∧ Sim s r i s' (Recycle.step r (.splitTo n)) := by
  have := splitTo_refines cfg hw.inv hi r hv (show opSplitTo cfg i n s = .ok v s' from hok)
  exact ⟨this.1, this.2.1⟩

/-! ## 5. split -/

theorem rstep_split (r : Rec) : Recycle.step r .split = Recycle.step r (.splitTo r.len) := by
  simp [Recycle.step]

/-- **`Op.split i` refines `Recycle.Op.split`** (no side condition) -/
theorem step_split_refines (cfg : Cfg) (e : Env) {s s' : St} (hw : WFx s) {i : Nat} {v : Val}
    {arc reg : Option Nat} {off len cap orig : Nat}
    (hi : s.hs[i]? = some (some (.mut arc reg off len cap orig))) (r : Rec)
    (hv : RecView s (.mut arc reg off len cap orig) r)
    (hok : step cfg e (.split i) s = .ok v s') :
    Sim s r i s' (Recycle.step r .split) := by
  simp only [step, bind_apply, getHandle_eq hi] at hok
  obtain ⟨ro, rl, rcp⟩ := RecViewL_fields hv
  rw [rstep_split, rl]
  exact (splitTo_refines cfg hw.inv hi r hv hok).2.1

/-! ## 6. dropping a part -/

/-- dropping a handle that names a control block is `release` on that block -/
theorem opDrop_ctrl {s : St} {j : Nat} {hj : Handle} {c : Nat} (hjl : s.hs[j]? = some (some hj))
    (hjc : ctrlOf hj = some c) :
    opDrop j s = match releaseCtrl c { s with hs := s.hs.set j none } with
      | .ok _ s1 => .ok .unit s1
      | .panic s1 => .panic s1
      | .ub w s1 => .ub w s1 := by
  cases hj with
  | bytes repr reg off len =>
    cases repr with
    | static => simp [ctrlOf] at hjc
    | owned c' =>
      simp only [ctrlOf, Option.some.injEq] at hjc; subst hjc
      simp only [opDrop, bind_apply, getHandle_eq hjl, killHandle_apply, bytesDrop, pure_apply]
      generalize releaseCtrl c' _ = x; cases x <;> rfl
    | shared c' =>
      simp only [ctrlOf, Option.some.injEq] at hjc; subst hjc
      simp only [opDrop, bind_apply, getHandle_eq hjl, killHandle_apply, bytesDrop, pure_apply]
      generalize releaseCtrl c' _ = x; cases x <;> rfl
    | sharedV c' =>
      simp only [ctrlOf, Option.some.injEq] at hjc; subst hjc
      simp only [opDrop, bind_apply, getHandle_eq hjl, killHandle_apply, bytesDrop, pure_apply]
      generalize releaseCtrl c' _ = x; cases x <;> rfl
    | prom vt oc =>
      cases oc with
      | none => simp [ctrlOf] at hjc
      | some c' =>
        simp only [ctrlOf, Option.some.injEq] at hjc; subst hjc
        simp only [opDrop, bind_apply, getHandle_eq hjl, killHandle_apply, bytesDrop, pure_apply]
        generalize releaseCtrl c' _ = x; cases x <;> rfl
  | «mut» arc reg off len cap orig =>
    cases arc with
    | none => simp [ctrlOf] at hjc
    | some c' =>
      simp only [ctrlOf, Option.some.injEq] at hjc; subst hjc
      simp only [opDrop, bind_apply, getHandle_eq hjl, killHandle_apply, mutDrop, pure_apply]
      generalize releaseCtrl c' _ = x; cases x <;> rfl
  | vec reg len cap => simp [ctrlOf] at hjc

/-- **`Op.drop j` of another live handle on the main handle's control block refines
`Recycle.Op.dropPart`**: the other handle may be a split-off `BytesMut` part or a frozen `Bytes` clone
(`RecView` counts both in `parts`, as `rc - 1`).  In particular `r.parts ≥ 1`. -/
theorem step_dropPart_refines (cfg : Cfg) (e : Env) {s s' : St} (hw : WFx s) {i j c : Nat} {v : Val}
    {reg : Option Nat} {off len cap orig : Nat}
    (hi : s.hs[i]? = some (some (.mut (some c) reg off len cap orig))) (r : Rec)
    (hv : RecView s (.mut (some c) reg off len cap orig) r)
    (hij : j ≠ i) {hj : Handle} (hjl : s.hs[j]? = some (some hj)) (hjc : ctrlOf hj = some c)
    (hok : step cfg e (.drop j) s = .ok v s') :
    1 ≤ r.parts ∧ Sim s r i s' (Recycle.step r .dropPart) ∧
      s'.hs[i]? = some (some (.mut (some c) reg off len cap orig)) := by
  have hI := hw.inv
  obtain ⟨vreg, vlen, vcap, vorig, rc, he, ra, ro, rl, rcp, rorig, rA, rp⟩ := RecView_arc.mp hv
  obtain ⟨hrc, hrc1, _⟩ := hI.cok c _ he rfl
  simp only at hrc hrc1
  have hne1 : rc ≠ 1 := by
    intro h1
    exact hij (refCountL_unique (by rw [← hrc, h1]) hi rfl hjl hjc)
  have hrel := releaseCtrl_dec (s := { s with hs := s.hs.set j none }) he rfl (by simp only; omega) hne1
  have hok' : opDrop j s = .ok v s' := hok
  rw [opDrop_ctrl hjl hjc, hrel] at hok'
  simp only at hok'
  obtain ⟨_, rfl⟩ := R.ok.inj hok'
  have hi' : (s.hs.set j none)[i]? = some (some (.mut (some c) reg off len cap orig)) := by
    rw [lookup_set_ne _ hij]; exact hi
  refine ⟨by omega, ⟨_, hi', ?_, rfl⟩, hi'⟩
  exact ⟨vreg, vlen, vcap, vorig, rc - 1, lookup_set_eq _ he, ra, ro, rl, rcp, rorig, rA,
    by show r.parts - 1 = rc - 1 - 1; omega⟩

/-! ## 7. split_off -/

theorem rstep_splitOffTail (r : Rec) :
    Recycle.step r .splitOffTail =
      { Recycle.promote r with off := r.off, len := min r.len r.len, cap := r.len,
                               parts := r.parts + 1 } := by
  cases r with
  | mk A off len cap arc orig parts pinned allocs =>
    cases arc <;> simp [Recycle.step, Recycle.promote]

/-- `Op.splitOff i k` on the main handle, any `k ≤ cap`: the main handle keeps `[off, off + k)` -/
theorem splitOff_refines (cfg : Cfg) {s s' : St} (hI : Inv s) {i k : Nat} {v : Val}
    {arc reg : Option Nat} {off len cap orig : Nat}
    (hi : s.hs[i]? = some (some (.mut arc reg off len cap orig))) (r : Rec)
    (hv : RecView s (.mut arc reg off len cap orig) r)
    (hok : opSplitOff cfg i k s = .ok v s') :
    k ≤ cap ∧ Sim s r i s'
      { Recycle.promote r with off := r.off, len := min r.len k, cap := k, parts := r.parts + 1 } ∧
      ∃ c, s'.hs[s.hs.length]? = some (some (.mut (some c) reg (off + k) (len - k) (cap - k) orig)) ∧
        s'.hs[i]? = some (some (.mut (some c) reg off (min len k) k orig)) := by
  simp only [opSplitOff, bind_apply, getHandle_eq hi] at hok
  by_cases hkc : k > cap
  · simp only [hkc, if_true, panic_apply] at hok; cases hok
  · simp only [hkc, if_false, bind_apply] at hok
    obtain ⟨c, C', ev, hsc, hev, hview⟩ := shallowClone_view hI hi r hv
    obtain ⟨ro, rl, rcp⟩ := RecViewL_fields hv
    simp only [hsc, mutAdvanceUnchecked_arc cfg (show k ≤ cap by omega), setHandle_apply,
      newHandle_apply, pure_apply] at hok
    obtain ⟨_, rfl⟩ := R.ok.inj hok
    have hi' : (s.hs.set i (some (.mut (some c) reg off (min len k) k orig)) ++
        [some (.mut (some c) reg (off + k) (len - k) (cap - k) orig)])[i]? =
        some (some (.mut (some c) reg off (min len k) k orig)) :=
      lookup_append_of_some _ (lookup_set_eq _ hi)
    refine ⟨by omega, ⟨_, hi', ?_, ?_⟩, c, ?_, hi'⟩
    · rw [ro, rl]
      exact hview _ _ _
    · show allocCount ev + r.allocs = allocCount s.events + (Recycle.promote r).allocs
      rw [hev, Recycle.promote_allocs]
    · have : (s.hs.set i (some (Handle.mut (some c) reg off (min len k) k orig))).length =
          s.hs.length := by simp
      rw [← this]; exact lookup_append_new _ _

/-- **`Op.splitOff i len` refines `Recycle.Op.splitOffTail`** (the side condition `k = len` is what
`splitOffTail` means; for other `k ≤ cap` see `splitOff_refines`) -/
theorem step_splitOffTail_refines (cfg : Cfg) (e : Env) {s s' : St} (hw : WFx s) {i : Nat} {v : Val}
    {arc reg : Option Nat} {off len cap orig : Nat}
    (hi : s.hs[i]? = some (some (.mut arc reg off len cap orig))) (r : Rec)
    (hv : RecView s (.mut arc reg off len cap orig) r)
    (hok : step cfg e (.splitOff i len) s = .ok v s') :
    Sim s r i s' (Recycle.step r .splitOffTail) := by
  obtain ⟨ro, rl, rcp⟩ := RecViewL_fields hv
  have := (splitOff_refines cfg hw.inv hi r hv (show opSplitOff cfg i len s = .ok v s' from hok)).2.1
  rw [rstep_splitOffTail]
  rw [← rl] at this
  exact this

/-! ## 8. unsplit of a contiguous part -/

theorem rstep_unsplitLast (r : Rec) (n cp : Nat) (hp : r.parts ≠ 0) (hl : r.len = r.cap) :
    Recycle.step r (.unsplitLast n cp) =
      { r with len := r.len + n, cap := r.cap + cp, parts := r.parts - 1 } := by
  simp [Recycle.step, hp, hl]

/-- a part that starts where the contents of the main handle end and has capacity: the main handle
is full (`len = cap`) — exclusivity (W4) -/
theorem contiguous_full {s : St} (hI : Inv s) {i j c : Nat} {reg : Option Nat}
    {off len cap orig olen ocap oorig : Nat} (hij : i ≠ j)
    (hi : s.hs[i]? = some (some (.mut (some c) reg off len cap orig)))
    (hj : s.hs[j]? = some (some (.mut (some c) reg (off + len) olen ocap oorig)))
    (hoc : ocap ≠ 0) : len = cap := by
  obtain ⟨hlc, _, _⟩ := handleOKL_mutA.mp (hI.hok i _ hi)
  obtain ⟨_, ⟨vlen, vcap, vorig, hlive, hcapj⟩, _⟩ := handleOKL_mutA.mp (hI.hok j _ hj)
  obtain ⟨ce, he, hl, hct, hrc, hrc1, hbuf⟩ := hI.cok' hlive
  cases reg with
  | none => simp only [ctrlBufOK] at hbuf; omega
  | some r0 =>
    have hd := hI.excl i j _ _ hi hj hij rfl
    have := disjointB_iff.mp hd r0 off cap r0 (off + len) ocap rfl rfl
    omega

/-- **`Op.unsplit i j` of a part `j` on the same control block that starts at the end of the main
handle's contents refines `Recycle.Op.unsplitLast olen ocap`**, provided the main handle is full
(`len = cap`) whenever the part has zero capacity (with `ocap ≠ 0` fullness follows from
exclusivity).  Without the side condition the models disagree, see `Witness` below. -/
theorem step_unsplitLast_refines (cfg : Cfg) (e : Env) {s s' : St} (hw : WFx s) {i j c : Nat} {v : Val}
    {reg : Option Nat} {off len cap orig olen ocap oorig : Nat}
    (hi : s.hs[i]? = some (some (.mut (some c) reg off len cap orig))) (r : Rec)
    (hv : RecView s (.mut (some c) reg off len cap orig) r)
    (hj : s.hs[j]? = some (some (.mut (some c) reg (off + len) olen ocap oorig)))
    (hfull : ocap = 0 → len = cap)
    (hok : step cfg e (.unsplit i j) s = .ok v s') :
    Sim s r i s' (Recycle.step r (.unsplitLast olen ocap)) := by
  have hI := hw.inv
  simp only [step, bind_apply, ite_apply'] at hok
  by_cases hij : i = j
  · simp only [hij, if_true, panic_apply] at hok; cases hok
  simp only [hij, if_false, bind_apply, getHandle_eq hi, getHandle_eq hj] at hok
  have hlc : len = cap := by
    by_cases hoc : ocap = 0
    · exact hfull hoc
    · exact contiguous_full hI hij hi hj hoc
  obtain ⟨_, _, _⟩ := handleOKL_mutA.mp (hI.hok i _ hi)
  obtain ⟨holc, _, _⟩ := handleOKL_mutA.mp (hI.hok j _ hj)
  obtain ⟨vreg, vlen, vcap, vorig, rc, he, ra, ro, rl, rcp, rorig, rA, rp⟩ := RecView_arc.mp hv
  obtain ⟨hrc, hrc1, _⟩ := hI.cok c _ he rfl
  simp only at hrc hrc1
  have hne1 : rc ≠ 1 := by
    intro h1
    exact hij (refCountL_unique (by rw [← hrc, h1]) hj rfl hi rfl)
  have hrel := releaseCtrl_dec (s := { s with hs := s.hs.set j none }) he rfl (by simp only; omega) hne1
  have hi' : (s.hs.set j none)[i]? = some (some (.mut (some c) reg off len cap orig)) := by
    rw [lookup_set_ne _ (Ne.symm hij)]; exact hi
  rw [rstep_unsplitLast r olen ocap (by omega) (by omega)]
  have hview : ∀ o l cp g, r.off = o → r.len + olen = l → r.cap + ocap = cp →
      RecViewL s.regions (s.ctrls.set c ⟨.sharedV vreg vlen vcap vorig, rc - 1, true⟩)
        (.mut (some c) reg o l cp g) { r with len := r.len + olen, cap := r.cap + ocap, parts := r.parts - 1 } :=
    fun o l cp g h1 h2 h3 => ⟨vreg, vlen, vcap, vorig, rc - 1, lookup_set_eq _ he, ra, h1, h2, h3, rorig, rA,
      by show r.parts - 1 = rc - 1 - 1; omega⟩
  by_cases hl0 : len = 0
  · -- `*self = other`: the old (empty, zero-capacity) main handle is dropped
    simp only [hl0, if_true, bind_apply, killHandle_apply, mutDrop, hrel, setHandle_apply, pure_apply] at hok
    obtain ⟨_, rfl⟩ := R.ok.inj hok
    exact ⟨_, lookup_set_eq _ hi', hview _ _ _ _ (by omega) (by omega) (by omega), rfl⟩
  · by_cases hoc : ocap = 0
    · -- the empty part is dropped
      simp only [hl0, if_false, hoc, if_true, bind_apply, killHandle_apply, mutDrop, hrel, pure_apply] at hok
      obtain ⟨_, rfl⟩ := R.ok.inj hok
      exact ⟨_, hi', hview _ _ _ _ ro (by omega) (by omega), rfl⟩
    · -- the two halves are merged
      simp only [hl0, if_false, hoc, bind_apply] at hok
      rw [if_pos ⟨trivial, trivial, rfl, trivial⟩] at hok
      simp only [bind_apply, killHandle_apply, mutDrop, hrel, setHandle_apply, pure_apply] at hok
      obtain ⟨_, rfl⟩ := R.ok.inj hok
      exact ⟨_, lookup_set_eq _ hi', hview _ _ _ _ ro (by omega) (by omega), rfl⟩

/-! ## chaining the steps along a history -/

theorem Sim.trans {s s1 s2 : St} {r r1 r2 : Rec} {i : Nat} (h1 : Sim s r i s1 r1) (h2 : Sim s1 r1 i s2 r2) :
    Sim s r i s2 r2 := by
  obtain ⟨_, _, _, a1⟩ := h1
  obtain ⟨h', hi', hv', a2⟩ := h2
  exact ⟨h', hi', hv', by omega⟩

theorem Sim.refl {s : St} {r : Rec} {i : Nat} {h : Handle} (hi : s.hs[i]? = some (some h))
    (hv : RecView s h r) : Sim s r i s r := ⟨h, hi, hv, rfl⟩

/-- **The side conditions, step by step**: in state `s`, with the main handle in slot `i` related to
`r`, the M1 operation `mop` is the counterpart of the recycling-model operation `rop`. -/
inductive Match (i : Nat) (s : St) (r : Rec) : Recycle.Op → Op → Prop
  | reserve (k : Nat) : Match i s r (.reserve k) (.reserve i k)
  | append (bs : List Byte) : Match i s r (.append bs.length) (.extend i bs)
  /-- a KIND_VEC main handle is not pushed beyond `MAX_VEC_POS` -/
  | advance (n : Nat) (hpos : r.arc = false → n = 0 ∨ r.off + n ≤ maxVecPos) :
      Match i s r (.advance n) (.advance i n)
  | truncate (n : Nat) : Match i s r (.truncate n) (.truncate i n)
  | splitTo (n : Nat) : Match i s r (.splitTo n) (.splitTo i n)
  | split : Match i s r .split (.split i)
  /-- `j` is another live handle (part or frozen clone) on the main handle's control block -/
  | dropPart (j c : Nat) (hj : Handle) (reg : Option Nat) (off len cap orig : Nat) (hij : j ≠ i)
      (hi : s.hs[i]? = some (some (.mut (some c) reg off len cap orig)))
      (hjl : s.hs[j]? = some (some hj)) (hjc : ctrlOf hj = some c) :
      Match i s r .dropPart (.drop j)
  /-- `split_off` at the current length -/
  | splitOffTail (arc reg : Option Nat) (off len cap orig : Nat)
      (hi : s.hs[i]? = some (some (.mut arc reg off len cap orig))) :
      Match i s r .splitOffTail (.splitOff i len)
  /-- `j` is a part on the same control block that starts where the contents of the main handle end;
  if it has no capacity the main handle must be full -/
  | unsplitLast (j c : Nat) (reg : Option Nat) (off len cap orig olen ocap oorig : Nat)
      (hi : s.hs[i]? = some (some (.mut (some c) reg off len cap orig)))
      (hj : s.hs[j]? = some (some (.mut (some c) reg (off + len) olen ocap oorig)))
      (hfull : ocap = 0 → len = cap) :
      Match i s r (.unsplitLast olen ocap) (.unsplit i j)

theorem Match.opOK {i : Nat} {s : St} {r : Rec} {rop : Recycle.Op} {mop : Op} (hm : Match i s r rop mop) :
    OpOK mop := by
  cases hm <;> trivial

/-- **One step of the simulation**: a successful M1 step that matches a recycling-model operation
leads to a well-formed state whose main handle is related to `Recycle.step r rop`. -/
theorem step_refines (cfg : Cfg) (e : Env) {s s' : St} (hw : WFx s) {i : Nat} {h : Handle}
    (hi : s.hs[i]? = some (some h)) (r : Rec) (hv : RecView s h r) {rop : Recycle.Op} {mop : Op}
    (hm : Match i s r rop mop) {v : Val} (hok : step cfg e mop s = .ok v s') :
    WFx s' ∧ Sim s r i s' (Recycle.step r rop) := by
  refine ⟨Example.WFx_step hw hok hm.opOK, ?_⟩
  obtain ⟨arc, reg, off, len, cap, orig, rfl⟩ := RecView.is_mut hv
  cases hm with
  | reserve k => exact step_reserve_refines_strong cfg e hw hi r hv hok
  | append bs => exact step_extend_refines cfg e hw hi r hv hok
  | advance n hpos => exact (step_advance_refines cfg e hw hi r hv hpos hok).2
  | truncate n => exact step_truncate_refines cfg e hw hi r hv hok
  | splitTo n => exact (step_splitTo_refines cfg e hw hi r hv hok).2
  | split => exact step_split_refines cfg e hw hi r hv hok
  | dropPart j c hj reg' off' len' cap' orig' hij hi' hjl hjc =>
    rw [hi] at hi'
    obtain ⟨rfl, rfl, rfl, rfl, rfl, rfl⟩ : arc = some c ∧ reg = reg' ∧ off = off' ∧ len = len' ∧
        cap = cap' ∧ orig = orig' := by simpa using hi'
    exact (step_dropPart_refines cfg e hw hi r hv hij hjl hjc hok).2.1
  | splitOffTail arc' reg' off' len' cap' orig' hi' =>
    rw [hi] at hi'
    obtain ⟨rfl, rfl, rfl, rfl, rfl, rfl⟩ : arc = arc' ∧ reg = reg' ∧ off = off' ∧ len = len' ∧
        cap = cap' ∧ orig = orig' := by simpa using hi'
    exact step_splitOffTail_refines cfg e hw hi r hv hok
  | unsplitLast j c reg' off' len' cap' orig' olen ocap oorig hi' hj hfull =>
    rw [hi] at hi'
    obtain ⟨rfl, rfl, rfl, rfl, rfl, rfl⟩ : arc = some c ∧ reg = reg' ∧ off = off' ∧ len = len' ∧
        cap = cap' ∧ orig = orig' := by simpa using hi'
    exact step_unsplitLast_refines cfg e hw hi r hv hj hfull hok

/-- a successful run of M1 operations from `s` to `s'`, each matched (in the state where it is
issued) with an operation of the recycling model -/
inductive Run (cfg : Cfg) (e : Env) (i : Nat) : St → Rec → List (Recycle.Op × Op) → St → Prop
  | nil (s : St) (r : Rec) : Run cfg e i s r [] s
  | cons {s s1 s' : St} {r : Rec} {rop : Recycle.Op} {mop : Op} {v : Val} {ps : List (Recycle.Op × Op)}
      (hm : Match i s r rop mop) (hok : step cfg e mop s = .ok v s1)
      (hr : Run cfg e i s1 (Recycle.step r rop) ps s') : Run cfg e i s r ((rop, mop) :: ps) s'

/-- **The simulation along a history**: after any matched run the state is well-formed and the main
handle is related to `Recycle.run r` of the recycling-model operations; the byte-buffer allocations
M1 recorded are exactly the increase of `allocs`. -/
theorem run_refines (cfg : Cfg) (e : Env) {i : Nat} {s s' : St} {r : Rec} {ps : List (Recycle.Op × Op)}
    (hr : Run cfg e i s r ps s') (hw : WFx s) {h : Handle} (hi : s.hs[i]? = some (some h))
    (hv : RecView s h r) :
    WFx s' ∧ Sim s r i s' (Recycle.run r (ps.map Prod.fst)) := by
  induction hr generalizing h with
  | nil s r => exact ⟨hw, Sim.refl hi hv⟩
  | cons hm hok hr ih =>
    obtain ⟨hw1, hs1⟩ := step_refines cfg e hw hi _ hv hm hok
    have hs1' := hs1
    obtain ⟨h1, hi1, hv1, _⟩ := hs1'
    obtain ⟨hw', hs'⟩ := ih hw1 hi1 hv1
    exact ⟨hw', Sim.trans hs1 hs'⟩

/-! ## transferring the allocation-size bound of Props/C18.lean to M1 -/

/-- `BytesMut::with_capacity(A₀)` creates a handle related to `Recycle.init A₀` -/
theorem step_withCapacity_view (cfg : Cfg) (e : Env) {s s' : St} {A₀ : Nat} {v : Val}
    (hok : step cfg e (.mutWithCapacity A₀) s = .ok v s') :
    v = .handle s.hs.length ∧ Sim s { Recycle.init A₀ with allocs := 0 } s.hs.length s' (Recycle.init A₀) := by
  simp only [step, bind_apply] at hok
  rcases vecNew_cases e [] A₀ s with ⟨h0, hq⟩ | ⟨hp, hq⟩ | ⟨h0, hle, hq⟩
  · subst h0
    simp only [hq, newHandle_apply, pure_apply] at hok
    obtain ⟨rfl, rfl⟩ := R.ok.inj hok
    refine ⟨rfl, _, lookup_append_new _ _, ?_, rfl⟩
    exact ⟨rfl, rfl, rfl, rfl, rfl, rfl, rfl⟩
  · rw [hq] at hok; cases hok
  · simp only [hq, newHandle_apply, pure_apply] at hok
    obtain ⟨rfl, rfl⟩ := R.ok.inj hok
    refine ⟨rfl, _, lookup_append_new _ _, ?_, ?_⟩
    · refine ⟨rfl, rfl, rfl, rfl, rfl, ?_, rfl⟩
      show A₀ = bufSizeL _ (some s.regions.length)
      simp [bufSizeL, regionSizeL_new]
    · simp [Recycle.init, h0]

/-- **Every allocation the main handle ever lives in is bounded, in M1**: along any matched run of M1
operations whose recycling-model history respects the refill bound `M` (`HistOK`), starting from a
record that satisfies the invariant `SInv` of Props/C18.lean for a bound `Bd ≥ max (4M) 8`, the region
the main handle points into has at most `Bd` bytes. -/
theorem run_region_bounded (cfg : Cfg) (e : Env) {i : Nat} {s s' : St} {r : Rec}
    {ps : List (Recycle.Op × Op)} (M Bd : Nat) (h4 : 4 * M ≤ Bd) (h8 : 8 ≤ Bd)
    (hr : Run cfg e i s r ps s') (hw : WFx s) {h : Handle} (hi : s.hs[i]? = some (some h))
    (hv : RecView s h r) (hS : Recycle.SInv Bd r) (hh : Recycle.HistOK M r (ps.map Prod.fst)) :
    ∃ arc reg off len cap orig, s'.hs[i]? = some (some (.mut arc reg off len cap orig)) ∧
      bufSizeL s'.regions reg ≤ Bd ∧ off + cap ≤ Bd := by
  obtain ⟨hw', h', hi', hv', _⟩ := run_refines cfg e hr hw hi hv
  obtain ⟨arc, reg, off, len, cap, orig, rfl⟩ := RecView.is_mut hv'
  have hS' := Recycle.sinv_run M Bd h4 h8 _ r hS hh
  obtain ⟨hA, hR⟩ := RecView.layout hw'.inv hi' hv'
  obtain ⟨ro, rl, rcp⟩ := RecViewL_fields hv'
  refine ⟨arc, reg, off, len, cap, orig, hi', by rw [← hA]; exact hS'.hA, ?_⟩
  have := hR.in_alloc
  have := hS'.hA
  omega

/-- … in particular from `BytesMut::with_capacity(A₀)`: the bound of `Recycle.alloc_size_bounded`,
`max(A₀, 4M, 8)`, holds for the region of the main handle of M1 after the run (hence, a prefix of a
matched run being a matched run, at every point of it). -/
theorem alloc_size_bounded_M1 (cfg : Cfg) (e : Env) {s0 s s' : St} {A₀ M : Nat} {v : Val}
    {ps : List (Recycle.Op × Op)} (hw0 : WFx s0)
    (h0 : step cfg e (.mutWithCapacity A₀) s0 = .ok v s)
    (hr : Run cfg e s0.hs.length s (Recycle.init A₀) ps s')
    (hh : Recycle.HistOK M (Recycle.init A₀) (ps.map Prod.fst)) :
    ∃ arc reg off len cap orig,
      s'.hs[s0.hs.length]? = some (some (.mut arc reg off len cap orig)) ∧
      bufSizeL s'.regions reg ≤ Recycle.B A₀ M ∧ off + cap ≤ Recycle.B A₀ M ∧
      allocCount s'.events =
        allocCount s0.events + (Recycle.run (Recycle.init A₀) (ps.map Prod.fst)).allocs := by
  have hw : WFx s := Example.WFx_step hw0 h0 trivial
  obtain ⟨_, h, hi, hv, ha⟩ := step_withCapacity_view cfg e h0
  obtain ⟨arc, reg, off, len, cap, orig, hi', hb1, hb2⟩ :=
    run_region_bounded cfg e M (Recycle.B A₀ M) (by simp only [Recycle.B]; omega)
      (by simp only [Recycle.B]; omega) hr hw hi hv (Recycle.sinv_init A₀ M) hh
  obtain ⟨_, _, _, _, ha'⟩ := run_refines cfg e hr hw hi hv
  refine ⟨arc, reg, off, len, cap, orig, hi', hb1, hb2, ?_⟩
  simp only at ha
  omega

/-! ## the side conditions are needed: where the two models disagree -/

/-- **Disagreement 1 (advance).**  When `advance` pushes a KIND_VEC handle beyond `MAX_VEC_POS`, M1 —
like `advance_unchecked` of the crate — promotes it to KIND_ARC (`promote_to_shared(1)`), whereas
`Recycle.step _ (.advance n)` leaves `arc = false`: the resulting handle is *not* related to
`Recycle.step r (.advance n)` (it is related to that record with `arc := true`, see
`advance_refines_gen`).  Needs a position above `2^59 - 1`, i.e. an allocation of more than half an
exabyte, which `Inv` does not exclude (`isize::MAX = 2^63 - 1`). -/
theorem advance_promote_disagrees (cfg : Cfg) {s : St} (hI : Inv s) {i : Nat} {arc reg : Option Nat}
    {off len cap orig n : Nat} (hi : s.hs[i]? = some (some (.mut arc reg off len cap orig)))
    (hn : n ≤ len) (r : Rec) (hv : RecView s (.mut arc reg off len cap orig) r) {h' : Handle} {s' : St}
    (hok : mutAdvanceUnchecked cfg (.mut arc reg off len cap orig) n s = .ok h' s')
    (hbig : r.arc = false ∧ n ≠ 0 ∧ ¬ r.off + n ≤ maxVecPos) :
    ¬ RecViewL s'.regions s'.ctrls h' (Recycle.step r (.advance n)) := by
  obtain ⟨_, _, _, e4⟩ := advance_refines_gen cfg hI hi hn r hv hok
  rw [if_pos hbig] at e4
  obtain ⟨arc', reg', off', len', cap', orig', rfl⟩ := RecView.is_mut (s := s') e4
  obtain ⟨_, rl, _⟩ := RecViewL_fields hv
  cases arc' with
  | none => exact fun _ => Bool.noConfusion e4.1
  | some c =>
    intro hv2
    obtain ⟨_, _, _, _, _, _, ra, _⟩ := hv2
    rw [rstep_advance r n (by omega)] at ra
    simp only at ra
    rw [hbig.1] at ra; cases ra

namespace Witness
open Example

/-- after `with_capacity(8)`, `split_to(0)`: main handle `(off 0, len 0, cap 8)`, an empty
zero-capacity part at offset 0, both on control block 0 -/
def sA : St :=
  { regions := [⟨8, [none, none, none, none, none, none, none, none], true, .heap false⟩],
    ctrls := [⟨.sharedV (some 0) 0 8 0, 2, true⟩],
    hs := [some (.mut (some 0) (some 0) 0 0 8 0), some (.mut (some 0) (some 0) 0 0 0 0)],
    owners := 0, events := [.allocCtrl 0, .alloc 0 8] }
/-- … `unsplit`: `*self = other`, the main handle has lost its capacity -/
def sA' : St :=
  { regions := [⟨8, [none, none, none, none, none, none, none, none], true, .heap false⟩],
    ctrls := [⟨.sharedV (some 0) 0 8 0, 1, true⟩],
    hs := [some (.mut (some 0) (some 0) 0 0 0 0), none],
    owners := 0, events := [.allocCtrl 0, .alloc 0 8] }

def rA : Rec := { A := 8, off := 0, len := 0, cap := 8, arc := true, orig := 0, parts := 1, pinned := [], allocs := 1 }

theorem stepA1 : step cfg0 env0 (.splitTo 0 0) s1 = .ok (.handle 1) sA := rfl
theorem stepA2 : step cfg0 env0 (.unsplit 0 1) sA = .ok .unit sA' := rfl
theorem wfxA : WFx sA := WFx_step (WFx_step WFx_init step1 trivial) stepA1 trivial
theorem viewA : RecView sA (.mut (some 0) (some 0) 0 0 8 0) rA :=
  ⟨some 0, 0, 8, 0, 2, rfl, rfl, rfl, rfl, rfl, rfl, rfl, rfl⟩
/-- `rA` is what the recycling model computes for this history -/
example : Recycle.run (Recycle.init 8) [.splitTo 0] = rA := by decide
/-- the history respects every side condition of Props/C18.lean -/
example : Recycle.HistOK 16 (Recycle.init 8) [.splitTo 0, .unsplitLast 0 0] := by
  simp [Recycle.HistOK, Recycle.OpOKM, Recycle.step, Recycle.init, Recycle.promote]

/-- **Disagreement 2 (unsplit onto an empty main handle with spare capacity).**  All hypotheses of
`step_unsplitLast_refines` except `hfull` hold in `sA` (a reachable, well-formed state; the part in
slot 1 starts at `off + len` and is on the same control block), but `BytesMut::unsplit` executes
`*self = other` when `self.is_empty()`: the main handle ends up with capacity 0 and nobody else on
the block, while `Recycle.step rA (.unsplitLast 0 0) = rA` keeps `cap = 8`, `parts = 1`. -/
theorem unsplit_empty_disagrees :
    WFx sA ∧ sA.hs[0]? = some (some (.mut (some 0) (some 0) 0 0 8 0)) ∧
    RecView sA (.mut (some 0) (some 0) 0 0 8 0) rA ∧
    sA.hs[1]? = some (some (.mut (some 0) (some 0) (0 + 0) 0 0 0)) ∧
    step cfg0 env0 (.unsplit 0 1) sA = .ok .unit sA' ∧
    sA'.hs[0]? = some (some (.mut (some 0) (some 0) 0 0 0 0)) ∧
    RecView sA' (.mut (some 0) (some 0) 0 0 0 0) { rA with cap := 0, parts := 0 } ∧
    Recycle.step rA (.unsplitLast 0 0) = rA ∧
    ¬ RecView sA' (.mut (some 0) (some 0) 0 0 0 0) (Recycle.step rA (.unsplitLast 0 0)) := by
  refine ⟨wfxA, rfl, viewA, rfl, stepA2, rfl, ⟨some 0, 0, 8, 0, 1, rfl, rfl, rfl, rfl, rfl, rfl, rfl, rfl⟩,
    by decide, ?_⟩
  rintro ⟨_, _, _, _, _, _, _, _, _, hc, _⟩
  revert hc; decide

/-- `with_capacity(8)`, `extend(4 bytes)`, `split_off(4)` (slot 1: the tail), `split_to(0)` on the tail
(slot 2: an empty zero-capacity part at offset 4), `unsplit` of the tail: the main handle is
`(off 0, len 4, cap 8)` and the empty part sits at `off + len` -/
def sB : St :=
  { regions := [⟨8, [some 1, some 2, some 3, some 4, none, none, none, none], true, .heap false⟩],
    ctrls := [⟨.sharedV (some 0) 4 8 0, 2, true⟩],
    hs := [some (.mut (some 0) (some 0) 0 4 8 0), none, some (.mut (some 0) (some 0) 4 0 0 0)],
    owners := 0, events := [.allocCtrl 0, .alloc 0 8] }
def sB' : St :=
  { regions := [⟨8, [some 1, some 2, some 3, some 4, none, none, none, none], true, .heap false⟩],
    ctrls := [⟨.sharedV (some 0) 4 8 0, 1, true⟩],
    hs := [some (.mut (some 0) (some 0) 0 4 8 0), none, none],
    owners := 0, events := [.allocCtrl 0, .alloc 0 8] }

def rB : Rec := { A := 8, off := 0, len := 4, cap := 8, arc := true, orig := 0, parts := 1, pinned := [], allocs := 1 }

theorem reachB : ∃ t1 t2 v1 v2 v3, step cfg0 env0 (.splitOff 0 4) s2 = .ok v1 t1 ∧
    step cfg0 env0 (.splitTo 1 0) t1 = .ok v2 t2 ∧ step cfg0 env0 (.unsplit 0 1) t2 = .ok v3 sB :=
  ⟨_, _, _, _, _, rfl, rfl, rfl⟩
theorem wfxB : WFx sB := by
  obtain ⟨t1, t2, v1, v2, v3, h1, h2, h3⟩ := reachB
  exact WFx_step (WFx_step (WFx_step (WFx_step (WFx_step WFx_init step1 trivial) step2 trivial) h1 trivial)
    h2 trivial) h3 trivial
theorem stepB : step cfg0 env0 (.unsplit 0 2) sB = .ok .unit sB' := rfl

/-- **Disagreement 3 (unsplit of an empty part onto a main handle that is not full).**  M1 (like the
crate: `other.capacity() == 0` ⇒ `Ok(())`, `other` dropped) releases the part's reference, so
`parts` goes from 1 to 0; `Recycle.step rB (.unsplitLast 0 0) = rB` (because `len ≠ cap`) still
counts the part. -/
theorem unsplit_notfull_disagrees :
    WFx sB ∧ sB.hs[0]? = some (some (.mut (some 0) (some 0) 0 4 8 0)) ∧
    RecView sB (.mut (some 0) (some 0) 0 4 8 0) rB ∧
    sB.hs[2]? = some (some (.mut (some 0) (some 0) (0 + 4) 0 0 0)) ∧
    step cfg0 env0 (.unsplit 0 2) sB = .ok .unit sB' ∧
    sB'.hs[0]? = some (some (.mut (some 0) (some 0) 0 4 8 0)) ∧
    RecView sB' (.mut (some 0) (some 0) 0 4 8 0) { rB with parts := 0 } ∧
    Recycle.step rB (.unsplitLast 0 0) = rB ∧
    ¬ RecView sB' (.mut (some 0) (some 0) 0 4 8 0) (Recycle.step rB (.unsplitLast 0 0)) := by
  refine ⟨wfxB, rfl, ⟨some 0, 4, 8, 0, 2, rfl, rfl, rfl, rfl, rfl, rfl, rfl, rfl⟩, rfl, stepB, rfl,
    ⟨some 0, 4, 8, 0, 1, rfl, rfl, rfl, rfl, rfl, rfl, rfl, rfl⟩, by decide, ?_⟩
  rintro ⟨_, _, _, _, rc, he, _, _, _, _, _, _, hp⟩
  have : rc = 1 := by
    have : (⟨.sharedV (some 0) 4 8 0, 1, true⟩ : CtrlE) = ⟨.sharedV _ _ _ _, rc, true⟩ :=
      Option.some.inj he
    exact (CtrlE.mk.inj this).2.1.symm
  subst this
  revert hp; decide

end Witness

/-! ## non-vacuity: a concrete matched run -/

namespace Example

/-- one round of the recycling loop, M1 side by side with the recycling model: fill, split the message
off, drop it, refill (which reclaims the buffer in place) -/
def round : List (Recycle.Op × Op) :=
  [(.append 4, .extend 0 [1, 2, 3, 4]), (.splitTo 2, .splitTo 0 2), (.advance 1, .advance 0 1),
   (.truncate 0, .truncate 0 0), (.dropPart, .drop 1), (.append 6, .extend 0 [5, 6, 7, 8, 9, 10]),
   (.split, .split 0), (.splitOffTail, .splitOff 0 0)]

/-- the state a successful M1 step leads to -/
def exec (mop : Op) (s : St) : St :=
  match step cfg0 env0 mop s with
  | .ok _ s' => s'
  | _ => s

/-- the M1 state at the end of the round -/
def sEnd : St := round.foldl (fun s p => exec p.2 s) s1

theorem round_run : Run cfg0 env0 0 s1 (Recycle.init 8) round sEnd := by
  refine Run.cons (s' := sEnd) (Match.append [1, 2, 3, 4]) (v := .unit) rfl ?_
  refine Run.cons (s' := sEnd) (Match.splitTo 2) (v := .handle 1) rfl ?_
  refine Run.cons (s' := sEnd) (Match.advance 1 (by decide)) (v := .unit) rfl ?_
  refine Run.cons (s' := sEnd) (Match.truncate 0) (v := .unit) rfl ?_
  refine Run.cons (s' := sEnd) (Match.dropPart 1 0 _ _ _ _ _ _ (by decide) rfl rfl rfl) (v := .unit) rfl ?_
  refine Run.cons (s' := sEnd) (Match.append [5, 6, 7, 8, 9, 10]) (v := .unit) rfl ?_
  refine Run.cons (s' := sEnd) Match.split (v := .handle 2) rfl ?_
  refine Run.cons (s' := sEnd) (Match.splitOffTail _ _ _ 0 _ _ rfl) (v := .handle 3) rfl ?_
  exact Run.nil _ _

example : Recycle.HistOK 16 (Recycle.init 8) (round.map Prod.fst) := by
  simp [round, Recycle.HistOK, Recycle.OpOKM, Recycle.step, Recycle.reserve, Recycle.init, Recycle.promote,
    Recycle.growCap, Recycle.origRepr, Recycle.bitWidth]

/-- the conclusions of `run_refines` and of the transferred bound hold for it -/
example : ∃ s', Run cfg0 env0 0 s1 (Recycle.init 8) round s' ∧ WFx s' ∧
    Sim s1 (Recycle.init 8) 0 s' (Recycle.run (Recycle.init 8) (round.map Prod.fst)) := by
  obtain ⟨s', hr⟩ : ∃ s', Run cfg0 env0 0 s1 (Recycle.init 8) round s' := ⟨_, round_run⟩
  have hv : RecView s1 (.mut none (some 0) 0 0 8 0) (Recycle.init 8) :=
    ⟨rfl, rfl, rfl, rfl, by decide, rfl, rfl⟩
  exact ⟨s', hr, run_refines cfg0 env0 hr (WFx_step WFx_init step1 trivial) (i := 0) rfl hv⟩

example : Recycle.run (Recycle.init 8) (round.map Prod.fst) =
    { A := 8, off := 6, len := 0, cap := 0, arc := true, orig := 0, parts := 2, pinned := [], allocs := 1 } := by
  decide

/-- a second history, through `split_off`, `unsplit` (contiguous halves merged) and `reserve` -/
def round2 : List (Recycle.Op × Op) :=
  [(.append 4, .extend 0 [1, 2, 3, 4]), (.splitOffTail, .splitOff 0 4), (.unsplitLast 0 4, .unsplit 0 1),
   (.reserve 20, .reserve 0 20)]

def sEnd2 : St := round2.foldl (fun s p => exec p.2 s) s1

theorem round2_run : Run cfg0 env0 0 s1 (Recycle.init 8) round2 sEnd2 := by
  refine Run.cons (s' := sEnd2) (Match.append [1, 2, 3, 4]) (v := .unit) rfl ?_
  refine Run.cons (s' := sEnd2) (Match.splitOffTail _ _ _ 4 _ _ rfl) (v := .handle 1) rfl ?_
  refine Run.cons (s' := sEnd2) (Match.unsplitLast 1 0 (some 0) 0 4 4 0 0 4 0 rfl rfl (by decide))
    (v := .unit) rfl ?_
  refine Run.cons (s' := sEnd2) (Match.reserve 20) (v := .unit) rfl ?_
  exact Run.nil _ _

example : Recycle.run (Recycle.init 8) (round2.map Prod.fst) =
    { A := 24, off := 0, len := 4, cap := 24, arc := true, orig := 0, parts := 0, pinned := [], allocs := 2 } := by
  decide

example : sEnd2.hs[0]? = some (some (.mut (some 0) (some 1) 0 4 24 0)) ∧ allocCount sEnd2.events = 2 := by
  decide

end Example

end C18Refine
end BytesVerif.Core
